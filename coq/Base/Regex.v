(* Base/Regex.v — regular expressions over bytes and an executable
   leftmost-first (Perl / RE2 priority) backtracking matcher, anchored at the
   start of the input.  Go's regexp (non-POSIX) returns the match the
   backtracking search finds first: alternatives left to right, greedy
   quantifiers longest first.  Character classes are range lists (negated
   classes are already complemented by the translator); a class that contains
   every non-ASCII code point contains every byte >= 128, which gives the same
   match boundaries as rune-wise matching on valid UTF-8.  No proofs here. *)
From YQ Require Import Base.Str.
Open Scope N_scope.

Inductive regex :=
| REps
| RChar (c : N)
| RClass (rs : ranges)
| RSeq (a b : regex)
| RAlt (a b : regex)        (* a|b : a first *)
| RStar (a : regex)         (* a*  greedy *)
| RPlus (a : regex)         (* a+  greedy *)
| ROpt (a : regex).         (* a?  greedy *)

(* Greedy iteration of a body matcher [ma] (continuation passing: the
   continuation receives the rest of the input and says whether the overall
   match succeeds from there).  An iteration must consume something; [n]
   bounds the number of iterations and is always started above the length of
   the input, so the O branch is never reached (Proofs/RegexProofs.v). *)
Fixpoint star {A : Type} (ma : str -> (str -> option A) -> option A) (k : str -> option A)
         (n : nat) (s : str) : option A :=
  match n with
  | O => None
  | S n' =>
      match ma s (fun s' => if Nat.ltb (length s') (length s) then star ma k n' s' else None) with
      | Some x => Some x
      | None => k s
      end
  end.

Fixpoint mt {A : Type} (r : regex) (s : str) (k : str -> option A) {struct r} : option A :=
  match r with
  | REps => k s
  | RChar c => match s with x :: s' => if x =? c then k s' else None | [] => None end
  | RClass rs => match s with x :: s' => if in_ranges x rs then k s' else None | [] => None end
  | RSeq a b => mt a s (fun s' => mt b s' k)
  | RAlt a b => match mt a s k with Some x => Some x | None => mt b s k end
  | RStar a => star (fun s' k' => mt a s' k') k (S (length s)) s
  | RPlus a => mt a s (fun s' => star (fun s'' k' => mt a s'' k') k (S (length s')) s')
  | ROpt a => match mt a s k with Some x => Some x | None => k s end
  end.

(* the rest of the input after the match of ^(?:r), if any *)
Definition match_rest (r : regex) (s : str) : option str := mt r s (fun rest => Some rest).

(* static analyses used by the layout theorems *)
Fixpoint nullable (r : regex) : bool :=
  match r with
  | REps => true
  | RChar _ | RClass _ => false
  | RSeq a b => nullable a && nullable b
  | RAlt a b => nullable a || nullable b
  | RStar _ | ROpt _ => true
  | RPlus a => nullable a
  end.

(* may a match of r begin by consuming byte c? (over-approximation) *)
Fixpoint first_may (r : regex) (c : N) : bool :=
  match r with
  | REps => false
  | RChar x => x =? c
  | RClass rs => in_ranges c rs
  | RSeq a b => first_may a c || (nullable a && first_may b c)
  | RAlt a b => first_may a c || first_may b c
  | RStar a | RPlus a | ROpt a => first_may a c
  end.

(* can any atom of r consume byte c? *)
Fixpoint may_consume (r : regex) (c : N) : bool :=
  match r with
  | REps => false
  | RChar x => x =? c
  | RClass rs => in_ranges c rs
  | RSeq a b | RAlt a b => may_consume a c || may_consume b c
  | RStar a | RPlus a | ROpt a => may_consume a c
  end.

(* every iterated body consumes something *)
Fixpoint star_bodies_ok (r : regex) : bool :=
  match r with
  | REps | RChar _ | RClass _ => true
  | RSeq a b | RAlt a b => star_bodies_ok a && star_bodies_ok b
  | RStar a | RPlus a => negb (nullable a) && star_bodies_ok a
  | ROpt a => star_bodies_ok a
  end.
