(* Base/Str.v — strings as lists of N (bytes or code points), character
   classes as range lists.  Go's len / == / < on strings are bytewise, so a
   byte list is the faithful model; code-point lists are used where the Go
   code iterates runes (the two coincide on ASCII, which is all the decision
   logic ever inspects). *)
From Coq Require Export List NArith Bool Lia.
From Coq Require Import Ascii String.
Export ListNotations.
Open Scope N_scope.

Definition str := list N.

Definition str_of_string (s : string) : str :=
  List.map N_of_ascii (list_ascii_of_string s).

Fixpoint str_eqb (a b : str) : bool :=
  match a, b with
  | [], [] => true
  | x :: a', y :: b' => (x =? y) && str_eqb a' b'
  | _, _ => false
  end.

Lemma str_eqb_eq a b : str_eqb a b = true <-> a = b.
Proof.
  revert b; induction a as [|x a IH]; intros [|y b]; cbn [str_eqb]; split; intro H;
    try reflexivity; try discriminate.
  - apply andb_true_iff in H as [H1 H2]. apply N.eqb_eq in H1. apply IH in H2. congruence.
  - injection H as -> ->. rewrite N.eqb_refl. cbn. apply IH. reflexivity.
Qed.

Lemma str_eqb_refl a : str_eqb a a = true.
Proof. apply str_eqb_eq. reflexivity. Qed.

(* Character classes: a list of inclusive ranges. *)
Definition ranges := list (N * N).

Fixpoint in_ranges (c : N) (rs : ranges) : bool :=
  match rs with
  | [] => false
  | (lo, hi) :: rs' => ((lo <=? c) && (c <=? hi)) || in_ranges c rs'
  end.

Lemma in_ranges_spec c rs :
  in_ranges c rs = true <-> exists lo hi, In (lo, hi) rs /\ lo <= c <= hi.
Proof.
  induction rs as [|[lo hi] rs IH]; cbn [in_ranges].
  - split; [discriminate | intros (?&?&[]&_)].
  - rewrite orb_true_iff, andb_true_iff, !N.leb_le, IH. split.
    + intros [[H1 H2]|(l&h&Hin&Hr)].
      * exists lo, hi. split; [left; reflexivity | lia].
      * exists l, h. split; [right; assumption | assumption].
    + intros (l&h&[Heq|Hin]&Hr).
      * injection Heq as -> ->. left. lia.
      * right. exists l, h. split; assumption.
Qed.

(* Every range of [small] lies inside some range of [big]: decidable
   inclusion test used to lift finite table checks to all characters. *)
Definition range_within (r : N * N) (big : ranges) : bool :=
  existsb (fun b => (fst b <=? fst r) && (snd r <=? snd b)) big.

Definition ranges_subset (small big : ranges) : bool :=
  forallb (fun r => range_within r big) small.

Lemma ranges_subset_sound small big :
  ranges_subset small big = true ->
  forall c, in_ranges c small = true -> in_ranges c big = true.
Proof.
  unfold ranges_subset. intros H c Hc.
  apply in_ranges_spec in Hc as (lo&hi&Hin&Hr).
  rewrite forallb_forall in H. specialize (H _ Hin).
  unfold range_within in H. apply existsb_exists in H as ([l h]&Hb&Hle).
  cbn [fst snd] in Hle. apply andb_true_iff in Hle as [H1 H2].
  apply N.leb_le in H1, H2.
  apply in_ranges_spec. exists l, h. split; [assumption | lia].
Qed.

(* Disjointness of two range lists, decidable. *)
Definition range_disjoint (a b : N * N) : bool :=
  (snd a <? fst b) || (snd b <? fst a).

Definition ranges_disjoint (xs ys : ranges) : bool :=
  forallb (fun a => forallb (fun b => range_disjoint a b) ys) xs.

Lemma ranges_disjoint_sound xs ys :
  ranges_disjoint xs ys = true ->
  forall c, in_ranges c xs = true -> in_ranges c ys = false.
Proof.
  unfold ranges_disjoint. intros H c Hc.
  destruct (in_ranges c ys) eqn:Hy; [|reflexivity]. exfalso.
  apply in_ranges_spec in Hc as (l1&h1&Hin1&Hr1).
  apply in_ranges_spec in Hy as (l2&h2&Hin2&Hr2).
  rewrite forallb_forall in H. specialize (H _ Hin1).
  rewrite forallb_forall in H. specialize (H _ Hin2).
  unfold range_disjoint in H. cbn [fst snd] in H.
  apply orb_true_iff in H as [H|H]; apply N.ltb_lt in H; lia.
Qed.

Definition nul_free (s : str) : Prop := Forall (fun c => c <> 0) s.

Fixpoint nul_freeb (s : str) : bool :=
  match s with [] => true | c :: r => negb (c =? 0) && nul_freeb r end.
