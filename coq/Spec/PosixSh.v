(* Spec/PosixSh.v — hand-written specification (trusted base) of POSIX shell
   word expansion for the quoting subset `@sh` and `-o=shell` rely on
   (XCU 2.2 Quoting, 2.3 Token Recognition, 2.6 Word Expansions, 2.9.1
   assignments).  Deliberately conservative: any unquoted character that the
   shell may treat specially in some context makes the result [None], so a
   [Some] answer means "no substitution, globbing, splitting or operator".

   The spec is validated against /bin/sh by the C17 check (printf %s WORD,
   and sourcing with a canary). *)
From YQ Require Import Base.Str.

(* Characters that are literal when unquoted in every word position:
   everything except NUL, blanks/newline, the operator and quoting characters
   | & ; < > ( ) $ ` \ dquote quote and the conditionally special * ? [ # ~ ! { } ]
   plus all control characters and DEL.  `=` and `%` are literal inside an
   argument word; `=` terminates the name in an assignment word, which
   [sh_source] handles explicitly. *)
Definition sh_special_ranges : ranges :=
  [(0, 32);      (* NUL, controls, tab, newline, space *)
   (33, 36);     (* ! dquote # $ *)
   (38, 42);     (* & ' ( ) * *)
   (59, 60);     (* ; < *)
   (62, 63);     (* > ? *)
   (91, 93);     (* [ \ ] *)
   (96, 96);     (* ` *)
   (123, 127)].  (* { | } ~ DEL *)

Definition literal_safe (c : N) : bool := negb (in_ranges c sh_special_ranges).

Inductive shmode := Unq | Sq | Dq | Esc.

Definition push (cur : option str) (c : N) : option str :=
  match cur with Some w => Some (w ++ [c]) | None => Some [c] end.
Definition start (cur : option str) : option str :=
  match cur with Some w => Some w | None => Some [] end.
Definition flush (cur : option str) : list str :=
  match cur with Some w => [w] | None => [] end.

(* Field list of a command line that consists of words only.  [cur] is the
   word being assembled (None = between words). *)
Fixpoint shw (m : shmode) (cur : option str) (s : str) : option (list str) :=
  match s with
  | [] => match m with Unq => Some (flush cur) | _ => None end   (* unterminated quote *)
  | c :: r =>
      if c =? 0 then None else
      match m with
      | Sq => if c =? 39 then shw Unq cur r else shw Sq (push cur c) r
      | Dq => if c =? 34 then shw Unq cur r
              else if (c =? 36) || (c =? 96) || (c =? 92) then None   (* $ ` \ stay special *)
              else shw Dq (push cur c) r
      | Esc => if c =? 10 then shw Unq cur r          (* line continuation *)
               else shw Unq (push cur c) r
      | Unq =>
          if c =? 39 then shw Sq (start cur) r
          else if c =? 34 then shw Dq (start cur) r
          else if c =? 92 then shw Esc cur r
          else if (c =? 32) || (c =? 9) then
            match shw Unq None r with
            | Some ws => Some (flush cur ++ ws)
            | None => None
            end
          else if literal_safe c then shw Unq (push cur c) r
          else None
      end
  end.

Definition sh_words (s : str) : option (list str) := shw Unq None s.

(* ---- sourcing a script made only of assignment lines ----
   Each command must be NAME=WORD terminated by an unquoted newline; NAME
   matches [A-Za-z_][A-Za-z0-9_]*.  Anything else (a command word, an
   operator, an expansion) gives None: "sourcing executes nothing". *)
Definition name_start (c : N) : bool :=
  in_ranges c [(65, 90); (95, 95); (97, 122)].
Definition name_char (c : N) : bool :=
  in_ranges c [(48, 57); (65, 90); (95, 95); (97, 122)].

Definition name_ok (nm : str) : bool :=
  match nm with
  | [] => false
  | c :: r => name_start c && forallb name_char r
  end.

Inductive srcmode := InName | InVal (m : shmode).

(* state: name so far, value so far *)
Fixpoint shsrc (m : srcmode) (nm : str) (cur : str) (s : str) : option (list (str * str)) :=
  match s with
  | [] => match m, nm with InName, [] => Some [] | _, _ => None end
  | c :: r =>
      if c =? 0 then None else
      match m with
      | InName =>
          if c =? 61 then (if name_ok nm then shsrc (InVal Unq) nm [] r else None)
          else if name_char c then shsrc InName (nm ++ [c]) [] r
          else None
      | InVal Sq => if c =? 39 then shsrc (InVal Unq) nm cur r else shsrc (InVal Sq) nm (cur ++ [c]) r
      | InVal Dq => if c =? 34 then shsrc (InVal Unq) nm cur r
                    else if (c =? 36) || (c =? 96) || (c =? 92) then None
                    else shsrc (InVal Dq) nm (cur ++ [c]) r
      | InVal Esc => if c =? 10 then shsrc (InVal Unq) nm cur r
                     else shsrc (InVal Unq) nm (cur ++ [c]) r
      | InVal Unq =>
          if c =? 39 then shsrc (InVal Sq) nm cur r
          else if c =? 34 then shsrc (InVal Dq) nm cur r
          else if c =? 92 then shsrc (InVal Esc) nm cur r
          else if c =? 10 then
            match shsrc InName [] [] r with
            | Some l => Some ((nm, cur) :: l)
            | None => None
            end
          else if literal_safe c then shsrc (InVal Unq) nm (cur ++ [c]) r
          else None   (* blank => a command word would follow; operators; expansions *)
      end
  end.

Definition sh_source (s : str) : option (list (str * str)) := shsrc InName [] [] s.
