(* Spec/TomlSpec.v — what a TOML expression list means, section by section.

   A document is its top-level key/values followed by sections; a section is
   a header ([table] or [[array table]]) with the key/values up to the next
   header.  It denotes: the top-level key/values assigned into an empty
   document in order (a dotted key creates the maps on its way); then, for
   every section in order, the table made of the section's own key/values is
   merged into the document at the header's path (a [table], also when it has
   no key/values) or appended as a new element to the sequence at that path
   (an [[array table]]).  Assignment, merge and append are those of
   Model/Toml.v (the evaluator's DeeplyAssign / arrayAppend on TOML-shaped
   documents), errors included. *)
From YQ Require Import Base.Str Model.Toml.

Record tsection := mkSection { s_array : bool; s_path : list str; s_kvs : list (list str * tval) }.

Definition tdoc := (list (list str * tval) * list tsection)%type.

Definition kv_expr (kv : list str * tval) : texpr := EKeyVal (fst kv) (snd kv).

Definition section_exprs (s : tsection) : list texpr :=
  (if s_array s then EArrayTable (s_path s) else ETable (s_path s)) :: List.map kv_expr (s_kvs s).

Definition flatten (d : tdoc) : list texpr :=
  List.map kv_expr (fst d) ++ flat_map section_exprs (snd d).

Definition place_section (root : entries) (s : tsection) : tres entries :=
  tbind (put_kvs (s_kvs s) [])
        (fun t => if s_array s then array_append (s_path s) (NMap t) root else deeply_assign (s_path s) (NMap t) root).

Fixpoint place_sections (secs : list tsection) (root : entries) : tres entries :=
  match secs with
  | [] => TOk root
  | s :: r => tbind (place_section root s) (fun root' => place_sections r root')
  end.

Definition toml_den (d : tdoc) : tres entries :=
  tbind (put_kvs (fst d) []) (fun root => place_sections (snd d) root).

(* the maps a dotted key creates *)
Fixpoint nest (p : list str) (v : tnode) : entries :=
  match p with
  | [] => []
  | [k] => [(k, v)]
  | k :: r => [(k, NMap (nest r v))]
  end.
