(* Spec/YamlMergeSpec.v — what a YAML document with anchors, aliases and
   merge keys MEANS (YAML 1.1 merge key language-independent type,
   https://yaml.org/type/merge.html).  Hand-written, meant to be read quickly.

   A document is given as the tree the parser builds, with every alias node
   already resolved to (a copy of) its anchored target: [Al target].  Anchors
   are kept only as a flag (their names do not matter once aliases are
   resolved).  Map keys are plain scalars given by their text; the merge key
   is the key whose text is "<<".

   Resolution:
   * an alias stands for its anchored node;
   * in a map, the keys written explicitly win over merged-in keys regardless
     of where the `<<` entry stands;
   * `<<: *m` merges the (resolved) map m; `<<: [*m1, *m2, ...]` merges each,
     and an earlier map of the list wins over a later one.

   [resolve] produces an association list "explicit entries, then the entries
   of the merge sources in order"; [vlookup] takes the FIRST entry with the
   wanted key, which is exactly the precedence above. *)
From Coq Require Import List NArith Bool.
From YQ Require Import Base.Str.
Import ListNotations.

Inductive node :=
| Sc (anchor : bool) (text : str)
| Sq (anchor : bool) (items : list node)
| Mp (anchor : bool) (entries : list (str * node))
| Al (target : node).

Definition merge_key : str := [60; 60]%N.          (* << *)
Definition is_merge (k : str) : bool := str_eqb k merge_key.

Inductive value :=
| VS (text : str)
| VL (items : list value)
| VM (entries : list (str * value)).

Fixpoint vlookup (k : str) (es : list (str * value)) : option value :=
  match es with
  | [] => None
  | (k', v) :: r => if str_eqb k k' then Some v else vlookup k r
  end.

Inductive step := PKey (k : str) | PIdx (n : nat).

(* reading a path in a resolved value; None = nothing there *)
Fixpoint vget (p : list step) (v : value) : option value :=
  match p with
  | [] => Some v
  | PKey k :: p' => match v with VM es => match vlookup k es with Some x => vget p' x | None => None end | _ => None end
  | PIdx n :: p' => match v with VL l => match nth_error l n with Some x => vget p' x | None => None end | _ => None end
  end.

Fixpoint all_some {A : Type} (l : list (option A)) : option (list A) :=
  match l with
  | [] => Some []
  | Some a :: r => match all_some r with Some r' => Some (a :: r') | None => None end
  | None :: _ => None
  end.

(* one unfolding of the resolution, [rec] resolving the children.
   None = the document is not a well-formed use of merge keys
   (a `<<` whose value is not an alias to a map or a list of such). *)
Section Step.
  Variable rec : node -> option value.

  Definition source_entries (item : node) : option (list (str * value)) :=
    match item with
    | Al t => match rec t with Some (VM es) => Some es | _ => None end
    | _ => None
    end.

  Definition merge_sources (v : node) : option (list (str * value)) :=
    match v with
    | Sq _ items => option_map (@concat _) (all_some (map source_entries items))
    | _ => source_entries v
    end.

  Definition resolve_step (t : node) : option value :=
    match t with
    | Sc _ s => Some (VS s)
    | Sq _ l => option_map VL (all_some (map rec l))
    | Al t' => rec t'
    | Mp _ es =>
        let explicit := all_some (map (fun kv => option_map (fun v => (fst kv, v)) (rec (snd kv)))
                                      (filter (fun kv => negb (is_merge (fst kv))) es)) in
        let merged := all_some (map (fun kv => merge_sources (snd kv))
                                    (filter (fun kv => is_merge (fst kv)) es)) in
        match explicit, merged with
        | Some ex, Some ms => Some (VM (ex ++ concat ms))
        | _, _ => None
        end
    end.
End Step.

(* documents are finite trees: [fuel] bounds the nesting depth; running out is None *)
Fixpoint resolve (fuel : nat) (t : node) : option value :=
  match fuel with
  | O => None
  | S f => resolve_step (resolve f) t
  end.

(* ------------------------------------------------------------------ *)
(* "the same value": sequences element-wise, maps key by key under      *)
(* [vlookup] (entry order and shadowed entries do not matter).  This is *)
(* what "the JSON conversion equals the resolved document" means.       *)
(* ------------------------------------------------------------------ *)
Inductive orel {A B : Type} (R : A -> B -> Prop) : option A -> option B -> Prop :=
| orel_none : orel R None None
| orel_some a b : R a b -> orel R (Some a) (Some b).

Inductive veq : value -> value -> Prop :=
| veq_s s : veq (VS s) (VS s)
| veq_l l l' : Forall2 veq l l' -> veq (VL l) (VL l')
| veq_m es es' : (forall k, orel veq (vlookup k es) (vlookup k es')) -> veq (VM es) (VM es').
