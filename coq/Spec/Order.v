(* Spec/Order.v — the one total preorder on scalar values that property C15
   talks about.  Hand-written, meant to be read in a minute.

     null  <  booleans (false < true)  <  numbers (by numeric value: exact
     rationals, with -infinity below and +infinity above all of them)
           <  strings (bytewise = code-point order on valid UTF-8)

   The property text fixes "null first, then booleans, then other scalars;
   numbers by numeric value whatever their spelling, strings by code point".
   Where numbers stand relative to strings is not fixed by the text; the spec
   takes numbers first (the jq order), which is also what yq's sort does
   (since the fix "numbers before strings"; before it yq compared the texts,
   which is cyclic).

   Sequences of keys (sort_by with several key results) are ordered
   lexicographically, a proper prefix first: [lex_cmp]. *)
From Coq Require Import List ZArith QArith NArith.
Import ListNotations.

(* numbers: a rational or one of the two infinities (NaN is not a value of the order) *)
Inductive xnum := XNegInf | XFin (q : Q) | XPosInf.

Definition xnum_cmp (x y : xnum) : comparison :=
  match x, y with
  | XNegInf, XNegInf => Eq
  | XNegInf, _ => Lt
  | _, XNegInf => Gt
  | XPosInf, XPosInf => Eq
  | XPosInf, _ => Gt
  | _, XPosInf => Lt
  | XFin p, XFin q => Qcompare p q
  end.

Inductive value :=
| VNull
| VBool (b : bool)
| VNum (x : xnum)
| VStr (s : list N).

(* generic lexicographic comparison, a proper prefix is smaller *)
Fixpoint lex_cmp {A : Type} (c : A -> A -> comparison) (x y : list A) : comparison :=
  match x, y with
  | [], [] => Eq
  | [], _ :: _ => Lt
  | _ :: _, [] => Gt
  | a :: x', b :: y' => match c a b with Eq => lex_cmp c x' y' | o => o end
  end.

Definition bool_cmp (a b : bool) : comparison :=
  match a, b with
  | false, true => Lt
  | true, false => Gt
  | _, _ => Eq
  end.

Definition ord_cmp (x y : value) : comparison :=
  match x, y with
  | VNull, VNull => Eq
  | VNull, _ => Lt
  | _, VNull => Gt
  | VBool a, VBool b => bool_cmp a b
  | VBool _, _ => Lt
  | _, VBool _ => Gt
  | VNum p, VNum q => xnum_cmp p q
  | VNum _, _ => Lt
  | _, VNum _ => Gt
  | VStr s, VStr t => lex_cmp N.compare s t
  end.

(* the order on key tuples *)
Definition keys_cmp (x y : list value) : comparison := lex_cmp ord_cmp x y.

(* What "c is a total preorder presented as a three-way comparison" means. *)
Record cmp_laws {A : Type} (c : A -> A -> comparison) : Prop := {
  cl_antisym : forall x y, c y x = CompOpp (c x y);
  cl_trans_lt : forall x y z, c x y = Lt -> c y z = Lt -> c x z = Lt;
  cl_eq_congr : forall x y, c x y = Eq -> forall z, c x z = c y z
}.

Definition ord_le (x y : value) : Prop := ord_cmp x y <> Gt.
