(* Spec/FsSpec.v -- what all-or-nothing means for an in-place edit.
   Hand-written, meant to be read in a minute.  A file is bytes x mode; the
   observation is the target path after the process has ended (exit or kill).
   Durability after power loss (what rename/fsync guarantee below the page
   cache) is not expressible here and is an assumption of the property. *)
From Coq Require Import List NArith.
From YQ Require Import Base.Str Model.InPlace.

(* old content or the complete new content, never a mix *)
Definition atomic (old new final : option file) : Prop := final = old \/ final = new.

(* the exit status tells which one *)
Definition exit_truth (code : N) (old new final : option file) : Prop :=
  (code = 0%N -> final = new) /\ (code <> 0%N -> final = old).

(* permission bits survive *)
Definition mode_kept (old final : option file) : Prop :=
  option_map f_mode final = option_map f_mode old.

(* the text after the front matter is still there, byte for byte *)
Definition tail_kept (tail : bytes) (final : option file) : Prop :=
  exists f pre post, final = Some f /\ f_bytes f = pre ++ tail ++ post.

(* a truncated mix: a proper prefix situation that is neither old nor new *)
Definition truncated_mix (old new final : option file) : Prop :=
  final <> old /\ final <> new.
