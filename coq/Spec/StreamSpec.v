(* Spec/StreamSpec.v -- what C10 asks of the sequence mode, written without
   any printer state, file counter or expression-tree state.

   [f sd] is the result list of the expression on the single stamped
   document [sd] (None = evaluation error), evaluated with a freshly parsed
   expression.

   * positions: document k (from 0) of file i (from 0) is stamped (i, k, name of file i).
   * a document printed alone contributes its chunk: for each result its
     leading content and the node, nothing between results;
   * chunks of successive documents are joined by one document separator,
     which is left out when the next chunk begins with a separator of its own
     (leading content that starts with the document-start marker) and before
     the first chunk; documents without results contribute nothing and no
     separator;
   * the run stops at the first evaluation / print / decode error; what was
     printed before stays. *)
From YQ Require Import Base.Str Model.Printer Model.Stream.

Section StreamSpec.
Variables P R : Type.
Variable blank : P.
Variable pfail : res R -> bool.
Variable f : sdoc P -> option (list (res R)).

(* true positions *)
Fixpoint number_docs (fi k : N) (name : str) (ds : list (doc P)) : list (sdoc P) :=
  match ds with
  | [] => []
  | d :: ds' => mkSdoc fi k name false (d_lead d) (d_body d) :: number_docs fi (k + 1) name ds'
  end.

Fixpoint number_files (fi : N) (fs : list (file P)) : list (sdoc P) :=
  match fs with
  | [] => []
  | fl :: fs' => number_docs fi 0 (f_name fl) (decode blank (fun _ b => b) true fl) ++ number_files (fi + 1) fs'
  end.

Definition spec_docs (fs : list (file P)) : list (sdoc P) := number_files 0 fs.

(* one document alone *)
Fixpoint chunk (cfg : pcfg) (j : N) (rs : list (res R)) : list (event R) * status :=
  match rs with
  | [] => ([], Done)
  | r :: rs' =>
      if pfail r then ([], Failed)
      else let '(e, s) := chunk cfg (j + 1) rs' in (node_events cfg j r ++ e, s)
  end.

(* separator-joined concatenation; [before] = something was printed before;
   returns the events, whether something has been printed, the status *)
Fixpoint join_sep (cfg : pcfg) (before : bool) (rss : list (option (list (res R)))) : list (event R) * bool * status :=
  match rss with
  | [] => ([], before, Done)
  | None :: _ => ([], before, Failed)
  | Some [] :: rest => join_sep cfg before rest
  | Some (r0 :: rs) :: rest =>
      if pfail r0 then ([], before, Failed)
      else
        let sep := if before && negb (starts_with_sep (r_lead r0)) then doc_sep cfg else [] in
        let '(e, s) := chunk cfg 0 (r0 :: rs) in
        match s with
        | Failed => (sep ++ e, true, Failed)
        | Done => let '(e2, b2, s2) := join_sep cfg true rest in (sep ++ e ++ e2, b2, s2)
        end
  end.

(* the same over files, stopping at a bad file (its documents are still processed) *)
Fixpoint spec_files (cfg : pcfg) (before : bool) (fi : N) (fs : list (file P)) : list (event R) * bool * status * N :=
  match fs with
  | [] => ([], before, Done, 0)
  | fl :: fs' =>
      let sds := number_docs fi 0 (f_name fl) (decode blank (fun _ b => b) true fl) in
      let '(e1, b1, s1) := join_sep cfg before (List.map f sds) in
      match s1 with
      | Failed => (e1, b1, Failed, 0)
      | Done =>
          if f_bad fl then (e1, b1, Failed, 0)
          else let '(e2, b2, s2, n2) := spec_files cfg b1 (fi + 1) fs' in (e1 ++ e2, b2, s2, N.of_nat (length sds) + n2)
      end
  end.

(* whole run: when no document at all was read (and nothing failed), the
   expression is evaluated once on the null document *)
Definition spec_run (cfg : pcfg) (fs : list (file P)) : list (event R) * status :=
  let '(e, b, s, n) := spec_files cfg false 0 fs in
  match s with
  | Failed => (e, Failed)
  | Done =>
      if n =? 0 then let '(e2, _, s2) := join_sep cfg b [f (null_sdoc blank)] in (e ++ e2, s2)
      else (e, Done)
  end.

(* erasing the separators the printer itself inserts *)
Definition is_sep (e : event R) : bool := match e with Sep => true | _ => false end.
Definition strip_sep (es : list (event R)) : list (event R) := filter (fun e => negb (is_sep e)) es.

Definition is_res (e : event R) : bool := match e with Res _ _ _ _ => true | _ => false end.
Definition count_res (es : list (event R)) : nat := length (filter is_res es).

(* a document boundary in the output: a separator of either origin *)
Definition is_boundary (e : event R) : bool := match e with Sep | LeadSep => true | _ => false end.

End StreamSpec.

Arguments number_docs {P}. Arguments number_files {P}. Arguments spec_docs {P}.
Arguments chunk {R}. Arguments join_sep {R}. Arguments spec_files {P R}. Arguments spec_run {P R}.
Arguments is_sep {R}. Arguments strip_sep {R}. Arguments is_res {R}. Arguments count_res {R}. Arguments is_boundary {R}.
