(* Spec/PrecGrammar.v — the precedence grammar C09 quantifies over, as token
   sequences: nullary operators (operands), prefix functions f(x), infix
   operators, parentheses, collect [x], collect-object {x}, and the indexing
   form  a TRAVERSE_ARRAY [ i ]  /  [ i ]?  the token post-processing
   produces for a[i].  Two-argument functions f(a;b) are PUn f (PBin block a b).

   [pexpr] carries explicit parentheses; [term] does not.  [okp] says that
   parentheses are present wherever THIS shunting-yard needs them (it pops
   while top.Precedence > current.Precedence, operands live on the operator
   stack too):
     left operand  a of  a o b : everything a leaves on the stack binds
                                 strictly tighter than o        (else (a) o b)
     right operand b of  a o b : no token of b outside brackets binds looser
                                 than o                          (else a o (b))
   so operators of equal precedence nest to the right.  [pmin] inserts
   exactly these parentheses, [pfull] brackets every operand. *)
From YQ Require Import Base.Str Gen.OpTable Model.Postfix Model.Tree.
Open Scope N_scope.

Inductive pexpr :=
| PLeaf (o : op)
| PUn (f : op) (x : pexpr)                    (* f ( x ) *)
| PBin (o : op) (a b : pexpr)                 (* a o b *)
| PParen (a : pexpr)                          (* ( a ) *)
| PCollect (a : pexpr) (opt : bool)           (* [ a ]   [ a ]? *)
| PObject (a : pexpr)                         (* { a } *)
| PIndex (ta : op) (a i : pexpr) (opt : bool).  (* a TA [ i ]   a TA [ i ]? *)

Fixpoint render (e : pexpr) : list tok :=
  match e with
  | PLeaf o => [TOp o]
  | PUn f x => TOp f :: TOpen BParen :: render x ++ [TClose BParen false]
  | PBin o a b => render a ++ TOp o :: render b
  | PParen a => TOpen BParen :: render a ++ [TClose BParen false]
  | PCollect a opt => TOpen BCollect :: render a ++ [TClose BCollect opt]
  | PObject a => TOpen BObject :: render a ++ [TClose BObject false]
  | PIndex ta a i opt => render a ++ TOp ta :: TOpen BCollect :: render i ++ [TClose BCollect opt]
  end.

(* the operator tree the expression denotes *)
Fixpoint tree_of (e : pexpr) : tree :=
  match e with
  | PLeaf o => Node o None None
  | PUn f x => Node f None (Some (tree_of x))
  | PBin o a b => Node o (Some (tree_of a)) (Some (tree_of b))
  | PParen a => tree_of a
  | PCollect a _ => Node collect_op None (Some (tree_of a))
  | PObject a => Node short_pipe_op (Some (tree_of a)) (Some (Node collect_object_op None None))
  | PIndex ta a i opt =>
      Node (set_opt ta opt) (Some (tree_of a)) (Some (Node collect_op None (Some (tree_of i))))
  end.

(* operators still on the stack after the tokens of e (top first) *)
Fixpoint pending (e : pexpr) : list op :=
  match e with
  | PLeaf o => [o]
  | PUn f _ => [f]
  | PBin o _ b => pending b ++ [o]
  | _ => []
  end.

(* operations already emitted after the tokens of e *)
Fixpoint emitted (e : pexpr) : list op :=
  match e with
  | PLeaf _ => []
  | PUn _ x => postfix_of (tree_of x)
  | PBin _ a b => postfix_of (tree_of a) ++ emitted b
  | PParen a => postfix_of (tree_of a)
  | PCollect a _ => postfix_of (tree_of a) ++ [collect_op]
  | PObject a => postfix_of (tree_of a) ++ [collect_object_op; short_pipe_op]
  | PIndex ta a i opt => postfix_of (tree_of a) ++ postfix_of (tree_of i) ++ [collect_op; set_opt ta opt]
  end.

(* every operation token of e outside brackets has precedence >= p *)
Fixpoint lowok (p : N) (e : pexpr) : bool :=
  match e with
  | PLeaf o => p <=? o_prec o
  | PUn f _ => p <=? o_prec f
  | PBin o a b => lowok p a && (p <=? o_prec o) && lowok p b
  | PIndex ta a _ _ => lowok p a && (p <=? o_prec ta)
  | _ => true
  end.

Definition tighter (o : op) (l : list op) : bool := forallb (fun q => o_prec o <? o_prec q) l.

Definition leaf_arity (o : op) : bool := o_nargs o =? 0.

Fixpoint okpb (e : pexpr) : bool :=
  match e with
  | PLeaf o => leaf_arity o
  | PUn f x => (o_nargs f =? 1) && okpb x
  | PBin o a b =>
      (o_nargs o =? 2) && negb (is_ta o) && okpb a && okpb b &&
      tighter o (pending a) && lowok (o_prec o) b
  | PParen a => okpb a
  | PCollect a _ => okpb a
  | PObject a => okpb a
  | PIndex ta a i _ =>
      (o_nargs ta =? 2) && is_ta ta && okpb a && okpb i && tighter ta (pending a)
  end.

Definition okp (e : pexpr) : Prop := okpb e = true.

(* ---- terms without explicit parentheses and their two spellings ---- *)
Inductive term :=
| TLeaf (o : op)
| TUn (f : op) (x : term)
| TBin (o : op) (a b : term)
| TCollect (a : term) (opt : bool)
| TObject (a : term)
| TIndex (ta : op) (a i : term) (opt : bool).

Fixpoint ttree (t : term) : tree :=
  match t with
  | TLeaf o => Node o None None
  | TUn f x => Node f None (Some (ttree x))
  | TBin o a b => Node o (Some (ttree a)) (Some (ttree b))
  | TCollect a _ => Node collect_op None (Some (ttree a))
  | TObject a => Node short_pipe_op (Some (ttree a)) (Some (Node collect_object_op None None))
  | TIndex ta a i opt =>
      Node (set_opt ta opt) (Some (ttree a)) (Some (Node collect_op None (Some (ttree i))))
  end.

Fixpoint wf_termb (t : term) : bool :=
  match t with
  | TLeaf o => leaf_arity o
  | TUn f x => (o_nargs f =? 1) && wf_termb x
  | TBin o a b => (o_nargs o =? 2) && negb (is_ta o) && wf_termb a && wf_termb b
  | TCollect a _ => wf_termb a
  | TObject a => wf_termb a
  | TIndex ta a i _ => (o_nargs ta =? 2) && is_ta ta && wf_termb a && wf_termb i
  end.

Definition paren_left (o : op) (a : pexpr) : pexpr := if tighter o (pending a) then a else PParen a.
Definition paren_right (o : op) (b : pexpr) : pexpr := if lowok (o_prec o) b then b else PParen b.

(* minimally parenthesised spelling *)
Fixpoint pmin (t : term) : pexpr :=
  match t with
  | TLeaf o => PLeaf o
  | TUn f x => PUn f (pmin x)
  | TBin o a b => PBin o (paren_left o (pmin a)) (paren_right o (pmin b))
  | TCollect a opt => PCollect (pmin a) opt
  | TObject a => PObject (pmin a)
  | TIndex ta a i opt => PIndex ta (paren_left ta (pmin a)) (pmin i) opt
  end.

(* fully parenthesised spelling: every operand of every application bracketed *)
Fixpoint pfull (t : term) : pexpr :=
  match t with
  | TLeaf o => PLeaf o
  | TUn f x => PUn f (PParen (pfull x))
  | TBin o a b => PBin o (PParen (pfull a)) (PParen (pfull b))
  | TCollect a opt => PCollect (PParen (pfull a)) opt
  | TObject a => PObject (PParen (pfull a))
  | TIndex ta a i opt => PIndex ta (PParen (pfull a)) (PParen (pfull i)) opt
  end.

(* e' is e with additional (redundant) parentheses around any sub-expressions *)
Inductive addp : pexpr -> pexpr -> Prop :=
| ap_leaf o : addp (PLeaf o) (PLeaf o)
| ap_un f x x' : addp x x' -> addp (PUn f x) (PUn f x')
| ap_bin o a a' b b' : addp a a' -> addp b b' -> addp (PBin o a b) (PBin o a' b')
| ap_paren a a' : addp a a' -> addp (PParen a) (PParen a')
| ap_collect a a' opt : addp a a' -> addp (PCollect a opt) (PCollect a' opt)
| ap_object a a' : addp a a' -> addp (PObject a) (PObject a')
| ap_index ta a a' i i' opt : addp a a' -> addp i i' -> addp (PIndex ta a i opt) (PIndex ta a' i' opt)
| ap_wrap e e' : addp e e' -> addp e (PParen e').

(* ---- bracket matching (the usual one, on the token list alone) ---- *)
Fixpoint bmatch (st : list br) (ts : list tok) : bool :=
  match ts with
  | [] => match st with [] => true | _ => false end
  | TOp _ :: r => bmatch st r
  | TOpen b :: r => bmatch (b :: st) r
  | TClose b _ :: r =>
      match st with
      | b' :: st' => br_eqb b b' && bmatch st' r
      | [] => false
      end
  end.

Definition balanced (ts : list tok) : Prop := bmatch [] ts = true.

(* no operand directly after a complete operand, no operand directly after a
   prefix operator unless it is parenthesised (f x, 1 2 +, + 1 2, ) f ...):
   [pe] = the previous token completes an operand, [pp] = it is a prefix operator *)
Fixpoint adjacent_ok (pe pp : bool) (ts : list tok) : bool :=
  match ts with
  | [] => true
  | t :: r => negb (adjacency_error pe pp t) && adjacent_ok (ends_operand t) (is_prefix_op t) r
  end.

Definition no_juxtaposition (ts : list tok) : Prop := adjacent_ok false false ts = true.
