(* Spec/Codecs.v — small, readable statements of what "well-formed text" of
   the modelled formats is (independent of the encoders), used by the C14
   theorems. *)
From YQ Require Import Base.Str.

(* ---- application/x-www-form-urlencoded component (RFC 3986 unreserved
   characters, plus for space, percent escapes with upper-case hex) ---- *)
Definition rfc_unreserved (c : N) : bool :=
  ((65 <=? c) && (c <=? 90)) || ((97 <=? c) && (c <=? 122)) || ((48 <=? c) && (c <=? 57))
  || (c =? 45) || (c =? 46) || (c =? 95) || (c =? 126).

Definition is_upperhex (c : N) : bool :=
  ((48 <=? c) && (c <=? 57)) || ((65 <=? c) && (c <=? 70)).

Inductive uri_wf : str -> Prop :=
| uri_wf_nil : uri_wf []
| uri_wf_unreserved c r : rfc_unreserved c = true -> uri_wf r -> uri_wf (c :: r)
| uri_wf_plus r : uri_wf r -> uri_wf (43 :: r)
| uri_wf_pct h1 h2 r : is_upperhex h1 = true -> is_upperhex h2 = true -> uri_wf r ->
    uri_wf (37 :: h1 :: h2 :: r).

(* what a form-urlencoded component denotes (the reading any conforming
   reader gives a well-formed text) *)
Definition hexval (c : N) : N := if c <=? 57 then c - 48 else c - 55.

Inductive uri_denotes : str -> str -> Prop :=
| uri_den_nil : uri_denotes [] []
| uri_den_unreserved c r v : rfc_unreserved c = true -> uri_denotes r v -> uri_denotes (c :: r) (c :: v)
| uri_den_plus r v : uri_denotes r v -> uri_denotes (43 :: r) (32 :: v)
| uri_den_pct h1 h2 r v : is_upperhex h1 = true -> is_upperhex h2 = true -> uri_denotes r v ->
    uri_denotes (37 :: h1 :: h2 :: r) (hexval h1 * 16 + hexval h2 :: v).

(* ---- RFC 4180 style separated values: what a quoted / bare field denotes.
   A bare field is any text without quote, separator, CR, LF; a quoted field
   is a quote, then characters with every quote doubled, then a quote. ---- *)
Inductive csv_quoted_body : str -> str -> Prop :=
| csv_qb_nil : csv_quoted_body [] []
| csv_qb_quote r v : csv_quoted_body r v -> csv_quoted_body (34 :: 34 :: r) (34 :: v)
| csv_qb_char c r v : c <> 34 -> csv_quoted_body r v -> csv_quoted_body (c :: r) (c :: v).

Definition csv_bare_char (sep c : N) : bool :=
  negb ((c =? 34) || (c =? sep) || (c =? 10) || (c =? 13)).

Inductive csv_field_denotes (sep : N) : str -> str -> Prop :=
| csv_fd_bare f : forallb (csv_bare_char sep) f = true -> csv_field_denotes sep f f
| csv_fd_quoted body v : csv_quoted_body body v -> csv_field_denotes sep (34 :: body ++ [34]) v.

(* ---- the domain on which encoding/csv round-trips rows ---- *)
(* no CR immediately followed by LF inside a field (the library's reader
   rewrites CR LF to LF even inside quotes) *)
Fixpoint crlf_free (f : str) : bool :=
  match f with
  | [] => true
  | c :: r => negb ((c =? 13) && match r with d :: _ => d =? 10 | [] => false end) && crlf_free r
  end.

(* a record has at least one field *)
Definition csv_row_ok (r : list str) : Prop :=
  r <> [] /\ Forall (fun f => crlf_free f = true) r.

Fixpoint same_length (n : nat) (rows : list (list str)) : bool :=
  match rows with
  | [] => true
  | r :: rest => Nat.eqb (length r) n && same_length n rest
  end.

Definition rectangular (rows : list (list str)) : Prop :=
  match rows with [] => True | r :: _ => same_length (length r) rows = true end.

(* ---- Lua 5.4 reference manual 3.1: a short literal string in double
   quotes.  The reader returns the bytes denoted and the text after the
   closing quote.  Escapes: \a \b \f \n \r \t \v \\ \dquote \quote, backslash
   newline, and \ddd (one to three decimal digits, value at most 255).  A raw
   newline or an unknown escape is a lexical error.  (\x, \z, \u are not
   needed to read what the encoder writes and are left out.) ---- *)
Definition lua_is_digit (c : N) : bool := (48 <=? c) && (c <=? 57).

Definition lua_simple_escape (d : N) : option N :=
  if d =? 97 then Some 7 else if d =? 98 then Some 8 else if d =? 102 then Some 12
  else if d =? 110 then Some 10 else if d =? 114 then Some 13 else if d =? 116 then Some 9
  else if d =? 118 then Some 11 else if d =? 92 then Some 92 else if d =? 34 then Some 34
  else if d =? 39 then Some 39 else if d =? 10 then Some 10 else None.

Definition lua_with (v : N) (r : option (str * str)) : option (str * str) :=
  if v <=? 255 then match r with Some (s, rest) => Some (v :: s, rest) | None => None end else None.

Fixpoint lua_read_dq (s : str) : option (str * str) :=
  match s with
  | [] => None
  | c :: r =>
      if c =? 34 then Some ([], r)
      else if c =? 10 then None
      else if c =? 92 then
        match r with
        | [] => None
        | d :: r1 =>
            if lua_is_digit d then
              match r1 with
              | d2 :: r2 =>
                  if lua_is_digit d2 then
                    match r2 with
                    | d3 :: r3 =>
                        if lua_is_digit d3
                        then lua_with ((d - 48) * 100 + (d2 - 48) * 10 + (d3 - 48)) (lua_read_dq r3)
                        else lua_with ((d - 48) * 10 + (d2 - 48)) (lua_read_dq r2)
                    | [] => lua_with ((d - 48) * 10 + (d2 - 48)) (lua_read_dq r2)
                    end
                  else lua_with (d - 48) (lua_read_dq r1)
              | [] => lua_with (d - 48) (lua_read_dq r1)
              end
            else
              match lua_simple_escape d with
              | Some x => lua_with x (lua_read_dq r1)
              | None => None
              end
        end
      else lua_with c (lua_read_dq r)
  end.

(* a Lua Name that is not a reserved word *)
Definition lua_reserved : list str :=
  [[97;110;100]; [98;114;101;97;107]; [100;111]; [101;108;115;101]; [101;108;115;101;105;102]; [101;110;100];
   [102;97;108;115;101]; [102;111;114]; [102;117;110;99;116;105;111;110]; [103;111;116;111]; [105;102]; [105;110];
   [108;111;99;97;108]; [110;105;108]; [110;111;116]; [111;114]; [114;101;112;101;97;116]; [114;101;116;117;114;110];
   [116;104;101;110]; [116;114;117;101]; [117;110;116;105;108]; [119;104;105;108;101]].

Definition lua_name_start (c : N) : bool := in_ranges c [(65, 90); (95, 95); (97, 122)].
Definition lua_name_char (c : N) : bool := in_ranges c [(48, 57); (65, 90); (95, 95); (97, 122)].

Definition lua_is_name (s : str) : bool :=
  match s with
  | [] => false
  | c :: r => lua_name_start c && forallb lua_name_char r && negb (existsb (str_eqb s) lua_reserved)
  end.

(* ---- .properties: the domain on which the magiconair writer is faithful.
   A key is non-empty, holds no equals sign (the writer escapes only space
   and colon) and does not start with a comment character; a value does not
   start with a space (leading blanks are skipped by every reader).  The
   key/value separator is blanks, one of colon / equals, blanks.  (A
   dollar-brace in a value is data: expansion is disabled on both sides,
   repaired in /repo.) ---- *)
Definition pws (c : N) : bool := (c =? 32) || (c =? 12) || (c =? 9).

Definition props_key_ok (k : str) : bool :=
  match k with
  | [] => false
  | c :: _ => negb (c =? 35) && negb (c =? 33) && negb (existsb (fun x => x =? 61) k)
  end.

Definition props_value_ok (v : str) : bool :=
  match v with c :: _ => negb (c =? 32) | [] => true end.

Fixpoint props_sep_tail (s : str) : bool :=      (* after the leading blanks *)
  match s with
  | [] => false
  | c :: r => if pws c then props_sep_tail r else ((c =? 58) || (c =? 61)) && forallb pws r
  end.
Definition props_sep_ok (sep : str) : bool := props_sep_tail sep.

Definition props_entry_ok (kv : str * str) : Prop :=
  props_key_ok (fst kv) = true /\ props_value_ok (snd kv) = true.
