(* Spec/Codecs.v — small, readable statements of what "well-formed text" of
   the modelled formats is (independent of the encoders), used by the C14
   theorems. *)
From YQ Require Import Base.Str.

(* ---- application/x-www-form-urlencoded component (RFC 3986 unreserved
   characters, plus for space, percent escapes with upper-case hex) ---- *)
Definition rfc_unreserved (c : N) : bool :=
  ((65 <=? c) && (c <=? 90)) || ((97 <=? c) && (c <=? 122)) || ((48 <=? c) && (c <=? 57))
  || (c =? 45) || (c =? 46) || (c =? 95) || (c =? 126).

Definition is_upperhex (c : N) : bool :=
  ((48 <=? c) && (c <=? 57)) || ((65 <=? c) && (c <=? 70)).

Inductive uri_wf : str -> Prop :=
| uri_wf_nil : uri_wf []
| uri_wf_unreserved c r : rfc_unreserved c = true -> uri_wf r -> uri_wf (c :: r)
| uri_wf_plus r : uri_wf r -> uri_wf (43 :: r)
| uri_wf_pct h1 h2 r : is_upperhex h1 = true -> is_upperhex h2 = true -> uri_wf r ->
    uri_wf (37 :: h1 :: h2 :: r).

(* what a form-urlencoded component denotes (the reading any conforming
   reader gives a well-formed text) *)
Definition hexval (c : N) : N := if c <=? 57 then c - 48 else c - 55.

Inductive uri_denotes : str -> str -> Prop :=
| uri_den_nil : uri_denotes [] []
| uri_den_unreserved c r v : rfc_unreserved c = true -> uri_denotes r v -> uri_denotes (c :: r) (c :: v)
| uri_den_plus r v : uri_denotes r v -> uri_denotes (43 :: r) (32 :: v)
| uri_den_pct h1 h2 r v : is_upperhex h1 = true -> is_upperhex h2 = true -> uri_denotes r v ->
    uri_denotes (37 :: h1 :: h2 :: r) (hexval h1 * 16 + hexval h2 :: v).

(* ---- RFC 4180 style separated values: what a quoted / bare field denotes.
   A bare field is any text without quote, separator, CR, LF; a quoted field
   is a quote, then characters with every quote doubled, then a quote. ---- *)
Inductive csv_quoted_body : str -> str -> Prop :=
| csv_qb_nil : csv_quoted_body [] []
| csv_qb_quote r v : csv_quoted_body r v -> csv_quoted_body (34 :: 34 :: r) (34 :: v)
| csv_qb_char c r v : c <> 34 -> csv_quoted_body r v -> csv_quoted_body (c :: r) (c :: v).

Definition csv_bare_char (sep c : N) : bool :=
  negb ((c =? 34) || (c =? sep) || (c =? 10) || (c =? 13)).

Inductive csv_field_denotes (sep : N) : str -> str -> Prop :=
| csv_fd_bare f : forallb (csv_bare_char sep) f = true -> csv_field_denotes sep f f
| csv_fd_quoted body v : csv_quoted_body body v -> csv_field_denotes sep (34 :: body ++ [34]) v.

(* ---- the domain on which encoding/csv round-trips rows ---- *)
(* no CR immediately followed by LF inside a field (the library's reader
   rewrites CR LF to LF even inside quotes) *)
Fixpoint crlf_free (f : str) : bool :=
  match f with
  | [] => true
  | c :: r => negb ((c =? 13) && match r with d :: _ => d =? 10 | [] => false end) && crlf_free r
  end.

(* a record has at least one field and is not a single empty field (that is
   written as a blank line, which is no record) *)
Definition csv_row_ok (r : list str) : Prop :=
  r <> [] /\ r <> [[]] /\ Forall (fun f => crlf_free f = true) r.

Fixpoint same_length (n : nat) (rows : list (list str)) : bool :=
  match rows with
  | [] => true
  | r :: rest => Nat.eqb (length r) n && same_length n rest
  end.

Definition rectangular (rows : list (list str)) : Prop :=
  match rows with [] => True | r :: _ => same_length (length r) rows = true end.
