(* Spec/JsonGrammar.v — RFC 8259 as an inductive grammar over bytes.

   json_text  = ws value ws
   value      = false / null / true / object / array / number / string
   object     = { [ member *( , member ) ] }      member = ws string ws : ws value ws
   array      = [ [ element *( , element ) ] ]    element = ws value ws
   number     = [ - ] int [ frac ] [ exp ]
   string     = quote *char quote
   char       = unescaped / \ ( quote \ / b f n r t / u 4HEXDIG )
   unescaped  = one code point >= U+0020 other than quote and backslash,
                written as a well-formed UTF-8 sequence (RFC 8259 section 8.1;
                RFC 3629: no overlong forms, no surrogates, at most U+10FFFF).
   Hand-written; no reference to the model. *)
From YQ Require Import Base.Str.
Open Scope N_scope.

Definition ws_char (c : N) : Prop := c = 32 \/ c = 9 \/ c = 10 \/ c = 13.

Inductive ws : str -> Prop :=
| ws_nil : ws []
| ws_cons c s : ws_char c -> ws s -> ws (c :: s).

Definition digit (c : N) : Prop := 48 <= c <= 57.
Definition digit19 (c : N) : Prop := 49 <= c <= 57.

Inductive digits : str -> Prop :=
| ds_one c : digit c -> digits [c]
| ds_cons c s : digit c -> digits s -> digits (c :: s).

Inductive jint : str -> Prop :=
| ji_zero : jint [48]
| ji_one c : digit19 c -> jint [c]
| ji_more c s : digit19 c -> digits s -> jint (c :: s).

Inductive jfrac : str -> Prop :=
| jf_none : jfrac []
| jf_some s : digits s -> jfrac (46 :: s).

Inductive jexp : str -> Prop :=
| jx_none : jexp []
| jx_some c sign s : c = 101 \/ c = 69 -> sign = [] \/ sign = [43] \/ sign = [45] -> digits s ->
                     jexp (c :: sign ++ s).

Inductive jnumber : str -> Prop :=
| jn_pos i f e : jint i -> jfrac f -> jexp e -> jnumber (i ++ f ++ e)
| jn_neg i f e : jint i -> jfrac f -> jexp e -> jnumber (45 :: i ++ f ++ e).

Definition cont_byte (c : N) : Prop := 128 <= c <= 191.

Inductive uchar : str -> Prop :=
| uc1 c : 32 <= c <= 127 -> c <> 34 -> c <> 92 -> uchar [c]
| uc2 c c1 : 194 <= c <= 223 -> cont_byte c1 -> uchar [c; c1]
| uc3 c c1 c2 : 224 <= c <= 239 -> cont_byte c1 -> cont_byte c2 ->
                (c = 224 -> 160 <= c1) -> (c = 237 -> c1 <= 159) -> uchar [c; c1; c2]
| uc4 c c1 c2 c3 : 240 <= c <= 244 -> cont_byte c1 -> cont_byte c2 -> cont_byte c3 ->
                   (c = 240 -> 144 <= c1) -> (c = 244 -> c1 <= 143) -> uchar [c; c1; c2; c3].

Definition hexdig (c : N) : Prop := 48 <= c <= 57 \/ 65 <= c <= 70 \/ 97 <= c <= 102.

Inductive jescape : str -> Prop :=
| esc_simple c : In c [34; 92; 47; 98; 102; 110; 114; 116] -> jescape [92; c]
| esc_u a b c d : hexdig a -> hexdig b -> hexdig c -> hexdig d -> jescape [92; 117; a; b; c; d].

Inductive jchars : str -> Prop :=
| jc_nil : jchars []
| jc_char u s : uchar u -> jchars s -> jchars (u ++ s)
| jc_esc e s : jescape e -> jchars s -> jchars (e ++ s).

Inductive jstring : str -> Prop :=
| js_intro b : jchars b -> jstring (34 :: b ++ [34]).

Inductive jval : str -> Prop :=
| jv_null : jval [110; 117; 108; 108]
| jv_true : jval [116; 114; 117; 101]
| jv_false : jval [102; 97; 108; 115; 101]
| jv_num s : jnumber s -> jval s
| jv_str s : jstring s -> jval s
| jv_arr_empty w : ws w -> jval (91 :: w ++ [93])
| jv_arr els : jelements els -> jval (91 :: els ++ [93])
| jv_obj_empty w : ws w -> jval (123 :: w ++ [125])
| jv_obj ms : jmembers ms -> jval (123 :: ms ++ [125])
with jelements : str -> Prop :=
| jel_one w1 v w2 : ws w1 -> jval v -> ws w2 -> jelements (w1 ++ v ++ w2)
| jel_more w1 v w2 r : ws w1 -> jval v -> ws w2 -> jelements r -> jelements (w1 ++ v ++ w2 ++ 44 :: r)
with jmembers : str -> Prop :=
| jmb_one w1 k w2 w3 v w4 : ws w1 -> jstring k -> ws w2 -> ws w3 -> jval v -> ws w4 ->
    jmembers (w1 ++ k ++ w2 ++ 58 :: w3 ++ v ++ w4)
| jmb_more w1 k w2 w3 v w4 r : ws w1 -> jstring k -> ws w2 -> ws w3 -> jval v -> ws w4 -> jmembers r ->
    jmembers (w1 ++ k ++ w2 ++ 58 :: w3 ++ v ++ w4 ++ 44 :: r).

Inductive json_text : str -> Prop :=
| jt_intro w1 v w2 : ws w1 -> jval v -> ws w2 -> json_text (w1 ++ v ++ w2).
