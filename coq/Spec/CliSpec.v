(* Spec/CliSpec.v -- what a truthful run is.  Hand-written, short.
   Given the command line and the world (files as the decoder sees them, the
   evaluator's answers), [expected] is the list of results a complete run has
   to put on stdout, or None when something cannot be read, decoded,
   evaluated, or the configuration is invalid. *)
From Coq Require Import List NArith Bool.
From YQ Require Import Base.Str Gen.Formats Model.Cli.
Import ListNotations.

(* all results of the documents of one file, None if a document is
   undecodable or its evaluation fails *)
Fixpoint docs_results (ds : list doc) : option (list result) :=
  match ds with
  | [] => Some []
  | DocBad :: _ => None
  | DocOk EvalErr :: _ => None
  | DocOk (EvalOk rs) :: ds' => option_map (app rs) (docs_results ds')
  end.

Fixpoint files_results (w : world) (names : list str) : option (list result * nat) :=
  match names with
  | [] => Some ([], O)
  | f :: fs =>
      match w_fs w f with
      | Missing => None
      | Docs ds =>
          match docs_results ds, files_results w fs with
          | Some rs, Some (rs', n) => Some (rs ++ rs', (length ds + n)%nat)
          | _, _ => None
          end
      end
  end.

Definition eval_results (e : evalout) : option (list result) :=
  match e with EvalErr => None | EvalOk rs => Some rs end.

Definition stream_expected (w : world) (names : list str) : option (list result) :=
  if negb (w_expr_ok w) then None else
  match files_results w names with
  | None => None
  | Some (rs, O) => option_map (app rs) (eval_results (w_null_out w))
  | Some (rs, _) => Some rs
  end.

Fixpoint all_count (w : world) (names : list str) : option nat :=
  match names with
  | [] => Some O
  | f :: fs => match w_fs w f, all_count w fs with
               | Docs ds, Some n => if all_docs_ok ds then Some (length ds + n)%nat else None
               | _, _ => None
               end
  end.

Definition all_expected (w : world) (names : list str) : option (list result) :=
  if negb (w_expr_ok w) then None else
  match all_count w names with
  | None => None
  | Some O => eval_results (w_null_out w)
  | Some _ => eval_results (w_all_out w)
  end.

Definition new_expected (w : world) : option (list result) :=
  if negb (w_expr_ok w) then None else eval_results (w_null_out w).

(* the formats are usable: known output format with an encoder, known input format with a decoder *)
Definition usable_formats (c : cli) : option N :=
  match init_command c with
  | InitErr => None
  | InitOk inF outF _ =>
      match format_from_string outF, format_from_string inF with
      | Some fo, Some fi => if fmt_has_encoder fo && fmt_has_decoder fi then Some (fmt_id fo) else None
      | _, _ => None
      end
  end.

Definition has_input (c : cli) : bool := negb (no_input c).

Definition expected (c : cli) (w : world) : option (list result) :=
  match usable_formats c with
  | None => None
  | Some _ =>
      if c_null c then new_expected w
      else if c_all c then all_expected w (c_files c)
      else stream_expected w (c_files c)
  end.

Definition ids (rs : list result) : list N := List.map r_id rs.

(* Encode returned nil for every result and the flush of its bytes to the output succeeded *)
Definition all_encoded (fl : N -> bool) (fid : N) (nul : bool) (rs : list result) : bool :=
  forallb (fun r => match enc_class fid nul (r_node r) with EncErr => false | EncOk _ => fl (r_id r) end) rs.
(* ... and really wrote every result *)
Definition all_complete (fid : N) (nul : bool) (rs : list result) : bool :=
  forallb (fun r => match enc_class fid nul (r_node r) with EncOk true => true | _ => false end) rs.
Definition shown_ids (fid : N) (nul : bool) (rs : list result) : list N :=
  ids (List.filter (fun r => match enc_class fid nul (r_node r) with EncOk true => true | _ => false end) rs).

(* the -e rule as documented: null or false; YAML (core schema) spells the
   booleans true / True / TRUE and false / False / FALSE *)
Definition yaml_false (v : str) : bool :=
  str_eqb v [102; 97; 108; 115; 101] || str_eqb v [70; 97; 108; 115; 101] || str_eqb v [70; 65; 76; 83; 69].
Definition yaml_true (v : str) : bool :=
  str_eqb v [116; 114; 117; 101] || str_eqb v [84; 114; 117; 101] || str_eqb v [84; 82; 85; 69].
Definition null_or_false (n : node) : bool :=
  match n with
  | NScalar TagNull _ => true
  | NScalar TagBool v => yaml_false v
  | _ => false
  end.
(* a boolean node carries one of the six spellings the YAML decoder resolves to !!bool *)
Definition bool_well_spelled (n : node) : bool :=
  match n with NScalar TagBool v => yaml_false v || yaml_true v | _ => true end.
(* the rule the code implements *)
Definition not_a_match (n : node) : bool := negb (counts_as_match n).
