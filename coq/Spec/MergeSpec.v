(* Spec/MergeSpec.v — C04: the deep merge `a * b` as a pure function on nodes.

   Shape of the code it describes (operator_multiply.go): copy the LHS, then
   for every node of the RHS in recursive-descent order (map keys included,
   arrays descended only with `d`) perform one synthesized assignment at the
   same relative path of the copy.  Read as a function of the two values this
   is a structural recursion on b, carrying the node [t] of the copy that the
   current b-node is assigned onto:

     t = None      the position did not exist in a: the traversal has just
                   created it as null, so everything of b is written there;
     t = Some va   the position holds va (a's value, or what earlier entries
                   of b made of it).

   Flags (lexer_participle.go multiplyWithPrefs): `+` f_append, `d` f_deep,
   `?` f_existing (non-creating traversal), `n` f_new (an assignment happens
   only if its target is null; fresh positions are created as null, so they
   are written, and so is an existing null).  `+d` together: sequences are
   appended, `d` has nothing left to do.

   Result None = the *open region* of the property: at a position that exists
   in a, the kinds of the two values differ (map / sequence / scalar) and one
   of `+ ? n` is set.  The documentation does not define that outcome (the
   implementation sometimes errors there).  Without those flags a kind clash
   clears the old content and b's value wins.

   Keys are compared literally: * and ? in a key of b are ordinary characters
   (traversePreferences.ExactKeyMatch, set for merge and DeeplyAssign). *)
From YQ Require Import Base.Str Model.Node.

Record flags := mkFlags { f_append : bool; f_deep : bool; f_existing : bool; f_new : bool }.
Definition fl0 : flags := mkFlags false false false false.
Definition flagged (fl : flags) : bool := f_append fl || f_existing fl || f_new fl.

Inductive kind := KScalar | KSeq | KMap.
Definition kind_of (n : node) : kind :=
  match n with Scalar _ _ => KScalar | Seq _ => KSeq | Map _ => KMap end.
Definition is_null (n : node) : bool := match n with Scalar TNull _ => true | _ => false end.

(* may an assignment write onto the existing value a?  (assignPreferences.OnlyWriteNull) *)
Definition writable (fl : flags) (a : node) : bool := negb (f_new fl) || is_null a.

Definition entries := list (str * node).
Definition items := list (rkey * node).
Definition keys (es : entries) : list str := List.map fst es.

(* first entry with this key *)
Fixpoint lookup (es : entries) (k : str) : option node :=
  match es with
  | [] => None
  | (k', v) :: r => if str_eqb k' k then Some v else lookup r k
  end.

(* replace the value of the first entry with this key *)
Fixpoint replace (es : entries) (k : str) (v : node) : entries :=
  match es with
  | [] => []
  | (k', v') :: r => if str_eqb k' k then (k', v) :: r else (k', v') :: replace r k v
  end.

(* the entries of b, in b's order, applied to the accumulated copy of a *)
Definition entries_with (fl : flags) (rec : option node -> node -> option node) : entries -> entries -> option entries :=
  fix go (acc eb : entries) {struct eb} : option entries :=
    match eb with
    | [] => Some acc
    | (k, vb) :: r =>
        match lookup acc k with
        | Some va =>
            match rec (Some va) vb with
            | Some v => go (replace acc k v) r
            | None => None
            end
        | None =>
            if f_existing fl then go acc r                       (* `?`: nothing is created *)
            else match rec None vb with
                 | Some v => go (acc ++ [(k, v)]) r              (* new entries go to the end *)
                 | None => None
                 end
        end
    end.

(* the items of b by position onto the items of the copy (`d`); positions past
   the end are padded on demand, so they are fresh *)
Definition items_with (rec : option node -> node -> option node) : items -> items -> option items :=
  fix go (la lb : items) {struct lb} : option items :=
    match lb with
    | [] => Some la
    | (kb, vb) :: rb =>
        match la with
        | [] =>
            match rec None vb, go [] rb with
            | Some v, Some r => Some ((kb, v) :: r)
            | _, _ => None
            end
        | (ka, va) :: ra =>
            match rec (Some va) vb, go ra rb with
            | Some v, Some r => Some ((ka, v) :: r)
            | _, _ => None
            end
        end
    end.

Fixpoint mv (fl : flags) (t : option node) (b : node) {struct b} : option node :=
  match b with
  | Scalar _ _ =>
      (* `path = b` *)
      match t with
      | None => Some b
      | Some a =>
          match kind_of a with
          | KScalar => Some (if writable fl a then b else a)
          | _ => if flagged fl then None else Some b
          end
      end
  | Map eb =>
      (* `path` gets the attributes of b (a kind change empties it), then b's entries follow *)
      match t with
      | None => option_map Map (entries_with fl (mv fl) [] eb)
      | Some (Map ea) => option_map Map (entries_with fl (mv fl) ea eb)
      | Some _ => if flagged fl then None else option_map Map (entries_with fl (mv fl) [] eb)
      end
  | Seq lb =>
      (* with `+` a sequence is appended as a whole and its items are not visited, so `d` only acts without `+` *)
      let deep := f_deep fl && negb (f_append fl) in
      match t with
      | None =>
          (* null = b, null + b = b; with `d` b's items are assigned by position onto an empty sequence *)
          if deep then option_map Seq (items_with (mv fl) [] lb) else Some b
      | Some (Seq la) =>
          if f_new fl
          then (* `=` and `+=` are skipped on a non-null target; with `d` the items are still visited *)
               if deep then option_map Seq (items_with (mv fl) la lb) else Some (Seq la)
          else if f_append fl then Some (Seq (la ++ lb))                          (* appended *)
          else if f_deep fl then option_map Seq (items_with (mv fl) la lb)        (* by position *)
          else Some b                                                             (* replaced *)
      | Some _ =>
          if flagged fl then None
          else if f_deep fl then option_map Seq (items_with (mv fl) [] lb) else Some b
      end
  end.

Definition merge_entries (fl : flags) : entries -> entries -> option entries := entries_with fl (mv fl).
Definition merge_items (fl : flags) : items -> items -> option items := items_with (mv fl).

(* a * b for two containers of the same kind (the top-level dispatch of
   multiply() for other operand kinds is arithmetic and not part of C04) *)
Definition merge (fl : flags) (a b : node) : option node := mv fl (Some a) b.

(* `. as $i ireduce ({}; . * $i)` over a list of documents *)
Definition merge_step (fl : flags) (acc : option node) (d : node) : option node :=
  match acc with Some m => merge fl m d | None => None end.
Definition merge_all (fl : flags) (docs : list node) : option node :=
  fold_left (merge_step fl) docs (Some (Map [])).

(* ---------- observables for the correspondence check ---------- *)
Definition ok_line (n : node) : str := [79; 75; 10] ++ ser_node n ++ [10].       (* OK\n<node>\n *)
Definition open_tag : str := [79; 80; 69; 78].                                   (* OPEN *)

Definition flags_of (n : N) : flags :=
  mkFlags (N.testbit n 0) (N.testbit n 1) (N.testbit n 2) (N.testbit n 3).

Definition merge_run (fl : N) (a b : node) : str :=
  match merge (flags_of fl) a b with Some r => ok_line r | None => open_tag end.

Definition merge_all_run (fl : N) (docs : list node) : str :=
  match merge_all (flags_of fl) docs with Some r => ok_line r | None => open_tag end.
