(* Spec/PrecSpec.v — the precedence RELATION between operator classes of yq's
   expression language, written by hand from the design (DESIGN.md §6 C09),
   the operator documentation and the one comment in operation.go that
   states an ordering requirement (create-map binds tighter than union).

   Only the ORDER of the classes is specified, never a number: class ranks
   are compared with each other, the generated Precedence numbers are
   compared with each other, and the two comparisons must agree on every
   pair of specified operators.  Any monotone renumbering of operation.go
   keeps the statement true; any swap, merge or split of classes breaks it.
   Operators are named by their Go variable (unique; the Type string is not:
   LINE is used twice).  Operators not listed are unconstrained, so adding an
   operator does not break the proof.

   loosest                                                         tightest
   union , block ;  <  create-map :  <  or and  <  pipe |  <  ireduce
     <  assignment family, == != comparisons, del()
     <  arithmetic + - * / % and alternative //
     <  short pipe (implicit, between a value and a following path)
     <  functions and literals
     <  functions that may be followed by a path (f(..).a, f(..)[0])
     <  path elements, self, variables                                     *)
From Coq Require Import String.
From YQ Require Import Base.Str Gen.OpTable Model.Postfix.
Open Scope string_scope.
Open Scope N_scope.

Definition c_separator : N := 0.
Definition c_create_map : N := 1.
Definition c_boolean : N := 2.
Definition c_pipe : N := 3.
Definition c_reduce : N := 4.
Definition c_assign_compare : N := 5.
Definition c_arithmetic : N := 6.
Definition c_short_pipe : N := 7.
Definition c_function : N := 8.
Definition c_function_post_traverse : N := 9.
Definition c_path : N := 10.

(* (Go variable, class) *)
Definition spec_classes : list (string * N) := [
  ("unionOpType", c_separator); ("blockOpType", c_separator);
  ("createMapOpType", c_create_map);
  ("orOpType", c_boolean); ("andOpType", c_boolean);
  ("pipeOpType", c_pipe);
  ("reduceOpType", c_reduce);
  ("assignOpType", c_assign_compare); ("addAssignOpType", c_assign_compare);
  ("subtractAssignOpType", c_assign_compare); ("assignAttributesOpType", c_assign_compare);
  ("assignStyleOpType", c_assign_compare); ("assignVariableOpType", c_assign_compare);
  ("assignTagOpType", c_assign_compare); ("assignCommentOpType", c_assign_compare);
  ("assignAnchorOpType", c_assign_compare); ("assignAliasOpType", c_assign_compare);
  ("equalsOpType", c_assign_compare); ("notEqualsOpType", c_assign_compare);
  ("compareOpType", c_assign_compare); ("deleteChildOpType", c_assign_compare);
  ("multiplyOpType", c_arithmetic); ("divideOpType", c_arithmetic); ("moduloOpType", c_arithmetic);
  ("addOpType", c_arithmetic); ("subtractOpType", c_arithmetic); ("alternativeOpType", c_arithmetic);
  ("shortPipeOpType", c_short_pipe);
  (* literals and functions *)
  ("valueOpType", c_function); ("stringInterpolationOpType", c_function); ("emptyOpType", c_function);
  ("collectOpType", c_function); ("collectObjectOpType", c_function); ("traverseArrayOpType", c_function);
  ("lengthOpType", c_function); ("notOpType", c_function); ("hasOpType", c_function);
  ("containsOpType", c_function); ("recursiveDescentOpType", c_function); ("getKeyOpType", c_function);
  ("getTagOpType", c_function); ("getStyleOpType", c_function);
  ("getKindOpType", c_function); ("getCommentOpType", c_function); ("getAnchorOpType", c_function);
  ("getAliasOpType", c_function); ("joinStringOpType", c_function); ("subStringOpType", c_function);
  ("matchOpType", c_function); ("captureOpType", c_function); ("testOpType", c_function);
  ("anyOpType", c_function); ("allOpType", c_function); ("anyConditionOpType", c_function);
  ("allConditionOpType", c_function); ("fromEntriesOpType", c_function); ("withEntriesOpType", c_function);
  ("toNumberOpType", c_function); ("toStringOpType", c_function); ("trimOpType", c_function);
  ("changeCaseOpType", c_function); ("encodeOpType", c_function); ("decodeOpType", c_function);
  ("errorOpType", c_function); ("setPathOpType", c_function); ("expressionOpType", c_function);
  ("getDocumentIndexOpType", c_function); ("getFilenameOpType", c_function); ("getFileIndexOpType", c_function);
  ("isKeyOpType", c_function); ("lineOpType", c_function); ("columnOpType", c_function);
  ("referenceOpType", c_function); ("envsubstOpType", c_function); ("nowOpType", c_function);
  ("tzOpType", c_function); ("fromUnixOpType", c_function); ("toUnixOpType", c_function);
  ("formatDateTimeOpType", c_function); ("withDtFormatOpType", c_function);
  ("minOpType", c_function); ("maxOpType", c_function);
  (* functions whose result may be traversed directly: f(..).a  f(..)[0] *)
  ("selectOpType", c_function_post_traverse); ("mapOpType", c_function_post_traverse);
  ("mapValuesOpType", c_function_post_traverse); ("filterOpType", c_function_post_traverse);
  ("pickOpType", c_function_post_traverse); ("omitOpType", c_function_post_traverse);
  ("withOpType", c_function_post_traverse); ("sortByOpType", c_function_post_traverse);
  ("sortOpType", c_function_post_traverse); ("sortKeysOpType", c_function_post_traverse);
  ("reverseOpType", c_function_post_traverse); ("shuffleOpType", c_function_post_traverse);
  ("uniqueOpType", c_function_post_traverse); ("uniqueByOpType", c_function_post_traverse);
  ("groupByOpType", c_function_post_traverse); ("flattenOpType", c_function_post_traverse);
  ("keysOpType", c_function_post_traverse); ("toEntriesOpType", c_function_post_traverse);
  ("splitStringOpType", c_function_post_traverse); ("splitDocumentOpType", c_function_post_traverse);
  ("getPathOpType", c_function_post_traverse); ("delPathsOpType", c_function_post_traverse);
  ("explodeOpType", c_function_post_traverse); ("evalOpType", c_function_post_traverse);
  ("loadOpType", c_function_post_traverse); ("loadStringOpType", c_function_post_traverse);
  ("envOpType", c_function_post_traverse); ("pivotOpType", c_function_post_traverse);
  ("getParentOpType", c_function_post_traverse);
  (* path elements *)
  ("traversePathOpType", c_path); ("selfReferenceOpType", c_path); ("getVariableOpType", c_path)
].

(* Not specified on purpose: multiplyAssignOpType.  operation.go gives `*=`
   the arithmetic number while `+=` and `-=` have the assignment number; the
   design does not say which is intended, so no order is imposed. *)

(* The specified relation on operator names. *)
Definition class_of (l : list (string * N)) (name : string) : option N :=
  option_map snd (List.find (fun p => String.eqb (fst p) name) l).

Definition spec_cmp (ra rb : N) : comparison := N.compare ra rb.

(* Arity of the infix operators and of the prefix functions used by the
   grammar of the correspondence check (what the tree builder must see). *)
Definition spec_arity : list (string * N) := [
  ("unionOpType", 2); ("blockOpType", 2); ("createMapOpType", 2); ("orOpType", 2); ("andOpType", 2);
  ("pipeOpType", 2); ("reduceOpType", 2); ("assignOpType", 2); ("addAssignOpType", 2);
  ("subtractAssignOpType", 2); ("multiplyAssignOpType", 2); ("assignVariableOpType", 2);
  ("equalsOpType", 2); ("notEqualsOpType", 2); ("compareOpType", 2);
  ("multiplyOpType", 2); ("divideOpType", 2); ("moduloOpType", 2); ("addOpType", 2);
  ("subtractOpType", 2); ("alternativeOpType", 2); ("shortPipeOpType", 2); ("traverseArrayOpType", 2);
  ("collectOpType", 1); ("collectObjectOpType", 0); ("emptyOpType", 0);
  ("selectOpType", 1); ("mapOpType", 1); ("hasOpType", 1); ("withOpType", 1); ("subStringOpType", 1);
  ("deleteChildOpType", 1); ("sortByOpType", 1); ("containsOpType", 1); ("joinStringOpType", 1);
  ("valueOpType", 0); ("stringInterpolationOpType", 0); ("traversePathOpType", 0);
  ("selfReferenceOpType", 0); ("getVariableOpType", 0); ("lengthOpType", 0); ("notOpType", 0);
  ("keysOpType", 0); ("sortOpType", 0); ("reverseOpType", 0); ("minOpType", 0); ("maxOpType", 0)
].

(* Lookup in the generated table: Model.Postfix.find_op. *)
Definition prec_of (name : string) : option N := option_map oi_prec (find_op name).
Definition nargs_of (name : string) : option N := option_map oi_nargs (find_op name).

(* Executable checks (finite tables). *)
Definition pair_ok (a b : string * N) : bool :=
  match prec_of (fst a), prec_of (fst b) with
  | Some pa, Some pb =>
      match N.compare pa pb, spec_cmp (snd a) (snd b) with
      | Lt, Lt | Eq, Eq | Gt, Gt => true
      | _, _ => false
      end
  | _, _ => false
  end.

Definition table_matches_spec_b : bool :=
  forallb (fun a => forallb (fun b => pair_ok a b) spec_classes) spec_classes.

Definition arity_ok (a : string * N) : bool :=
  match nargs_of (fst a) with Some n => n =? snd a | None => false end.

Definition table_arity_b : bool := forallb arity_ok spec_arity.

(* Requirements the token post-processing relies on: an operator flagged
   CheckForPostTraverse gets SHORT_PIPE or TRAVERSE_ARRAY inserted after it
   (or after its closing bracket) and must then become the LEFT operand, so
   it has to bind tighter than both. *)
Definition post_traverse_ok (oi : opinfo) : bool :=
  if oi_cpt oi then
    match prec_of "shortPipeOpType", prec_of "traverseArrayOpType" with
    | Some sp, Some ta => (sp <? oi_prec oi) && (ta <? oi_prec oi)
    | _, _ => false
    end
  else true.

Definition table_post_traverse_b : bool := forallb post_traverse_ok op_table.

(* Every operand-like operator (nullary or prefix function) must bind tighter
   than every infix operator a user can write, otherwise the shunting-yard
   leaves it on the stack when the infix operator arrives and the operands
   end up in the wrong order.  The design puts del() in the comparison
   class, so it is exempt by specification. *)
Definition user_infix : list string := [
  "unionOpType"; "blockOpType"; "createMapOpType"; "orOpType"; "andOpType"; "pipeOpType"; "reduceOpType";
  "assignOpType"; "addAssignOpType"; "subtractAssignOpType"; "multiplyAssignOpType"; "assignVariableOpType";
  "equalsOpType"; "notEqualsOpType"; "compareOpType"; "multiplyOpType"; "divideOpType"; "moduloOpType";
  "addOpType"; "subtractOpType"; "alternativeOpType"; "shortPipeOpType"].

Definition operand_exempt : list string := ["deleteChildOpType"].

Definition operand_ok (oi : opinfo) : bool :=
  if (oi_nargs oi <=? 1) && negb (existsb (fun n => str_eqb (oi_var oi) (str_of_string n)) operand_exempt) then
    forallb (fun n => match prec_of n with Some p => p <? oi_prec oi | None => false end) user_infix
  else true.

Definition table_operands_b : bool := forallb operand_ok op_table.
