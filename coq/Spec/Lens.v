(* Spec/Lens.v — the update laws are stated against this small, pure lens:
   [get p] reads the value at a simple path (keys and non-negative indices),
   [put p v] writes it, creating missing maps / sequences and padding
   sequences with null, exactly as a writable traversal followed by
   UpdateFrom does.  [None] = the path is not addressable in this document
   (a non-null scalar, or a container of the wrong kind, lies on the way). *)
From YQ Require Import Base.Str Model.Node Model.Store.

Inductive pstep := SKey (k : str) | SIdx (i : nat).

Fixpoint find_idx (es : list (str * node)) (k : str) : option nat :=
  match es with
  | [] => None
  | (k', _) :: r => if str_eqb k' k then Some O else option_map S (find_idx r k)
  end.

Fixpoint pad_to (items : list (rkey * node)) (n : nat) : list (rkey * node) :=
  match n with
  | O => items
  | S m => pad_to (add_child items None null_node) m
  end.

Fixpoint get (p : list pstep) (n : node) : option node :=
  match p with
  | [] => Some n
  | SKey k :: r =>
      match n with
      | Map es => match find_idx es k with
                  | Some i => match nth_error es i with Some (_, c) => get r c | None => None end
                  | None => None
                  end
      | _ => None
      end
  | SIdx i :: r =>
      match n with
      | Seq items => match nth_error items i with Some (_, c) => get r c | None => None end
      | _ => None
      end
  end.

Fixpoint put (p : list pstep) (v : node) (n : node) : option node :=
  match p with
  | [] => Some v
  | SKey k :: r =>
      let on_map es :=
        match find_idx es k with
        | Some i =>
            match nth_error es i with
            | Some (k', c) => option_map (fun c' => Map (upd_nth es i (fun _ => (k', c')))) (put r v c)
            | None => None
            end
        | None => option_map (fun c' => Map (es ++ [(k, c')])) (put r v null_node)
        end in
      match n with
      | Map es => on_map es
      | Scalar TNull _ => on_map []
      | _ => None
      end
  | SIdx i :: r =>
      let on_seq items :=
        let items' := pad_to items (S i - length items) in
        match nth_error items' i with
        | Some (k, c) => option_map (fun c' => Seq (upd_nth items' i (fun _ => (k, c')))) (put r v c)
        | None => None
        end in
      match n with
      | Seq items => on_seq items
      | Scalar TNull _ => on_seq []
      | _ => None
      end
  end.

(* neither path is a prefix of the other *)
Fixpoint pstep_eqb (a b : pstep) : bool :=
  match a, b with
  | SKey x, SKey y => str_eqb x y
  | SIdx i, SIdx j => Nat.eqb i j
  | _, _ => false
  end.

Fixpoint incomparable (p q : list pstep) : bool :=
  match p, q with
  | a :: p', b :: q' => if pstep_eqb a b then incomparable p' q' else true
  | _, _ => false
  end.

(* observable used by the correspondence check: the document after `p = v` *)
Definition put_run (p : list pstep) (v doc : node) : str :=
  match put p v doc with
  | Some n => [79; 75; 10] ++ ser_node n ++ [10]
  | None => [78; 65]
  end.
