(* Spec/XmlSpec.v — what a stream of XML tokens means as a yq document.

   An ordered element tree (name, attributes, character data chunks in front
   of the child elements, children in document order; same-named siblings may
   be adjacent or separated by others) denotes:
     - null / the text, when it has neither attributes nor children;
     - otherwise a map: the text under the content name (if any), then one
       entry per distinct key in order of FIRST occurrence (attributes under
       prefix + name first, as they come with the start tag, then element
       names); a key that occurs once holds the value of that attribute /
       child, a key that occurs several times the sequence of the values in
       document order.
   The grouping is stated twice: as the function [add_all] (Model/Xml.v) and
   by its two characteristic properties, proved in Proofs/XmlProofs.v. *)
From YQ Require Import Base.Str Model.Xml.

Inductive otree := ONode (name : xname) (attrs : list (xname * str)) (texts : list str) (kids : list otree).

Definition oname (t : otree) : xname := match t with ONode nm _ _ _ => nm end.

Fixpoint toks_of (t : otree) : list xtok :=
  match t with
  | ONode nm attrs texts kids => TStart nm attrs :: List.map TChar texts ++ flat_map toks_of kids ++ [TEnd nm]
  end.

(* values with key k, in order *)
Definition values_of {A : Type} (k : str) (kvs : list (str * A)) : list A :=
  List.map snd (filter (fun kv => str_eqb (fst kv) k) kvs).

(* the keys in order of first occurrence *)
Fixpoint first_keys (seen ks : list str) : list str :=
  match ks with
  | [] => []
  | k :: r => if existsb (str_eqb k) seen then first_keys seen r else k :: first_keys (k :: seen) r
  end.

Definition nonempty (s : str) : bool := match s with [] => false | _ => true end.

Section XmlSpec.
  Variable trim : str -> str.
  Variable P : xprefs.

  Definition texts_data (texts : list str) : list str := filter nonempty (List.map trim texts).

  Fixpoint val_of (t : otree) : xval :=
    match t with
    | ONode nm attrs texts kids =>
        let entries := List.map (fun a => (attr_key P (fst a), XStr (snd a))) attrs ++
                       List.map (fun k => (elem_label P (oname k), val_of k)) kids in
        match entries with
        | [] => from_data (texts_data texts)
        | _ => XMap ((match texts_data texts with [] => [] | d => [(content_name P, from_data d)] end) ++
                     List.map (fun e => (fst e, group_val (snd e))) (add_all entries []))
        end
    end.

  (* a forest of top-level elements (yq accepts several) *)
  Definition forest_toks (f : list otree) : list xtok := flat_map toks_of f.

  Definition forest_val (f : list otree) : xval :=
    match f with
    | [] => XNull
    | _ => XMap (List.map (fun e => (fst e, group_val (snd e)))
                   (add_all (List.map (fun k => (elem_label P (oname k), val_of k)) f) []))
    end.

  (* ---------- the canonical trees: what the encoder writes and the decoder maps back to the same document ---------- *)
  Inductive ctree := CNode (attrs : list (str * str)) (text : option str) (kids : list (str * list ctree)).

  Fixpoint cval (t : ctree) : xval :=
    match t with
    | CNode attrs text kids =>
        match attrs, kids with
        | [], [] => match text with Some s => XStr s | None => XNull end
        | _, _ =>
            XMap ((match text with Some s => [(content_name P, XStr s)] | None => [] end) ++
                  List.map (fun a => (attr_prefix P ++ fst a, XStr (snd a))) attrs ++
                  List.map (fun g => (fst g, group_val (List.map cval (snd g)))) kids)
        end
    end.

  Definition cdoc (f : list (str * list ctree)) : xval :=
    XMap (List.map (fun g => (fst g, group_val (List.map cval (snd g)))) f).
End XmlSpec.
