(* Spec/PrecRaw.v — the grammar of Spec/PrecGrammar.v as the RAW token list
   the lexer hands to postProcessTokens: the implicit operators are absent.
     a.b    is  a followed directly by the path token .b   (SHORT_PIPE implicit)
     a[i]   is  a [ i ]                                    (TRAVERSE_ARRAY implicit)
   [cptf o] is the CheckForPostTraverse flag of the token the lexer builds
   for operation o (a parameter: the statements hold for every assignment).
   Not covered here (correspondence-tested only): `.[` forms, empty [] {} ,
   slices, and the `x =` fusion of assignable operators. *)
From YQ Require Import Base.Str Gen.OpTable Model.Postfix Model.Tree Model.PostProcess Spec.PrecGrammar.
Open Scope N_scope.

Section Raw.
Variable cptf : op -> bool.

Definition rleaf (o : op) : rtok := ROp o None (cptf o).

(* SHORT_PIPE has no lexeme of its own: it only ever appears by insertion *)
Definition is_sp (o : op) : bool := str_eqb (o_type o) (o_type short_pipe_op).

Fixpoint rrender (e : pexpr) : list rtok :=
  match e with
  | PLeaf o => [rleaf o]
  | PUn f x => rleaf f :: ROpen BParen :: rrender x ++ [RClose BParen false]
  | PBin o a b => if is_sp o then rrender a ++ rrender b else rrender a ++ rleaf o :: rrender b
  | PParen a => ROpen BParen :: rrender a ++ [RClose BParen false]
  | PCollect a opt => ROpen BCollect :: rrender a ++ [RClose BCollect opt]
  | PObject a => ROpen BObject :: rrender a ++ [RClose BObject false]
  | PIndex _ a i opt => rrender a ++ ROpen BCollect :: rrender i ++ [RClose BCollect opt]
  end.

Fixpoint firstr (e : pexpr) : rtok :=
  match e with
  | PLeaf o => rleaf o
  | PUn f _ => rleaf f
  | PBin _ a _ => firstr a
  | PParen _ => ROpen BParen
  | PCollect _ _ => ROpen BCollect
  | PObject _ => ROpen BObject
  | PIndex _ a _ _ => firstr a
  end.

Fixpoint lastr (e : pexpr) : rtok :=
  match e with
  | PLeaf o => rleaf o
  | PUn _ _ => RClose BParen false
  | PBin _ _ b => lastr b
  | PParen _ => RClose BParen false
  | PCollect _ opt => RClose BCollect opt
  | PObject _ => RClose BObject false
  | PIndex _ _ _ opt => RClose BCollect opt
  end.

(* the raw spelling is one the post-processing turns into [render e]:
   implicit operators exactly where the lexer's flags make handleToken insert
   them, and nowhere else *)
Fixpoint rok (e : pexpr) : Prop :=
  match e with
  | PLeaf o => type_is create_map_type o = false
  | PUn f x => type_is create_map_type f = false /\ rok x
  | PBin o a b =>
      rok a /\ rok b /\
      (if is_sp o
       then o = short_pipe_inserted /\ rtok_cpt (lastr a) = true /\
            rtok_is_op traverse_path_type (firstr b) = true
       else cptf o = false /\ type_is traverse_path_type o = false)
  | PParen a => rok a
  | PCollect a _ => rok a
  | PObject a => rok a
  | PIndex ta a i _ => rok a /\ rok i /\ ta = ta_inserted_post /\ rtok_cpt (lastr a) = true
  end.

End Raw.
