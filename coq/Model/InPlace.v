(* Model/InPlace.v -- the in-place write protocol of yq (-i) as an executable
   machine over an abstract file system.  No proofs here.

   Mirrors, function by function:
     cmd/evaluate_sequence_command.go : evaluateSequence (and evaluateAll, same shape)
     pkg/yqlib/write_in_place_handler.go : CreateTempFile, FinishWriteInPlace
     pkg/yqlib/file_utils.go : tryRenameFile, copyFileContents, tryRemoveTempFile
     pkg/yqlib/printer.go : PrintResults (per result: encode into the bufio writer, flush; appendix)
     pkg/yqlib/front_matter.go : Split

   A step is either a hook point of the verif build (H..., the verifPoint
   calls of commit 64a510a, in protocol order) or an operating-system
   operation (O...).  A schedule gives every step an action:
     Ok            the step happens
     Fail n        H step: verifPoint returns an error (handled as the Go code does);
                   O step: the operation fails; an all-or-nothing operation has no effect,
                   a data transfer has written its first n bytes
     CrashBefore   the process is killed before the step
     CrashDuring n killed after n bytes of a data transfer (= CrashBefore for all-or-nothing steps)
     CrashAfter    killed right after the step took effect
   The evaluator itself (decode, evaluate, encode) is abstracted by a plan:
   the byte chunks handed to the printer, call by call, and how the run ends. *)
From Coq Require Import List NArith Bool Arith.
From YQ Require Import Base.Str.
Import ListNotations.

Definition bytes := str.

(* ------------------------------------------------------------------ *)
(* abstract file system: path |-> bytes x mode; two paths matter       *)
Record file := mkFile { f_bytes : bytes ; f_mode : N }.
Record fsys := mkFs { fs_target : option file ; fs_temp : option file }.

Inductive step :=
| HCreateTemp | OMkTemp | HStatTarget | OStat | HChmodTemp | OChmod | HChownTemp | OChown
| OFmSplit
| HPrintNode (k : nat) | OEncode (k : nat) | HPrintedNode (k : nat) | OFlush (k : nat)
| OAppendix
| HFinishBeforeClose | OCloseTemp | HFinishAfterClose | ORemoveDiscard
| HBeforeRename | ORename
| HCopyOpenSrc | OOpenSrc | HCopyCreateDst | OCreateDst | HCopyAfterTruncate | OCopyData
| HCopyBeforeSync | OSync | HCopyDoneBeforeRemove | ORemoveTemp | HAfterRename.

Inductive action := Ok | Fail (n : nat) | CrashBefore | CrashDuring (n : nat) | CrashAfter.
Definition schedule := step -> action.

(* numeric code of a step: (tag, index); hook points have tags 1..15 in protocol order *)
Definition step_code (x : step) : N * nat :=
  match x with
  | HCreateTemp => (1, O) | HStatTarget => (2, O) | HChmodTemp => (3, O) | HChownTemp => (4, O)
  | HPrintNode k => (5, k) | HPrintedNode k => (6, k)
  | HFinishBeforeClose => (7, O) | HFinishAfterClose => (8, O) | HBeforeRename => (9, O)
  | HCopyOpenSrc => (10, O) | HCopyCreateDst => (11, O) | HCopyAfterTruncate => (12, O)
  | HCopyBeforeSync => (13, O) | HCopyDoneBeforeRemove => (14, O) | HAfterRename => (15, O)
  | OMkTemp => (101, O) | OStat => (102, O) | OChmod => (103, O) | OChown => (104, O)
  | OFmSplit => (105, O) | OEncode k => (106, k) | OFlush k => (107, k) | OAppendix => (108, O)
  | OCloseTemp => (109, O) | ORemoveDiscard => (110, O) | ORename => (111, O) | OOpenSrc => (112, O)
  | OCreateDst => (113, O) | OCopyData => (114, O) | OSync => (115, O) | ORemoveTemp => (116, O)
  end.

Definition step_eqb (a b : step) : bool :=
  (fst (step_code a) =? fst (step_code b))%N && Nat.eqb (snd (step_code a)) (snd (step_code b)).

Definition is_hook (x : step) : bool := (fst (step_code x) <? 100)%N.

(* ------------------------------------------------------------------ *)
(* machine state and results                                           *)
Record st := mkSt {
  s_fs : fsys ;
  s_buf : bytes ;          (* bufio.Writer contents not yet written to the temp file *)
  s_appx : bytes ;         (* unread rest of the front-matter reader *)
  s_trace : list step      (* steps that happened, most recent first *)
}.

Inductive res (A : Type) :=
| Ret (a : A) (s : st)     (* returned normally *)
| Err (s : st)             (* returned a Go error *)
| Dead (s : st)            (* process killed *)
| Pan (s : st).            (* Go panic unwinding *)
Arguments Ret {A} _ _. Arguments Err {A} _. Arguments Dead {A} _. Arguments Pan {A} _.

Definition ret {A} (a : A) : st -> res A := fun s => Ret a s.
Definition bind {A B} (m : st -> res A) (f : A -> st -> res B) : st -> res B :=
  fun s => match m s with
           | Ret a s' => f a s'
           | Err s' => Err s' | Dead s' => Dead s' | Pan s' => Pan s'
           end.
Definition seq {A B} (m : st -> res A) (k : st -> res B) : st -> res B := bind m (fun _ => k).
Infix ";;" := seq (at level 61, right associativity).

(* Go code that logs an error and carries on *)
Definition ignore_err (m : st -> res unit) : st -> res unit :=
  fun s => match m s with Err s' => Ret tt s' | r => r end.

Definition log (x : step) (s : st) : st := mkSt (s_fs s) (s_buf s) (s_appx s) (x :: s_trace s).

Definition hook (sch : schedule) (h : step) : st -> res unit :=
  fun s => let s' := log h s in
           match sch h with Ok => Ret tt s' | Fail _ => Err s' | _ => Dead s' end.

(* all-or-nothing operation; eff = None: impossible in this state (ENOENT ...) *)
Definition atomic_op {A} (sch : schedule) (o : step) (eff : st -> option (A * st)) : st -> res A :=
  fun s => match sch o with
           | Ok => match eff s with Some (a, s') => Ret a (log o s') | None => Err s end
           | Fail _ => Err s
           | CrashBefore | CrashDuring _ => Dead s
           | CrashAfter => match eff s with Some (_, s') => Dead (log o s') | None => Dead s end
           end.

(* data transfer of (len s) bytes; eff n = state after the first n bytes *)
Definition data_op (sch : schedule) (o : step) (len : st -> nat) (eff : nat -> st -> st) : st -> res unit :=
  fun s => match sch o with
           | Ok => Ret tt (log o (eff (len s) s))
           | Fail n => Err (log o (eff (Nat.min n (len s)) s))
           | CrashBefore => Dead s
           | CrashDuring n => Dead (log o (eff (Nat.min n (len s)) s))
           | CrashAfter => Dead (log o (eff (len s) s))
           end.

(* file-system updates *)
Definition with_fs (f : fsys -> fsys) (s : st) : st := mkSt (f (s_fs s)) (s_buf s) (s_appx s) (s_trace s).
Definition set_temp (t : option file) : st -> st := with_fs (fun fs => mkFs (fs_target fs) t).
Definition set_target (t : option file) : st -> st := with_fs (fun fs => mkFs t (fs_temp fs)).
Definition temp_append (b : bytes) (s : st) : st :=
  match fs_temp (s_fs s) with
  | Some f => set_temp (Some (mkFile (f_bytes f ++ b) (f_mode f))) s
  | None => s
  end.
Definition temp_bytes (s : st) : bytes :=
  match fs_temp (s_fs s) with Some f => f_bytes f | None => [] end.
Definition noeff (s : st) : option (unit * st) := Some (tt, s).

(* ------------------------------------------------------------------ *)
(* write_in_place_handler.go: CreateTempFile                            *)
Definition default_temp_mode : N := 384.   (* 0600, os.CreateTemp *)
Definition default_create_mode : N := 420. (* 0644, os.Create of a missing file under umask 022 *)

Definition remove_temp_eff (s : st) : option (unit * st) := Some (tt, set_temp None s).

(* safelyCloseFile; tryRemoveTempFile: both only log their errors *)
Definition cleanup_temp (sch : schedule) : st -> res unit :=
  ignore_err (atomic_op sch OCloseTemp noeff) ;;
  ignore_err (atomic_op sch ORemoveDiscard remove_temp_eff).

(* the deferred function of CreateTempFile (since /repo d27ead5): on an error
   after the temp file exists it is closed and removed; the error is kept *)
Definition with_cleanup (sch : schedule) (m : st -> res unit) : st -> res unit :=
  fun s => match m s with
           | Err s' => match cleanup_temp sch s' with
                       | Dead s'' => Dead s''
                       | Pan s'' => Pan s''
                       | Ret _ s'' | Err s'' => Err s''
                       end
           | r => r
           end.

Definition prepare_temp (sch : schedule) : st -> res unit :=
  hook sch HStatTarget ;;
  bind (atomic_op sch OStat (fun s => match fs_target (s_fs s) with
                                      | Some f => Some (f_mode f, s) | None => None end))
  (fun mode =>
  (* owner first, then mode (a chown clears setuid / setgid); chown_linux.go: a failing chown is
     logged and ignored; ownership is not modelled *)
  hook sch HChownTemp ;;
  ignore_err (atomic_op sch OChown noeff) ;;
  hook sch HChmodTemp ;;
  atomic_op sch OChmod (fun s => match fs_temp (s_fs s) with
                                 | Some f => Some (tt, set_temp (Some (mkFile (f_bytes f) mode)) s)
                                 | None => None end)).

Definition CreateTempFile (sch : schedule) : st -> res unit :=
  hook sch HCreateTemp ;;
  atomic_op sch OMkTemp (fun s => Some (tt, set_temp (Some (mkFile [] default_temp_mode)) s)) ;;
  with_cleanup sch (prepare_temp sch).

(* ------------------------------------------------------------------ *)
(* printer.go: PrintResults                                             *)
Definition spill (n : nat) (s : st) : st :=   (* the first n buffered bytes reach the temp file *)
  let s' := temp_append (firstn n (s_buf s)) s in
  mkSt (s_fs s') (skipn n (s_buf s)) (s_appx s') (s_trace s').
Definition buf_append (c : bytes) (s : st) : st := mkSt (s_fs s) (s_buf s ++ c) (s_appx s) (s_trace s).

(* encoder.Encode into the buffered writer: on success everything is buffered;
   on failure/kill any prefix of buffer ++ chunk may already be on disk *)
Definition op_encode (sch : schedule) (k : nat) (c : bytes) : st -> res unit :=
  fun s => match sch (OEncode k) with
           | Ok => Ret tt (log (OEncode k) (buf_append c s))
           | Fail n => Err (log (OEncode k) (spill n (buf_append c s)))
           | CrashBefore => Dead s
           | CrashDuring n => Dead (log (OEncode k) (spill n (buf_append c s)))
           | CrashAfter => Dead (log (OEncode k) (buf_append c s))
           end.

Definition op_flush (sch : schedule) (k : nat) : st -> res unit :=
  data_op sch (OFlush k) (fun s => length (s_buf s)) spill.

Fixpoint print_chunks (sch : schedule) (cs : list bytes) (k : nat) : st -> res nat :=
  match cs with
  | [] => ret k
  | c :: cs' =>
      hook sch (HPrintNode k) ;;
      op_encode sch k c ;;
      hook sch (HPrintedNode k) ;;
      op_flush sch k ;;
      print_chunks sch cs' (S k)
  end.

(* io.Copy(writer, appendixReader); writer.Flush() *)
Definition op_appendix (sch : schedule) : st -> res unit :=
  data_op sch OAppendix (fun s => length (s_appx s))
    (fun n s => let s' := temp_append (firstn n (s_appx s)) s in
                mkSt (s_fs s') (s_buf s') (skipn n (s_appx s)) (s_trace s')).

(* an empty result list prints nothing but the appendix is still copied (since /repo a2f5710) *)
Definition print_results (sch : schedule) (fm_process : bool) (cs : list bytes) (k : nat) : st -> res nat :=
  bind (print_chunks sch cs k)
    (fun k' => if fm_process then op_appendix sch ;; ret k' else ret k').

Fixpoint eval_calls (sch : schedule) (fm_process : bool) (calls : list (list bytes)) (k : nat) : st -> res nat :=
  match calls with
  | [] => ret k
  | c :: cs => bind (print_results sch fm_process c k) (fun k' => eval_calls sch fm_process cs k')
  end.

(* ------------------------------------------------------------------ *)
(* file_utils.go                                                        *)
Definition copyFileContents (sch : schedule) : st -> res unit :=
  hook sch HCopyOpenSrc ;;
  atomic_op sch OOpenSrc (fun s => match fs_temp (s_fs s) with Some _ => Some (tt, s) | None => None end) ;;
  hook sch HCopyCreateDst ;;
  (* os.Create(dst): O_TRUNC on the existing file, mode kept *)
  atomic_op sch OCreateDst (fun s =>
     let m := match fs_target (s_fs s) with Some f => f_mode f | None => default_create_mode end in
     Some (tt, set_target (Some (mkFile [] m)) s)) ;;
  hook sch HCopyAfterTruncate ;;
  data_op sch OCopyData (fun s => length (temp_bytes s))
    (fun n s => match fs_target (s_fs s) with
                | Some f => set_target (Some (mkFile (firstn n (temp_bytes s)) (f_mode f))) s
                | None => s end) ;;
  hook sch HCopyBeforeSync ;;
  atomic_op sch OSync noeff.
  (* the deferred Close calls only log their errors: no step *)

Definition rename_eff (s : st) : option (unit * st) :=
  match fs_temp (s_fs s) with
  | Some f => Some (tt, with_fs (fun _ => mkFs (Some f) None) s)
  | None => None
  end.

Definition tryRenameFile (cross : bool) (sch : schedule) : st -> res unit :=
  hook sch HBeforeRename ;;
  fun s =>
    (* os.Rename: across devices it fails (EXDEV) without effect *)
    match atomic_op sch ORename (if cross then (fun _ => None) else rename_eff) s with
    | Ret _ s' => hook sch HAfterRename s'
    | Err s' =>
        (copyFileContents sch ;;
         hook sch HCopyDoneBeforeRemove ;;
         ignore_err (atomic_op sch ORemoveTemp remove_temp_eff) ;;
         hook sch HAfterRename) s'
    | Dead s' => Dead s'
    | Pan s' => Pan s'
    end.

Definition FinishWriteInPlace (cross : bool) (sch : schedule) (evaluatedSuccessfully : bool) : st -> res unit :=
  hook sch HFinishBeforeClose ;;
  ignore_err (atomic_op sch OCloseTemp noeff) ;;      (* safelyCloseFile: error only logged *)
  hook sch HFinishAfterClose ;;
  if evaluatedSuccessfully then tryRenameFile cross sch
  else ignore_err (atomic_op sch ORemoveDiscard remove_temp_eff).

(* ------------------------------------------------------------------ *)
(* front_matter.go: Split.  Lines are read while at least 3 bytes remain and
   (first line, or the next 3 bytes are not ---); the rest is the appendix. *)
Fixpoint take_line (b : bytes) : bytes * bytes :=
  match b with
  | [] => ([], [])
  | c :: b' => if (c =? 10)%N then ([c], b') else let (l, r) := take_line b' in (c :: l, r)
  end.

Fixpoint fm_split_fuel (fuel : nat) (first : bool) (b : bytes) : bytes * bytes :=
  match fuel with
  | O => ([], b)
  | S fuel' =>
      if Nat.ltb (length b) 3 then ([], b)
      else if negb first && str_eqb (firstn 3 b) [45; 45; 45] then ([], b)
      else let (l, r) := take_line b in
           let (y, t) := fm_split_fuel fuel' false r in (l ++ y, t)
  end.
Definition fm_split (b : bytes) : bytes * bytes := fm_split_fuel (S (length b)) true b.

(* ------------------------------------------------------------------ *)
(* the command: evaluateSequence / evaluateAll                          *)
Inductive ending := Done | Failed | Panicked.
Inductive fm_mode := FmNone | FmExtract | FmProcess.

Record plan := mkPlan {
  pl_init_ok : bool ;                (* initCommand succeeded (nothing touched before) *)
  pl_config : ending ;               (* format / printer writer / encoder / decoder configuration *)
  pl_calls : list (list bytes) ;     (* PrintResults calls in order, each with the encoded results *)
  pl_end : ending ;                  (* how EvaluateFiles ended after those calls *)
  pl_e_fail : bool                   (* -e given and nothing but null/false printed *)
}.

Record config := mkCfg { cfg_cross : bool ; cfg_fm : fm_mode }.

Definition is_process (c : config) : bool := match cfg_fm c with FmProcess => true | _ => false end.
Definition uses_fm (c : config) : bool := match cfg_fm c with FmNone => false | _ => true end.

Definition finish_ending {A} (e : ending) (ok : st -> res A) : st -> res A :=
  fun s => match e with Done => ok s | Failed => Err s | Panicked => Pan s end.

(* the part of evaluateSequence after the deferred function is registered;
   returns the value of completedSuccessfully when cmdError is nil *)
Definition body (cfg : config) (sch : schedule) (pl : plan) : st -> res bool :=
  finish_ending (pl_config pl)
   ((if uses_fm cfg then atomic_op sch OFmSplit noeff else ret tt) ;;
    bind (eval_calls sch (is_process cfg) (pl_calls pl) 1)
      (fun _ => finish_ending (pl_end pl)
                  (fun s => if pl_e_fail pl then Err s   (* errors.New no matches found *)
                            else Ret true s))).

Inductive outcome := Exited (code : N) (s : st) | Killed (s : st).

Definition init_state (cfg : config) (old : file) : st :=
  mkSt (mkFs (Some old) None) []
       (if is_process cfg then snd (fm_split (f_bytes old)) else []) [].

Definition run (cfg : config) (sch : schedule) (pl : plan) (old : file) : outcome :=
  let s0 := init_state cfg old in
  if negb (pl_init_ok pl) then Exited 1 s0 else
  match CreateTempFile sch s0 with
  | Err s => Exited 1 s
  | Dead s => Killed s
  | Pan s => Exited 2 s
  | Ret _ s =>
      (* defer func() { if cmdError == nil { cmdError = FinishWriteInPlace(completedSuccessfully) } else { _ = FinishWriteInPlace(false) } }() *)
      match body cfg sch pl s with
      | Dead s' => Killed s'
      | Err s' =>
          (* cmdError != nil: the temp file is discarded, the error is kept (since /repo d27ead5) *)
          match FinishWriteInPlace (cfg_cross cfg) sch false s' with
          | Dead s'' => Killed s''
          | Ret _ s'' | Err s'' | Pan s'' => Exited 1 s''
          end
      | Ret completed s' =>
          match FinishWriteInPlace (cfg_cross cfg) sch completed s' with
          | Ret _ s'' => Exited 0 s''
          | Err s'' => Exited 1 s''
          | Dead s'' => Killed s''
          | Pan s'' => Exited 2 s''
          end
      | Pan s' =>
          (* unwinding runs the deferred function: cmdError is nil and
             completedSuccessfully still false; then the runtime exits with status 2 *)
          match FinishWriteInPlace (cfg_cross cfg) sch false s' with
          | Dead s'' => Killed s''
          | Ret _ s'' | Err s'' | Pan s'' => Exited 2 s''
          end
      end
  end.

(* what the same command without -i writes to stdout (same PrintResults calls) *)
Fixpoint out_calls (fm_process : bool) (appx : bytes) (calls : list (list bytes)) : bytes :=
  match calls with
  | [] => []
  | c :: cs => concat c ++ (if fm_process then appx else []) ++ out_calls fm_process [] cs
  end.

Definition new_bytes (cfg : config) (pl : plan) (old : file) : bytes :=
  out_calls (is_process cfg) (if is_process cfg then snd (fm_split (f_bytes old)) else []) (pl_calls pl).
Definition new_file (cfg : config) (pl : plan) (old : file) : file :=
  mkFile (new_bytes cfg pl old) (f_mode old).

Definition plan_ok (pl : plan) : Prop :=
  pl_init_ok pl = true /\ pl_config pl = Done /\ pl_end pl = Done /\ pl_e_fail pl = false.

Definition final_state (o : outcome) : st := match o with Exited _ s | Killed s => s end.
Definition final_target (o : outcome) : option file := fs_target (s_fs (final_state o)).
Definition final_trace (o : outcome) : list step := s_trace (final_state o).

(* ------------------------------------------------------------------ *)
(* interface for the correspondence check                               *)
Fixpoint sched_of (l : list (step * action)) : schedule :=
  fun x => match l with
           | [] => Ok
           | (y, a) :: l' => if step_eqb x y then a else sched_of l' x
           end.

Definition fm_of_N (n : N) : fm_mode := if (n =? 1)%N then FmExtract else if (n =? 2)%N then FmProcess else FmNone.

(* [exit class; target present; mode; temp present; number of hook points; hook codes (oldest first) ...; target bytes ...]
   exit class: 0, 1, 2 = exit status, 9 = killed *)
Definition obs (o : outcome) : list N :=
  let s := final_state o in
  let cls := match o with Exited c _ => c | Killed _ => 9%N end in
  let hooks := List.map (fun x => fst (step_code x)) (List.filter is_hook (List.rev (s_trace s))) in
  let tp := match fs_temp (s_fs s) with Some _ => 1%N | None => 0%N end in
  match fs_target (s_fs s) with
  | Some f => cls :: 1%N :: f_mode f :: tp :: N.of_nat (length hooks) :: hooks ++ f_bytes f
  | None => cls :: 0%N :: 0%N :: tp :: N.of_nat (length hooks) :: hooks
  end.

(* bytes relative to two reference strings (keeps the case files small; injective for fixed old/ref) *)
Definition compress (old ref b : bytes) : list N :=
  if str_eqb b old then [0%N] else if str_eqb b ref then [1%N] else 2%N :: b.

Definition obs_c (old ref : bytes) (o : outcome) : list N :=
  let s := final_state o in
  let cls := match o with Exited c _ => c | Killed _ => 9%N end in
  let hooks := List.map (fun x => fst (step_code x)) (List.filter is_hook (List.rev (s_trace s))) in
  let tp := match fs_temp (s_fs s) with Some _ => 1%N | None => 0%N end in
  match fs_target (s_fs s) with
  | Some f => cls :: 1%N :: f_mode f :: tp :: N.of_nat (length hooks) :: hooks ++ compress old ref (f_bytes f)
  | None => cls :: 0%N :: 0%N :: tp :: N.of_nat (length hooks) :: hooks
  end.

Definition c12_case (c : (bool * N) * list (step * action) * plan * (bytes * N) * bytes) : list N :=
  match c with
  | (cross, fm, flt, pl, (oldb, mode), ref) =>
      obs_c oldb ref (run (mkCfg cross (fm_of_N fm)) (sched_of flt) pl (mkFile oldb mode))
  end.

(* the same without the hook trace (runs under a file size limit: which of encode / flush hits the limit
   depends on the 4096-byte buffering inside the encoder, the outcome does not) *)
Definition c12_case_nt (c : (bool * N) * list (step * action) * plan * (bytes * N) * bytes) : list N :=
  match c12_case c with
  | cls :: present :: mode :: tp :: nh :: rest => cls :: present :: mode :: tp :: skipn (N.to_nat nh) rest
  | l => l
  end.
