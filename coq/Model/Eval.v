(* Model/Eval.v — executable model of yq's tree-walking evaluator in stream
   mode (one document, EvaluateTogether = false), handler by handler as in
   pkg/yqlib/operator_*.go.  A context is the ordered list of pointers, the
   variables, and the DontAutoCreate flag [ro].  Every handler threads the
   store, because traversal can vivify keys, pad sequences, re-type nulls,
   and flatten / assignment / delete mutate in place.
   Unsup marks inputs outside the modelled fragment (floats in arithmetic,
   glob patterns, hex spellings ...): the correspondence check skips them.
   No proofs here. *)
From YQ Require Import Base.Str Model.Node Model.Store Spec.MergeSpec.
From YQ Require Model.Bounds.
From Coq Require Import ZArith.

Inductive binop :=
| OAdd | OSub | OMul | OMod | OEq | ONe | OLt | OLe | OGt | OGe | OAnd | OOr | OAlt | OContains
| OMulF (fl : N).      (* `*` with merge flags: bit 0 `+`, bit 1 `d`, bit 2 `?`, bit 3 `n` *)

Inductive expr :=
| ESelf
| ELit (t : tag) (v : str)
| EKey (k : str)                               (* .k *)
| EIndex (l : expr) (idx : option expr)        (* l[idx]   (None: splat l[]) *)
| ESlice (l a b : expr)                        (* l[a:b] *)
| ERecurse                                     (* .. *)
| EPipe (l r : expr)
| EUnion (l r : expr)
| ECollect (e : option expr)                   (* [e]  /  [] *)
| EBin (o : binop) (l r : expr)
| ENot
| ESelect (e : expr)
| EMap (e : expr)
| EFilter (e : expr)
| ELength
| EKeys
| EHas (e : expr)
| EToEntries
| EFromEntries
| EWithEntries (e : expr)
| EReverse
| EUniqueBy (e : expr)                         (* unique = unique_by(.) *)
| EGroupBy (e : expr)
| EFlatten (depth : Z)                         (* flatten = flatten(-1) *)
| EAny | EAll
| EAnyC (e : expr) | EAllC (e : expr)
| EJoin (e : expr)
| ESplit (e : expr)
| EAs (src : expr) (x : str) (body : expr)     (* src as $x | body *)
| EVar (x : str)
| EReduce (src : expr) (x : str) (init body : expr)
| ESortBy (e : expr)                           (* sort = sort_by(.) *)
| EPath
| EGetKey
| EParent
| EAssign (l r : expr)                         (* l = r *)
| EUpdate (l r : expr)                         (* l |= r *)
| ECompound (o : binop) (l r : expr)           (* l o= r *)
| EDel (e : expr)
| EObject (entries : list (expr * expr))    (* {k1: v1, k2: v2, ...} *)
| EEmpty.

Definition vars := list (str * list ptr).

Fixpoint lookup_var (vs : vars) (x : str) : list ptr :=
  match vs with
  | [] => []
  | (y, v) :: r => if str_eqb x y then v else lookup_var r x
  end.

Definition out := (list ptr * store)%type.

Fixpoint each {A} (f : A -> store -> res out) (l : list A) (st : store) : res out :=
  match l with
  | [] => Ok ([], st)
  | x :: r =>
      let* o1 := f x st in
      let* o2 := each f r (snd o1) in
      Ok (fst o1 ++ fst o2, snd o2)
  end.

Definition deref_r (st : store) (p : ptr) : res node := of_option (deref st p).

(* allocate a node that claims src's place (CreateReplacement / CopyAsReplacement) *)
Definition alloc_repl (st : store) (src : ptr) (body : node) : ptr * store :=
  alloc st (replacement_root st src body).
Definition alloc_fresh (st : store) (body : node) : ptr * store :=
  alloc st (fresh_root body).

Definition one (ps : ptr * store) : res out := Ok ([fst ps], snd ps).

(* createBooleanCandidate(owner, b) *)
Definition mk_bool (st : store) (owner : option ptr) (b : bool) : res out :=
  match owner with
  | Some o => one (alloc_repl st o (bool_node b))
  | None => one (alloc_fresh st (bool_node b))
  end.

(* ---------- traversal (operator_traverse_path.go) ---------- *)
Fixpoint find_key (es : list (str * node)) (k : str) (i : nat) : list nat :=
  match es with
  | [] => []
  | (k', _) :: r => if str_eqb k' k then i :: find_key r k (S i) else find_key r k (S i)
  end.

(* matchKey(name, pattern): Model/Bounds.v models matchKeyString.go line by line (C11 proves it total:
   the non-Ok branch below is unreachable, see C11_match_key_total) *)
Definition glob_match (name pat : str) : res bool :=
  match Bounds.match_key name pat with Bounds.Ok b => Ok b | _ => Unsup end.

Fixpoint find_glob (es : list (str * node)) (pat : str) (i : nat) : res (list nat) :=
  match es with
  | [] => Ok []
  | (k', _) :: r =>
      let* b := glob_match k' pat in
      let* t := find_glob r pat (S i) in
      Ok (if b then i :: t else t)
  end.

(* a pattern selects every matching key in document order; with no match it is auto-created literally *)
Definition trav_map_pat (ro : bool) (k : str) (p : ptr) (es : list (str * node)) (st : store) : res out :=
  let* idxs := find_glob es k O in
  match idxs with
  | [] =>
      if ro then Ok ([], st)
      else
        let st' := update st p (fun _ => Map (es ++ [(k, null_node)])) in
        Ok ([(fst p, snd p ++ [length es])], st')
  | _ => Ok (map (fun i => (fst p, snd p ++ [i])) idxs, st)
  end.

(* on a key without * and ? the pattern branch is this exact-key branch (Proofs/GlobProofs.v, trav_map_one_definition) *)
Definition trav_map (ro : bool) (k : str) (p : ptr) (es : list (str * node)) (st : store) : res out :=
  if is_wild k then trav_map_pat ro k p es st
  else
  match find_key es k O with
  | [] =>
      if ro then Ok ([], st)
      else
        let st' := update st p (fun _ => Map (es ++ [(k, null_node)])) in
        Ok ([(fst p, snd p ++ [length es])], st')
  | i :: _ =>
      (* duplicate keys collapse on GetKey(); the JSON-model fragment has none *)
      Ok ([(fst p, snd p ++ [i])], st)
  end.

Definition Z_of_index (s : str) : res Z :=
  if special_int_spelling s then Unsup else
  match parse_dec s with
  | Some z => if in_int64 z then Ok z else Err
  | None => Err
  end.

Fixpoint pad_nulls (items : list (rkey * node)) (n : nat) : list (rkey * node) :=
  match n with
  | O => items
  | S m => pad_nulls (add_child items None null_node) m
  end.

(* traverseArrayWithIndices for one index.  Writable: pads the sequence with
   nulls up to the index.  Read-only: answers a detached null that claims the
   position, without touching the sequence. *)
Definition trav_index (ro : bool) (p : ptr) (items : list (rkey * node)) (idx : Z) (st : store) : res out :=
  let len := Z.of_nat (length items) in
  if (len <=? idx)%Z then
    if ro then
      one (alloc st (mkRoot (Some (path_of st p)) (Some (RIdx (Z.to_N idx))) null_node))
    else
    if (idx >? 100000)%Z then Unsup else
    let items' := pad_nulls items (Z.to_nat (idx + 1 - len)) in
    Ok ([(fst p, snd p ++ [Z.to_nat idx])], update st p (fun _ => Seq items'))
  else
    let i := if (idx <? 0)%Z then (len + idx)%Z else idx in
    if (i <? 0)%Z then Err else Ok ([(fst p, snd p ++ [Z.to_nat i])], st).

(* traverse(): `.k` applied to one node *)
Definition trav_key (ro : bool) (k : str) (p : ptr) (st : store) : res out :=
  let* n := deref_r st p in
  match n with
  | Scalar TNull _ =>
      if ro then Ok ([], st)
      else
        (* a null met by a writable traversal is re-typed to a map *)
        let st' := update st p (fun _ => Map []) in
        trav_map ro k p [] st'
  | Scalar _ _ => Ok ([], st)
  | Map es => trav_map ro k p es st
  | Seq items =>
      let* z := Z_of_index k in
      trav_index ro p items z st
  end.

(* traverseArrayIndices: `[indices]` applied to one node *)
Definition trav_indices (ro : bool) (idx : list node) (p : ptr) (st : store) : res out :=
  let* n0 := deref_r st p in
  (* a null becomes an empty sequence (a map if the first index is not an
     integer): in place when writable, on a stand-in when read-only *)
  let '(n, st) :=
    match n0 with
    | Scalar TNull _ =>
        let n' := match idx with
                  | Scalar TInt _ :: _ => Seq []
                  | [] => Seq []
                  | _ => Map []
                  end in
        (n', if ro then st else update st p (fun _ => n'))
    | _ => (n0, st)
    end in
  match n with
  | Seq items =>
      match idx with
      | [] => Ok (child_ptrs p n, st)
      | _ =>
          each (fun ix st1 =>
                  let* n1 := if ro then Ok n else deref_r st1 p in
                  match n1, ix with
                  | Seq items1, Scalar _ v => let* z := Z_of_index v in trav_index ro p items1 z st1
                  | _, _ => Unsup
                  end) idx st
      end
  | Map es =>
      match idx with
      | [] => Ok (child_ptrs p n, st)
      | _ =>
          each (fun ix st1 =>
                  let* n1 := if ro then Ok n else deref_r st1 p in
                  match n1, ix with
                  | Map es1, Scalar TStr v => trav_map ro v p es1 st1
                  | _, _ => Unsup      (* non-string keys are outside the JSON-model fragment *)
                  end) idx st
      end
  | Scalar _ _ => Ok ([], st)
  end.

(* ---------- scalar arithmetic (operator_add.go etc.), int/string fragment ---------- *)
Definition int_of (v : str) : res Z :=
  if special_int_spelling v then Unsup else
  match parse_dec v with
  | Some z => if in_int64 z then Ok z else Err
  | None => Err
  end.

Definition int_node (z : Z) : node := Scalar TInt (dec_Z z).

Definition add_scalars (lt : tag) (lv : str) (rt : tag) (rv : str) : res node :=
  match lt, rt with
  | TStr, TNull => Ok (Scalar TStr lv)
  | TStr, _ => Ok (Scalar TStr (lv ++ rv))
  | _, TStr => Ok (Scalar TStr (lv ++ rv))
  | TInt, TInt => let* a := int_of lv in let* b := int_of rv in Ok (int_node (wrap64 (a + b)))
  | TInt, TFloat | TFloat, TInt | TFloat, TFloat => Unsup
  | _, _ => Err
  end.

Definition sub_scalars (lt : tag) (lv : str) (rt : tag) (rv : str) : res node :=
  match lt, rt with
  | TStr, _ => Err
  | TInt, TInt => let* a := int_of lv in let* b := int_of rv in Ok (int_node (wrap64 (a - b)))
  | TInt, TFloat | TFloat, TInt | TFloat, TFloat => Unsup
  | _, _ => Err
  end.

Fixpoint repeat_str (s : str) (n : nat) : str :=
  match n with O => [] | S m => s ++ repeat_str s m end.

Definition mul_scalars (lt : tag) (lv : str) (rt : tag) (rv : str) : res node :=
  match lt, rt with
  | TInt, TInt => let* a := int_of lv in let* b := int_of rv in Ok (int_node (wrap64 (a * b)))
  | TInt, TFloat | TFloat, TInt | TFloat, TFloat => Unsup
  | TStr, TInt =>
      let* c := int_of rv in
      if (c <? 0)%Z then Err else if (c >? 1000)%Z then Unsup else Ok (Scalar TStr (repeat_str lv (Z.to_nat c)))
  | TInt, TStr =>
      let* c := int_of lv in
      if (c <? 0)%Z then Err else if (c >? 1000)%Z then Unsup else Ok (Scalar TStr (repeat_str rv (Z.to_nat c)))
  | _, _ => Err
  end.

(* Go's % truncates towards zero *)
Definition mod_scalars (lt : tag) (lv : str) (rt : tag) (rv : str) : res node :=
  match lt, rt with
  | TInt, TInt =>
      let* a := int_of lv in let* b := int_of rv in
      if (b =? 0)%Z then Err else Ok (int_node (Z.rem a b))
  | TInt, TFloat | TFloat, TInt | TFloat, TFloat => Unsup
  | _, _ => Err
  end.

(* bytewise string comparison *)
Fixpoint str_ltb (a b : str) : bool :=
  match a, b with
  | [], [] => false
  | [], _ :: _ => true
  | _ :: _, [] => false
  | x :: a', y :: b' => if x <? y then true else if y <? x then false else str_ltb a' b'
  end.

(* compareScalars; strings that look like RFC3339 timestamps are outside the fragment *)
Definition looks_like_date (s : str) : bool :=
  match s with
  | a :: b :: c :: d :: 45 :: _ => is_digit a && is_digit b && is_digit c && is_digit d
  | _ => false
  end.

Definition compare_scalars (or_equal greater : bool) (lt : tag) (lv : str) (rt : tag) (rv : str) : res bool :=
  match lt, rt with
  | TInt, TInt =>
      let* a := int_of lv in let* b := int_of rv in
      Ok (if or_equal && (a =? b)%Z then true else if greater then (a >? b)%Z else (a <? b)%Z)
  | TInt, TFloat | TFloat, TInt | TFloat, TFloat => Unsup
  | TStr, TStr =>
      if looks_like_date lv then Unsup else
      Ok (if or_equal && str_eqb lv rv then true else if greater then str_ltb rv lv else str_ltb lv rv)
  | TStr, _ => if looks_like_date lv then Unsup else (match rt with TNull => Ok false | _ => Err end)
  | TNull, TNull => Ok or_equal
  | TNull, _ => Ok false
  | _, TNull => Ok false
  | _, _ => Err
  end.

(* contains() *)
Fixpoint is_infix (needle hay : str) (fuel : nat) : bool :=
  match fuel with
  | O => false
  | S f =>
      (fix pre (a b : str) : bool :=
         match a, b with
         | [], _ => true
         | x :: a', y :: b' => (x =? y) && pre a' b'
         | _, [] => false
         end) needle hay
      || match hay with [] => false | _ :: h' => is_infix needle h' f end
  end.

Fixpoint contains_node (fuel : nat) (l r : node) : bool :=
  match fuel with
  | O => false
  | S f =>
      match l with
      | Map les =>
          match r with
          | Map res =>
              forallb (fun kr =>
                         (fix find (es : list (str * node)) : bool :=
                            match es with
                            | [] => false
                            | (k, v) :: rest => if str_eqb k (fst kr) then contains_node f v (snd kr) else find rest
                            end) les) res
          | _ => false
          end
      | Seq litems =>
          let elem x := existsb (fun li => contains_node f (snd li) x) litems in
          match r with
          | Seq ritems => forallb (fun ri => elem (snd ri)) ritems
          | _ => elem r
          end
      | Scalar lt lv =>
          match r with
          | Scalar rt rv =>
              tag_eqb lt rt &&
              match lt with
              | TNull => true
              | TStr => is_infix rv lv (S (length lv))
              | _ => str_eqb lv rv
              end
          | _ => false
          end
      end
  end.

Fixpoint node_size (n : node) : nat :=
  match n with
  | Scalar _ _ => 1
  | Seq items => S ((fix go (l : list (rkey * node)) : nat := match l with [] => O | (_, x) :: r => (node_size x + go r)%nat end) items)
  | Map es => S ((fix go (l : list (str * node)) : nat := match l with [] => O | (_, x) :: r => (node_size x + go r)%nat end) es)
  end.

(* findKeyInMap by recursiveNodeEqual on !!str keys *)
Fixpoint set_entry (es : list (str * node)) (k : str) (v : node) : option (list (str * node)) :=
  match es with
  | [] => None
  | (k', v') :: r =>
      if str_eqb k' k then Some ((k', v) :: r)
      else option_map (fun r' => (k', v') :: r') (set_entry r k v)
  end.

Fixpoint add_maps (acc : list (str * node)) (res : list (str * node)) : list (str * node) :=
  match res with
  | [] => acc
  | (k, v) :: r =>
      match set_entry acc k v with
      | Some acc' => add_maps acc' r
      | None => add_maps (acc ++ [(k, v)]) r
      end
  end.

(* add(): lhs and rhs are pointers (None = nil); result is a new root *)
Definition add_nodes (st : store) (lp rp : option ptr) : res out :=
  match lp, rp with
  | None, None => Ok ([], st)
  | None, Some r =>
      let* rn := deref_r st r in one (alloc_repl st r rn)          (* rhs.Copy() *)
  | Some l, None =>
      let* ln := deref_r st l in one (alloc_repl st l ln)          (* lhs.Copy() *)
  | Some l, Some r =>
      let* ln := deref_r st l in
      let* rn := deref_r st r in
      match ln with
      | Scalar TNull _ => one (alloc_repl st l rn)                 (* lhs.CopyAsReplacement(rhs) *)
      | Map les =>
          match rn with
          | Map res => one (alloc_repl st l (Map (add_maps les res)))
          | _ => Err
          end
      | Seq litems =>
          (* toNodes(rhs): null adds nothing, a sequence its children, anything else itself (keeping its key) *)
          let extra :=
            match rn with
            | Scalar TNull _ => litems
            | Seq ritems => litems ++ ritems
            | _ => add_child litems (key_of st r) rn
            end in
          one (alloc_repl st l (Seq extra))
      | Scalar lt lv =>
          match rn with
          | Scalar rt rv => let* v := add_scalars lt lv rt rv in one (alloc_repl st l v)
          | _ => Err
          end
      end
  end.

Definition sub_nodes (st : store) (l r : ptr) : res out :=
  let* ln := deref_r st l in
  let* rn := deref_r st r in
  match ln with
  | Scalar TNull _ => one (alloc_repl st l rn)
  | Map _ => Err
  | Seq litems =>
      match rn with
      | Seq ritems =>
          one (alloc_repl st l (Seq (filter (fun li => negb (existsb (fun ri => node_eqb (snd li) (snd ri)) ritems)) litems)))
      | _ => Err
      end
  | Scalar lt lv =>
      match rn with
      | Scalar rt rv => let* v := sub_scalars lt lv rt rv in one (alloc_repl st l v)
      | _ => Err
      end
  end.

(* multiply(): scalars are multiplied; map * map and seq * seq are the deep merge of Spec/MergeSpec.v
   (None there = the open region of C04: outside the model) *)
Definition mul_nodes (fl : N) (st : store) (l r : ptr) : res out :=
  let* ln := deref_r st l in
  let* rn := deref_r st r in
  match rn with
  | Scalar TNull _ => one (alloc_repl st l ln)
  | _ =>
      match ln, rn with
      | Scalar lt lv, Scalar rt rv => let* v := mul_scalars lt lv rt rv in one (alloc_repl st l v)
      | Map _, Map _ | Seq _, Seq _ =>
          match merge (flags_of fl) ln rn with
          | Some m => one (alloc_repl st l m)
          | None => Unsup
          end
      | _, _ => Unsup
      end
  end.

Definition mod_nodes (st : store) (l r : ptr) : res out :=
  let* ln := deref_r st l in
  let* rn := deref_r st r in
  match ln, rn with
  | Scalar lt lv, Scalar rt rv => let* v := mod_scalars lt lv rt rv in one (alloc_repl st l v)
  | _, _ => Err
  end.

Definition is_null_node (n : node) : bool := match n with Scalar TNull _ => true | _ => false end.

(* isEquals(flip) *)
Definition eq_nodes (flip : bool) (st : store) (lp rp : option ptr) : res out :=
  match lp, rp with
  | None, None => mk_bool st None (negb flip)
  | None, Some r => let* rn := deref_r st r in mk_bool st (Some r) (xorb flip (is_null_node rn))
  | Some l, None => let* ln := deref_r st l in mk_bool st (Some l) (xorb flip (is_null_node ln))
  | Some l, Some r =>
      let* ln := deref_r st l in
      let* rn := deref_r st r in
      match ln, rn with
      | Scalar TNull _, _ => mk_bool st (Some l) (xorb flip (is_null_node rn))
      | Scalar _ lv, Scalar _ rv =>
          if is_wild rv then (let* b := glob_match lv rv in mk_bool st (Some l) (xorb flip b))
          else mk_bool st (Some l) (xorb flip (str_eqb lv rv))
      | _, _ => mk_bool st (Some l) flip
      end
  end.

Definition cmp_nodes (or_equal greater : bool) (st : store) (lp rp : option ptr) : res out :=
  match lp, rp with
  | None, None => mk_bool st None or_equal
  | None, Some r => mk_bool st (Some r) false
  | Some l, None => mk_bool st (Some l) false
  | Some l, Some r =>
      let* ln := deref_r st l in
      let* rn := deref_r st r in
      match ln with
      | Map _ | Seq _ => Err
      | Scalar lt lv =>
          match rn with
          | Scalar rt rv => let* b := compare_scalars or_equal greater lt lv rt rv in mk_bool st (Some l) b
          | _ => Err
          end
      end
  end.

Definition truthy_ptr (st : store) (p : option ptr) : res bool :=
  match p with
  | None => Ok false
  | Some q => let* n := deref_r st q in Ok (truthy n)
  end.

(* ---------- sort comparator, int/string/null/bool fragment (operator_sort.go) ---------- *)
Definition sort_rank (n : node) : option (N * Z * str) :=
  match n with
  | Scalar TNull _ => Some (1, 0%Z, [])
  | Scalar TBool v => Some (2, (if truthy n then 1 else 0)%Z, [])
  | Scalar TInt v =>
      if special_int_spelling v then None else
      match parse_dec v with
      | Some z => if ((-4611686018427387904 <=? z) && (z <=? 4611686018427387903))%Z then Some (3, z, []) else None
      | None => None
      end
  | Scalar TStr v => Some (4, 0%Z, v)
  | _ => None
  end.

Definition rank_leb (a b : N * Z * str) : bool :=
  let '(ra, za, sa) := a in
  let '(rb, zb, sb) := b in
  if ra <? rb then true else if rb <? ra then false
  else if (za <? zb)%Z then true else if (zb <? za)%Z then false
  else negb (str_ltb sb sa).

Fixpoint insert_sorted {A} (le : A -> A -> bool) (x : A) (l : list A) : list A :=
  match l with
  | [] => [x]
  | y :: r => if le y x then y :: insert_sorted le x r else x :: l
  end.
(* stable: equal elements keep input order (insert after the last element that is <= x) *)
Definition stable_sort {A} (le : A -> A -> bool) (l : list A) : list A :=
  fold_left (fun acc x => insert_sorted le x acc) l [].

(* ---------- path helpers ---------- *)
Definition path_node (ps : list pelem) : node := Seq (renumber_from 0 (List.map ser_pelem ps)).

(* ---------- UpdateFrom (candidate_node.go), JSON-model fragment ---------- *)
Definition update_from (st : store) (l r : ptr) : res store :=
  if ptr_eqb l r then Ok st else
  let* rn := deref_r st r in
  Ok (update st l (fun _ => rn)).

(* ---------- flatten (in place) ---------- *)
Fixpoint flatten_items (fuel : nat) (depth : Z) (items : list (rkey * node)) : list (rkey * node) :=
  match fuel with
  | O => items
  | S f =>
      if (depth =? 0)%Z then items else
      flat_map (fun kc =>
                  match snd kc with
                  | Seq inner => flatten_items f (depth - 1) inner
                  | _ => [kc]
                  end) items
  end.

(* ---------- the evaluator ---------- *)
Definition cross_calc := store -> option ptr -> option ptr -> res out.

Section Cross.
  Variable ev : expr -> bool -> vars -> list ptr -> store -> res out.

  (* resultsForRHS *)
  Definition results_for_rhs (calc_when_empty : bool) (lhs_short : store -> option ptr -> res (option out))
             (calc : cross_calc) (rhs : expr) (ro : bool) (vs : vars) (ctx : list ptr)
             (l : option ptr) (st : store) : res out :=
    let* sc := lhs_short st l in
    match sc with
    | Some o => Ok o
    | None =>
        let* o := ev rhs ro vs ctx st in
        match fst o with
        | [] => if calc_when_empty then calc (snd o) l None else Ok ([], snd o)
        | rs => each (fun r st1 => calc st1 l (Some r)) rs (snd o)
        end
    end.

  (* doCrossFunc on a single-node context; crossFunctionWithPrefs iterates the context (stream mode) *)
  Definition cross1 (calc_when_empty : bool) (lhs_short : store -> option ptr -> res (option out))
             (calc : cross_calc) (lhs rhs : expr) (ro : bool) (vs : vars) (cx : list ptr) (st0 : store) : res out :=
    let* ol := ev lhs ro vs cx st0 in
    let* o0 :=
      match fst ol with
      | [] => if calc_when_empty
              then results_for_rhs calc_when_empty lhs_short calc rhs ro vs cx None (snd ol)
              else Ok ([], snd ol)
      | _ => Ok ([], snd ol)
      end in
    let* o1 := each (fun l st1 => results_for_rhs calc_when_empty lhs_short calc rhs ro vs cx (Some l) st1)
                    (fst ol) (snd o0) in
    Ok (fst o0 ++ fst o1, snd o1).

  (* crossFunctionWithPrefs: per context node in stream mode; an empty context
     counts as "evaluate together" and runs doCrossFunc once on it *)
  Definition cross (calc_when_empty : bool) (lhs_short : store -> option ptr -> res (option out))
             (calc : cross_calc) (lhs rhs : expr) (ro : bool) (vs : vars) (ctx : list ptr) (st : store) : res out :=
    match ctx with
    | [] => cross1 calc_when_empty lhs_short calc lhs rhs ro vs [] st
    | _ => each (fun c st0 => cross1 calc_when_empty lhs_short calc lhs rhs ro vs [c] st0) ctx st
    end.
End Cross.

Definition no_short : store -> option ptr -> res (option out) := fun _ _ => Ok None.

Definition lift2 (f : store -> ptr -> ptr -> res out) : cross_calc :=
  fun st l r => match l, r with Some a, Some b => f st a b | _, _ => Unsup end.

(* and / or: returnLHSWhen(target) decides on the LHS alone (RHS not evaluated); returnRhsTruthy otherwise *)
Definition bool_short (target : bool) : store -> option ptr -> res (option out) :=
  fun st1 lp =>
    let* b := truthy_ptr st1 lp in
    if Bool.eqb b target then let* ob := mk_bool st1 lp target in Ok (Some ob) else Ok None.

Definition bool_calc : cross_calc :=
  fun st1 lp rp =>
    let* rb := truthy_ptr st1 rp in
    mk_bool st1 (match lp with Some _ => lp | None => rp end) rb.

(* alternative (//): a truthy LHS is returned as is, otherwise the RHS *)
Definition alt_short : store -> option ptr -> res (option out) :=
  fun st1 lp =>
    let* b := truthy_ptr st1 lp in
    Ok (match lp with Some l1 => if b then Some ([l1], st1) else None | None => None end).

Definition alt_calc : cross_calc :=
  fun st1 lp rp =>
    match lp, rp with
    | None, None => Ok ([], st1)
    | None, Some r1 => Ok ([r1], st1)
    | Some l1, None => Ok ([l1], st1)
    | Some l1, Some r1 => let* b := truthy_ptr st1 lp in Ok ([if b then l1 else r1], st1)
    end.

Definition contains_calc (st1 : store) (a b : ptr) : res out :=
  let* an := deref_r st1 a in
  let* bn := deref_r st1 b in
  match an, bn with
  | Scalar _ _, Scalar _ _ | Seq _, Seq _ | Map _, Map _ =>
      mk_bool st1 (Some a) (contains_node (node_size an + node_size bn) an bn)
  | _, _ => Err
  end.

(* selectOperator: is any result truthy? *)
Fixpoint any_truthy (st : store) (ps : list ptr) : res bool :=
  match ps with
  | [] => Ok false
  | p :: r => let* n := deref_r st p in if truthy n then Ok true else any_truthy st r
  end.

(* first result's scalar text, default for none *)
Definition first_text (st : store) (ps : list ptr) (dflt : str) : res str :=
  match ps with
  | [] => Ok dflt
  | p :: _ => let* n := deref_r st p in match n with Scalar _ v => Ok v | _ => Unsup end
  end.

Fixpoint join_strs (sep : str) (l : list str) : str :=
  match l with [] => [] | [x] => x | x :: r => x ++ sep ++ join_strs sep r end.

(* strings.Split for a non-empty separator *)
Fixpoint split_on (fuel : nat) (sep s cur : str) : list str :=
  match fuel with
  | O => [cur ++ s]
  | S f =>
      match s with
      | [] => [cur]
      | c :: r =>
          if (fix pre (a b : str) : bool :=
                match a, b with [], _ => true | x :: a', y :: b' => (x =? y) && pre a' b' | _, [] => false end) sep s
          then cur :: split_on f sep (skipn (length sep) s) []
          else split_on f sep r (cur ++ [c])
      end
  end.

(* deleteChildOperator's loop: victims back to front, each once.  A victim
   that an earlier deletion already detached is gone (identity no longer in
   any Content, and map deletion by its key finds nothing in the JSON-model
   fragment with unique keys). *)
Fixpoint del_loop (fuel : nat) (victims : list ptr) (cx : list ptr) (st0 : store) : res out :=
  match fuel with
  | O => Ok (cx, st0)
  | S f =>
      match victims with
      | [] => Ok (cx, st0)
      | v :: rest =>
          match parent_ptr v with
          | None =>
              match nth_error st0 (fst v) with
              | Some rt =>
                  match r_parent rt with
                  | None => Ok (filter (fun c => negb (ptr_eqb c v)) cx, st0)   (* removeFromContext returns at once *)
                  | Some _ => Unsup
                  end
              | None => Unsup
              end
          | Some par =>
              let* pn := deref_r st0 par in
              match key_of st0 v with
              | Some k =>
                  let pos := last (snd v) O in
                  let* pn' := delete_child pn k pos in
                  let removed := removed_positions pn k pos in
                  del_loop f (shift_ptrs par removed rest) (shift_ptrs par removed cx) (update st0 par (fun _ => pn'))
              | None => Panic
              end
          end
      end
  end.

Fixpoint dup_keys (es : list (str * node)) : bool :=
  match es with
  | [] => false
  | (k, _) :: r => existsb (fun kv => str_eqb (fst kv) k) r || dup_keys r
  end.

(* to_entries: the entry maps of a map / sequence; a null has no entries at all, another scalar is an error *)
Definition entry_node (k v : node) : node := Map [([107; 101; 121], k); ([118; 97; 108; 117; 101], v)].
Definition to_entries_items (n : node) : res (option (list (rkey * node))) :=
  match n with
  | Map es => Ok (Some (renumber_from 0 (List.map (fun kv => entry_node (Scalar TStr (fst kv)) (snd kv)) es)))
  | Seq items =>
      Ok (Some (renumber_from 0
            (List.map (fun iv => entry_node (Scalar TInt (dec_N (N.of_nat (fst iv)))) (snd (snd iv)))
                      (combine (seq 0 (length items)) items))))
  | Scalar TNull _ => Ok None
  | Scalar _ _ => Err
  end.

(* from_entries: every item must be a map with exactly one `key` (a string here) and one `value` entry *)
Fixpoint entries_of_items (l : list (rkey * node)) (acc : list (str * node)) : res (list (str * node)) :=
  match l with
  | [] => Ok acc
  | (_, Map ent) :: r =>
      match find_key ent [107; 101; 121] O, find_key ent [118; 97; 108; 117; 101] O with
      | [i], [j] =>
          match nth_error ent i, nth_error ent j with
          | Some (_, Scalar TStr k), Some (_, v) => entries_of_items r (acc ++ [(k, v)])
          | Some (_, Scalar _ _), Some _ => Unsup      (* non-string keys *)
          | _, _ => Unsup
          end
      | _, _ => Err
      end
  | _ :: _ => Unsup
  end.

(* assignUpdateFunc: UpdateFrom on the LHS match, which is also the result *)
Definition assign_calc : cross_calc :=
  lift2 (fun st1 a b => let* st2 := update_from st1 a b in Ok ([a], st2)).

(* one `key: value` pair of an object construction, as a single-entry map *)
Definition pair_calc (st : store) (k v : ptr) : res out :=
  let* kn := deref_r st k in
  let* vn := deref_r st v in
  match kn with
  | Scalar TStr kt => if is_wild kt then Unsup else one (alloc_fresh st (Map [(kt, vn)]))
  | _ => Unsup
  end.

Fixpoint read_pairs (st : store) (ps : list ptr) : res (list (str * node)) :=
  match ps with
  | [] => Ok []
  | p :: r =>
      let* n := deref_r st p in
      match n with
      | Map [(k, v)] => let* rest := read_pairs st r in Ok ((k, v) :: rest)
      | _ => Unsup
      end
  end.

(* createMap + collectObject for one input node: first-entry-major product of the entries' pairs *)
Fixpoint obj_entries (ev : expr -> bool -> vars -> list ptr -> store -> res out) (ro : bool) (vs : vars) (c : ptr)
         (l : list (expr * expr)) (acc : list (list (str * node))) (st1 : store)
  : res (list (list (str * node)) * store) :=
  match l with
  | [] => Ok (acc, st1)
  | (ke, ve) :: rest =>
      let* o := cross ev false no_short (lift2 pair_calc) ke ve ro vs [c] st1 in
      let* pairs := read_pairs (snd o) (fst o) in
      (* collect(): an empty aggregate is simply replaced by the next entry's alternatives *)
      obj_entries ev ro vs c rest
                  (match acc with
                   | [] => List.map (fun kv => [kv]) pairs
                   | _ => flat_map (fun a => List.map (fun kv => add_maps a [kv]) pairs) acc
                   end) (snd o)
  end.

(* AddChild each pointed-to node (in its current state) into a new item list *)
Fixpoint collect_items (st : store) (ps : list ptr) (acc : list (rkey * node)) : res (list (rkey * node)) :=
  match ps with
  | [] => Ok acc
  | p :: r => let* n := deref_r st p in collect_items st r (add_child acc (key_of st p) n)
  end.

(* loop over pointers with an accumulator, threading the store *)
Fixpoint iter {A} (step : ptr -> A -> store -> res (A * store)) (l : list ptr) (a : A) (st : store) : res (A * store) :=
  match l with
  | [] => Ok (a, st)
  | p :: r => let* o := step p a st in iter step r (fst o) (snd o)
  end.

(* text of the first result used as a grouping / uniqueness key *)
Definition key_text (st : store) (ps : list ptr) (strict : bool) : res str :=
  match ps with
  | [] => Ok [110; 117; 108; 108]
  | q :: _ => let* kn := deref_r st q in
              match kn with Scalar _ v => Ok v | _ => if strict then Unsup else Ok [] end
  end.

Fixpoint group_insert (kv : str) (p : ptr) (gs : list (str * list ptr)) : list (str * list ptr) :=
  match gs with
  | [] => [(kv, [p])]
  | (k, l) :: gr => if str_eqb k kv then (k, l ++ [p]) :: gr else (k, l) :: group_insert kv p gr
  end.

Fixpoint build_groups (st : store) (l : list (str * list ptr)) (acc : list node) : res (list node) :=
  match l with
  | [] => Ok acc
  | (_, ps) :: gr => let* items := collect_items st ps [] in build_groups st gr (acc ++ [Seq items])
  end.

(* DontAutoCreate flag of the Context a handler *returns* (handlers that run
   their operands on context.ReadOnlyClone() hand that clone's flag back);
   it matters where the returned Context itself is traversed: l[idx], l[a:b] *)
Fixpoint ret_ro (e : expr) (ro : bool) : bool :=
  match e with
  | EBin (OAdd | OSub | OMod | ONe | OAnd | OOr | OContains) _ _ => true
  | EUnion l _ => ret_ro l ro
  | EReduce _ _ init body => ret_ro body (ret_ro init ro)   (* the accumulator context (at least one iteration) *)
  | _ => ro
  end.

(* Which list OBJECT a handler hands back matters to unionOperator alone: it skips the RHS results when both
   operands return the very same list.  Handlers either build a new list, or return their context's own
   MatchingNodes (`.`, assignments, delete unless it removes a context node), or the list a variable holds
   (`$x`, also through `$x | .`); `e as $x | body` returns body's list only when its context AND e's results are
   empty (variableLoop evaluates "all together" on an empty context and then falls through to body).
   (definitely, identity): (true, None) = a new list; (false, Some b) = b or a new list, decided at run time. *)
Inductive lbase := BCtx | BVar (x : str).
Definition lid := (bool * option lbase)%type.
Definition fresh_id : lid := (true, None).

Definition lbase_eqb (a b : lbase) : bool :=
  match a, b with
  | BCtx, BCtx => true
  | BVar x, BVar y => str_eqb x y
  | _, _ => false
  end.

Definition is_bound (vs : vars) (x : str) : bool := existsb (fun p => str_eqb x (fst p)) vs.

(* [ce]: the context may be empty.  [direct]: the handler runs against the union's own Context object; every
   ChildContext copies the variable lists into new list objects, so `$x` names the same list only then *)
Fixpoint list_id (bound : str -> bool) (direct ce : bool) (e : expr) : lid :=
  match e with
  | ESelf | EAssign _ _ | EUpdate _ _ | ECompound _ _ _ => (true, Some BCtx)
  | EDel _ => (false, Some BCtx)
  | EVar x => if direct && bound x then (true, Some (BVar x)) else fresh_id
  | EPipe l r =>
      (* the RHS runs in a ChildContext whose matching nodes are the LHS's list *)
      match list_id bound false true r with
      | (d, Some BCtx) =>
          match list_id bound direct ce l with
          | (dl, Some b) => (d && dl, Some b)
          | (_, None) => fresh_id
          end
      | other => other
      end
  | EAs _ _ body =>
      if ce then match list_id bound direct true body with (_, Some b) => (false, Some b) | (_, None) => fresh_id end
      else fresh_id
  | _ => fresh_id
  end.

(* Some true: the RHS results are skipped; Some false: appended; None: not decided by the model *)
Definition union_mode (a b : lid) : option bool :=
  match snd a, snd b with
  | Some x, Some y => if lbase_eqb x y then (if fst a && fst b then Some true else None) else Some false
  | _, _ => Some false
  end.

Fixpoint eval (fuel : nat) (e : expr) (ro : bool) (vs : vars) (ctx : list ptr) (st : store) {struct fuel} : res out :=
  match fuel with
  | O => OutOfFuel
  | S f =>
    let ev := eval f in
    match e with
    | ESelf => Ok (ctx, st)
    | EEmpty => Ok ([], st)
    | ELit t v =>
        (* valueOperator: one fresh copy per context node (one if the context is empty) *)
        match ctx with
        | [] => one (alloc_fresh st (Scalar t v))
        | _ => each (fun _ st1 => one (alloc_fresh st1 (Scalar t v))) ctx st
        end
    | EKey k => each (trav_key ro k) ctx st
    | EIndex l idx =>
        (* collectObjectOperator hands back a WritableClone: indexing an object construction
           directly inside a read-only context is outside the model *)
        if ro && (match l with EObject _ => true | _ => false end) then Unsup else
        let* ol := ev l ro vs ctx st in
        (* the index expression is a collect evaluated read-only on the *context*; only its first result is used *)
        let* oi := ev (ECollect idx) true vs ctx (snd ol) in
        let* ixs := match fst oi with
                    | [] => Panic
                    | p :: _ => let* n := deref_r (snd oi) p in
                                match n with Seq items => Ok (List.map snd items) | _ => Unsup end
                    end in
        each (trav_indices (ret_ro l ro) ixs) (fst ol) (snd oi)
    | ESlice l a b =>
        let* ol0 := ev l ro vs ctx st in
        let ro := ret_ro l ro in
        each (fun c st0 =>
                let* n0 := deref_r st0 c in
                match n0 with
                | Map _ => Err          (* the Content of a map alternates keys and values: refused *)
                | _ =>
                let* oa := ev a ro vs [c] st0 in
                let* ta := match fst oa with [p] => first_text (snd oa) [p] [] | _ => Err end in
                let* za := Z_of_index ta in
                let* ob := ev b ro vs [c] (snd oa) in
                let* tb := match fst ob with [p] => first_text (snd ob) [p] [] | _ => Err end in
                let* zb := Z_of_index tb in
                let st1 := snd ob in
                let* n := deref_r st1 c in
                match n with
                | Seq items =>
                    let len := Z.of_nat (length items) in
                    (* a start further left than the array is long is clamped to the beginning *)
                    let ra := if (za <? 0)%Z then Z.max 0 (len + za) else za in
                    let rb := if (zb <? 0)%Z then (len + zb)%Z else if (zb >? len)%Z then len else zb in
                    one (alloc_repl st1 c (Seq (firstn (Z.to_nat (rb - ra)) (skipn (Z.to_nat ra) items))))
                | Scalar _ _ => Unsup
                | Map _ => Err
                end
                end) (fst ol0) (snd ol0)
    | ERecurse =>
        each (fun c st0 =>
                let* n := deref_r st0 c in
                Ok (List.map (fun q => (fst c, q)) (descend n (snd c)), st0)) ctx st
    | EPipe l r =>
        let* ol := ev l ro vs ctx st in
        ev r ro vs (fst ol) (snd ol)
    | EUnion l r =>
        let* ol := ev l ro vs ctx st in
        let* or_ := ev r ro vs ctx (snd ol) in
        (* unionOperator skips the RHS results when both operands hand back the very same list object *)
        match union_mode (list_id (is_bound vs) true (match ctx with [] => true | _ => false end) l)
                         (list_id (is_bound vs) true (match ctx with [] => true | _ => false end) r) with
        | Some true => Ok (fst ol, snd or_)
        | Some false => Ok (fst ol ++ fst or_, snd or_)
        | None => Unsup
        end
    | ECollect eo =>
        match ctx with
        | [] => one (alloc_fresh st (Seq []))
        | _ =>
            each (fun c st0 =>
                    let* o := match eo with Some e1 => ev e1 ro vs [c] st0 | None => Ok ([], st0) end in
                    let st1 := snd o in
                    let* items := collect_items st1 (fst o) [] in
                    one (alloc_repl st1 c (Seq items))) ctx st
        end
    | EBin o l r =>
        match o with
        | OAdd => cross ev true no_short add_nodes l r true vs ctx st
        | OSub => cross ev false no_short (lift2 sub_nodes) l r true vs ctx st
        | OMul => cross ev false no_short (lift2 (mul_nodes 0)) l r true vs ctx st
        | OMulF fl => cross ev false no_short (lift2 (mul_nodes fl)) l r true vs ctx st
        | OMod => cross ev false no_short (lift2 mod_nodes) l r true vs ctx st
        | OEq => cross ev true no_short (eq_nodes false) l r ro vs ctx st
        | ONe => cross ev true no_short (eq_nodes true) l r true vs ctx st
        | OLt => cross ev true no_short (cmp_nodes false false) l r ro vs ctx st
        | OLe => cross ev true no_short (cmp_nodes true false) l r ro vs ctx st
        | OGt => cross ev true no_short (cmp_nodes false true) l r ro vs ctx st
        | OGe => cross ev true no_short (cmp_nodes true true) l r ro vs ctx st
        | OAnd => cross ev true (bool_short false) bool_calc l r true vs ctx st
        | OOr => cross ev true (bool_short true) bool_calc l r true vs ctx st
        | OAlt => cross ev true alt_short alt_calc l r ro vs ctx st
        | OContains => cross ev false no_short (lift2 contains_calc) l r true vs ctx st
        end
    | ENot =>
        each (fun c st0 => let* n := deref_r st0 c in mk_bool st0 (Some c) (negb (truthy n))) ctx st
    | ESelect e1 =>
        each (fun c st0 =>
                let* o := ev e1 true vs [c] st0 in
                let* keep := any_truthy (snd o) (fst o) in
                Ok (if keep then [c] else [], snd o)) ctx st
    | EMap e1 =>
        each (fun c st0 =>
                let* os := trav_indices ro [] c st0 in
                let* o := ev e1 ro vs (fst os) (snd os) in
                let st1 := snd o in
                let* items := collect_items st1 (fst o) [] in
                one (alloc_fresh st1 (Seq items))) ctx st
    | EFilter e1 =>
        each (fun c st0 =>
                let* os := trav_indices ro [] c st0 in
                let* o := ev (ESelect e1) ro vs (fst os) (snd os) in
                let st1 := snd o in
                let* items := collect_items st1 (fst o) [] in
                one (alloc_fresh st1 (Seq items))) ctx st
    | ELength =>
        each (fun c st0 =>
                let* n := deref_r st0 c in
                let len := match n with
                           | Scalar TNull _ => O
                           | Scalar _ v => length v
                           | Seq items => length items
                           | Map es => length es
                           end in
                one (alloc_repl st0 c (Scalar TInt (dec_N (N.of_nat len))))) ctx st
    | EKeys =>
        each (fun c st0 =>
                let* n := deref_r st0 c in
                match n with
                | Map es => one (alloc_fresh st0 (Seq (renumber_from 0 (List.map (fun kv => Scalar TStr (fst kv)) es))))
                | Seq items => one (alloc_fresh st0 (Seq (renumber_from 0 (List.map (fun i => Scalar TInt (dec_N (N.of_nat i))) (seq 0 (length items))))))
                | Scalar _ _ => Err
                end) ctx st
    | EHas e1 =>
        let* o := ev e1 true vs ctx st in
        let st1 := snd o in
        let* wanted := match fst o with
                       | [] => Ok (Scalar TNull [110; 117; 108; 108])
                       | p :: _ => deref_r st1 p
                       end in
        match wanted with
        | Scalar wt wv =>
            each (fun c st0 =>
                    let* n := deref_r st0 c in
                    match n with
                    | Map es => mk_bool st0 (Some c) (existsb (fun kv => str_eqb (fst kv) wv) es)
                    | Seq items =>
                        match wt with
                        | TInt =>
                            match parse_dec wv with
                            | Some z => if in_int64 z then mk_bool st0 (Some c) (Z.of_nat (length items) >? z)%Z else Err
                            | None => Err
                            end
                        | _ => mk_bool st0 (Some c) false
                        end
                    | Scalar _ _ => mk_bool st0 (Some c) false
                    end) ctx st1
        | _ => Unsup
        end
    | EToEntries =>
        each (fun c st0 =>
                let* n := deref_r st0 c in
                let entry k v := Map [([107; 101; 121], k); ([118; 97; 108; 117; 101], v)] in
                match n with
                | Map es => one (alloc_repl st0 c (Seq (renumber_from 0 (List.map (fun kv => entry (Scalar TStr (fst kv)) (snd kv)) es))))
                | Seq items =>
                    one (alloc_repl st0 c (Seq (renumber_from 0
                          (List.map (fun iv => entry (Scalar TInt (dec_N (N.of_nat (fst iv)))) (snd (snd iv)))
                                    (combine (seq 0 (length items)) items)))))
                | Scalar TNull _ => Ok ([], st0)
                | Scalar _ _ => Err
                end) ctx st
    | EFromEntries =>
        each (fun c st0 =>
                let* n := deref_r st0 c in
                match n with
                | Seq items =>
                    let* es := entries_of_items items [] in
                    if dup_keys es then Unsup else one (alloc_repl st0 c (Map es))
                | _ => Err
                end) ctx st
    | EWithEntries e1 =>
        (* withEntriesOperator: to_entries, then the body on every entry separately (SingleChildContext),
           the results collected into a fresh sequence (collectTogether), then from_entries *)
        each (fun c st0 =>
                let* n := deref_r st0 c in
                let* oi := to_entries_items n in
                match oi with
                | None => Ok ([], st0)
                | Some items =>
                    let '(ep, st1) := alloc_repl st0 c (Seq items) in
                    let* o := each (fun it st2 => ev e1 ro vs [it] st2) (child_ptrs ep (Seq items)) st1 in
                    let* coll := collect_items (snd o) (fst o) [] in
                    let* es := entries_of_items coll [] in
                    (* duplicate keys (AddKeyValueChild appends blindly) are outside the JSON-model fragment *)
                    if dup_keys es then Unsup else one (alloc_fresh (snd o) (Map es))
                end) ctx st
    | EReverse =>
        each (fun c st0 =>
                let* n := deref_r st0 c in
                match n with
                | Seq items => one (alloc_repl st0 c (Seq (rev items)))
                | _ => Err
                end) ctx st
    | EUniqueBy e1 =>
        each (fun c st0 =>
                let* n := deref_r st0 c in
                match n with
                | Seq _ =>
                    let* r := iter (fun p (a : list str * list ptr) st1 =>
                                      let* o := ev e1 true vs [p] st1 in
                                      let* kv := key_text (snd o) (fst o) true in
                                      if existsb (str_eqb kv) (fst a) then Ok (a, snd o)
                                      else Ok ((kv :: fst a, snd a ++ [p]), snd o))
                                   (child_ptrs c n) ([], []) st0 in
                    let* items := collect_items (snd r) (snd (fst r)) [] in
                    one (alloc_repl (snd r) c (Seq items))
                | _ => Err
                end) ctx st
    | EGroupBy e1 =>
        each (fun c st0 =>
                let* n := deref_r st0 c in
                match n with
                | Seq _ =>
                    let* r := iter (fun p (groups : list (str * list ptr)) st1 =>
                                      let* o := ev e1 true vs [p] st1 in
                                      let* kv := key_text (snd o) (fst o) false in
                                      Ok (group_insert kv p groups, snd o))
                                   (child_ptrs c n) [] st0 in
                    let* gs := build_groups (snd r) (fst r) [] in
                    one (alloc_repl (snd r) c (Seq (renumber_from 0 gs)))
                | _ => Err
                end) ctx st
    | EFlatten depth =>
        (* works on a Copy() of each context node *)
        each (fun c st0 =>
                let* n := deref_r st0 c in
                match n with
                | Seq items => one (alloc_repl st0 c (Seq (flatten_items (node_size n) depth items)))
                | _ => Err
                end) ctx st
    | EAny | EAll =>
        let want := match e with EAny => true | _ => false end in
        each (fun c st0 =>
                let* n := deref_r st0 c in
                match n with
                | Seq items =>
                    let found := existsb (fun it => Bool.eqb (truthy (snd it)) want) items in
                    mk_bool st0 (Some c) (if want then found else negb found)
                | _ => Err
                end) ctx st
    | EAnyC e1 | EAllC e1 =>
        let want := match e with EAnyC _ => true | _ => false end in
        each (fun c st0 =>
                let* n := deref_r st0 c in
                match n with
                | Seq _ =>
                    (* findBoolean stops at the first element whose first result has the wanted truth value *)
                    let* r := iter (fun p (found : bool) st1 =>
                                      if found then Ok (true, st1) else
                                      let* o := ev e1 true vs [p] st1 in
                                      match fst o with
                                      | [] => Ok (false, snd o)
                                      | q :: _ => let* qn := deref_r (snd o) q in Ok (Bool.eqb (truthy qn) want, snd o)
                                      end)
                                   (child_ptrs c n) false st0 in
                    mk_bool (snd r) (Some c) (if want then fst r else negb (fst r))
                | _ => Err
                end) ctx st
    | EJoin e1 =>
        let* o := ev e1 true vs ctx st in
        let* sep := first_text (snd o) (fst o) [] in
        each (fun c st0 =>
                let* n := deref_r st0 c in
                match n with
                | Seq items =>
                    let texts := List.map (fun it => match snd it with
                                                     | Scalar TNull _ => []
                                                     | Scalar _ v => v
                                                     | _ => []
                                                     end) items in
                    (* a container item contributes its Value field: empty when decoded, "{}" / "[]" when it came
                       from an empty literal -- not part of the node model *)
                    if existsb (fun it => match snd it with Scalar _ _ => false | _ => true end) items then Unsup else
                    one (alloc_repl st0 c (Scalar TStr (join_strs sep texts)))
                | _ => Err
                end) ctx (snd o)
    | ESplit e1 =>
        let* o := ev e1 true vs ctx st in
        let* sep := first_text (snd o) (fst o) [] in
        match sep with
        | [] => Unsup       (* strings.Split(s, "") cuts into UTF-8 sequences *)
        | _ =>
            each (fun c st0 =>
                    let* n := deref_r st0 c in
                    match n with
                    | Scalar TNull _ => Ok ([], st0)
                    | Scalar TStr v =>
                        let parts := match v with [] => [] | _ => split_on (S (length v)) sep v [] end in
                        one (alloc_repl st0 c (Seq (renumber_from 0 (List.map (Scalar TStr) parts))))
                    | _ => Err
                    end) ctx (snd o)
        end
    | EAs src x body =>
        let single cx st0 :=
          let* ol := ev src true vs cx st0 in
          match fst ol with
          | [] => ev body ro vs cx (snd ol)
          | ls =>
              each (fun l st1 =>
                      let* ln := deref_r st1 l in
                      let '(cp, st2) := alloc_repl st1 l ln in      (* the variable holds a Copy() *)
                      ev body ro ((x, [cp]) :: vs) cx st2) ls (snd ol)
          end in
        match ctx with
        | [] => single [] st
        | _ => each (fun c st0 => single [c] st0) ctx st
        end
    | EVar x => Ok (lookup_var vs x, st)
    | EReduce src x init body =>
        let* oa := ev src ro vs ctx st in
        let* oi := ev init ro vs ctx (snd oa) in
        iter (fun it (acc : list ptr) st0 => ev body (ret_ro init ro) ((x, [it]) :: vs) acc st0)
             (fst oa) (fst oi) (snd oi)
    | ESortBy e1 =>
        each (fun c st0 =>
                let* n := deref_r st0 c in
                match n with
                | Seq _ =>
                    let* r := iter (fun p (acc : list ((N * Z * str) * ptr)) st1 =>
                                      let* o := ev e1 true vs [p] st1 in
                                      (* Less compares the result lists: no result sorts before any result *)
                                      let* rk := match fst o with
                                                 | [q] => let* kn := deref_r (snd o) q in of_option (sort_rank kn)
                                                 | [] => Ok (0, 0%Z, [])
                                                 | _ => Unsup      (* multi-key comparison *)
                                                 end in
                                      Ok (acc ++ [(rk, p)], snd o))
                                   (child_ptrs c n) [] st0 in
                    (* ints and strings are compared by text when mixed: outside the fragment *)
                    let has k := existsb (fun a => (fst (fst (fst a))) =? k) (fst r) in
                    if has 3 && has 4 then Unsup else
                    let sorted := stable_sort (fun a b => rank_leb (fst a) (fst b)) (fst r) in
                    let* items := collect_items (snd r) (List.map snd sorted) [] in
                    one (alloc_repl (snd r) c (Seq items))
                | Map _ => Unsup
                | Scalar _ _ => Err
                end) ctx st
    | EPath =>
        each (fun c st0 => one (alloc_repl st0 c (path_node (path_of st0 c)))) ctx st
    | EGetKey =>
        each (fun c st0 =>
                match key_of st0 c with
                | Some k => one (alloc_fresh st0 (ser_pelem (rkey_pelem k)))
                | None => Ok ([], st0)
                end) ctx st
    | EParent =>
        each (fun c st0 =>
                match parent_ptr c with
                | Some q => Ok ([q], st0)
                | None =>
                    match nth_error st0 (fst c) with
                    | Some r => match r_parent r with None => Ok ([], st0) | Some _ => Unsup end
                    | None => Unsup
                    end
                end) ctx st
    | EAssign l r =>
        (* LHS first in the caller's (writable) context so that the path exists ... *)
        let* o0 := ev l ro vs ctx st in
        (* ... then the cross product, read-only, re-evaluating both sides per context node *)
        let* o1 := cross ev false no_short
                         assign_calc
                         l r true vs ctx (snd o0) in
        Ok (ctx, snd o1)
    | EUpdate l r =>
        let* o0 := ev l ro vs ctx st in
        (* matches visited back to front; each gets the first result of r applied to it *)
        let* rr := iter (fun c (_ : unit) st0 =>
                           let* o := ev r ro vs [c] st0 in
                           match fst o with
                           | [] => Ok (tt, snd o)
                           | q :: _ => let* st1 := update_from (snd o) c q in Ok (tt, st1)
                           end) (rev (fst o0)) tt (snd o0) in
        Ok (ctx, snd rr)
    | ECompound o l r =>
        let* o0 := ev l ro vs ctx st in
        let* rr := iter (fun c (_ : unit) st0 =>
                           let* cn := deref_r st0 c in
                           let '(cp, st1) := alloc_repl st0 c cn in        (* clone := candidate.Copy() *)
                           (* ref(c) = ref(clone) op r, evaluated in the caller's context *)
                           let x := [36; 99] in
                           let* oc := cross ev false no_short
                                        assign_calc
                                        (EVar [36; 108]) (EBin o (EVar x) r) true (([36; 108], [c]) :: (x, [cp]) :: vs) ctx st1 in
                           Ok (tt, snd oc)) (fst o0) tt (snd o0) in
        Ok (ctx, snd rr)
    | EDel e1 =>
        let* o := ev e1 true vs ctx st in
        (* victims back to front, each deleted once; a victim is located in its
           parent by its *recorded* key, not by identity *)
        let victims := dedupe_ptrs (rev (fst o)) [] in
        del_loop (length victims) victims ctx (snd o)
    | EObject es =>
        (* createMapOperator per entry, then collectObjectOperator: for each input node the
           first-entry-major product of the (key, value) pairs the entries yield; an entry that
           yields nothing makes the product empty.  Keys must be strings, distinct and not patterns. *)
        match es with
        | [] => one (alloc_fresh st (Map []))
        | _ =>
            match ctx with
            | [] => Unsup
            | _ =>
                (* yq evaluates entry by entry over ALL context nodes (each entry is a createMap over the context, joined by
                   `,`); this model goes node by node.  The two orders differ only when an entry, evaluated in a writable
                   context, vivifies something a later node or entry sees: several nodes in a writable context are outside the model *)
                if negb ro && (1 <? length ctx)%nat then Unsup else
                each (fun c st0 =>
                        let* r := obj_entries ev ro vs c es [] st0 in
                        each (fun m st2 => one (alloc_fresh st2 (Map m))) (fst r) (snd r)) ctx st
            end
        end
    end
  end.

(* run one expression on one document; observable: the results, serialised *)
Definition init_store (doc : node) : store := [fresh_root doc].

Fixpoint ser_results (st : store) (ps : list ptr) : str :=
  match ps with
  | [] => []
  | p :: r => (match deref st p with Some n => ser_node n | None => [63] end) ++ 10 :: ser_results st r
  end.

Definition tag_ok : str := [79; 75; 10].           (* OK\n *)
Definition run_fuel : nat := 200.

Definition run (e : expr) (doc : node) : str :=
  match eval run_fuel e false [] [(O, [])] (init_store doc) with
  | Ok o => tag_ok ++ ser_results (snd o) (fst o)
  | Err => [69; 82; 82]                              (* ERR *)
  | Panic => [80; 65; 78; 73; 67]                    (* PANIC *)
  | Unsup => [85; 78; 83; 85; 80]                    (* UNSUP *)
  | OutOfFuel => [70; 85; 69; 76]                    (* FUEL *)
  end.

(* the document after the evaluation (for C02/C03/C08: what `. ` prints afterwards) *)
Definition run_doc (e : expr) (doc : node) : str :=
  match eval run_fuel e false [] [(O, [])] (init_store doc) with
  | Ok o => tag_ok ++ ser_results (snd o) (fst o) ++ [35] ++ ser_results (snd o) [(O, [])]
  | Err => [69; 82; 82]
  | Panic => [80; 65; 78; 73; 67]
  | Unsup => [85; 78; 83; 85; 80]
  | OutOfFuel => [70; 85; 69; 76]
  end.
