(* Model/Sh.v — executable model of pkg/yqlib/encoder_sh.go (`@sh`) and
   pkg/yqlib/encoder_shellvariables.go (`-o=shell`).  No proofs here.

   Strings are byte lists.  The Go code iterates runes; every character its
   decisions inspect is ASCII, every non-ASCII rune is "unsafe" (\w is
   ASCII-only in RE2) and is copied through unchanged, so on valid UTF-8 the
   byte-level function below produces exactly the bytes Go produces.  (On
   invalid UTF-8 Go substitutes U+FFFD; that input class is outside the
   model and outside the correspondence generators — see DESIGN.md §7.) *)
From YQ Require Import Base.Str Gen.ShSafe.

Definition c_quote : N := 39.      (* ' *)
Definition c_bslash : N := 92.     (* \ *)
Definition c_dquote : N := 34.     (* dquote *)
Definition c_eq : N := 61.         (* = *)
Definition c_nl : N := 10.
Definition c_us : N := 95.         (* _ *)

(* shEncoder.shouldQuote with quoteAll = false *)
Definition should_quote (c : N) : bool := sh_unsafe c.

(* shEncoder.encode: the loop body with inQuoteBlock as an argument *)
Fixpoint sh_go (inq : bool) (s : str) : str :=
  match s with
  | [] => if inq then [c_quote] else []
  | c :: r =>
      if c =? c_quote then
        (if inq then [c_quote] else []) ++ c_bslash :: c_quote :: sh_go false r
      else if should_quote c && negb inq then
        c_quote :: c :: sh_go true r
      else
        c :: sh_go inq r
  end.

(* the empty string is one empty word (fix: commit in /repo) *)
Definition sh_encode (s : str) : str :=
  match s with [] => [c_quote; c_quote] | _ => sh_go false s end.

(* ---------------- shell variables ---------------- *)

(* quoteValue *)
Fixpoint all_alnum_us (s : str) : bool :=
  match s with [] => true | c :: r => sv_alnum_us c && all_alnum_us r end.

(* strings.ReplaceAll(value, quote, quote dquote quote dquote quote) *)
Fixpoint sv_escape (s : str) : str :=
  match s with
  | [] => []
  | c :: r =>
      if c =? c_quote then c_quote :: c_dquote :: c_quote :: c_dquote :: c_quote :: sv_escape r
      else c :: sv_escape r
  end.

Definition quote_value (v : str) : str :=
  if all_alnum_us v then v else c_quote :: sv_escape v ++ [c_quote].

(* The strings.Map callback of appendPath, over the code points of the
   NFKD-normalised key: keep [A-Za-z0-9_], drop <32 or >126, else '_'. *)
Fixpoint cook_key (k : str) : str :=
  match k with
  | [] => []
  | c :: r =>
      if sv_alnum_us c then c :: cook_key r
      else if (c <? 32) || (126 <? c) then cook_key r
      else c_us :: cook_key r
  end.

Section ShellVars.
  (* x/text's norm.NFKD.String is a library function: an arbitrary function
     here (the filter applied after it makes the theorems hold for any). *)
  Variable nfkd : str -> str.

  Definition append_path (cooked : str) (raw : str) : str :=
    let key := cook_key (nfkd raw) in
    match cooked with
    | [] =>
        match key with
        | c :: _ => if sv_alpha_us c then key else c_us :: key
        | [] => c_us :: key
        end
    | _ => cooked ++ c_us :: key
    end.

  (* document tree as the encoder sees it (aliases already followed) *)
  Inductive svnode :=
  | SvScalar (v : str)
  | SvSeq (items : list svnode)
  | SvMap (entries : list (str * svnode)).

  (* fmt.Sprintf("%v", index) for a non-negative int *)
  Fixpoint dec_digits_fuel (fuel : nat) (n : N) (acc : str) : str :=
    match fuel with
    | O => acc
    | S f => let acc' := (48 + n mod 10) :: acc in
             if n / 10 =? 0 then acc' else dec_digits_fuel f (n / 10) acc'
    end.
  Definition dec_of_N (n : N) : str := dec_digits_fuel (S (N.to_nat (N.log2 n))) n [].

  Definition value_name : str := [118; 97; 108; 117; 101].  (* the string value *)

  Fixpoint sv_encode (n : svnode) (path : str) : list (str * str) :=
    match n with
    | SvScalar v => [((match path with [] => value_name | _ => path end), v)]
    | SvSeq items =>
        (fix go (l : list svnode) (i : N) : list (str * str) :=
           match l with
           | [] => []
           | x :: r => sv_encode x (append_path path (dec_of_N i)) ++ go r (i + 1)
           end) items 0
    | SvMap entries =>
        (fix go (l : list (str * svnode)) : list (str * str) :=
           match l with
           | [] => []
           | (k, x) :: r => sv_encode x (append_path path k) ++ go r
           end) entries
    end.

  (* the text written: NAME=quoteValue(VALUE)\n per scalar *)
  Fixpoint sv_render (assigns : list (str * str)) : str :=
    match assigns with
    | [] => []
    | (nm, v) :: r => nm ++ c_eq :: quote_value v ++ c_nl :: sv_render r
    end.

  Definition sv_output (n : svnode) : str := sv_render (sv_encode n []).
End ShellVars.
