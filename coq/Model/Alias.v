(* Model/Alias.v — executable model of how yq reads documents with anchors,
   aliases and merge keys:
     pkg/yqlib/operator_traverse_path.go  traverse / traverseArrayIndices /
                                          traverseMap / doTraverseMap / traverseMergeAnchor
     pkg/yqlib/operator_anchors_aliases.go explodeNode / reconstructAliasedMap /
                                          applyAlias / overrideEntry
     pkg/yqlib/printer.go                 PrintResults (explode before a non-alias-capable encoder)
     pkg/yqlib/candidiate_node_json.go    MarshalJSON (alias -> target, map keys literally)
   No proofs here.

   Documents are the trees of Spec/YamlMergeSpec.v: an alias node is [Al t]
   with t the anchored subtree as written.  Three read routes:
     route 1  PATH                 traversal of the un-exploded document
     route 2  explode(.) | PATH    explode the whole document, then traverse
     route 3  -o=json .            explode the whole document, then encode

   Whole-document explode works in place in document order; an anchored node
   is always completely exploded before any alias to it is reached, and
   exploding an exploded node changes nothing, so an alias node becomes the
   explode of its target and a merge reads the exploded target.  Since the fix
   "explode also explodes what it copies" the same function describes the
   explode the printer applies to a single result of route 1: an alias takes
   an exploded copy of its target, a merge works on an exploded copy of the
   merged map, whether or not the target was exploded before.

   Recursion into children/targets is on explicit fuel. *)
From Coq Require Import List NArith Bool.
From YQ Require Import Base.Str Spec.YamlMergeSpec.
Import ListNotations.

Inductive res (A : Type) := ROk (a : A) | RErr | ROutOfFuel | RUnmodelled.
Arguments ROk {A} a.
Arguments RErr {A}.
Arguments ROutOfFuel {A}.
Arguments RUnmodelled {A}.

Definition rbind {A B : Type} (o : res A) (f : A -> res B) : res B :=
  match o with
  | ROk a => f a
  | RErr => RErr
  | ROutOfFuel => ROutOfFuel
  | RUnmodelled => RUnmodelled
  end.

Definition entries := list (str * node).

(* ------------------------------------------------------------------ *)
(* explode                                                             *)
(* ------------------------------------------------------------------ *)

(* node.Content of a map is the flat list key, value, key, value ...; what
   overrideEntry compares is  n.IsMapKey && n.Value == key.Value && n.Alias == nil
   (keys are plain scalars here), so only the key positions can match; the
   value positions are kept as None because the scan may start at an odd
   index (for a merge list it starts at the index inside the list). *)
Definition flat_texts (es : entries) : list (option str) :=
  flat_map (fun kv => [Some (fst kv); None]) es.

Fixpoint every2 {A : Type} (l : list A) : list A :=
  match l with
  | a :: _ :: r => a :: every2 r
  | [a] => [a]
  | [] => []
  end.

(* for index := start; index < len(Content); index += 2 { Content[index].Value == key && .Alias == nil } *)
Definition later_has (texts : list (option str)) (start : nat) (key : str) : bool :=
  existsb (fun o => match o with Some s => str_eqb s key | None => false end) (every2 (skipn start texts)).

Fixpoint has_key (k : str) (es : entries) : bool :=
  match es with
  | [] => false
  | (k', _) :: r => str_eqb k k' || has_key k r
  end.

Fixpoint replace_first (k : str) (v : node) (es : entries) : entries :=
  match es with
  | [] => []
  | (k', v') :: r => if str_eqb k k' then (k', v) :: r else (k', v') :: replace_first k v r
  end.

Section ExplodeStep.
  Variable rec : node -> res node.        (* explodeNode on a child / the exploded state of a target *)

  Fixpoint map_res (l : list node) : res (list node) :=
    match l with
    | [] => ROk []
    | x :: r => rbind (rec x) (fun x' => rbind (map_res r) (fun r' => ROk (x' :: r')))
    end.

  Fixpoint map_entries (es : entries) : res entries :=
    match es with
    | [] => ROk []
    | (k, v) :: r => rbind (rec v) (fun v' => rbind (map_entries r) (fun r' => ROk ((k, v') :: r')))
    end.

  (* overrideEntry(node, key, value, startIndex, newContent) *)
  Definition override_entry (texts : list (option str)) (key : str) (v : node) (start : nat) (acc : entries) : res entries :=
    rbind (rec v) (fun v' =>
      if has_key key acc then ROk (replace_first key v' acc)
      else if later_has texts (start + 2) key then ROk acc
      else ROk (acc ++ [(key, v')])).

  Fixpoint override_all (texts : list (option str)) (tes : entries) (start : nat) (acc : entries) : res entries :=
    match tes with
    | [] => ROk acc
    | (k, v) :: r => rbind (override_entry texts k v start acc) (override_all texts r start)
    end.

  (* applyAlias(node, alias, aliasIndex, newContent): a nil alias is skipped, a non-map target is an error *)
  Definition apply_alias (texts : list (option str)) (item : node) (idx : nat) (acc : entries) : res entries :=
    match item with
    | Al t =>
        rbind (rec t) (fun t' =>
          match t' with
          | Mp _ tes => override_all texts tes idx acc
          | _ => RErr
          end)
    | _ => ROk acc
    end.

  (* the merge list is walked from its last element to its first, each with ITS OWN INDEX IN THE LIST as startIndex *)
  Fixpoint apply_seq_rev (texts : list (option str)) (ritems : list (nat * node)) (acc : entries) : res entries :=
    match ritems with
    | [] => ROk acc
    | (j, item) :: r => rbind (apply_alias texts item j acc) (apply_seq_rev texts r)
    end.

  Fixpoint indexed {A : Type} (i : nat) (l : list A) : list (nat * A) :=
    match l with
    | [] => []
    | a :: r => (i, a) :: indexed (S i) r
    end.

  (* reconstructAliasedMap: the loop over the entries, i = entry number (Content index 2i) *)
  Fixpoint recon (texts : list (option str)) (es : entries) (i : nat) (acc : entries) : res entries :=
    match es with
    | [] => ROk acc
    | (k, v) :: r =>
        rbind (if is_merge k then
                 match v with
                 | Sq _ items => apply_seq_rev texts (rev (indexed 0 items)) acc
                 | _ => apply_alias texts v (2 * i) acc
                 end
               else override_entry texts k v (2 * i) acc)
              (recon texts r (S i))
    end.

  Definition has_merge (es : entries) : bool := existsb (fun kv => is_merge (fst kv)) es.

  Definition explode_step (t : node) : res node :=
    match t with
    | Sc _ s => ROk (Sc false s)
    | Sq _ l => rbind (map_res l) (fun l' => ROk (Sq false l'))
    | Al t' => rec t'
    | Mp _ es =>
        if has_merge es then rbind (recon (flat_texts es) es 0 []) (fun es' => ROk (Mp false es'))
        else rbind (map_entries es) (fun es' => ROk (Mp false es'))
    end.
End ExplodeStep.

Fixpoint explode (fuel : nat) (t : node) : res node :=
  match fuel with
  | O => ROutOfFuel
  | S f => explode_step (explode f) t
  end.

(* ------------------------------------------------------------------ *)
(* traversal of the un-exploded document                               *)
(* ------------------------------------------------------------------ *)
Section LookStep.
  (* doTraverseMap on the target of a merge alias *)
  Variable rec : str -> entries -> option node -> res (option node).

  (* traverseMergeAnchor; the ordered map has one slot per key text, Set replaces its value *)
  Fixpoint tmerge (k : str) (v : node) (acc : option node) : res (option node) :=
    match v with
    | Al (Mp _ tes) => rec k tes acc
    | Al _ => RErr
    | Sq _ items =>
        (fix go (items : list node) (acc : option node) : res (option node) :=
           match items with
           | [] => ROk acc
           | x :: r => rbind (tmerge k x acc) (go r)
           end) items acc
    | _ => ROk acc
    end.

  Fixpoint tlook_step (k : str) (es : entries) (acc : option node) : res (option node) :=
    match es with
    | [] => ROk acc
    | (k', v) :: r =>
        if is_merge k' && negb (is_merge k) then rbind (tmerge k v acc) (tlook_step k r)
        else if str_eqb k' k then tlook_step k r (Some v)
        else tlook_step k r acc
    end.
End LookStep.

Fixpoint tlook (fuel : nat) (k : str) (es : entries) (acc : option node) : res (option node) :=
  match fuel with
  | O => ROutOfFuel
  | S f => tlook_step (tlook f) k es acc
  end.

Definition null_text : str := [110; 117; 108; 108]%N.
Definition null_node : node := Sc false null_text.
Definition is_null (s : str) : bool := str_eqb s null_text.

Fixpoint follow (t : node) : node := match t with Al t' => follow t' | _ => t end.

(* the result of a path step: a node, or no result at all *)
Inductive tres := TNode (n : node) | TEmpty.

(* one path element applied to one node, top-level (writable) context:
   a missing key is created as null; an index past the end pads with null *)
Definition traverse_step (fuel : nat) (t : node) (s : step) : res tres :=
  match follow t, s with
  | Mp _ es, PKey k =>
      rbind (tlook fuel k es None) (fun o => ROk (TNode (match o with Some v => v | None => null_node end)))
  | Sq _ l, PIdx n => ROk (TNode (match nth_error l n with Some v => v | None => null_node end))
  | Sc _ s, _ => ROk (if is_null s then TNode null_node else TEmpty)
  | _, _ => RUnmodelled          (* a key on a sequence / an index on a map *)
  end.

Fixpoint traverse (fuel : nat) (t : node) (p : list step) : res tres :=
  match p with
  | [] => ROk (TNode t)
  | s :: p' =>
      rbind (traverse_step fuel t s) (fun r =>
        match r with
        | TNode n => traverse fuel n p'
        | TEmpty => ROk TEmpty
        end)
  end.

(* ------------------------------------------------------------------ *)
(* JSON encoding (scalars restricted to what the generator writes:     *)
(* decimal integers, null, and words that need no escaping)            *)
(* ------------------------------------------------------------------ *)
Definition is_digit (c : N) : bool := ((48 <=? c) && (c <=? 57))%N.

Definition is_int_text (s : str) : bool :=
  match s with
  | [] => false
  | 45%N :: (_ :: _) as r => forallb is_digit r
  | _ => forallb is_digit s
  end.

Definition json_scalar (s : str) : str :=
  if is_int_text s || is_null s then s else 34%N :: s ++ [34%N].

(* MarshalJSON on a tree that may still hold alias nodes and merge keys *)
Fixpoint json_raw (t : node) : str :=
  match t with
  | Sc _ s => json_scalar s
  | Al t' => json_raw t'
  | Sq _ l =>
      91%N :: (fix go (l : list node) (first : bool) : str :=
                 match l with
                 | [] => [93%N]
                 | x :: r => (if first then [] else [44%N]) ++ json_raw x ++ go r false
                 end) l true
  | Mp _ es =>
      123%N :: (fix go (l : entries) (first : bool) : str :=
                  match l with
                  | [] => [125%N]
                  | (k, v) :: r => (if first then [] else [44%N]) ++ 34%N :: k ++ 34%N :: 58%N :: json_raw v ++ go r false
                  end) es true
  end.

(* ------------------------------------------------------------------ *)
(* the three routes, as printed with -o=json -I0                       *)
(* ------------------------------------------------------------------ *)
(* what the printer does with one result of route 1: explode it, encode it *)
Definition print_result1 (fuel : nat) (r : tres) : res str :=
  match r with
  | TEmpty => ROk []
  | TNode n => rbind (explode fuel n) (fun n' => ROk (json_raw n'))
  end.

Definition print_clean (r : tres) : res str :=
  match r with
  | TEmpty => ROk []
  | TNode n => ROk (json_raw n)
  end.

Definition route1 (fuel : nat) (d : node) (p : list step) : res str :=
  rbind (traverse fuel d p) (print_result1 fuel).

Definition route2 (fuel : nat) (d : node) (p : list step) : res str :=
  rbind (explode fuel d) (fun d' => rbind (traverse fuel d' p) print_clean).

Definition route3 (fuel : nat) (d : node) : res str :=
  rbind (explode fuel d) (fun d' => ROk (json_raw d')).

(* ------------------------------------------------------------------ *)
(* definitions used by the statements of Props/C13.v                   *)
(* ------------------------------------------------------------------ *)
(* no alias node, no anchor, no merge key anywhere *)
Fixpoint clean (t : node) : bool :=
  match t with
  | Sc a _ => negb a
  | Sq a l => negb a && forallb clean l
  | Mp a es => negb a && forallb (fun kv => negb (is_merge (fst kv)) && clean (snd kv)) es
  | Al _ => false
  end.

(* no alias node and no merge key (anchors allowed) *)
Fixpoint plain (t : node) : bool :=
  match t with
  | Sc _ _ => true
  | Sq _ l => forallb plain l
  | Mp _ es => forallb (fun kv => negb (is_merge (fst kv)) && plain (snd kv)) es
  | Al _ => false
  end.

Fixpoint strip_anchors (t : node) : node :=
  match t with
  | Sc _ s => Sc false s
  | Sq _ l => Sq false (map strip_anchors l)
  | Mp _ es => Mp false (map (fun kv => (fst kv, strip_anchors (snd kv))) es)
  | Al t' => Al (strip_anchors t')
  end.

(* the value of a tree without merge keys (aliases followed) *)
Fixpoint value_of (t : node) : value :=
  match t with
  | Sc _ s => VS s
  | Sq _ l => VL (map value_of l)
  | Mp _ es => VM (map (fun kv => (fst kv, value_of (snd kv))) es)
  | Al t' => value_of t'
  end.

(* serialisation of outcomes for the correspondence check *)
Definition show_res (o : res str) : str :=
  match o with
  | ROk s => s
  | RErr => [251%N]
  | RUnmodelled => [252%N]
  | ROutOfFuel => [253%N]
  end.

(* ------------------------------------------------------------------ *)
(* one level of merging: {<<: SOURCES, k1: v1, ...} with plain sources  *)
(* (statement of C13_three_routes_agree_on_partial)                    *)
(* ------------------------------------------------------------------ *)
Fixpoint lookup_entry (k : str) (es : entries) : option node :=
  match es with
  | [] => None
  | (k', v) :: r => if str_eqb k k' then Some v else lookup_entry k r
  end.

Fixpoint lookup_first (k : str) (srcs : list entries) : option node :=
  match srcs with
  | [] => None
  | s :: r => match lookup_entry k s with Some v => Some v | None => lookup_first k r end
  end.

(* YAML: an explicit key wins, otherwise the first source that has the key *)
Definition spec_lookup (k : str) (srcs : list entries) (expl : entries) : option node :=
  match lookup_entry k expl with Some v => Some v | None => lookup_first k srcs end.

Definition entry_plain (kv : str * node) : bool := negb (is_merge (fst kv)) && plain (snd kv).
Definition keys (es : entries) : list str := map fst es.

(* `<<: *s` for one source, `<<: [*s1, *s2, ...]` otherwise; every source is an anchored map *)
Definition merge_value (srcs : list entries) : node :=
  match srcs with
  | [s] => Al (Mp true s)
  | _ => Sq false (map (fun s => Al (Mp true s)) srcs)
  end.

(* the domain: no key occurs twice among the sources (inside one or across
   two), sources and explicit entries hold plain values under keys other than
   <<, explicit keys are pairwise different *)
Definition merge_simple (srcs : list entries) (expl : entries) : Prop :=
  NoDup (flat_map keys srcs)
  /\ (forall s, In s srcs -> forallb entry_plain s = true)
  /\ NoDup (keys expl)
  /\ forallb entry_plain expl = true.

(* ------------------------------------------------------------------ *)
(* the domain merge_simple for whole documents, as a decidable,        *)
(* hereditary predicate (statements of C13_*_on)                       *)
(* ------------------------------------------------------------------ *)
Definition mem (k : str) (l : list str) : bool := existsb (str_eqb k) l.

Fixpoint nodupb (l : list str) : bool :=
  match l with
  | [] => true
  | k :: r => negb (mem k r) && nodupb r
  end.

Definition disjointb (a b : list str) : bool := forallb (fun k => negb (mem k b)) a.

Fixpoint pairwise_disjointb (ls : list (list str)) : bool :=
  match ls with
  | [] => true
  | a :: r => forallb (disjointb a) r && pairwise_disjointb r
  end.

(* the anchored maps a merge value names: `<<: *t` or `<<: [*t1, *t2, ...]` *)
Definition alias_target (x : node) : option node := match x with Al t => Some t | _ => None end.

Definition merge_targets (v : node) : option (list node) :=
  match v with
  | Al t => Some [t]
  | Sq _ items => all_some (map alias_target items)
  | _ => None
  end.

Definition is_mp (t : node) : bool := match t with Mp _ _ => true | _ => false end.

(* the explicit entries written before the merge key, and the merge value *)
Fixpoint before_merge (es : entries) : option (entries * node) :=
  match es with
  | [] => None
  | (k, v) :: r =>
      if is_merge k then Some ([], v)
      else match before_merge r with Some (pre, mv) => Some ((k, v) :: pre, mv) | None => None end
  end.

Section DomStep.
  Variable dm : node -> bool.                (* the children are in the domain *)
  Variable rs : node -> option value.        (* the spec resolution of a child *)

  Definition resolved_keys (t : node) : option (list str) :=
    match rs t with Some (VM ves) => Some (map fst ves) | _ => None end.

  (* a map is fine when: no key is written twice (so at most one <<); every
     explicit value is fine; the merge value names anchored maps that are
     fine; no key is provided by two maps of a merge list; and no explicit key
     written BEFORE the merge key is also provided by a merged map (yq lets
     the merged value win there: C13_explicit_before_merge_refuted) *)
  Definition map_ok (es : entries) : bool :=
    nodupb (keys es)
    && forallb (fun kv => is_merge (fst kv) || dm (snd kv)) es
    && match before_merge es with
       | None => true
       | Some (pre, mv) =>
           match merge_targets mv with
           | None => false
           | Some ts =>
               forallb is_mp ts && forallb dm ts
               && match all_some (map resolved_keys ts) with
                  | None => false
                  | Some rks =>
                      pairwise_disjointb rks
                      && forallb (fun k => forallb (fun rk => negb (mem k rk)) rks) (keys pre)
                  end
           end
       end.

  Definition dom_step (t : node) : bool :=
    match t with
    | Sc _ _ => true
    | Sq _ l => forallb dm l
    | Al t' => dm t'
    | Mp _ es => map_ok es
    end.
End DomStep.

Fixpoint merge_simple_doc (fuel : nat) (t : node) : bool :=
  match fuel with
  | O => false
  | S f => dom_step (merge_simple_doc f) (resolve f) t
  end.

(* no map anywhere in the tree (alias targets included) writes a key twice *)
Fixpoint nodup_tree (t : node) : bool :=
  match t with
  | Sc _ _ => true
  | Sq _ l => forallb nodup_tree l
  | Mp _ es => nodupb (keys es) && forallb (fun kv => nodup_tree (snd kv)) es
  | Al t' => nodup_tree t'
  end.
