(* Model/LuaStr.v — executable model of the parts of pkg/yqlib/encoder_lua.go
   that are yq's own: the string escaper (the strings.NewReplacer table of
   NewLuaEncoder, applied bytewise), the quoting of a string scalar in the
   default style, and needsQuoting (the unquoted-key predicate).  No proofs. *)
From Coq Require Import String.
From YQ Require Import Base.Str.
Open Scope N_scope.

Definition dec3 (c : N) : str := [92; 48 + c / 100; 48 + (c / 10) mod 10; 48 + c mod 10].

(* the replacer table: control characters, both quotes, backslash, DEL *)
Definition lua_escape_char (c : N) : str :=
  if c =? 7 then [92; 97]
  else if c =? 8 then [92; 98]
  else if c =? 9 then [92; 116]
  else if c =? 10 then [92; 110]
  else if c =? 11 then [92; 118]
  else if c =? 12 then [92; 102]
  else if c =? 13 then [92; 114]
  else if c <? 32 then dec3 c
  else if c =? 34 then [92; 34]
  else if c =? 39 then [92; 39]
  else if c =? 92 then [92; 92]
  else if c =? 127 then dec3 c
  else [c].

Fixpoint lua_escape (s : str) : str :=
  match s with
  | [] => []
  | c :: r => lua_escape_char c ++ lua_escape r
  end.

(* encodeString, default style: double quotes *)
Definition lua_quote (s : str) : str := 34 :: lua_escape s ++ [34].

(* encodeTopLevel with the default prefix and suffix *)
Definition lua_document (s : str) : str :=
  [114; 101; 116; 117; 114; 110; 32] ++ lua_quote s ++ [59; 10].

(* needsQuoting: a key may be written bare only if it is not a keyword and
   matches [A-Za-z_][A-Za-z0-9_]* (the empty string is quoted: repaired in /repo) *)
Definition lua_keywords : list str :=
  List.map str_of_string
    ["do"; "and"; "else"; "break"; "if"; "end"; "goto"; "false"; "in"; "for"; "then"; "local"; "or"; "nil"; "true"; "until";
     "elseif"; "function"; "not"; "repeat"; "return"; "while"]%string.

Definition lua_alpha_us (c : N) : bool :=
  ((65 <=? c) && (c <=? 90)) || ((97 <=? c) && (c <=? 122)) || (c =? 95).
Definition lua_alnum_us (c : N) : bool := lua_alpha_us c || ((48 <=? c) && (c <=? 57)).

Definition lua_needs_quoting (s : str) : bool :=
  existsb (str_eqb s) lua_keywords ||
  match s with
  | [] => true
  | c :: r => negb (lua_alpha_us c) || negb (forallb lua_alnum_us r)
  end.

(* encodeMap with UnquotedKeys on a one-entry map of strings, for the
   correspondence check: "return {\n\tKEY = "v";\n};\n" *)
Definition lua_unquoted_doc (k : str) : str :=
  [114; 101; 116; 117; 114; 110; 32; 123; 10; 9] ++
  (if lua_needs_quoting k then 91 :: lua_quote k ++ [93; 32; 61; 32] else k ++ [32; 61; 32]) ++
  lua_quote [118] ++ [59; 10; 125; 59; 10].
