(* Model/StreamInst.v -- instantiation of Model/Stream.v used by the
   correspondence check of C10 (checks/props/c10.py).  No proofs here.

   Payloads are numbers (body ids), results are byte strings, the expression
   is a top-level union of selectors; what a selector yields on a body is a
   table measured on the real binary on that single document, together with
   the two facts the check knows about the selector: whether its results
   stay below the document root (so they report the document's position) and
   whether they carry the root's leading content.  The model then has to
   reproduce the bytes of the multi-file run. *)
From YQ Require Import Base.Str Model.Printer Model.Stream.

Inductive rkind :=
| KBytes (b : str)              (* the encoded node, as measured *)
| KBlank                        (* the blank node of a comment-only document under the YAML encoder: nothing if it has leading content, else a newline *)
| KDocIdx | KFileIdx            (* document_index / file_index: decimal of the stamp + newline *)
| KName (pre post : str).       (* filename: pre ++ name ++ post *)

Record rspec := mkRspec { rs_att : bool; rs_lead : bool; rs_kind : rkind }.

(* body id -> for each selector: None = evaluation error, Some l = results *)
Definition table := list (N * list (option (list rspec))).

Fixpoint lookup (tb : table) (b : N) : list (option (list rspec)) :=
  match tb with
  | [] => []
  | (k, v) :: tb' => if k =? b then v else lookup tb' b
  end.

Fixpoint dec_go (fuel : nat) (n : N) (acc : str) : str :=
  match fuel with
  | O => acc
  | S fuel' =>
      let acc' := (48 + n mod 10) :: acc in
      if n / 10 =? 0 then acc' else dec_go fuel' (n / 10) acc'
  end.
Definition dec (n : N) : str := dec_go 30 n [].

Definition render_kind (sd : sdoc N) (k : rkind) : str :=
  match k with
  | KBytes b => b
  | KBlank => if is_nil (s_lead sd) then [10] else []
  | KDocIdx => dec (s_doc sd) ++ [10]
  | KFileIdx => dec (s_file sd) ++ [10]
  | KName pre post => pre ++ s_name sd ++ post
  end.

(* a result: (has no Parent, encoded bytes); a parentless node reports document 0 / file 0 *)
Definition mk_res (sd : sdoc N) (r : rspec) : res (bool * str) :=
  mkRes (if rs_att r then s_doc sd else 0) (if rs_att r then s_file sd else 0)
        (if rs_lead r then s_lead sd else []) (negb (rs_att r), render_kind sd (rs_kind r)).

Definition parentless_inst (r : res (bool * str)) : bool := fst (r_val r).

(* one selector over the context, document by document *)
Fixpoint sel_docs (tb : table) (s : nat) (ds : list (sdoc N)) : option (list (res (bool * str))) :=
  match ds with
  | [] => Some []
  | sd :: ds' =>
      match nth s (lookup tb (s_body sd)) None with
      | None => None
      | Some rs =>
          match sel_docs tb s ds' with
          | None => None
          | Some rest => Some (List.map (mk_res sd) rs ++ rest)
          end
      end
  end.

(* union: first selector over all documents, then the second, ... *)
Fixpoint sels (tb : table) (ss : list nat) (ds : list (sdoc N)) : option (list (res (bool * str))) :=
  match ss with
  | [] => Some []
  | s :: ss' =>
      match sel_docs tb s ds with
      | None => None
      | Some a => match sels tb ss' ds with None => None | Some b => Some (a ++ b) end
      end
  end.

Definition ev_inst (tb : table) (nsel : nat) (_ : unit) (ds : list (sdoc N)) : option (list (res (bool * str))) * unit :=
  (sels tb (seq 0 nsel) ds, tt).

(* leading lines that yaml.v3 reads itself end up as a head comment: a different body *)
Definition has_line (l : list litem) : bool := existsb (fun it => match it with LLine _ => true | LSep => false end) l.
Definition absorb_inst (l : list litem) (b : N) : N := if has_line l then b + 1000 else b.

(* NUL-separated mode refuses a chunk that contains a NUL byte *)
Definition pfail_inst (cfg : pcfg) (r : res (bool * str)) : bool := nul_sep cfg && existsb (N.eqb 0) (snd (r_val r)).

(* ---------------- bytes ---------------- *)
Definition sep_bytes : str := [45; 45; 45; 10].

(* removeLastEOL *)
Definition strip_eol (s : str) : str :=
  match rev s with
  | 10 :: 13 :: r => rev r
  | 10 :: r => rev r
  | 13 :: r => rev r
  | _ => s
  end.

(* plain mode: events in order *)
Fixpoint render_plain (es : list (event (bool * str))) : str :=
  match es with
  | [] => []
  | Sep :: es' => sep_bytes ++ render_plain es'
  | LeadSep :: es' => sep_bytes ++ render_plain es'
  | LeadLine t :: es' => t ++ render_plain es'
  | Res _ _ _ v :: es' => snd v ++ render_plain es'
  | Nul :: es' => 0 :: render_plain es'
  end.

(* NUL mode: the printer's separator goes to the writer directly; leading
   content and node are collected, the last EOL removed, NUL appended *)
Fixpoint render_nul (chunk : str) (es : list (event (bool * str))) : str :=
  match es with
  | [] => chunk
  | Sep :: es' => chunk ++ sep_bytes ++ render_nul [] es'
  | LeadSep :: es' => render_nul (chunk ++ sep_bytes) es'
  | LeadLine t :: es' => render_nul (chunk ++ t) es'
  | Res _ _ _ v :: es' => render_nul (chunk ++ snd v) es'
  | Nul :: es' => strip_eol chunk ++ 0 :: render_nul [] es'
  end.

Definition render (cfg : pcfg) (es : list (event (bool * str))) : str :=
  if nul_sep cfg then render_nul [] es else render_plain es.

Record ccase := mkCase {
  c_all : bool;            (* eval-all *)
  c_cfg : pcfg;
  c_nsel : nat;
  c_table : table;
  c_files : list (file N)
}.

(* status byte (0 = exit 0, 1 = error) followed by stdout *)
Definition run_case (c : ccase) : str :=
  let cfg := c_cfg c in
  let r := if c_all c
           then run_all 0 absorb_inst (pfail_inst cfg) (ev_inst (c_table c) (c_nsel c)) tt cfg (c_files c)
           else run_seq 0 absorb_inst (pfail_inst cfg) parentless_inst (ev_inst (c_table c) (c_nsel c)) tt cfg (c_files c) in
  (match snd r with Done => 48 | Failed => 49 end) :: render cfg (fst r).
