(* Model/Lexer.v — the tokeniser: participle's StatefulLexer.Next over the
   single Root state built by lexer.MustSimple(participleYqRules), and
   participleLexer.Tokenise on top of it (lexer_participle.go).  The rule
   list (names, regexes, token actions) is Gen/LexRules.v, regenerated from
   the source on every run.  No proofs here.

   Next():  while input remains: try the rules IN ORDER, the first rule whose
   ^(?:pattern) matches wins (matchLongest is off); no rule => error
   "invalid input text"; a zero-width match => error "did not match any
   input"; consume the match; a rule whose name starts with a lower-case
   letter is elided (whitespace), every other match is returned as a token.
   Tokenise(): for each token take the yq rule with the same token type
   (rule names are unique, so that is the rule itself), skip it if the rule
   has no CreateYqToken (Comment), else build the yq token; at EOF run
   postProcessTokens.
   Not modelled: errors of strconv.ParseInt / ParseFloat inside hexValue,
   numberValue, floatValue (out-of-range numbers) and of extractNumberParameter. *)
From Coq Require Import String.
From YQ Require Import Base.Str Base.Regex Gen.OpTable Gen.LexRules Model.Postfix Model.Tree Model.PostProcess.
Open Scope N_scope.

Inductive lexerr := LexInvalidInput | LexEmptyMatch.

Inductive lres (A : Type) :=
| LOk (a : A)
| LErr (e : lexerr)
| LOutOfFuel.
Arguments LOk {A} a.
Arguments LErr {A} e.
Arguments LOutOfFuel {A}.

Definition rule_match (r : lrule) (s : str) : option str := match_rest (lr_re r) s.

(* for i, candidate := range rules { m = re.Find...; if m != nil { match = m; break } } *)
Fixpoint first_match (rules : list lrule) (s : str) : option (lrule * str) :=
  match rules with
  | [] => None
  | r :: rs =>
      match rule_match r s with
      | Some rest => Some (r, rest)
      | None => first_match rs s
      end
  end.

(* the participle tokens that are not elided: (rule, matched text) *)
Fixpoint lex_raw (fuel : nat) (s : str) : lres (list (lrule * str)) :=
  match s with
  | [] => LOk []
  | _ :: _ =>
      match fuel with
      | O => LOutOfFuel
      | S fuel' =>
          match first_match lex_rules s with
          | None => LErr LexInvalidInput
          | Some (r, rest) =>
              let n := (length s - length rest)%nat in
              match n with
              | O => LErr LexEmptyMatch
              | S _ =>
                  match lex_raw fuel' rest with
                  | LOk toks => LOk (if lr_elide r then toks else (r, firstn n s) :: toks)
                  | LErr e => LErr e
                  | LOutOfFuel => LOutOfFuel
                  end
              end
          end
      end
  end.

(* ---- yq tokens ---- *)
Definition last_is (c : N) (s : str) : bool :=
  match List.rev s with x :: _ => x =? c | [] => false end.
Definition drop_last (s : str) : str := List.removelast s.
(* value[1:len-1] *)
Definition unwrap (s : str) : str := drop_last (List.tl s).

(* strings.ReplaceAll(s, [a;b], by) *)
Fixpoint replace2 (a b : N) (by_ : str) (s : str) : str :=
  match s with
  | [] => []
  | x :: t =>
      match t with
      | y :: r => if (x =? a) && (y =? b) then by_ ++ replace2 a b by_ r else x :: replace2 a b by_ t
      | [] => [x]
      end
  end.

(* stringValue(): unwrap, \" -> ", \n -> newline *)
Definition string_value (text : str) : str :=
  replace2 92 110 [10] (replace2 92 34 [34] (unwrap text)).

(* pathToken(wrapped): optional trailing ?, leading dot, optional quotes *)
Definition path_value (wrapped : bool) (text : str) : str * bool :=
  let opt := last_is 63 text in
  let v := if opt then drop_last text else text in
  let v := List.tl v in
  (if wrapped then unwrap v else v, opt).

Definition cpt_of (c : lcpt) (var : str) : bool :=
  match c with
  | CTrue => true
  | CFalse => false
  | CTable => match find_op_s var with Some oi => oi_cpt oi | None => false end
  end.

Definition br_of (ty : ltoktype) : br :=
  match ty with
  | LT_openBracket | LT_closeBracket => BParen
  | LT_openCollect | LT_closeCollect | LT_traverseArrayCollect => BCollect
  | LT_openCollectObject | LT_closeCollectObject => BObject
  end.

(* definition.CreateYqToken(rawToken); None = the rule has no token (skipped) *)
Definition yq_token (action : laction) (text : str) : option rtok :=
  match action with
  | ASkip => None
  | ALiteral ty _ =>
      Some (match ty with
            | LT_openBracket | LT_openCollect | LT_openCollectObject => ROpen (br_of ty)
            | LT_closeBracket | LT_closeCollect | LT_closeCollectObject => RClose (br_of ty) (last_is 63 text)
            | LT_traverseArrayCollect => RTraverseArrayCollect
            end)
  | AOp var assign cpt val =>
      let '(v, opt) :=
        match val with
        | VNone => ([], false)
        | VText => (text, false)
        | VPath w => path_value w text
        | VVar => (List.tl text, false)
        | VString => (string_value text, false)
        | VFixed s => (s, false)
        end in
      Some (ROp (set_opt (table_op_s var v) opt)
                (match assign with Some a => Some (table_op_s a v) | None => None end)
                (cpt_of cpt var))
  end.

(* getYqDefinition: the first yq rule with the token's type (= name) *)
Definition yq_definition (r : lrule) : option lrule :=
  List.find (fun r' => str_eqb (lr_name r') (lr_name r)) lex_rules.

Fixpoint yq_tokens (toks : list (lrule * str)) : list rtok :=
  match toks with
  | [] => []
  | (r, text) :: rest =>
      match yq_definition r with
      | Some d =>
          match yq_token (lr_action d) text with
          | Some t => t :: yq_tokens rest
          | None => yq_tokens rest
          end
      | None => yq_tokens rest       (* &participleYqRule{}: CreateYqToken == nil *)
      end
  end.

(* Tokenise before postProcessTokens *)
Definition tokenise_raw (s : str) : lres (list rtok) :=
  match lex_raw (S (length s)) s with
  | LOk toks => LOk (yq_tokens toks)
  | LErr e => LErr e
  | LOutOfFuel => LOutOfFuel
  end.

(* ExpressionParser.ParseExpression *)
Definition parse_text (s : str) : lres (res (option tree)) :=
  match tokenise_raw s with
  | LOk ts => LOk (parse_raw ts)
  | LErr e => LErr e
  | LOutOfFuel => LOutOfFuel
  end.

(* canonical bytes for the correspondence check *)
Definition parse_text_ser (s : str) : str :=
  match parse_text s with
  | LOk r => ser_result r
  | LErr _ => str_of_string "ERR:lexer"
  | LOutOfFuel => str_of_string "OUT-OF-FUEL"
  end.

(* token-level observation: one line per raw token *)
Definition ser_rtok (t : rtok) : str :=
  match t with
  | ROp o a c => ser_op o ++ (match a with Some x => [61] ++ o_type x | None => [] end) ++ (if c then [33] else [])
  | ROpen BParen => [40] | ROpen BCollect => [91] | ROpen BObject => [123]
  | RClose BParen o => [41] ++ (if o then [63] else [])
  | RClose BCollect o => [93] ++ (if o then [63] else [])
  | RClose BObject o => [125] ++ (if o then [63] else [])
  | RTraverseArrayCollect => [46; 91]
  end.
