(* Model/Sort.v — executable model of
     pkg/yqlib/operator_sort.go      (sortByOperator, Less, compare, sortableFloat)
     pkg/yqlib/operator_compare.go   (compareScalars, superlativeByComparison)
     pkg/yqlib/operator_sort_keys.go (sortKeys)
     pkg/yqlib/lib.go                (parseInt64)
   and of the two Go library functions they call on scalar text,
   strconv.ParseInt and strconv.ParseFloat (decimal syntax; correctly rounded
   to binary64 with exact integer arithmetic).  No proofs here.

   A scalar is (tag, text) as in yq.  Only the five core tags are modelled;
   timestamps, custom tags and non-scalar operands are outside the model.

   Outcomes: Ok | Err (a Go error return) | Panic (the panic(err) the sort
   comparator had before the fix in /repo; no function produces it any more,
   see C15_cmp_never_panics) | Unmodelled (text the model does not claim to
   predict: hexadecimal floats with a p exponent, strings that could be
   RFC3339 timestamps on the left of a comparison operator). *)
From Coq Require Import List NArith ZArith QArith Bool.
From YQ Require Import Base.Str Spec.Order.
Import ListNotations.
Open Scope Z_scope.

Inductive outcome (A : Type) := Ok (a : A) | Err | Panic | Unmodelled.
Arguments Ok {A} a.
Arguments Err {A}.
Arguments Panic {A}.
Arguments Unmodelled {A}.

Definition bind {A B : Type} (o : outcome A) (f : A -> outcome B) : outcome B :=
  match o with
  | Ok a => f a
  | Err => Err
  | Panic => Panic
  | Unmodelled => Unmodelled
  end.

Inductive tag := TNull | TBool | TInt | TFloat | TStr.

Record scalar := mk { s_tag : tag; s_text : str }.

(* ------------------------------------------------------------------ *)
(* characters                                                          *)
(* ------------------------------------------------------------------ *)
Definition is_digit (c : N) : bool := ((48 <=? c) && (c <=? 57))%N.
Definition lower (c : N) : N := if ((65 <=? c) && (c <=? 90))%N then (c + 32)%N else c.
Definition lower_str (s : str) : str := map lower s.

(* ------------------------------------------------------------------ *)
(* strconv.ParseInt(s, base, 64) for base 8, 10, 16                    *)
(* ------------------------------------------------------------------ *)
Definition digit_val (c : N) : option Z :=
  if is_digit c then Some (Z.of_N c - 48)
  else let l := lower c in
       if ((97 <=? l) && (l <=? 122))%N then Some (Z.of_N l - 97 + 10) else None.

Fixpoint parse_uint (base : Z) (s : str) (acc : Z) : option Z :=
  match s with
  | [] => Some acc
  | c :: r =>
      match digit_val c with
      | Some d => if d <? base then parse_uint base r (acc * base + d) else None
      | None => None
      end
  end.

Definition two63 : Z := 2 ^ 63.
Definition two64 : Z := 2 ^ 64.

Definition go_parse_int (base : Z) (s : str) : option Z :=
  match s with
  | [] => None
  | c :: r =>
      let neg := (c =? 45)%N in
      let body := if ((c =? 43) || (c =? 45))%N then r else s in
      match body with
      | [] => None
      | _ =>
          match parse_uint base body 0 with
          | None => None
          | Some un =>
              if neg then (if un <=? two63 then Some (- un) else None)
              else (if un <? two63 then Some un else None)
          end
      end
  end.

(* lib.go parseInt64: underscores dropped, 0x / 0X / 0o prefixes *)
Definition strip_us (s : str) : str := filter (fun c => negb (c =? 95)%N) s.

Definition parse_int64 (s : str) : option Z :=
  let s' := strip_us s in
  match s' with
  | 48%N :: x :: r =>
      if ((x =? 120) || (x =? 88))%N then go_parse_int 16 r
      else if (x =? 111)%N then go_parse_int 8 r
      else go_parse_int 10 s'
  | _ => go_parse_int 10 s'
  end.

(* int64 subtraction wraps (the comparator returned int(lhs - rhs) before the fix; kept for reference, unused) *)
Definition wrap64 (z : Z) : Z := (z + two63) mod two64 - two63.

(* ------------------------------------------------------------------ *)
(* strconv.ParseFloat(s, 64)                                           *)
(* A finite binary64 is kept as the integer  value * 2^1074  (every    *)
(* finite double is an integer multiple of 2^-1074).                   *)
(* ------------------------------------------------------------------ *)
Inductive fval := FNaN | FInf (neg : bool) | FFin (fx : Z).

Definition fx_pos : positive := (2 ^ 1074)%positive.
Definition fx_scale : Z := Z.pos fx_pos.

(* round m * 10^k (m > 0) to nearest-even binary64; overflow is ErrRange *)
Definition round_fx (neg : bool) (m k : Z) : outcome fval :=
  if m =? 0 then Ok (FFin 0) else
  let n := if 0 <=? k then m * 10 ^ k else m in
  let d := if 0 <=? k then 1 else 10 ^ (- k) in
  let l := Z.log2 n - Z.log2 d in
  let e0 := Z.max (l - 53) (-1074) in
  let q0 := if 0 <=? e0 then n / (d * 2 ^ e0) else (n * 2 ^ (- e0)) / d in
  let e := if 2 ^ 53 <=? q0 then e0 + 1 else e0 in
  let num := if 0 <=? e then n else n * 2 ^ (- e) in
  let den := if 0 <=? e then d * 2 ^ e else d in
  let q := num / den in
  let r := num mod den in
  let rq := if 2 * r <? den then q
            else if den <? 2 * r then q + 1
            else if Z.even q then q else q + 1 in
  let v := rq * 2 ^ (e + 1074) in
  if 2 ^ 1024 * fx_scale <=? v then Err
  else Ok (FFin (if neg then - v else v)).

(* readFloat's mantissa loop: returns (rest, sawdigits, underscores, mantissa, digits after the dot) *)
Fixpoint scan_mant (s : str) (sawdot sawdig us : bool) (m fd : Z) : str * bool * bool * Z * Z :=
  match s with
  | [] => ([], sawdig, us, m, fd)
  | c :: r =>
      if (c =? 95)%N then scan_mant r sawdot sawdig true m fd
      else if (c =? 46)%N then
        (if sawdot then (s, sawdig, us, m, fd) else scan_mant r true sawdig us m fd)
      else if is_digit c then
        scan_mant r sawdot true us (m * 10 + (Z.of_N c - 48)) (if sawdot then fd + 1 else fd)
      else (s, sawdig, us, m, fd)
  end.

(* readFloat's exponent digit loop (the value is capped as in Go) *)
Fixpoint scan_exp (s : str) (us : bool) (e : Z) : str * bool * Z :=
  match s with
  | [] => ([], us, e)
  | c :: r =>
      if (c =? 95)%N then scan_exp r true e
      else if is_digit c then scan_exp r us (if e <? 10000 then e * 10 + (Z.of_N c - 48) else e)
      else (s, us, e)
  end.

(* strconv.underscoreOK *)
Inductive saw := SawBeg | SawDig | SawUs | SawOther.

Fixpoint us_ok_go (hex : bool) (s : str) (sw : saw) : bool :=
  match s with
  | [] => match sw with SawUs => false | _ => true end
  | c :: r =>
      let l := lower c in
      if is_digit c || (hex && ((97 <=? l) && (l <=? 102))%N) then us_ok_go hex r SawDig
      else if (c =? 95)%N then
        match sw with SawDig => us_ok_go hex r SawUs | _ => false end
      else match sw with SawUs => false | _ => us_ok_go hex r SawOther end
  end.

Definition underscore_ok (s : str) : bool :=
  let s1 := match s with c :: r => if ((c =? 43) || (c =? 45))%N then r else s | [] => s end in
  match s1 with
  | 48%N :: x :: r =>
      let l := lower x in
      if ((l =? 98) || (l =? 111) || (l =? 120))%N then us_ok_go (l =? 120)%N r SawDig
      else us_ok_go false s1 SawBeg
  | _ => us_ok_go false s1 SawBeg
  end.

Definition str_is (s : str) (lit : list N) : bool := str_eqb s lit.

Definition lit_inf : str := [105; 110; 102]%N.
Definition lit_infinity : str := [105; 110; 102; 105; 110; 105; 116; 121]%N.
Definition lit_nan : str := [110; 97; 110]%N.

Definition has_p (s : str) : bool := existsb (fun c => (lower c =? 112)%N) s.

(* readFloat + atof64 for a decimal body (after the optional sign); [s] is the whole text *)
Definition parse_dec (neg : bool) (s body : str) : outcome fval :=
  let '(rest, sawdig, us, m, fd) := scan_mant body false false false 0 0 in
  if negb sawdig then Err else
  match rest with
  | [] => if us && negb (underscore_ok s) then Err else round_fx neg m (- fd)
  | c :: r =>
      if (lower c =? 101)%N then
        match r with
        | [] => Err
        | c2 :: r2 =>
            let esign := if (c2 =? 45)%N then -1 else 1 in
            let r3 := if ((c2 =? 43) || (c2 =? 45))%N then r2 else r in
            match r3 with
            | [] => Err
            | d :: _ =>
                if is_digit d then
                  let '(rest2, us2, e) := scan_exp r3 us 0 in
                  match rest2 with
                  | [] => if us2 && negb (underscore_ok s) then Err
                          else round_fx neg m (esign * e - fd)
                  | _ => Err
                  end
                else Err
            end
        end
      else Err
  end.

(* base prefix test of readFloat: i+2 < len(s) && s[i] == '0' && lower(s[i+1]) == 'x' *)
Definition hex_prefix (body : str) : bool :=
  match body with
  | 48%N :: x :: _ :: _ => (lower x =? 120)%N
  | _ => false
  end.

Definition parse_float (s : str) : outcome fval :=
  match s with
  | [] => Err
  | c0 :: r0 =>
      let neg := (c0 =? 45)%N in
      let signed := ((c0 =? 43) || (c0 =? 45))%N in
      let body := if signed then r0 else s in
      let lb := lower_str body in
      if str_is lb lit_inf || str_is lb lit_infinity then Ok (FInf neg)
      else if negb signed && str_is lb lit_nan then Ok FNaN
      else if hex_prefix body then (if has_p body then Unmodelled else Err)
      else parse_dec neg s body
  end.

(* Go float64 comparisons (NaN compares false with everything) *)
Definition f_eq (a b : fval) : bool :=
  match a, b with
  | FFin x, FFin y => x =? y
  | FInf n1, FInf n2 => Bool.eqb n1 n2
  | _, _ => false
  end.

Definition f_lt (a b : fval) : bool :=
  match a, b with
  | FNaN, _ | _, FNaN => false
  | FFin x, FFin y => x <? y
  | FInf n1, FInf n2 => n1 && negb n2
  | FInf n1, FFin _ => n1
  | FFin _, FInf n2 => negb n2
  end.

(* ------------------------------------------------------------------ *)
(* strings.Compare: bytewise, proper prefix first                      *)
(* ------------------------------------------------------------------ *)
Fixpoint str_cmp (a b : str) : comparison :=
  match a, b with
  | [], [] => Eq
  | [], _ :: _ => Lt
  | _ :: _, [] => Gt
  | x :: a', y :: b' => match (x ?= y)%N with Eq => str_cmp a' b' | o => o end
  end.

Definition z_of_cmp (c : comparison) : Z := match c with Lt => -1 | Eq => 0 | Gt => 1 end.

(* isTruthyNode on a !!bool scalar: y / yes / on / true, case-insensitive *)
Definition truthy (s : str) : bool :=
  let l := lower_str s in
  str_is l [121]%N || str_is l [121; 101; 115]%N || str_is l [111; 110]%N || str_is l [116; 114; 117; 101]%N.

(* ------------------------------------------------------------------ *)
(* sortableNodeArray.compare (default date-time layout, core tags)     *)
(* ------------------------------------------------------------------ *)
Definition is_num (t : tag) : bool := match t with TInt | TFloat => true | _ => false end.

(* float64(int64) : the integer rounded to binary64 *)
Definition float_of_int (z : Z) : outcome fval := round_fx (z <? 0) (Z.abs z) 0.

Definition lit_dinf : str := [46; 105; 110; 102]%N.            (* .inf *)
Definition lit_pdinf : str := [43; 46; 105; 110; 102]%N.       (* +.inf *)
Definition lit_ndinf : str := [45; 46; 105; 110; 102]%N.       (* -.inf *)
Definition lit_dnan : str := [46; 110; 97; 110]%N.             (* .nan *)

(* sortableFloat: an !!int through parseInt64 when that succeeds, the yaml
   spellings of infinity and NaN, otherwise strconv.ParseFloat *)
Definition sortable_float (x : scalar) : outcome fval :=
  match (match s_tag x with TInt => parse_int64 (s_text x) | _ => None end) with
  | Some z => float_of_int z
  | None =>
      let l := lower_str (s_text x) in
      if str_is l lit_dinf || str_is l lit_pdinf then Ok (FInf false)
      else if str_is l lit_ndinf then Ok (FInf true)
      else if str_is l lit_dnan then Ok FNaN
      else parse_float (s_text x)
  end.

Definition text_order (a b : scalar) : Z := z_of_cmp (str_cmp (s_text a) (s_text b)).

(* two numbers: both int64 exactly; otherwise as floats; a number that cannot be read: by text *)
Definition cmp_numbers (a b : scalar) : outcome Z :=
  match (match s_tag a, s_tag b with
         | TInt, TInt =>
             match parse_int64 (s_text a), parse_int64 (s_text b) with
             | Some x, Some y => Some (z_of_cmp (x ?= y))
             | _, _ => None
             end
         | _, _ => None
         end) with
  | Some z => Ok z
  | None =>
      match sortable_float a, sortable_float b with
      | Ok x, Ok y => Ok (if f_eq x y then 0 else if f_lt x y then -1 else 1)
      | Unmodelled, _ | _, Unmodelled => Unmodelled
      | _, _ => Ok (text_order a b)
      end
  end.

Definition cmp (a b : scalar) : outcome Z :=
  match s_tag a, s_tag b with
  | TNull, TNull => Ok 0
  | TNull, _ => Ok (-1)
  | _, TNull => Ok 1
  | TBool, TBool =>
      let l := truthy (s_text a) in
      let r := truthy (s_text b) in
      Ok (if Bool.eqb l r then 0 else if l then 1 else -1)
  | TBool, _ => Ok (-1)
  | _, TBool => Ok 1
  | TStr, TStr => Ok (text_order a b)
  | TStr, _ => Ok 1                      (* a number and a non-number: the number first *)
  | _, TStr => Ok (-1)
  | _, _ => cmp_numbers a b
  end.

(* sortableNodeArray.Less over the two lists of key results *)
Fixpoint less_keys (ka kb : list scalar) : outcome bool :=
  match ka, kb with
  | a :: ka', b :: kb' =>
      bind (cmp a b) (fun z =>
        if z <? 0 then Ok true else if 0 <? z then Ok false else less_keys ka' kb')
  | [], _ :: _ => Ok true
  | _, _ => Ok false
  end.

(* ------------------------------------------------------------------ *)
(* The sort.  Go's sort.Stable on fewer than 21 elements is exactly    *)
(* this insertion sort (insert each element from the right while       *)
(* Less(new, previous)); on longer inputs Go merges sorted blocks with *)
(* symMerge, which gives the same result whenever the comparator is    *)
(* consistent (C15_sort_unique) and is not modelled otherwise.         *)
(* The prefix is kept reversed.                                        *)
(* ------------------------------------------------------------------ *)
Section Sort.
  Context {A : Type} (less : A -> A -> outcome bool).

  Fixpoint ins_o (x : A) (rp : list A) : outcome (list A) :=
    match rp with
    | [] => Ok [x]
    | y :: r =>
        bind (less x y) (fun b =>
          if b then bind (ins_o x r) (fun r' => Ok (y :: r')) else Ok (x :: rp))
    end.

  Fixpoint sortr_o (rl : list A) : outcome (list A) :=
    match rl with
    | [] => Ok []
    | x :: t => bind (sortr_o t) (ins_o x)
    end.

  Definition sort_o (l : list A) : outcome (list A) :=
    bind (sortr_o (rev l)) (fun r => Ok (rev r)).
End Sort.

(* the same with a total comparator *)
Section PureSort.
  Context {A : Type} (lt : A -> A -> bool).

  Fixpoint ins (x : A) (rp : list A) : list A :=
    match rp with
    | [] => [x]
    | y :: r => if lt x y then y :: ins x r else x :: rp
    end.

  Fixpoint sortr (rl : list A) : list A :=
    match rl with
    | [] => []
    | x :: t => ins x (sortr t)
    end.

  Definition psort (l : list A) : list A := rev (sortr (rev l)).
End PureSort.

(* an element of the sorted sequence: its key results and its identity *)
Record elem := mke { e_keys : list scalar; e_id : N }.

Definition less_elem (a b : elem) : outcome bool := less_keys (e_keys a) (e_keys b).

(* sort / sort_by(f): elements given with the results of f on each *)
Definition sort_by (l : list elem) : outcome (list elem) := sort_o less_elem l.

(* ------------------------------------------------------------------ *)
(* compareScalars (the operators < <= > >=) with the default layout    *)
(* ------------------------------------------------------------------ *)
Definition maybe_rfc3339 (s : str) : bool :=
  match s with
  | a :: b :: c :: d :: e :: _ => is_digit a && is_digit b && is_digit c && is_digit d && (e =? 45)%N
  | _ => false
  end.

Definition float_or_err (s : str) : outcome fval :=
  match parse_float s with Panic => Err | o => o end.

Definition compare_scalars (or_equal greater : bool) (a b : scalar) : outcome bool :=
  match s_tag a, s_tag b with
  | TStr, _ =>
      if maybe_rfc3339 (s_text a) then Unmodelled else
      match s_tag b with
      | TStr =>
          let c := str_cmp (s_text a) (s_text b) in
          Ok (match c with Eq => or_equal | Lt => negb greater | Gt => greater end)
      | TNull => Ok false
      | _ => Err
      end
  | TInt, TInt =>
      match parse_int64 (s_text a) with
      | None => Err
      | Some x =>
          match parse_int64 (s_text b) with
          | None => Err
          | Some y => Ok (if or_equal && (x =? y) then true else if greater then y <? x else x <? y)
          end
      end
  | TInt, TFloat | TFloat, TInt | TFloat, TFloat =>
      bind (float_or_err (s_text a)) (fun x =>
      bind (float_or_err (s_text b)) (fun y =>
        Ok (if or_equal && f_eq x y then true else if greater then f_lt y x else f_lt x y)))
  | TNull, TNull => if or_equal then Ok true else Ok false
  | TNull, _ => Ok false
  | _, TNull => Ok false
  | _, _ => Err
  end.

(* superlativeByComparison: min (greater = false) / max (greater = true).
   None = the sequence is empty (no result). *)
Fixpoint superl_go (greater : bool) (best : scalar * N) (rest : list (scalar * N)) : outcome (scalar * N) :=
  match rest with
  | [] => Ok best
  | el :: r =>
      bind (compare_scalars false greater (fst el) (fst best)) (fun b =>
        superl_go greater (if b then el else best) r)
  end.

Definition superlative (greater : bool) (l : list (scalar * N)) : outcome (option (scalar * N)) :=
  match l with
  | [] => Ok None
  | x :: r => bind (superl_go greater x r) (fun b => Ok (Some b))
  end.

(* ------------------------------------------------------------------ *)
(* sort_keys(..): every map reordered by sortKeys                      *)
(* sortKeys: key texts sorted by sort.Strings; key and value looked    *)
(* up in buckets indexed by key text (the LAST entry with that text    *)
(* wins, and it is emitted once per occurrence).                       *)
(* ------------------------------------------------------------------ *)
Inductive tree :=
| TScalar (text : str)
| TSeq (items : list tree)
| TMap (entries : list (str * tree)).

Definition str_ltb (a b : str) : bool := match str_cmp a b with Lt => true | _ => false end.

Fixpoint bucket_last {V : Type} (k : str) (es : list (str * V)) (acc : option V) : option V :=
  match es with
  | [] => acc
  | (k', v) :: r => bucket_last k r (if str_eqb k k' then Some v else acc)
  end.

Definition sort_keys_entries {V : Type} (es : list (str * V)) : list (str * V) :=
  flat_map (fun k => match bucket_last k es None with Some v => [(k, v)] | None => [] end)
           (psort str_ltb (map fst es)).

Fixpoint sort_keys_rec (t : tree) : tree :=
  match t with
  | TScalar s => TScalar s
  | TSeq l => TSeq (map sort_keys_rec l)
  | TMap es => TMap (sort_keys_entries (map (fun kv => (fst kv, sort_keys_rec (snd kv))) es))
  end.

(* ------------------------------------------------------------------ *)
(* serialisation for the correspondence check (bytes)                  *)
(* ------------------------------------------------------------------ *)
Definition b_panic : str := [250%N].
Definition b_err : str := [251%N].
Definition b_unmodelled : str := [252%N].

Definition show_outcome {A : Type} (f : A -> str) (o : outcome A) : str :=
  match o with Ok a => f a | Err => b_err | Panic => b_panic | Unmodelled => b_unmodelled end.

(* sort_by: the identities in output order *)
Definition run_sort (l : list elem) : str := show_outcome (map e_id) (sort_by l).

(* the four operators on one pair: < <= > >= as 0/1 bytes *)
Definition bit (b : bool) : N := if b then 1%N else 0%N.
Definition run_ops (a b : scalar) : str :=
  show_outcome (fun x => x)
    (bind (compare_scalars false false a b) (fun lt =>
     bind (compare_scalars true false a b) (fun le =>
     bind (compare_scalars false true a b) (fun gt =>
     bind (compare_scalars true true a b) (fun ge =>
       Ok [bit lt; bit le; bit gt; bit ge]))))).

Definition tag_byte (t : tag) : N :=
  match t with TNull => 110%N | TBool => 98%N | TInt => 105%N | TFloat => 102%N | TStr => 115%N end.
Definition show_scalar (x : scalar) : str := tag_byte (s_tag x) :: s_text x ++ [10%N].

Definition run_superl (greater : bool) (l : list (scalar * N)) : str :=
  show_outcome (fun o => match o with None => [] | Some x => show_scalar (fst x) end) (superlative greater l).

(* plain sort of scalars: tag byte, text, newline per element *)
Definition run_sort_plain (l : list scalar) : str :=
  show_outcome (flat_map show_scalar) (sort_o (fun a b => less_keys [a] [b]) l).

(* the raw three-way result of the sort comparator on a pair: 0 lt, 1 eq, 2 gt *)
Definition run_cmp (a b : scalar) : str :=
  show_outcome (fun z => [if z <? 0 then 0%N else if 0 <? z then 2%N else 1%N]) (cmp a b).

(* compact JSON of a tree whose scalars/keys need no escaping (the generator guarantees it) *)
Definition c_dq : N := 34%N.
Fixpoint json_of (t : tree) : str :=
  match t with
  | TScalar s => s
  | TSeq l =>
      91%N :: (fix go (l : list tree) (first : bool) : str :=
                match l with
                | [] => [93%N]
                | x :: r => (if first then [] else [44%N]) ++ json_of x ++ go r false
                end) l true
  | TMap es =>
      123%N :: (fix go (l : list (str * tree)) (first : bool) : str :=
                 match l with
                 | [] => [125%N]
                 | (k, v) :: r => (if first then [] else [44%N]) ++ c_dq :: k ++ c_dq :: 58%N :: json_of v ++ go r false
                 end) es true
  end.

Definition run_sort_keys (t : tree) : str := json_of (sort_keys_rec t).

(* ------------------------------------------------------------------ *)
(* Denotation of a scalar in Spec/Order.v and the consistent domain D  *)
(* (definitions used by the statements of Props/C15.v)                 *)
(* ------------------------------------------------------------------ *)
Definition den (x : scalar) : option value :=
  match s_tag x with
  | TNull => Some VNull
  | TBool => Some (VBool (truthy (s_text x)))
  | TInt => match parse_int64 (s_text x) with Some z => Some (VNum (XFin (inject_Z z))) | None => None end
  | TFloat =>
      match sortable_float x with
      | Ok (FFin fx) => Some (VNum (XFin (Qmake fx fx_pos)))
      | Ok (FInf neg) => Some (VNum (if neg then XNegInf else XPosInf))
      | _ => None
      end
  | TStr => Some (VStr (s_text x))
  end.

(* total version; only meaningful where [den] is defined *)
Definition vden (x : scalar) : value := match den x with Some v => v | None => VNull end.

(* the integer is exactly representable in binary64 (sort reads an int next to a float as float64(int64)) *)
Definition int_exact (x : scalar) : bool :=
  match parse_int64 (s_text x) with
  | Some z => match float_of_int z with Ok (FFin fx) => fx =? z * fx_scale | _ => false end
  | None => false
  end.

(* the text of an !!int scalar, read by ParseFloat, is exactly the integer (the operators < <= > >= read it so) *)
Definition int_reads_exact (x : scalar) : bool :=
  match parse_int64 (s_text x), parse_float (s_text x) with
  | Some z, Ok (FFin fx) => fx =? z * fx_scale
  | _, _ => false
  end.

Definition is_some {A : Type} (o : option A) : bool := match o with Some _ => true | None => false end.

(* D, pairwise: both scalars denote a value (ints accepted by parseInt64,
   floats readable and not NaN) and an int next to a float is exactly
   representable in binary64. *)
Definition pair_ok (a b : scalar) : bool :=
  is_some (den a) && is_some (den b) &&
  match s_tag a, s_tag b with
  | TInt, TFloat => int_exact a
  | TFloat, TInt => int_exact b
  | _, _ => true
  end.

(* the sign of the sort comparator's answer *)
Definition cmp_sign (a b : scalar) : option comparison :=
  match cmp a b with Ok z => Some (z ?= 0) | _ => None end.

Definition is_lt (c : comparison) : bool := match c with Lt => true | _ => false end.

Definition elem_vals (e : elem) : list value := map vden (e_keys e).

(* the spec order on elements, and the strict part as a boolean *)
Definition elem_cmp (a b : elem) : comparison := keys_cmp (elem_vals a) (elem_vals b).
Definition elem_lt (a b : elem) : bool := is_lt (elem_cmp a b).

(* a sequence is consistent when every two key scalars occurring in it are a D pair (both ways round) *)
Definition consistent (l : list elem) : Prop :=
  forall a b, In a l -> In b l -> forall x y, In x (e_keys a) -> In y (e_keys b) -> pair_ok x y = true.

(* where the four operators are defined and claimed to agree with the order *)
Definition same_outcome (x y : outcome fval) : bool :=
  match x, y with
  | Ok (FFin p), Ok (FFin q) => p =? q
  | Ok (FInf m), Ok (FInf n) => Bool.eqb m n
  | _, _ => false
  end.

(* a float operand is spelled so that ParseFloat reads it (not .inf / -.inf, which only sort understands) *)
Definition ops_float_ok (x : scalar) : bool :=
  match s_tag x with
  | TFloat => same_outcome (parse_float (s_text x)) (sortable_float x)
  | _ => true
  end.

Definition ops_ok (a b : scalar) : bool :=
  is_some (den a) && is_some (den b) && ops_float_ok a && ops_float_ok b &&
  match s_tag a, s_tag b with
  | TInt, TInt => true
  | TInt, TFloat => int_reads_exact a
  | TFloat, TInt => int_reads_exact b
  | TFloat, TFloat => true
  | TStr, TStr => negb (maybe_rfc3339 (s_text a))
  | TNull, TNull => true
  | _, _ => false
  end.

Definition op_spec (or_equal greater : bool) (c : comparison) : bool :=
  match c with Eq => or_equal | Lt => negb greater | Gt => greater end.

(* paths into a tree, for the statement about sort_keys *)
Inductive step := SKey (k : str) | SIdx (n : nat).

Fixpoint lookup {V : Type} (k : str) (es : list (str * V)) : option V :=
  match es with
  | [] => None
  | (k', v) :: r => if str_eqb k k' then Some v else lookup k r
  end.

Fixpoint get (p : list step) (t : tree) : option tree :=
  match p with
  | [] => Some t
  | SKey k :: p' => match t with TMap es => match lookup k es with Some v => get p' v | None => None end | _ => None end
  | SIdx n :: p' => match t with TSeq l => match nth_error l n with Some v => get p' v | None => None end | _ => None end
  end.

(* no map anywhere in the tree has a repeated key *)
Definition unique_keys (t : tree) : Prop :=
  forall p es, get p t = Some (TMap es) -> NoDup (map fst es).

(* same spec rank: the equivalence classes that a stable sort keeps in input order *)
Definition elem_eqb (z y : elem) : bool := match elem_cmp z y with Eq => true | _ => false end.

(* ascending under the spec order *)
Definition elem_le (a b : elem) : Prop := elem_cmp a b <> Gt.

(* "the comparator says a <= b" *)
Definition cmp_le (a b : scalar) : Prop := exists c, cmp_sign a b = Some c /\ c <> Gt.

(* the order min (greater = false) / max (greater = true) minimise *)
Definition sup_cmp (greater : bool) (x y : scalar) : comparison :=
  if greater then ord_cmp (vden y) (vden x) else ord_cmp (vden x) (vden y).

(* decidable form of [consistent] (sound: Proofs/SortProofs.v consistentb_sound) *)
Definition all_keys (l : list elem) : list scalar := flat_map e_keys l.
Definition consistentb (l : list elem) : bool :=
  forallb (fun x => forallb (fun y => pair_ok x y) (all_keys l)) (all_keys l).
