(* Model/Store.v — the mutable node graph of the Go evaluator as a list of
   *roots* (the input document is root 0; every Copy / CreateReplacement /
   fresh node is a new root appended at the end) addressed by pointers
   (root id, child positions).  Tree-shaped ownership is free with nesting;
   Go pointer identity is the (root, position path) pair.  Each root keeps
   what the Go node's Parent/Key fields say about where it *claims* to be
   (r_parent = GetPath() of its Parent when it was created, r_key = its Key),
   which is what path / delete / AddChild read.  No proofs here. *)
From YQ Require Import Base.Str Model.Node.
From Coq Require Import ZArith.

Inductive res (A : Type) := Ok (a : A) | Err | Panic | Unsup | OutOfFuel.
Arguments Ok {A} a. Arguments Err {A}. Arguments Panic {A}. Arguments Unsup {A}. Arguments OutOfFuel {A}.

Definition bind {A B} (m : res A) (f : A -> res B) : res B :=
  match m with Ok a => f a | Err => Err | Panic => Panic | Unsup => Unsup | OutOfFuel => OutOfFuel end.
Notation "'let*' x ':=' m 'in' f" := (bind m (fun x => f)) (at level 200, x pattern, m at level 100, f at level 200).

Definition of_option {A} (o : option A) : res A := match o with Some a => Ok a | None => Unsup end.

Record root := mkRoot { r_parent : option (list pelem); r_key : option rkey; r_body : node }.
Definition store := list root.
Definition ptr := (nat * list nat)%type.

Definition children (n : node) : list node :=
  match n with Seq items => List.map snd items | Map es => List.map snd es | Scalar _ _ => [] end.

Fixpoint get_at (n : node) (p : list nat) : option node :=
  match p with
  | [] => Some n
  | i :: r => match nth_error (children n) i with Some c => get_at c r | None => None end
  end.

Fixpoint upd_nth {A} (l : list A) (i : nat) (f : A -> A) : list A :=
  match l, i with
  | [], _ => []
  | x :: r, O => f x :: r
  | x :: r, S j => x :: upd_nth r j f
  end.

Fixpoint upd_at (n : node) (p : list nat) (f : node -> node) : node :=
  match p with
  | [] => f n
  | i :: r =>
      match n with
      | Seq items => Seq (upd_nth items i (fun kc => (fst kc, upd_at (snd kc) r f)))
      | Map es => Map (upd_nth es i (fun kc => (fst kc, upd_at (snd kc) r f)))
      | Scalar _ _ => n
      end
  end.

Definition deref (st : store) (p : ptr) : option node :=
  match nth_error st (fst p) with Some r => get_at (r_body r) (snd p) | None => None end.

Definition update (st : store) (p : ptr) (f : node -> node) : store :=
  upd_nth st (fst p) (fun r => mkRoot (r_parent r) (r_key r) (upd_at (r_body r) (snd p) f)).

Definition alloc (st : store) (r : root) : ptr * store := ((length st, []), st ++ [r]).

(* recorded key of the i-th child of a container *)
Definition child_key (n : node) (i : nat) : option rkey :=
  match n with
  | Seq items => option_map fst (nth_error items i)
  | Map es => option_map (fun kc => RStr (fst kc)) (nth_error es i)
  | Scalar _ _ => None
  end.

(* keys recorded along a position path *)
Fixpoint keys_along (n : node) (p : list nat) : list pelem :=
  match p with
  | [] => []
  | i :: r =>
      match child_key n i, nth_error (children n) i with
      | Some k, Some c => rkey_pelem k :: keys_along c r
      | _, _ => []
      end
  end.

Definition root_path (r : root) : list pelem :=
  match r_key r with
  | None => []
  | Some k => match r_parent r with Some pp => pp ++ [rkey_pelem k] | None => [rkey_pelem k] end
  end.

(* CandidateNode.GetPath *)
Definition path_of (st : store) (p : ptr) : list pelem :=
  match nth_error st (fst p) with
  | Some r => root_path r ++ keys_along (r_body r) (snd p)
  | None => []
  end.

Definition key_of (st : store) (p : ptr) : option rkey :=
  match nth_error st (fst p) with
  | None => None
  | Some r =>
      match snd p with
      | [] => r_key r
      | _ => match get_at (r_body r) (removelast (snd p)) with
             | Some par => child_key par (last (snd p) O)
             | None => None
             end
      end
  end.

Definition parent_ptr (p : ptr) : option ptr :=
  match snd p with [] => None | _ => Some (fst p, removelast (snd p)) end.

(* GetPath() of the Go Parent pointer (None = Parent == nil) *)
Definition parent_path_of (st : store) (p : ptr) : option (list pelem) :=
  match parent_ptr p with
  | Some q => Some (path_of st q)
  | None => match nth_error st (fst p) with Some r => r_parent r | None => None end
  end.

(* n.CopyAsReplacement(body): a new object that claims n's place *)
Definition replacement_root (st : store) (src : ptr) (body : node) : root :=
  mkRoot (parent_path_of st src) (key_of st src) body.

Definition fresh_root (body : node) : root := mkRoot None None body.

(* CandidateNode.AddChild on the item list under construction *)
Definition add_child (items : list (rkey * node)) (k : option rkey) (c : node) : list (rkey * node) :=
  items ++ [(match k with Some k => k | None => RIdx (N.of_nat (length items)) end, c)].

(* pointers to all children of the node at p *)
Definition child_ptrs (p : ptr) (n : node) : list ptr :=
  List.map (fun i => (fst p, snd p ++ [i])) (seq 0 (length (children n))).

(* every node below (and including) position q, in the order recursive
   descent visits them (a node, then its children depth-first) *)
Fixpoint descend (n : node) (q : list nat) : list (list nat) :=
  q ::
  match n with
  | Scalar _ _ => []
  | Seq items =>
      (fix go (l : list (rkey * node)) (i : nat) : list (list nat) :=
         match l with [] => [] | (_, c) :: r => descend c (q ++ [i]) ++ go r (S i) end) items O
  | Map es =>
      (fix go (l : list (str * node)) (i : nat) : list (list nat) :=
         match l with [] => [] | (_, c) :: r => descend c (q ++ [i]) ++ go r (S i) end) es O
  end.

(* ---------- delete (operator_delete.go) ---------- *)
Fixpoint remove_entries (es : list (str * node)) (k : str) : list (str * node) :=
  match es with
  | [] => []
  | (k', v) :: r => if str_eqb k' k then remove_entries r k else (k', v) :: remove_entries r k
  end.

(* deleteFromArray: drop the victim itself (by identity = its position);
   surviving items get their key text renumbered *)
Fixpoint remove_item (items : list (rkey * node)) (victim : nat) (pos : nat) (kept : N) : list (rkey * node) :=
  match items with
  | [] => []
  | (k, v) :: r =>
      if Nat.eqb pos victim then remove_item r victim (S pos) kept
      else (match k with RIdx _ => RIdx kept | RStr _ => RStr (dec_N kept) end, v)
             :: remove_item r victim (S pos) (kept + 1)
  end.

(* deleteFromMap locates by key text; deleteFromArray by identity *)
Definition delete_child (par : node) (k : rkey) (pos : nat) : res node :=
  match par with
  | Map es =>
      match k with
      | RStr s => Ok (Map (remove_entries es s))
      | RIdx _ => Ok par       (* key.Value == childPath compares a string with an int: never equal *)
      end
  | Seq items => Ok (Seq (remove_item items pos O 0))
  | Scalar _ _ => Err
  end.

(* ---------- pointer bookkeeping across a structural delete ----------
   Go pointers stay valid when siblings are removed; position-based pointers
   must be shifted.  [removed] are the child positions deleted from [par]. *)
Fixpoint ptr_eqb_path (a b : list nat) : bool :=
  match a, b with
  | [], [] => true
  | x :: a', y :: b' => Nat.eqb x y && ptr_eqb_path a' b'
  | _, _ => false
  end.
Definition ptr_eqb (a b : ptr) : bool := Nat.eqb (fst a) (fst b) && ptr_eqb_path (snd a) (snd b).

(* split q as pre ++ j :: rest when pre is a prefix *)
Fixpoint strip_prefix (pre q : list nat) : option (list nat) :=
  match pre, q with
  | [], _ => Some q
  | x :: pre', y :: q' => if Nat.eqb x y then strip_prefix pre' q' else None
  | _ :: _, [] => None
  end.

Definition shift_ptr (par : ptr) (removed : list nat) (v : ptr) : option ptr :=
  if negb (Nat.eqb (fst par) (fst v)) then Some v else
  match strip_prefix (snd par) (snd v) with
  | Some (j :: rest) =>
      if existsb (Nat.eqb j) removed then None     (* the node itself (or an ancestor) was detached *)
      else Some (fst v, snd par ++ (j - length (filter (fun r => Nat.ltb r j) removed))%nat :: rest)
  | _ => Some v
  end.

Fixpoint shift_ptrs (par : ptr) (removed : list nat) (vs : list ptr) : list ptr :=
  match vs with
  | [] => []
  | v :: r => match shift_ptr par removed v with Some v' => v' :: shift_ptrs par removed r | None => shift_ptrs par removed r end
  end.

(* positions delete_child removes *)
Fixpoint removed_entries (es : list (str * node)) (k : str) (i : nat) : list nat :=
  match es with [] => [] | (k', _) :: r => if str_eqb k' k then i :: removed_entries r k (S i) else removed_entries r k (S i) end.

Definition removed_positions (par : node) (k : rkey) (pos : nat) : list nat :=
  match par with
  | Map es => match k with RStr s => removed_entries es s O | RIdx _ => [] end
  | Seq items => if Nat.ltb pos (length items) then [pos] else []
  | Scalar _ _ => []
  end.

Fixpoint dedupe_ptrs (vs : list ptr) (seen : list ptr) : list ptr :=
  match vs with
  | [] => []
  | v :: r => if existsb (ptr_eqb v) seen then dedupe_ptrs r seen else v :: dedupe_ptrs r (v :: seen)
  end.
