(* Model/Base64.v — executable model of pkg/yqlib/encoder_base64.go and
   decoder_base64.go, i.e. Go's encoding/base64 StdEncoding (alphabet
   A-Z a-z 0-9 + /, padding =, non-strict trailing bits) as yq drives it:

     encode : EncodeToString of the node value;
     decode : the text goes through yq's base64Padder (counts the bytes read
              that are not CR / LF and appends 4 - count mod 4 pad
              characters at EOF when count mod 4 <> 0), then through
              base64.NewDecoder, which strips CR / LF and decodes 4-character
              quanta; a '=' quantum must be the last one.

   Strings are byte lists (list N, every element < 256 for real inputs).
   No proofs here.

   The stream decoder of the library decodes what it has buffered in blocks
   of whole quanta and checks "nothing after a padded quantum" only inside a
   block.  With yq's padder the text arrives in one read and the pad
   characters in a later one, so the blocks are: the whole quanta of the
   (newline-stripped) text, then the 1..3 left-over characters together with
   the appended pad characters.  The model follows that (b64_stream).
   Known limit (stated in the trusted base): a text longer than the first
   read of bytes.Buffer.ReadFrom (680 characters) is split into more blocks;
   that only matters for malformed text with an interior pad character. *)
From YQ Require Import Base.Str.

Definition c_pad : N := 61.   (* = *)
Definition c_lf : N := 10.
Definition c_cr : N := 13.

(* encodeStd[i] for i < 64 *)
Definition b64_char (i : N) : N :=
  if i <? 26 then 65 + i
  else if i <? 52 then 97 + (i - 26)
  else if i <? 62 then 48 + (i - 52)
  else if i =? 62 then 43
  else 47.

(* decodeMap[c]; None is 0xff *)
Definition b64_val (c : N) : option N :=
  if (65 <=? c) && (c <=? 90) then Some (c - 65)
  else if (97 <=? c) && (c <=? 122) then Some (c - 97 + 26)
  else if (48 <=? c) && (c <=? 57) then Some (c - 48 + 52)
  else if c =? 43 then Some 62
  else if c =? 47 then Some 63
  else None.

(* Encoding.Encode: 3 bytes -> 4 characters, remainder padded *)
Fixpoint b64_encode (s : str) : str :=
  match s with
  | a :: b :: c :: r =>
      let n := a * 65536 + b * 256 + c in
      b64_char (n / 262144) :: b64_char ((n / 4096) mod 64)
      :: b64_char ((n / 64) mod 64) :: b64_char (n mod 64) :: b64_encode r
  | [a; b] =>
      let n := a * 65536 + b * 256 in
      [b64_char (n / 262144); b64_char ((n / 4096) mod 64); b64_char ((n / 64) mod 64); c_pad]
  | [a] =>
      let n := a * 65536 in
      [b64_char (n / 262144); b64_char ((n / 4096) mod 64); c_pad; c_pad]
  | [] => []
  end.

Inductive b64_error := B64Corrupt | B64UnexpectedEOF.

Inductive b64_result :=
| B64Ok (bytes : str)
| B64Err (e : b64_error).

(* after a padded quantum nothing may follow inside the block *)
Definition b64_after_pad (r : str) (v : str) : b64_result :=
  match r with
  | [] => B64Ok v
  | _ => B64Err B64Corrupt
  end.

Definition b64_cons3 (x y z : N) (r : b64_result) : b64_result :=
  match r with B64Ok l => B64Ok (x :: y :: z :: l) | e => e end.

(* Encoding.Decode over newline-free text, whole quanta; 1..3 left-over
   characters at the end are the stream decoder's io.ErrUnexpectedEOF. *)
Fixpoint b64_decode_quanta (s : str) : b64_result :=
  match s with
  | [] => B64Ok []
  | c1 :: c2 :: c3 :: c4 :: r =>
      match b64_val c1, b64_val c2 with
      | Some v1, Some v2 =>
          if c3 =? c_pad then
            (* j = 2: the next character must be the second pad, then end *)
            if c4 =? c_pad then
              b64_after_pad r [(v1 * 262144 + v2 * 4096) / 65536]
            else B64Err B64Corrupt
          else
            match b64_val c3 with
            | Some v3 =>
                if c4 =? c_pad then
                  let n := v1 * 262144 + v2 * 4096 + v3 * 64 in
                  b64_after_pad r [n / 65536; (n / 256) mod 256]
                else
                  match b64_val c4 with
                  | Some v4 =>
                      let n := v1 * 262144 + v2 * 4096 + v3 * 64 + v4 in
                      b64_cons3 (n / 65536) ((n / 256) mod 256) (n mod 256) (b64_decode_quanta r)
                  | None => B64Err B64Corrupt
                  end
            | None => B64Err B64Corrupt
            end
      | _, _ => B64Err B64Corrupt
      end
  | _ => B64Err B64UnexpectedEOF
  end.

(* newlineFilteringReader *)
Definition is_newline (c : N) : bool := (c =? c_lf) || (c =? c_cr).

Fixpoint strip_newlines (s : str) : str :=
  match s with
  | [] => []
  | c :: r => if is_newline c then strip_newlines r else c :: strip_newlines r
  end.

Fixpoint repeat_n (c : N) (n : nat) : str :=
  match n with O => [] | S k => c :: repeat_n c k end.

(* base64Padder: count is the number of bytes counted (see b64_decode);
   at EOF it supplies 4 - count mod 4 pad characters when count mod 4 <> 0 *)
Definition b64_pad_count (s : str) : nat :=
  let m := N.of_nat (length s) mod 4 in
  if m =? 0 then O else N.to_nat (4 - m).

(* whole quanta of a text, and the 0..3 characters left over *)
Fixpoint split_quanta (t : str) : str * str :=
  match t with
  | c1 :: c2 :: c3 :: c4 :: r => let (a, b) := split_quanta r in (c1 :: c2 :: c3 :: c4 :: a, b)
  | _ => ([], t)
  end.

(* base64.NewDecoder over (newline-stripped text, then padn pad characters) *)
Definition b64_stream (t : str) (padn : nat) : b64_result :=
  let (block1, rest) := split_quanta t in
  match b64_decode_quanta block1 with
  | B64Err e => B64Err e
  | B64Ok v1 =>
      let (block2, left) := split_quanta (rest ++ repeat_n c_pad padn) in
      match b64_decode_quanta block2 with
      | B64Err e => B64Err e
      | B64Ok v2 =>
          match left with
          | [] => B64Ok (v1 ++ v2)
          | _ => B64Err B64UnexpectedEOF
          end
      end
  end.

(* base64Decoder.Decode on the whole input; the padder counts the bytes
   that are not CR / LF (repaired in /repo: it used to count every byte) *)
Definition b64_decode (s : str) : b64_result :=
  b64_stream (strip_newlines s) (b64_pad_count (strip_newlines s)).

(* drop the trailing pad characters: the "unpadded input" yq wants to accept *)
Fixpoint strip_pad (s : str) : str :=
  match s with
  | [] => []
  | c :: r => if c =? c_pad then [] else c :: strip_pad r
  end.

(* serialisation for the correspondence check *)
Definition b64_result_bytes (r : b64_result) : str :=
  match r with
  | B64Ok l => 79 :: l                       (* O *)
  | B64Err B64Corrupt => [67]                (* C *)
  | B64Err B64UnexpectedEOF => [85]          (* U *)
  end.

Definition b64_decode_obs (s : str) : str := b64_result_bytes (b64_decode s).

Definition is_byte (c : N) : Prop := c < 256.
Definition bytes (s : str) : Prop := Forall is_byte s.

(* base64Encoder.Encode / uriEncoder.Encode start with
   node.guessTagFromCustomType() != "!!str" => error: only strings are encoded *)
Definition encode_string_node {A : Type} (f : str -> A) (tag_is_str : bool) (v : str) : option A :=
  if tag_is_str then Some (f v) else None.
