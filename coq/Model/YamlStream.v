(* Model/YamlStream.v — the identity expression on a YAML stream of any
   number of documents: yq's leading-content scanner and conversion
   (Model/YamlBridge.v) under the stream evaluator and the printer's
   separator logic (Model/Stream.v and Model/Printer.v of C10, instantiated,
   not copied).  The YAML library enters as [yparse] (a stream to its
   document nodes) and [yemit] (one node to its text).  No proofs here. *)
From Coq Require Import List NArith Bool.
From YQ Require Import Base.Str Model.Printer Model.Stream Model.YamlBridge.
Import ListNotations.
Open Scope N_scope.

(* LeadingContent as the printer model sees it: the marker line, or any other line *)
Fixpoint litems (fuel : nat) (s : str) : list litem :=
  match fuel with
  | O => []
  | S f =>
      match s with
      | [] => []
      | _ => let '(l, rest, eof) := read_line s in
             (if str_eqb l (marker ++ [10]) || str_eqb l marker then LSep else LLine l)
               :: (if eof then [] else litems f rest)
      end
  end.

Definition litems_of (content : str) : list litem := litems (S (length content)) content.

(* YAML output, separators printed, no NUL mode *)
Definition yaml_cfg : pcfg := mkCfg true true false.

(* createScalarNode(nil, empty string) *)
Definition blank_node : cnode := CNode CScalar 0 t_null [] [] None [] [] [] 0 0 false None [] [].

(* the identity expression: every document is its own single result, which
   reports the document's position *)
Definition id_ev (t : unit) (ds : list (sdoc cnode)) : option (list (res cnode)) * unit :=
  (Some (map (fun sd => mkRes (s_doc sd) (s_file sd) (s_lead sd) (s_body sd)) ds), t).

Definition never {A : Type} (_ : A) : bool := false.

Definition sep_bytes : str := [45; 45; 45; 10].

(* a leading-content line written through (PrintLeadingContent adds the
   missing newline of a last line) *)
Definition lead_line_bytes (t : str) : str :=
  out_line t ++ (match rev t with 10 :: _ => [] | _ => [10] end).

(* bytes of the printer's events *)
Definition event_bytes (yemit : ynode -> str) (e : event cnode) : str :=
  match e with
  | Printer.Sep | LeadSep => sep_bytes
  | LeadLine t => lead_line_bytes t
  | Res _ _ _ c => emit_doc yemit c
  | Nul => [0]
  end.

Definition opt_all {A B : Type} (f : A -> option B) : list A -> option (list B) :=
  fix go (l : list A) : option (list B) :=
    match l with
    | [] => Some []
    | x :: xs => match f x, go xs with Some y, Some ys => Some (y :: ys) | _, _ => None end
    end.

(* Init + all Decode calls of one file: the candidates of the documents
   (leading content is attached by Stream.decode) *)
Definition read_stream (yparse : str -> option (list ynode)) (rest : str) : option (list cnode) :=
  match yparse rest with
  | Some ds => opt_all (decode_doc []) ds
  | None => None
  end.

(* the events of yq . on one input *)
Definition stream_events (lead : str) (cs : list cnode) : list (event cnode) * status :=
  run_seq blank_node (fun _ b => b) never never id_ev tt yaml_cfg [mkFile [] (litems_of lead) cs false].

(* yq . on a stream: None = the library rejects it or a document node is empty *)
Definition yq_stream (yparse : str -> option (list ynode)) (yemit : ynode -> str) (s : str) : option str :=
  let '(lead, rest) := process_read_stream s in
  match read_stream yparse rest with
  | Some cs => Some (flat_map (event_bytes yemit) (fst (stream_events lead cs)))
  | None => None
  end.

(* the emitted documents joined by the printer's separator *)
Fixpoint join_docs (es : list str) : str :=
  match es with
  | [] => []
  | [e] => e
  | e :: rest => e ++ sep_bytes ++ join_docs rest
  end.
