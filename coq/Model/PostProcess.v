(* Model/PostProcess.v — lexer.go: postProcessTokens / handleToken, on the
   token list the participle lexer hands over (raw tokens), producing the
   token list ConvertToPostfix consumes.  No proofs here.

   What the regex lexer itself does (text to raw tokens) is NOT modelled;
   the correspondence check supplies, for each generated expression text,
   the raw tokens it is meant to lex to, and the comparison of the resulting
   trees validates that mapping together with this file. *)
From Coq Require Import String.
From YQ Require Import Base.Str Gen.OpTable Model.Postfix Model.Tree.
Open Scope N_scope.

(* token{TokenType, Operation, AssignOperation, CheckForPostTraverse, Match} *)
Inductive rtok :=
| ROp (o : op) (assign : option op) (cpt : bool)
| ROpen (b : br)                 (* ( [ {   : CheckForPostTraverse = false *)
| RClose (b : br) (opt : bool)   (* ) ] ]? } : CheckForPostTraverse = true  *)
| RTraverseArrayCollect.         (* .[      : CheckForPostTraverse = false *)

(* tokenIsOpType(token, xOpType) *)
Definition create_map_type : str := o_type (table_op "createMapOpType" []).
Definition assign_type : str := o_type (table_op "assignOpType" []).
Definition traverse_path_type : str := o_type (table_op "traversePathOpType" []).

Definition type_is (ty : str) (o : op) : bool := str_eqb (o_type o) ty.

Definition rtok_is_op (ty : str) (t : rtok) : bool :=
  match t with ROp o _ _ => type_is ty o | _ => false end.

Definition rtok_cpt (t : rtok) : bool :=
  match t with
  | ROp _ _ c => c
  | RClose _ _ => true
  | _ => false
  end.

Definition self_op : op := table_op "selfReferenceOpType" (str_of_string "SELF").
Definition ta_inserted_self : op := table_op "traverseArrayOpType" (str_of_string "TRAVERSE_ARRAY").
Definition ta_inserted_post : op := table_op "traverseArrayOpType" [].
Definition zero_value_op : op := table_op "valueOpType" (str_of_string "0").
Definition length_inserted : op := table_op "lengthOpType" [].
Definition empty_inserted : op := table_op "emptyOpType" (str_of_string "EMPTY").
Definition short_pipe_inserted : op := table_op "shortPipeOpType" (str_of_string ".").

(* the tokens handleToken appends AFTER the current token (its last four
   `if` blocks); [cur] is the current token after the rewrites of steps 1-3 *)
Definition tail_ins (cur : rtok) (next : option rtok) : list tok :=
  (* 5. slice without a second number: `:` `]` gets an implied length *)
  (if rtok_is_op create_map_type cur then
     match next with
     | Some (RClose BCollect _) => [TOp length_inserted]
     | _ => []
     end
   else []) ++
  (* 6. `[]` and `{}` get an EMPTY operand *)
  (match cur, next with
   | ROpen BCollect, Some (RClose BCollect _) => [TOp empty_inserted]
   | ROpen BObject, Some (RClose BObject _) => [TOp empty_inserted]
   | _, _ => []
   end) ++
  (* 7. value followed by a path: implicit short pipe *)
  (match next with
   | Some n =>
       if rtok_cpt cur && (rtok_is_op traverse_path_type n ||
                           match n with RTraverseArrayCollect => true | _ => false end)
       then [TOp short_pipe_inserted] else []
   | None => []
   end) ++
  (* 8. value followed by `[`: implicit traverse-array *)
  (match next with
   | Some (ROpen BCollect) => if rtok_cpt cur then [TOp ta_inserted_post] else []
   | _ => []
   end).

Definition tok_of_rtok (t : rtok) : list tok :=
  match t with
  | ROp o _ _ => [TOp o]
  | ROpen b => [TOpen b]
  | RClose b opt => [TClose b opt]
  | RTraverseArrayCollect => []   (* unreachable: replaced in step 1 *)
  end.

(* handleToken(tokens, index, acc): [prev] = tokens[index-1] if any,
   [next] = tokens[index+1] if any.  Returns the tokens appended and
   skipNextToken. *)
Definition handle_token (prev : option rtok) (cur : rtok) (next : option rtok) : list tok * bool :=
  (* 1. `.[` becomes SELF TRAVERSE_ARRAY and the current token turns into `[` *)
  let '(pre1, cur1) :=
    match cur with
    | RTraverseArrayCollect => ([TOp self_op; TOp ta_inserted_self], ROpen BCollect)
    | _ => ([], cur)
    end in
  (* 2. slice without a first number: `.[` `:`  gets an implied 0 *)
  let pre2 :=
    if rtok_is_op create_map_type cur1 then
      match prev with
      | Some RTraverseArrayCollect => [TOp zero_value_op]
      | _ => []
      end
    else [] in
  (* 3. `tag =` style fusion: AssignOperation replaces Operation, `=` is skipped *)
  let '(cur3, skip) :=
    match cur1, next with
    | ROp o (Some a) c, Some (ROp n _ _) =>
        if type_is assign_type n then (ROp (set_val a (o_val n)) (Some a) c, true) else (cur1, false)
    | _, _ => (cur1, false)
    end in
  (* 4. the token itself, then 5.-8. *)
  (pre1 ++ pre2 ++ tok_of_rtok cur3 ++ tail_ins cur3 next, skip).

(* postProcessTokens: the index loop with skipNextToken *)
Fixpoint post_process_from (prev : option rtok) (ts : list rtok) (skip : bool) : list tok :=
  match ts with
  | [] => []
  | cur :: rest =>
      if skip then post_process_from (Some cur) rest false
      else
        let '(emitted, skip') := handle_token prev cur (List.hd_error rest) in
        emitted ++ post_process_from (Some cur) rest skip'
  end.

Definition post_process (ts : list rtok) : list tok := post_process_from None ts false.

(* Tokenise (after the regex lexer) then ParseExpression *)
Definition parse_raw (ts : list rtok) : res (option tree) := parse (post_process ts).

(* ---- compact input language for the correspondence check ----
   The python side describes each raw token by the Go variable of its
   operation type (numbers are looked up in Gen/OpTable.v, so a changed
   Precedence or NumArgs changes the model's answer as well). *)
Inductive ctok :=
| CO (var : string) (val : str) (opt : bool) (cpt : bool)    (* operation token *)
| CA (var : string) (avar : string) (val : str)             (* operation with AssignOperation *)
| CL (b : br) | CR (b : br) (opt : bool) | CT.

Definition known_var (name : string) : bool :=
  match find_op name with Some _ => true | None => false end.

Definition rtok_of (c : ctok) : option rtok :=
  match c with
  | CO var val opt cpt =>
      if known_var var then Some (ROp (set_opt (table_op var val) opt) None cpt) else None
  | CA var avar val =>
      if known_var var && known_var avar
      then Some (ROp (table_op var val) (Some (table_op avar val)) false) else None
  | CL b => Some (ROpen b)
  | CR b opt => Some (RClose b opt)
  | CT => Some RTraverseArrayCollect
  end.

Fixpoint rtoks_of (cs : list ctok) : option (list rtok) :=
  match cs with
  | [] => Some []
  | c :: r =>
      match rtok_of c, rtoks_of r with
      | Some t, Some ts => Some (t :: ts)
      | _, _ => None
      end
  end.

Definition parse_ctoks (cs : list ctok) : str :=
  match rtoks_of cs with
  | Some ts => ser_result (parse_raw ts)
  | None => str_of_string "ERR:unknown-operator-variable"
  end.
