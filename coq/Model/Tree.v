(* Model/Tree.v — expression_parser.go: createExpressionTree (postfix list to
   operator tree, with the arity errors) and ParseExpression after the lexer
   (ConvertToPostfix then createExpressionTree).  No proofs here. *)
From Coq Require Import String.
From YQ Require Import Base.Str Gen.OpTable Model.Postfix.
Open Scope N_scope.

(* ExpressionNode{Operation, LHS, RHS} *)
Inductive tree :=
| Node (o : op) (l r : option tree).

(* the loop body of createExpressionTree; the stack head is the top *)
Fixpoint build (ops : list op) (stack : list tree) : res (list tree) :=
  match ops with
  | [] => Ok stack
  | o :: rest =>
      if o_nargs o =? 1 then
        match stack with
        | rhs :: remaining => build rest (Node o None (Some rhs) :: remaining)
        | [] => Err EArity1
        end
      else if o_nargs o =? 2 then
        match stack with
        | rhs :: lhs :: remaining => build rest (Node o (Some lhs) (Some rhs) :: remaining)
        | _ => Err EArity2
        end
      else build rest (Node o None None :: stack)
  end.

(* len(postFixPath) == 0 => nil, nil ; len(stack) != 1 => bad expression *)
Definition create_expression_tree (ops : list op) : res (option tree) :=
  match ops with
  | [] => Ok None
  | _ =>
      match build ops [] with
      | Err e => Err e
      | Ok [t] => Ok (Some t)
      | Ok _ => Err EBadExpr
      end
  end.

(* ParseExpression minus the tokeniser *)
Definition parse (ts : list tok) : res (option tree) :=
  match convert_to_postfix ts with
  | Err e => Err e
  | Ok ops => create_expression_tree ops
  end.

(* postfix listing of a tree (what ConvertToPostfix must produce for it) *)
Fixpoint postfix_of (t : tree) : list op :=
  match t with
  | Node o l r =>
      (match l with Some a => postfix_of a | None => [] end) ++
      (match r with Some b => postfix_of b | None => [] end) ++ [o]
  end.

(* a tree createExpressionTree can produce: children exactly as NumArgs says *)
Fixpoint wf_tree (t : tree) : Prop :=
  match t with
  | Node o l r =>
      (if o_nargs o =? 1 then l = None /\ r <> None
       else if o_nargs o =? 2 then l <> None /\ r <> None
       else l = None /\ r = None) /\
      (match l with Some a => wf_tree a | None => True end) /\
      (match r with Some b => wf_tree b | None => True end)
  end.

(* net stack effect of a postfix list: Some depth, or None on underflow *)
Fixpoint depth_after (ops : list op) (d : nat) : option nat :=
  match ops with
  | [] => Some d
  | o :: rest =>
      if o_nargs o =? 1 then
        match d with S d' => depth_after rest (S d') | O => None end
      else if o_nargs o =? 2 then
        match d with S (S d') => depth_after rest (S d') | _ => None end
      else depth_after rest (S d)
  end.

(* ---- serialisation for the correspondence check ---- *)
Definition sp : N := 32.
(* StringValue is layout dependent for most operators (the regex of `==`
   includes the surrounding blanks), so it is kept only where it is the
   operand's content or distinguishes operators of one Type. *)
Definition val_types : list str :=
  List.map str_of_string ["TRAVERSE_PATH"; "VALUE"; "STRING_INT"; "GET_VARIABLE"; "ASSIGN"; "COMPARE"]%string.

Definition ser_op (o : op) : str :=
  o_type o ++ [58] ++
  (if existsb (str_eqb (o_type o)) val_types then o_val o else []) ++
  (if o_opt o then [63] else []).

Fixpoint ser_tree (t : tree) : str :=
  match t with
  | Node o l r =>
      [40] ++ ser_op o ++ [sp] ++
      (match l with Some a => ser_tree a | None => [95] end) ++ [sp] ++
      (match r with Some b => ser_tree b | None => [95] end) ++ [41]
  end.

Definition ser_err (e : perr) : str :=
  match e with
  | EMissingClose BCollect => str_of_string "ERR:missing]"
  | EMissingClose BObject => str_of_string "ERR:missing}"
  | EMissingClose BParen => str_of_string "ERR:missing)"
  | ENoOpen BParen => str_of_string "ERR:noopen)"
  | ENoOpen _ => str_of_string "ERR:noopen]"
  | ELeftover => str_of_string "ERR:leftover"
  | EArity1 => str_of_string "ERR:arity1"
  | EArity2 => str_of_string "ERR:arity2"
  | EBadExpr => str_of_string "ERR:badexpr"
  end.

Definition ser_result (r : res (option tree)) : str :=
  match r with
  | Ok (Some t) => ser_tree t
  | Ok None => str_of_string "NIL"
  | Err e => ser_err e
  end.
