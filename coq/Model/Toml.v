(* Model/Toml.v — executable model of pkg/yqlib/decoder_toml.go over the
   expression list of go-toml's unstable parser (the tokenizer / parser of
   the library is a library contract): Decode's loop with its
   "run against the current expression" flag, processTopLevelNode,
   decodeKeyValuesIntoMap (which reads ahead until the next header),
   processTable, processArrayTable, processKeyValueIntoMap, decodeNode
   (typed scalars as tagged text, arrays, inline tables), and what
   DeeplyAssign / arrayAppend do to the document on TOML-shaped input:

     deeply_assign path v : walk / create maps along the path; a map value is
                            merged into what is there (multiplyAssign with
                            AppendArrays: maps recursively, sequences
                            appended, anything else replaced), every other
                            value replaces;
     array_append  path v : create the sequence or append to it.

   A path step that meets a sequence is an error ("cannot index array with
   'b'": the recorded array-subtable finding); a step that meets a scalar is
   outside the model (no valid TOML document gets there) and reported as the
   same error.  No proofs here. *)
From YQ Require Import Base.Str.

Inductive tkind := KString | KBool | KInteger | KFloat | KDateTime | KLocalDate | KLocalTime | KLocalDateTime.

(* values as the parser delivers them *)
Inductive tval :=
| TVScalar (k : tkind) (text : str)
| TVArray (l : list tval)
| TVInline (l : list (list str * tval)).

Inductive texpr :=
| EKeyVal (path : list str) (v : tval)
| ETable (path : list str)
| EArrayTable (path : list str).

(* the decoded document: scalars as (tag, text) *)
Inductive ttag := GStr | GBool | GInt | GFloat | GNone.      (* GNone: createScalarNode of a time.Time leaves the tag empty *)
Inductive tnode :=
| NScalar (t : ttag) (text : str)
| NSeq (l : list tnode)
| NMap (l : list (str * tnode)).

Inductive tres (A : Type) :=
| TOk (a : A)
| TErrIndexArray          (* a path step met a sequence (or a scalar) *)
| TErrKind.               (* decodeNode: unsupported kind (the three local date / time kinds) *)
Arguments TOk {A} a.
Arguments TErrIndexArray {A}.
Arguments TErrKind {A}.

Definition tbind {A B : Type} (r : tres A) (f : A -> tres B) : tres B :=
  match r with TOk a => f a | TErrIndexArray => TErrIndexArray | TErrKind => TErrKind end.

(* ---------------- the evaluator side, on TOML-shaped documents ---------------- *)
Definition entries := list (str * tnode).

Fixpoint lookup (k : str) (m : entries) : option tnode :=
  match m with
  | [] => None
  | (k', v) :: r => if str_eqb k' k then Some v else lookup k r
  end.

(* replace the first entry with this key, or add one at the end *)
Fixpoint set_key (k : str) (v : tnode) (m : entries) : entries :=
  match m with
  | [] => [(k, v)]
  | (k', v') :: r => if str_eqb k' k then (k', v) :: r else (k', v') :: set_key k v r
  end.

(* the deep merge  a *+ b  for a map b *)
Fixpoint merge_node (a b : tnode) : tnode :=
  match b with
  | NMap be =>
      match a with
      | NMap ae =>
          NMap ((fix go (be : entries) (acc : entries) : entries :=
                   match be with
                   | [] => acc
                   | (k, vb) :: r =>
                       go r (set_key k (match lookup k acc with Some va => merge_node va vb | None => vb end) acc)
                   end) be ae)
      | _ => b
      end
  | NSeq bl => match a with NSeq al => NSeq (al ++ bl) | _ => b end
  | _ => b
  end.

Definition is_map (v : tnode) : bool := match v with NMap _ => true | _ => false end.

(* the value placed at the end of the path *)
Definition place (old : option tnode) (v : tnode) : tnode :=
  match old with
  | Some o => if is_map v then merge_node o v else v
  | None => v
  end.

Fixpoint deeply_assign (path : list str) (v : tnode) (m : entries) : tres entries :=
  match path with
  | [] => TOk m
  | [k] => TOk (set_key k (place (lookup k m) v) m)
  | k :: rest =>
      match lookup k m with
      | None => tbind (deeply_assign rest v []) (fun sub => TOk (set_key k (NMap sub) m))
      | Some (NMap sub) => tbind (deeply_assign rest v sub) (fun sub' => TOk (set_key k (NMap sub') m))
      | Some _ => TErrIndexArray
      end
  end.

Fixpoint array_append (path : list str) (v : tnode) (m : entries) : tres entries :=
  match path with
  | [] => TOk m
  | [k] =>
      match lookup k m with
      | None => TOk (set_key k (NSeq [v]) m)
      | Some (NSeq l) => TOk (set_key k (NSeq (l ++ [v])) m)
      | Some _ => TErrIndexArray
      end
  | k :: rest =>
      match lookup k m with
      | None => tbind (array_append rest v []) (fun sub => TOk (set_key k (NMap sub) m))
      | Some (NMap sub) => tbind (array_append rest v sub) (fun sub' => TOk (set_key k (NMap sub') m))
      | Some _ => TErrIndexArray
      end
  end.

(* ---------------- decodeNode ---------------- *)
Fixpoint bin_value (s : str) (acc : N) : N :=
  match s with
  | [] => acc
  | c :: r => if c =? 95 then bin_value r acc else bin_value r (2 * acc + (c - 48))
  end.

Fixpoint dec_digits (fuel : nat) (n : N) (acc : str) : str :=
  match fuel with
  | O => acc
  | S k => if n <? 10 then (48 + n) :: acc else dec_digits k (n / 10) ((48 + n mod 10) :: acc)
  end.
Definition dec_str (n : N) : str := dec_digits (S (N.to_nat (N.size n))) n [].

Definition scalar_node (k : tkind) (text : str) : tres tnode :=
  match k with
  | KString => TOk (NScalar GStr text)
  | KBool => TOk (NScalar GBool text)
  | KInteger =>
      match text with
      | 48 :: 98 :: digits => TOk (NScalar GInt (dec_str (bin_value digits 0)))     (* 0b...: kept in decimal *)
      | _ => TOk (NScalar GInt text)
      end
  | KFloat => TOk (NScalar GFloat text)
  | KDateTime => TOk (NScalar GNone text)
  | _ => TErrKind
  end.

Definition tmap_all {A B : Type} (f : A -> tres B) : list A -> tres (list B) :=
  fix go (l : list A) : tres (list B) :=
    match l with
    | [] => TOk []
    | x :: r => tbind (f x) (fun y => tbind (go r) (fun ys => TOk (y :: ys)))
    end.

Fixpoint decode_node (v : tval) : tres tnode :=
  match v with
  | TVScalar k text => scalar_node k text
  | TVArray l => tbind (tmap_all (fun x => decode_node x) l) (fun ns => TOk (NSeq ns))
  | TVInline kvs =>
      (* createInlineTableMap: every key/value into the same map *)
      tbind ((fix go (kvs : list (list str * tval)) (m : entries) : tres entries :=
                match kvs with
                | [] => TOk m
                | (p, x) :: r => tbind (decode_node x) (fun n => tbind (deeply_assign p n m) (fun m' => go r m'))
                end) kvs [])
            (fun m => TOk (NMap m))
  end.

(* processKeyValueIntoMap *)
Definition put_kv (m : entries) (kv : list str * tval) : tres entries :=
  tbind (decode_node (snd kv)) (fun n => deeply_assign (fst kv) n m).

Fixpoint put_kvs (kvs : list (list str * tval)) (m : entries) : tres entries :=
  match kvs with
  | [] => TOk m
  | kv :: r => tbind (put_kv m kv) (fun m' => put_kvs r m')
  end.

(* ---------------- the control flow of Decode ---------------- *)
(* decodeKeyValuesIntoMap reads key/values up to the next header *)
Fixpoint span_kvs (es : list texpr) : list (list str * tval) * list texpr :=
  match es with
  | EKeyVal p v :: r => let (kvs, rest) := span_kvs r in ((p, v) :: kvs, rest)
  | _ => ([], es)
  end.

(* one iteration of the loop per unit of fuel: the expression at the head is
   "the current expression" *)
Fixpoint toml_go (fuel : nat) (es : list texpr) (root : entries) : tres entries :=
  match fuel with
  | O => TOk root
  | S fuel' =>
      match es with
      | [] => TOk root
      | EKeyVal _ _ :: _ =>
          let (kvs, rest) := span_kvs es in
          tbind (put_kvs kvs root) (fun root' => toml_go fuel' rest root')
      | ETable p :: r =>
          let (kvs, rest) := span_kvs r in
          tbind (put_kvs kvs []) (fun t => tbind (deeply_assign p (NMap t) root) (fun root' => toml_go fuel' rest root'))
      | EArrayTable p :: r =>
          let (kvs, rest) := span_kvs r in
          tbind (put_kvs kvs []) (fun t => tbind (array_append p (NMap t) root) (fun root' => toml_go fuel' rest root'))
      end
  end.

Definition toml_decode (es : list texpr) : tres entries := toml_go (S (length es)) es [].

(* ---- serialisation for the correspondence check (strings hold no NUL) ---- *)
Definition zt (s : str) : str := s ++ [0].
Definition tag_byte (t : ttag) : N := match t with GStr => 115 | GBool => 98 | GInt => 105 | GFloat => 102 | GNone => 110 end.

Fixpoint ser_tnode (n : tnode) : str :=
  match n with
  | NScalar t s => tag_byte t :: zt s
  | NSeq l => 91 :: (fix go (l : list tnode) : str := match l with [] => [] | x :: r => ser_tnode x ++ go r end) l ++ [93]
  | NMap l => 123 :: (fix go (l : entries) : str := match l with [] => [] | (k, x) :: r => zt k ++ ser_tnode x ++ go r end) l ++ [125]
  end.

Definition toml_decode_obs (es : list texpr) : str :=
  match toml_decode es with
  | TOk [] => [78]                                    (* nothing decoded: io.EOF *)
  | TOk m => 79 :: ser_tnode (NMap m)
  | TErrIndexArray => [69]
  | TErrKind => [69]
  end.
