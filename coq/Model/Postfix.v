(* Model/Postfix.v — expression_postfix.go: ConvertToPostfix, the shunting-yard
   of yq, mirrored statement by statement.  No proofs here.

   Go keeps operands and operators on ONE stack (an operand is an operation
   with NumArgs = 0) and pops while top.Precedence > current.Precedence
   (strict).  The operator stack holds only operation tokens and the three
   kinds of OPEN bracket (close tokens are never pushed), hence [sitem].

   Operation numbers (NumArgs, Precedence) of the operators the algorithm
   itself emits (COLLECT, COLLECT_OBJECT, SHORT_PIPE) and the identity of
   TRAVERSE_ARRAY come from the regenerated table Gen/OpTable.v. *)
From Coq Require Import String.
From YQ Require Import Base.Str Gen.OpTable.
Open Scope N_scope.

(* Operation as far as parsing can see it: OperationType.{Type,NumArgs,Precedence},
   StringValue (o_val; for the assignment family it carries the UpdateAssign
   spelling), and the one preference the parser itself writes
   (traversePreferences.OptionalTraverse, set from a closing `]?`). *)
Record op := mk_op {
  o_type : str;
  o_val : str;
  o_nargs : N;
  o_prec : N;
  o_opt : bool
}.

Definition set_opt (o : op) (b : bool) : op :=
  mk_op (o_type o) (o_val o) (o_nargs o) (o_prec o) b.
Definition set_val (o : op) (v : str) : op :=
  mk_op (o_type o) v (o_nargs o) (o_prec o) (o_opt o).

(* Lookup of a Go operationType variable in the generated table. *)
Definition find_op (name : string) : option opinfo :=
  let n := str_of_string name in
  List.find (fun oi => str_eqb (oi_var oi) n) op_table.

Definition find_op_s (n : str) : option opinfo :=
  List.find (fun oi => str_eqb (oi_var oi) n) op_table.

Definition unknown_op : op := mk_op (str_of_string "?UNKNOWN") [] 0 0 false.

Definition table_op (name : string) (val : str) : op :=
  match find_op name with
  | Some oi => mk_op (oi_type oi) val (oi_nargs oi) (oi_prec oi) false
  | None => unknown_op
  end.

Definition table_op_s (n : str) (val : str) : op :=
  match find_op_s n with
  | Some oi => mk_op (oi_type oi) val (oi_nargs oi) (oi_prec oi) false
  | None => unknown_op
  end.

Definition collect_op : op := table_op "collectOpType" [].
Definition collect_object_op : op := table_op "collectObjectOpType" [].
Definition short_pipe_op : op := table_op "shortPipeOpType" [].
Definition traverse_array_op : op := table_op "traverseArrayOpType" [].

(* opStack[top].Operation.OperationType == traverseArrayOpType (pointer
   equality in Go; Type strings identify the variable here). *)
Definition is_ta (o : op) : bool := str_eqb (o_type o) (o_type traverse_array_op).

Inductive br := BParen | BCollect | BObject.

Definition br_eqb (a b : br) : bool :=
  match a, b with
  | BParen, BParen | BCollect, BCollect | BObject, BObject => true
  | _, _ => false
  end.

(* token after post-processing: operationToken / open* / close*.
   [TClose b opt]: opt = the match text ends in `?` (only `]?` can). *)
Inductive tok :=
| TOp (o : op)
| TOpen (b : br)
| TClose (b : br) (opt : bool).

Inductive sitem :=
| SOp (o : op)
| SOpen (b : br).

Inductive perr :=
| EMissingClose (b : br)   (* validateNoOpenTokens: could not find matching ] } ) *)
| ENoOpen (b : br)         (* got close bracket without matching opening bracket *)
| ELeftover                (* probably missing close bracket on ... *)
| EArity1                  (* expects 1 arg but received none *)
| EArity2                  (* expects 2 args but there is n *)
| EBadExpr.                (* bad expression, please check expression syntax *)

Inductive res (A : Type) :=
| Ok (a : A)
| Err (e : perr).
Arguments Ok {A} a.
Arguments Err {A} e.

(* for … && opStack[top].TokenType != opener { validateNoOpenTokens; popOpToResult } ;
   if len(opStack) == 0 { error } ; opStack = opStack[0:len-1] *)
Fixpoint close_pop (opener : br) (st : list sitem) (out : list op) : res (list sitem * list op) :=
  match st with
  | [] => Err (ENoOpen opener)
  | SOpen b :: st' => if br_eqb b opener then Ok (st', out) else Err (EMissingClose b)
  | SOp o :: st' => close_pop opener st' (out ++ [o])
  end.

(* for … top.TokenType == operationToken && top.Precedence > currentPrecedence { popOpToResult } *)
Fixpoint prec_pop (p : N) (st : list sitem) (out : list op) : list sitem * list op :=
  match st with
  | SOp o :: st' => if p <? o_prec o then prec_pop p st' (out ++ [o]) else (st, out)
  | _ => (st, out)
  end.

Definition step (t : tok) (st : list sitem) (out : list op) : res (list sitem * list op) :=
  match t with
  | TOpen b => Ok (SOpen b :: st, out)
  | TClose BParen _ => close_pop BParen st out
  | TClose b opt =>
      match close_pop b st out with
      | Err e => Err e
      | Ok (st1, out1) =>
          let out2 := out1 ++ (match b with
                               | BObject => [collect_object_op; short_pipe_op]
                               | _ => [collect_op]
                               end) in
          (* traverseArrayCollect is a sneaky op that needs to be included too *)
          match st1 with
          | SOp o :: st2 => if is_ta o then Ok (st2, out2 ++ [set_opt o opt]) else Ok (st1, out2)
          | _ => Ok (st1, out2)
          end
      end
  | TOp o =>
      let (st1, out1) := prec_pop (o_prec o) st out in
      Ok (SOp o :: st1, out1)
  end.

(* the adjacency check at the head of the loop body:
     startsOperand := open bracket || (operation && NumArgs < 2)
     prevEndsOperand := close bracket || (operation && NumArgs == 0)
     prevIsPrefixOp := operation && NumArgs == 1 *)
Definition starts_operand (t : tok) : bool :=
  match t with TOpen _ => true | TOp o => o_nargs o <? 2 | TClose _ _ => false end.
Definition ends_operand (t : tok) : bool :=
  match t with TClose _ _ => true | TOp o => o_nargs o =? 0 | TOpen _ => false end.
Definition is_prefix_op (t : tok) : bool :=
  match t with TOp o => o_nargs o =? 1 | _ => false end.
Definition is_open_paren (t : tok) : bool :=
  match t with TOpen BParen => true | _ => false end.

Definition adjacency_error (prev_ends prev_prefix : bool) (t : tok) : bool :=
  starts_operand t && (prev_ends || (prev_prefix && negb (is_open_paren t))).

(* in the closeBracket case: len(opStack) == 0 && index != len(tokens)-1 *)
Definition outer_closed (t : tok) (st' : list sitem) (rest : list tok) : bool :=
  match t with
  | TClose BParen _ =>
      match st' with
      | [] => match rest with [] => false | _ :: _ => true end
      | _ :: _ => false
      end
  | _ => false
  end.

Fixpoint run (ts : list tok) (prev_ends prev_prefix : bool) (st : list sitem) (out : list op)
  : res (list sitem * list op) :=
  match ts with
  | [] => Ok (st, out)
  | t :: r =>
      if adjacency_error prev_ends prev_prefix t then Err EBadExpr
      else
        match step t st out with
        | Ok (st', out') =>
            if outer_closed t st' r then Err (ENoOpen BParen)
            else run r (ends_operand t) (is_prefix_op t) st' out'
        | Err e => Err e
        end
  end.

(* opStack = [ ( ] ; tokens = infixTokens ++ [ ) ] ; ... ; if len(opStack) > 0 { error } *)
Definition convert_to_postfix (ts : list tok) : res (list op) :=
  match run (ts ++ [TClose BParen false]) false false [SOpen BParen] [] with
  | Err e => Err e
  | Ok ([], out) => Ok out
  | Ok (_ :: _, _) => Err ELeftover
  end.
