(* Model/HistoryInst.v -- symbolic instance of Model/History.v: every abstract
   function returns a description of the values it was given, so running a
   history inside Coq yields, per evaluation, WHICH expression / preferences /
   decoded stream (format, leading content pre-processed or not, text) its
   output is a function of, plus the operation type names an error message
   could show.  Used by checks/props/c18.py (correspondence) and by the
   witnesses of Props/C18.v.  No proofs here. *)
From YQ Require Import Base.Str Model.History.

Definition fmt_code (f : fmt) : N :=
  match f with FYaml => 0 | FJson => 1 | FXml => 2 | FProps => 3 | FCsv => 4 | FBase64 => 5 | FUri => 6 | FToml => 7 | FLua => 8 end.

Definition i_dec_sem (f : fmt) (pre : bool) (d : N) : list N := [fmt_code f; if pre then 1 else 0; d].
Definition i_sem (c pf : N) (docs : list N) : list N := c :: pf :: docs.
(* type names, separated by 32 *)
Definition i_msg (c pf : N) (docs : list N) (types : list str) : str := concat (List.map (fun t => t ++ [32]) types).

Fixpoint toks_of (tb : list (N * list etok)) (e : N) : list etok :=
  match tb with [] => [] | (k, v) :: r => if k =? e then v else toks_of r e end.

(* texts on which decoding ends in an error *)
Definition i_fails (ft : list N) (f : fmt) (d : N) : bool := existsb (N.eqb d) ft.

(* expressions that do not parse: the value is [expr; 254] *)
Definition i_pfails (pt : list N) (e : N) : bool := existsb (N.eqb e) pt.
Definition i_perr (e : N) : list N := [e; 254].
Definition i_pmsg (e : N) : str := [].

Definition i_step (tb : list (N * list etok)) (pt ft : list N) :=
  step (fun e : N => e) (i_pfails pt) i_perr i_pmsg (toks_of tb) i_dec_sem [] (i_fails ft) i_sem i_msg.
Definition i_run (tb : list (N * list etok)) (pt ft : list N) :=
  run (fun e : N => e) (i_pfails pt) i_perr i_pmsg (toks_of tb) i_dec_sem [] (i_fails ft) i_sem i_msg.

(* per evaluation: expr, prefs, then the decoded-stream description, 255, the type names *)
Definition run_history (tb : list (N * list etok)) (pt ft : list N) (h : list (request N N)) : list (list N) :=
  List.map (fun o : list N * str => fst o ++ 255 :: snd o) (snd (i_run tb pt ft (G0 0) h)).

Definition sfx_ne : str := [95; 78; 79; 95; 69; 77; 80; 84; 89].       (* _NO_EMPTY *)
Definition sfx_nu : str := [95; 78; 79; 95; 85; 78; 83; 69; 84].       (* _NO_UNSET *)
