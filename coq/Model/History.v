(* Model/History.v -- evaluation as a function  step : G -> request -> G * output
   where G is an explicit record of the mutable process-global / reused
   objects of pkg/yqlib that evaluations share.  No proofs here.

   Found by reading the code (anchors of C18):
   * operation type names     lexer_participle.go:envSubstWithOptions gives every `envsubst(ne,nu,ff)`
                              operation its own copy of the operation type (it used to assign the
                              package-level envsubstOpType.Type while lexing: repaired); the names
                              are read in four error messages (with / reduce x2 / setpath) and in
                              toString (debug log).  They are a function of the expression alone.
   * decoder instances        one per evaluation run in cmd, reusable through the API; Init
                              re-initialises the per-stream fields (since the repair also `finished`
                              of the TOML and Lua decoders) -- except yamlDecoder.firstFile (only
                              ever set to false; read by Init when EvaluateTogether: it cannot tell a
                              new run from the next file of an eval-all run).
   * load_* operators         create a decoder per use (the lexer rules used to capture one decoder
                              instance for the whole process: repaired).
   * parsed expression trees  fresh per ParseExpression; reusable by the caller; sortOperator
                              assigns expressionNode.RHS.
   * Configured*Preferences   package variables, written by cmd from the flags before each run,
                              read by encoder/decoder factories and by the encode operators.
   * xmlEncoder.leadingContent  written by PrintLeadingContent before every node, read by Encode.
   * ExpressionParser         created once; the lexer definition and the postfixer hold no mutable
                              state (a new lexer state per LexString).
   The printer and the stream evaluator (fileIndex) are per-run objects: NewPrinter /
   NewStreamEvaluator; re-using them continues the same output stream / file sequence by design
   (Model/Stream.v), so they are not part of G.

   Abstract (Section variables): what parsing, decoding and evaluating compute from the VALUES
   they are given.  The model fixes which values those are -- i.e. which fields of G each phase
   reads and writes, in which order. *)
From YQ Require Import Base.Str.

Inductive fmt := FYaml | FJson | FXml | FProps | FCsv | FBase64 | FUri | FToml | FLua.

Definition fmt_eqb (a b : fmt) : bool :=
  match a, b with
  | FYaml, FYaml | FJson, FJson | FXml, FXml | FProps, FProps | FCsv, FCsv
  | FBase64, FBase64 | FUri, FUri | FToml, FToml | FLua, FLua => true
  | _, _ => false
  end.

(* per-stream fields of a decoder instance *)
Record dstate := mkD { d_finished : bool; d_read_anything : bool; d_first_file : bool }.
Definition d_new : dstate := mkD false false true.      (* New*Decoder *)

(* Decoder.Init *)
Definition init (f : fmt) (d : dstate) : dstate :=
  match f with
  | FYaml => mkD false false false
  | _ => mkD false false (d_first_file d)
  end.

(* a token of the envsubst family in an expression *)
Inductive etok := TokOpt (suffixes : list str) | TokPlain.

Definition c_envsubst : str := [69; 78; 86; 83; 85; 66; 83; 84].   (* ENVSUBST *)

Section History.
Variables C Pf D DOCS V M : Type.
(* C core of a parsed tree, Pf preferences, D input text, DOCS decoded documents,
   V value part of the output (stdout bytes + error class), M message part (error text) *)

Variable parse_core : N -> C.                 (* expression id -> operator tree without the Type strings *)
Variable parse_fails : N -> bool.             (* ParseExpression returns an error (after lexing the tokens in env_toks) *)
Variable parse_err : N -> V.                  (* ... this one *)
Variable parse_msg : N -> M.
Variable env_toks : N -> list etok.           (* its envsubst tokens, in order *)
Variable dec_sem : fmt -> bool -> D -> DOCS.  (* decode a whole stream; the bool: leading content pre-processed *)
Variable dec_eof : DOCS.                      (* a decoder that reports EOF at once: no documents *)
Variable dec_fails : fmt -> D -> bool.        (* the stream ends in a decode error (then `finished` is not set) *)
Variable sem : C -> Pf -> DOCS -> V.          (* evaluate + print: value part *)
Variable msg : C -> Pf -> DOCS -> list str -> M.   (* message part: may show the operation type names of the tree *)
Variable default_prefs : Pf.

(* a parsed tree as the caller holds it *)
Record tree := mkTree { t_core : C; t_types : list str; t_sort_rhs : bool }.   (* t_types: the type names of its envsubst operations *)

Record G := mkG {
  g_dec : fmt -> bool -> dstate;        (* the caller's reusable decoder instances, one per format and EvaluateTogether preference (a constructor argument) *)
  g_trees : list (N * tree);            (* parsed trees the caller keeps for reuse, by expression *)
  g_prefs : Pf;                         (* Configured*Preferences *)
  g_xml_lead : str                      (* leadingContent of a reused xmlEncoder *)
}.

Definition G0 : G := mkG (fun _ _ => d_new) [] default_prefs [].

Record request := mkReq {
  q_expr : N;
  q_reuse_tree : bool;          (* evaluate on the tree kept from an earlier parse of the same expression (parse + keep if none) *)
  q_fmt : fmt;
  q_text : D;
  q_together : bool;            (* eval-all: YamlPreferences.EvaluateTogether *)
  q_reuse_dec : bool;           (* the caller's reusable decoder instance instead of a new one *)
  q_prefs : option Pf;          (* cmd writes Configured*Preferences from the flags before the run *)
  q_xml_lead : str              (* leading content of the last node printed (through an XML encoder) *)
}.

(* ---- lexing: the type name each envsubst operation carries ---- *)
Definition lex (toks : list etok) : list str :=
  List.map (fun t => match t with TokOpt sfx => c_envsubst ++ concat sfx | TokPlain => c_envsubst end) toks.

Fixpoint find_tree (e : N) (l : list (N * tree)) : option tree :=
  match l with
  | [] => None
  | (k, t) :: r => if k =? e then Some t else find_tree e r
  end.

Fixpoint store_tree (e : N) (t : tree) (l : list (N * tree)) : list (N * tree) :=
  match l with
  | [] => [(e, t)]
  | (k, t') :: r => if k =? e then (e, t) :: r else (k, t') :: store_tree e t r
  end.

(* ParseExpression: touches nothing shared *)
Definition parse (e : N) : tree := mkTree (parse_core e) (lex (env_toks e)) false.

(* Init + Decode to the end on one decoder instance *)
Definition decode_run (f : fmt) (together : bool) (d : dstate) (text : D) : dstate * DOCS :=
  let pre := match f with FYaml => negb together || d_first_file d | _ => true end in
  let d1 := init f d in
  if d_finished d1 then (d1, dec_eof)
  else (mkD (negb (dec_fails f text)) true (d_first_file d1), dec_sem f pre text).

Definition output : Type := V * M.

(* everything after the tree is available *)
Definition eval_with (g1 : G) (pf : Pf) (x : request) (t : tree) (keep : bool) : G * output :=
  (* the decoder *)
  let d := if q_reuse_dec x then g_dec g1 (q_fmt x) (q_together x) else d_new in
  let '(d', docs) := decode_run (q_fmt x) (q_together x) d (q_text x) in
  (* evaluation: sortOperator writes RHS, then everything reads the tree *)
  let t' := mkTree (t_core t) (t_types t) true in
  let o := (sem (t_core t') pf docs, msg (t_core t') pf docs (t_types t')) in
  let decs := if q_reuse_dec x then (fun f b => if fmt_eqb f (q_fmt x) && Bool.eqb b (q_together x) then d' else g_dec g1 f b) else g_dec g1 in
  let trees := if keep then store_tree (q_expr x) t' (g_trees g1) else g_trees g1 in
  (mkG decs trees pf (q_xml_lead x), o).

Definition step (g : G) (x : request) : G * output :=
  (* configuration, as cmd does from the flags *)
  let pf := match q_prefs x with Some p => p | None => g_prefs g end in
  (* the tree: kept one, or a new parse *)
  match (if q_reuse_tree x then find_tree (q_expr x) (g_trees g) else None) with
  | Some t => eval_with g pf x t true
  | None =>
      if parse_fails (q_expr x) then
        (* no decoder, tree or encoder is touched *)
        (mkG (g_dec g) (g_trees g) pf (g_xml_lead g), (parse_err (q_expr x), parse_msg (q_expr x)))
      else eval_with g pf x (parse (q_expr x)) (q_reuse_tree x)
  end.

Fixpoint run (g : G) (h : list request) : G * list output :=
  match h with
  | [] => (g, [])
  | x :: r => let '(g1, o) := step g x in let '(g2, os) := run g1 r in (g2, o :: os)
  end.

(* output of the last request of a history *)
Definition last_out (h : list request) (x : request) : output :=
  snd (step (fst (run G0 h)) x).

(* what the same request yields when it is the first thing a process does *)
Definition spec_value (x : request) : V :=
  if parse_fails (q_expr x) then parse_err (q_expr x) else
  sem (parse_core (q_expr x)) (match q_prefs x with Some p => p | None => default_prefs end)
      (dec_sem (q_fmt x) true (q_text x)).

Definition spec_msg (x : request) : M :=
  if parse_fails (q_expr x) then parse_msg (q_expr x) else
  msg (parse_core (q_expr x)) (match q_prefs x with Some p => p | None => default_prefs end)
      (dec_sem (q_fmt x) true (q_text x)) (lex (env_toks (q_expr x))).

(* ------------------------------------------------------------------ *)
(* concurrency, at the granularity of accesses to shared objects        *)
(* ------------------------------------------------------------------ *)
(* Since the two repairs no evaluation step writes an object that another
   evaluation can reach when evaluators, documents, decoders, printers are
   separate: what stays shared (Configured*Preferences, the lexer definition,
   the operation type table) is only read.  An evaluation is a list of steps
   that read the shared value or work on private objects. *)
Inductive action :=
| AReadShared                    (* read Configured*Preferences / the operation type table *)
| APrivate (k : N).              (* a step on private objects *)

Record priv := mkPriv { p_seen : list Pf; p_work : list N }.
Definition priv0 : priv := mkPriv [] [].

Definition act (s : Pf) (p : priv) (a : action) : Pf * priv :=
  match a with
  | AReadShared => (s, mkPriv (p_seen p ++ [s]) (p_work p))
  | APrivate k => (s, mkPriv (p_seen p) (p_work p ++ [k]))
  end.

Fixpoint acts (s : Pf) (p : priv) (l : list action) : Pf * priv :=
  match l with
  | [] => (s, p)
  | a :: r => let '(s1, p1) := act s p a in acts s1 p1 r
  end.

(* a schedule: true = next step of the first evaluation *)
Fixpoint interleave (sch : list bool) (s : Pf) (pa pb : priv) (la lb : list action) : Pf * priv * priv :=
  match sch with
  | [] =>
      let '(s1, pa1) := acts s pa la in
      let '(s2, pb1) := acts s1 pb lb in (s2, pa1, pb1)
  | true :: sch' =>
      match la with
      | a :: la' => let '(s1, pa1) := act s pa a in interleave sch' s1 pa1 pb la' lb
      | [] => interleave sch' s pa pb la lb
      end
  | false :: sch' =>
      match lb with
      | b :: lb' => let '(s1, pb1) := act s pb b in interleave sch' s1 pa pb1 la lb'
      | [] => interleave sch' s pa pb la lb
      end
  end.

End History.

Arguments mkTree {C}. Arguments t_core {C}. Arguments t_types {C}. Arguments t_sort_rhs {C}.
Arguments mkG {C Pf}. Arguments g_dec {C Pf}. Arguments g_trees {C Pf}.
Arguments g_prefs {C Pf}. Arguments g_xml_lead {C Pf}. Arguments G0 {C Pf}.
Arguments mkReq {Pf D}. Arguments q_expr {Pf D}. Arguments q_reuse_tree {Pf D}. Arguments q_fmt {Pf D}.
Arguments q_text {Pf D}. Arguments q_together {Pf D}. Arguments q_reuse_dec {Pf D}. Arguments q_prefs {Pf D}.
Arguments q_xml_lead {Pf D}.
Arguments find_tree {C}. Arguments store_tree {C}. Arguments parse {C}.
Arguments decode_run {D DOCS}. Arguments eval_with {C Pf D DOCS V M}. Arguments step {C Pf D DOCS V M}. Arguments run {C Pf D DOCS V M}.
Arguments last_out {C Pf D DOCS V M}. Arguments spec_value {C Pf D DOCS V}. Arguments spec_msg {C Pf D DOCS M}.
Arguments mkPriv {Pf}. Arguments p_seen {Pf}. Arguments p_work {Pf}. Arguments priv0 {Pf}.
Arguments act {Pf}. Arguments acts {Pf}. Arguments interleave {Pf}.
