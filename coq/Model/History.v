(* Model/History.v -- evaluation as a function  step : G -> request -> G * output
   where G is an explicit record of the mutable process-global / reused
   objects of pkg/yqlib that evaluations share.  No proofs here.

   Found by reading the code (anchors of C18):
   * envsubstOpType.Type      lexer_participle.go:envSubstWithOptions assigns it while
                              LEXING `envsubst(ne,nu,ff)`; every Operation made by the lexer
                              copies opType.Type into Operation.Value; the evaluator reads
                              OperationType.Type only in four error messages (with / reduce x2 /
                              setpath) and in toString (debug log).
   * decoder instances        one per evaluation run in cmd, reusable through the API; Init
                              re-initialises the per-stream fields -- except tomlDecoder.finished
                              and luaDecoder.finished (Init leaves them), and yamlDecoder.firstFile
                              (only ever set to false; read by Init when EvaluateTogether).
   * load_* decoder singletons  lexer rules LoadYaml / LoadXML / LoadProperties / LoadBase64 capture
                              one Decoder each, shared by every expression of the process.
   * parsed expression trees  fresh per ParseExpression; reusable by the caller; sortOperator
                              assigns expressionNode.RHS.
   * Configured*Preferences   package variables, written by cmd from the flags before each run,
                              read by encoder/decoder factories and by the encode operators.
   * xmlEncoder.leadingContent  written by PrintLeadingContent before every node, read by Encode.
   * ExpressionParser         created once; the lexer definition and the postfixer hold no mutable
                              state (a new lexer state per LexString).
   The printer and the stream evaluator (fileIndex) are per-run objects: NewPrinter /
   NewStreamEvaluator; re-using them continues the same output stream / file sequence by design
   (Model/Stream.v), so they are not part of G.

   Abstract (Section variables): what parsing, decoding and evaluating compute from the VALUES
   they are given.  The model fixes which values those are -- i.e. which fields of G each phase
   reads and writes, in which order. *)
From YQ Require Import Base.Str.

Inductive fmt := FYaml | FJson | FXml | FProps | FCsv | FBase64 | FUri | FToml | FLua.

Definition fmt_eqb (a b : fmt) : bool :=
  match a, b with
  | FYaml, FYaml | FJson, FJson | FXml, FXml | FProps, FProps | FCsv, FCsv
  | FBase64, FBase64 | FUri, FUri | FToml, FToml | FLua, FLua => true
  | _, _ => false
  end.

(* per-stream fields of a decoder instance *)
Record dstate := mkD { d_finished : bool; d_read_anything : bool; d_first_file : bool }.
Definition d_new : dstate := mkD false false true.      (* New*Decoder *)

(* Decoder.Init.  [fixinit] = the repaired Init that also clears finished for TOML and Lua. *)
Definition init (fixinit : bool) (f : fmt) (d : dstate) : dstate :=
  match f with
  | FToml | FLua => if fixinit then mkD false false (d_first_file d) else d
  | FYaml => mkD false false false
  | _ => mkD false false (d_first_file d)
  end.

(* a token of the envsubst family in an expression *)
Inductive etok := TokOpt (suffixes : list str) | TokPlain.

Definition c_envsubst : str := [69; 78; 86; 83; 85; 66; 83; 84].   (* ENVSUBST *)

Section History.
Variables C Pf D DOCS V M : Type.
(* C core of a parsed tree, Pf preferences, D input text, DOCS decoded documents,
   V value part of the output (stdout bytes + error class), M message part (error text) *)

Variable parse_core : N -> C.                 (* expression id -> operator tree without the Type strings *)
Variable parse_fails : N -> bool.             (* ParseExpression returns an error (after lexing the tokens in env_toks) *)
Variable parse_err : N -> V.                  (* ... this one *)
Variable parse_msg : N -> M.
Variable env_toks : N -> list etok.           (* its envsubst tokens, in order *)
Variable dec_sem : fmt -> bool -> D -> DOCS.  (* decode a whole stream; the bool: leading content pre-processed *)
Variable dec_eof : DOCS.                      (* a decoder that reports EOF at once: no documents *)
Variable dec_fails : fmt -> D -> bool.        (* the stream ends in a decode error (then `finished` is not set) *)
Variable sem : C -> Pf -> DOCS -> V.          (* evaluate + print: value part *)
Variable msg : C -> Pf -> DOCS -> list str -> str -> M.   (* message part: may show Operation.Value copies and the global Type *)
Variable default_prefs : Pf.

(* a parsed tree as the caller holds it *)
Record tree := mkTree { t_core : C; t_types : list str; t_sort_rhs : bool }.

Record G := mkG {
  g_type : str;                         (* envsubstOpType.Type *)
  g_dec : fmt -> bool -> dstate;        (* the caller's reusable decoder instances, one per format and EvaluateTogether preference (a constructor argument) *)
  g_trees : list (N * tree);            (* parsed trees the caller keeps for reuse, by expression *)
  g_prefs : Pf;                         (* Configured*Preferences *)
  g_xml_lead : str                      (* leadingContent of a reused xmlEncoder *)
}.

Definition G0 : G := mkG c_envsubst (fun _ _ => d_new) [] default_prefs [].

Record request := mkReq {
  q_expr : N;
  q_reuse_tree : bool;          (* evaluate on the tree kept from an earlier parse of the same expression (parse + keep if none) *)
  q_fmt : fmt;
  q_text : D;
  q_together : bool;            (* eval-all: YamlPreferences.EvaluateTogether *)
  q_reuse_dec : bool;           (* the caller's reusable decoder instance instead of a new one *)
  q_prefs : option Pf;          (* cmd writes Configured*Preferences from the flags before the run *)
  q_xml_lead : str              (* leading content of the last node printed (through an XML encoder) *)
}.

(* ---- lexing: the writes to envsubstOpType.Type and the copies into Operation.Value ---- *)
Fixpoint lex (ty : str) (toks : list etok) : str * list str :=
  match toks with
  | [] => (ty, [])
  | TokOpt sfx :: r =>
      let ty1 := c_envsubst ++ concat sfx in
      let '(ty2, vs) := lex ty1 r in (ty2, ty1 :: vs)
  | TokPlain :: r =>
      let '(ty2, vs) := lex ty r in (ty2, ty :: vs)
  end.

Fixpoint find_tree (e : N) (l : list (N * tree)) : option tree :=
  match l with
  | [] => None
  | (k, t) :: r => if k =? e then Some t else find_tree e r
  end.

Fixpoint store_tree (e : N) (t : tree) (l : list (N * tree)) : list (N * tree) :=
  match l with
  | [] => [(e, t)]
  | (k, t') :: r => if k =? e then (e, t) :: r else (k, t') :: store_tree e t r
  end.

(* ParseExpression *)
Definition parse (g : G) (e : N) : G * tree :=
  let '(ty, vs) := lex (g_type g) (env_toks e) in
  (mkG ty (g_dec g) (g_trees g) (g_prefs g) (g_xml_lead g), mkTree (parse_core e) vs false).

(* Init + Decode to the end on one decoder instance *)
Definition decode_run (fixinit : bool) (f : fmt) (together : bool) (d : dstate) (text : D) : dstate * DOCS :=
  let pre := match f with FYaml => negb together || d_first_file d | _ => true end in
  let d1 := init fixinit f d in
  if d_finished d1 then (d1, dec_eof)
  else (mkD (negb (dec_fails f text)) true (d_first_file d1), dec_sem f pre text).

Definition output : Type := V * M.

(* everything after the tree is available *)
Definition eval_with (fixinit : bool) (g1 : G) (pf : Pf) (x : request) (t : tree) (keep : bool) : G * output :=
  (* the decoder *)
  let d := if q_reuse_dec x then g_dec g1 (q_fmt x) (q_together x) else d_new in
  let '(d', docs) := decode_run fixinit (q_fmt x) (q_together x) d (q_text x) in
  (* evaluation: sortOperator writes RHS, then everything reads the tree *)
  let t' := mkTree (t_core t) (t_types t) true in
  let o := (sem (t_core t') pf docs, msg (t_core t') pf docs (t_types t') (g_type g1)) in
  let decs := if q_reuse_dec x then (fun f b => if fmt_eqb f (q_fmt x) && Bool.eqb b (q_together x) then d' else g_dec g1 f b) else g_dec g1 in
  let trees := if keep then store_tree (q_expr x) t' (g_trees g1) else g_trees g1 in
  (mkG (g_type g1) decs trees pf (q_xml_lead x), o).

Definition step (fixinit : bool) (g : G) (x : request) : G * output :=
  (* configuration, as cmd does from the flags *)
  let pf := match q_prefs x with Some p => p | None => g_prefs g end in
  (* the tree: kept one, or a new parse *)
  match (if q_reuse_tree x then find_tree (q_expr x) (g_trees g) else None) with
  | Some t => eval_with fixinit g pf x t true
  | None =>
      let '(g', t) := parse g (q_expr x) in
      if parse_fails (q_expr x) then
        (* the lexer has run (and written the Type); no decoder, tree or encoder is touched *)
        (mkG (g_type g') (g_dec g) (g_trees g) pf (g_xml_lead g), (parse_err (q_expr x), parse_msg (q_expr x)))
      else eval_with fixinit g' pf x t (q_reuse_tree x)
  end.

Fixpoint run (fixinit : bool) (g : G) (h : list request) : G * list output :=
  match h with
  | [] => (g, [])
  | x :: r => let '(g1, o) := step fixinit g x in let '(g2, os) := run fixinit g1 r in (g2, o :: os)
  end.

(* output of the last request of a history *)
Definition last_out (fixinit : bool) (h : list request) (x : request) : output :=
  snd (step fixinit (fst (run fixinit G0 h)) x).

(* what the same request yields when it is the first thing a process does *)
Definition spec_value (x : request) : V :=
  if parse_fails (q_expr x) then parse_err (q_expr x) else
  sem (parse_core (q_expr x)) (match q_prefs x with Some p => p | None => default_prefs end)
      (dec_sem (q_fmt x) true (q_text x)).

(* ------------------------------------------------------------------ *)
(* concurrency, at the granularity of accesses to shared objects        *)
(* ------------------------------------------------------------------ *)
(* shared between goroutines: envsubstOpType.Type and the load_* decoder
   singletons (reader + per-stream flags).  Everything else an evaluation
   touches is private to it when evaluators, documents, decoders, printers
   are separate. *)
Inductive lfmt := LYaml | LXml | LProps | LBase64.
Definition lfmt_eqb (a b : lfmt) : bool :=
  match a, b with LYaml, LYaml | LXml, LXml | LProps, LProps | LBase64, LBase64 => true | _, _ => false end.

Record shared := mkSh { sh_type : str; sh_load : lfmt -> option D }.   (* the reader a load decoder is positioned on *)

Inductive action :=
| ASetType                       (* envsubstOpType.Type = ENVSUBST *)
| AAppendType (sfx : str)        (* envsubstOpType.Type = envsubstOpType.Type + sfx *)
| AReadType                      (* Operation.Value = opType.Type *)
| ALoadInit (f : lfmt) (t : D)   (* loadPrefs.decoder.Init(reader) on the singleton *)
| ALoadDecode (f : lfmt)         (* loadPrefs.decoder.Decode() on the singleton *)
| APrivate.                      (* any step on private objects *)

(* private state of one evaluation: the Type strings it copied, the streams its load operators decoded *)
Record priv := mkPriv { p_types : list str; p_loaded : list (option D) }.
Definition priv0 : priv := mkPriv [] [].

Definition act (s : shared) (p : priv) (a : action) : shared * priv :=
  match a with
  | ASetType => (mkSh c_envsubst (sh_load s), p)
  | AAppendType sfx => (mkSh (sh_type s ++ sfx) (sh_load s), p)
  | AReadType => (s, mkPriv (p_types p ++ [sh_type s]) (p_loaded p))
  | ALoadInit f t => (mkSh (sh_type s) (fun f' => if lfmt_eqb f' f then Some t else sh_load s f'), p)
  | ALoadDecode f => (s, mkPriv (p_types p) (p_loaded p ++ [sh_load s f]))
  | APrivate => (s, p)
  end.

Fixpoint acts (s : shared) (p : priv) (l : list action) : shared * priv :=
  match l with
  | [] => (s, p)
  | a :: r => let '(s1, p1) := act s p a in acts s1 p1 r
  end.

(* a schedule: true = next step of the first evaluation *)
Fixpoint interleave (sch : list bool) (s : shared) (pa pb : priv) (la lb : list action) : shared * priv * priv :=
  match sch with
  | [] =>
      let '(s1, pa1) := acts s pa la in
      let '(s2, pb1) := acts s1 pb lb in (s2, pa1, pb1)
  | true :: sch' =>
      match la with
      | a :: la' => let '(s1, pa1) := act s pa a in interleave sch' s1 pa1 pb la' lb
      | [] => interleave sch' s pa pb la lb
      end
  | false :: sch' =>
      match lb with
      | b :: lb' => let '(s1, pb1) := act s pb b in interleave sch' s1 pa pb1 la lb'
      | [] => interleave sch' s pa pb la lb
      end
  end.

Definition uses_load (a : action) : bool :=
  match a with ALoadInit _ _ | ALoadDecode _ => true | _ => false end.

End History.

Arguments mkTree {C}. Arguments t_core {C}. Arguments t_types {C}. Arguments t_sort_rhs {C}.
Arguments mkG {C Pf}. Arguments g_type {C Pf}. Arguments g_dec {C Pf}. Arguments g_trees {C Pf}.
Arguments g_prefs {C Pf}. Arguments g_xml_lead {C Pf}. Arguments G0 {C Pf}.
Arguments mkReq {Pf D}. Arguments q_expr {Pf D}. Arguments q_reuse_tree {Pf D}. Arguments q_fmt {Pf D}.
Arguments q_text {Pf D}. Arguments q_together {Pf D}. Arguments q_reuse_dec {Pf D}. Arguments q_prefs {Pf D}.
Arguments q_xml_lead {Pf D}.
Arguments find_tree {C}. Arguments store_tree {C}. Arguments parse {C Pf}.
Arguments decode_run {D DOCS}. Arguments eval_with {C Pf D DOCS V M}. Arguments step {C Pf D DOCS V M}. Arguments run {C Pf D DOCS V M}.
Arguments last_out {C Pf D DOCS V M}. Arguments spec_value {C Pf D DOCS V}.
Arguments mkSh {D}. Arguments sh_type {D}. Arguments sh_load {D}.
Arguments ASetType {D}. Arguments AAppendType {D}. Arguments AReadType {D}. Arguments ALoadInit {D}.
Arguments ALoadDecode {D}. Arguments APrivate {D}.
Arguments mkPriv {D}. Arguments p_types {D}. Arguments p_loaded {D}. Arguments priv0 {D}.
Arguments act {D}. Arguments acts {D}. Arguments interleave {D}. Arguments uses_load {D}.
