(* Model/Node.v — the data model of the evaluator: scalars are (tag, text) as
   in yq, sequence children carry their *recorded key* (the Key node that
   GetPath / delete / AddChild read: AddChild keeps an existing key, so it can
   be stale), map entries are (key text, value).  JSON-model fragment: map
   keys are !!str, no anchors/aliases/styles/comments, no custom tags. *)
From YQ Require Import Base.Str.
From Coq Require Import ZArith.

Inductive tag := TNull | TBool | TInt | TFloat | TStr.

Definition tag_eqb (a b : tag) : bool :=
  match a, b with
  | TNull, TNull | TBool, TBool | TInt, TInt | TFloat, TFloat | TStr, TStr => true
  | _, _ => false
  end.

(* recorded key of a sequence child (CandidateNode.Key): an index or, for a
   value that was moved out of a map, a string *)
Inductive rkey := RIdx (i : N) | RStr (s : str).

Inductive node :=
| Scalar (t : tag) (v : str)
| Seq (items : list (rkey * node))
| Map (entries : list (str * node)).

(* path elements as `path` prints them *)
Inductive pelem := PStr (s : str) | PInt (i : Z).

(* ---------- decimal text ---------- *)
Fixpoint dec_fuel (fuel : nat) (n : N) (acc : str) : str :=
  match fuel with
  | O => acc
  | S f => let acc' := (48 + n mod 10) :: acc in
           if n / 10 =? 0 then acc' else dec_fuel f (n / 10) acc'
  end.
Definition dec_N (n : N) : str := dec_fuel (S (N.to_nat (N.log2 n))) n [].
Definition dec_Z (z : Z) : str :=
  match z with
  | Z0 => [48]
  | Zpos p => dec_N (Npos p)
  | Zneg p => 45 :: dec_N (Npos p)
  end.

Definition is_digit (c : N) : bool := (48 <=? c) && (c <=? 57).

Fixpoint parse_digits (s : str) (acc : N) : option N :=
  match s with
  | [] => Some acc
  | c :: r => if is_digit c then parse_digits r (acc * 10 + (c - 48)) else None
  end.

(* strconv.ParseInt(s, 10, 64) on the decimal spellings the model covers:
   optional sign then digits; None = syntax error *)
Definition parse_dec (s : str) : option Z :=
  match s with
  | [] => None
  | 45 :: (_ :: _) as r => option_map (fun n => (- Z.of_N n)%Z) (parse_digits r 0)
  | 43 :: (_ :: _) as r => option_map Z.of_N (parse_digits r 0)
  | _ => option_map Z.of_N (parse_digits s 0)
  end.

Definition int64_min : Z := (- 9223372036854775808)%Z.
Definition int64_max : Z := 9223372036854775807%Z.
Definition in_int64 (z : Z) : bool := ((int64_min <=? z) && (z <=? int64_max))%Z.

(* two's complement wrap-around of Go's int64 arithmetic *)
Definition wrap64 (z : Z) : Z :=
  let m := (z mod 18446744073709551616)%Z in
  if (m <=? int64_max)%Z then m else (m - 18446744073709551616)%Z.

(* does the text use a spelling parseInt64 treats specially (_, 0x, 0o)? *)
Definition special_int_spelling (s : str) : bool :=
  existsb (fun c => c =? 95) s
  || match s with
     | 48 :: c :: _ => (c =? 120) || (c =? 88) || (c =? 111)
     | _ => false
     end.

(* ---------- canonical serialisation of results (the observable) ---------- *)
Definition ser_str (s : str) : str := dec_N (N.of_nat (length s)) ++ 58 :: s.

Fixpoint ser_node (n : node) : str :=
  match n with
  | Scalar TNull _ => [78]                                   (* N *)
  | Scalar TBool v => 66 :: ser_str v                        (* B *)
  | Scalar TInt v => 73 :: ser_str v                         (* I *)
  | Scalar TFloat v => 73 :: ser_str v                       (* numbers print alike *)
  | Scalar TStr v => 83 :: ser_str v                         (* S *)
  | Seq items =>
      76 :: dec_N (N.of_nat (length items)) ++ 91 ::
      (fix go (l : list (rkey * node)) : str :=
         match l with [] => [93] | (_, x) :: r => ser_node x ++ go r end) items
  | Map entries =>
      77 :: dec_N (N.of_nat (length entries)) ++ 91 ::
      (fix go (l : list (str * node)) : str :=
         match l with [] => [93] | (k, x) :: r => ser_str k ++ ser_node x ++ go r end) entries
  end.

Definition ser_pelem (p : pelem) : node :=
  match p with
  | PStr s => Scalar TStr s
  | PInt i => Scalar TInt (dec_Z i)
  end.

(* ---------- structural helpers ---------- *)
Definition null_node : node := Scalar TNull [110; 117; 108; 108].   (* null *)
Definition bool_node (b : bool) : node :=
  Scalar TBool (if b then [116; 114; 117; 101] else [102; 97; 108; 115; 101]).

(* isTruthyNode *)
Definition lower (c : N) : N := if (65 <=? c) && (c <=? 90) then c + 32 else c.
Definition str_eq_fold (a b : str) : bool := str_eqb (List.map lower a) (List.map lower b).
Definition truthy (n : node) : bool :=
  match n with
  | Scalar TNull _ => false
  | Scalar TBool v =>
      str_eq_fold v [121] || str_eq_fold v [121; 101; 115] || str_eq_fold v [111; 110]
      || str_eq_fold v [116; 114; 117; 101]
  | _ => true
  end.

(* recursiveNodeEqual *)
Fixpoint node_eqb (a b : node) : bool :=
  match a, b with
  | Scalar ta va, Scalar tb vb =>
      tag_eqb ta tb && (match ta with TNull => true | _ => str_eqb va vb end)
  | Seq xs, Seq ys =>
      (fix go (l1 : list (rkey * node)) (l2 : list (rkey * node)) : bool :=
         match l1, l2 with
         | [], [] => true
         | (_, x) :: r1, (_, y) :: r2 => node_eqb x y && go r1 r2
         | _, _ => false
         end) xs ys
  | Map xs, Map ys =>
      (length xs =? length ys)%nat &&
      (fix go (l1 : list (str * node)) : bool :=
         match l1 with
         | [] => true
         | (k, x) :: r1 =>
             (* findInArray(rhs, key): first entry with an equal key *)
             (fix find (l2 : list (str * node)) : bool :=
                match l2 with
                | [] => false
                | (k2, y) :: r2 => if str_eqb k k2 then node_eqb x y else find r2
                end) ys && go r1
         end) xs
  | _, _ => false
  end.

Definition rkey_text (k : rkey) : str :=
  match k with RIdx i => dec_N i | RStr s => s end.

Definition rkey_pelem (k : rkey) : pelem :=
  match k with RIdx i => PInt (Z.of_N i) | RStr s => PStr s end.

(* number the items of a freshly built sequence 0,1,2,... *)
Fixpoint renumber_from (i : N) (l : list node) : list (rkey * node) :=
  match l with [] => [] | x :: r => (RIdx i, x) :: renumber_from (i + 1) r end.

Definition is_wild (s : str) : bool := existsb (fun c => (c =? 42) || (c =? 63)) s.
