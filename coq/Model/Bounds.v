(* Model/Bounds.v — executable models of yq's own index / bounds / restart
   logic at the places where the Go code can panic or loop (property C11).
   No proofs here (Proofs/BoundsProofs.v).

   Every Go access that can panic is written through an explicit checked
   access returning [Panic site]; Go [error] returns are [Err]; loops whose
   trip count is not structurally bounded run on explicit fuel and return
   [OutOfFuel] when it runs out.  Go [int] is 64 bit; all integers below are
   [Z] and the places where the Go code could overflow are noted (none of the
   modelled expressions can: the operands are a length and a parsed int64 of
   opposite sign). *)
From Coq Require Import String.
From Coq Require Import List NArith ZArith Bool Lia.
From YQ Require Import Base.Str.
Import ListNotations.

(* ------------------------------------------------------------------ *)
(* outcome                                                             *)
(* ------------------------------------------------------------------ *)
Inductive psite :=
| SliceContent          (* operator_slice.go:56   lhsNode.Content[i]                         *)
| TraverseContent       (* operator_traverse_path.go traverseArrayWithIndices  node.Content[indexToUse]           *)
| TraverseRhsFront      (* operator_traverse_path.go:100  rhs.MatchingNodes.Front().Value    *)
| SliceNumberFront      (* operator_slice.go:16   result.MatchingNodes.Front().Value         *)
| CollectObjectContent  (* operator_collect_object.go:39/41  candidateNode.Content[i]        *)
| RepeatAlloc           (* operator_multiply.go:161 strings.Repeat: fatal out of memory      *)
| AliasCycle.           (* unbounded recursion through Alias pointers (stack exhaustion)     *)

Inductive outcome (A : Type) :=
| Ok (a : A)
| Err
| Panic (s : psite)
| OutOfFuel.
Arguments Ok {A} a.
Arguments Err {A}.
Arguments Panic {A} s.
Arguments OutOfFuel {A}.

Definition is_panic {A} (o : outcome A) : bool :=
  match o with Panic _ => true | _ => false end.

Definition obind {A B} (o : outcome A) (f : A -> outcome B) : outcome B :=
  match o with
  | Ok a => f a
  | Err => Err
  | Panic s => Panic s
  | OutOfFuel => OutOfFuel
  end.

(* Go  xs[i]  with i : int.  Panics unless 0 <= i < len(xs). *)
Definition index_at {A} (site : psite) (xs : list A) (i : Z) : outcome A :=
  if (i <? 0)%Z then Panic site
  else match nth_error xs (Z.to_nat i) with
       | Some x => Ok x
       | None => Panic site
       end.

(* Go  l.Front().Value  on a container/list: nil dereference when empty. *)
Definition front_value {A} (site : psite) (l : list A) : outcome A :=
  match l with
  | [] => Panic site
  | x :: _ => Ok x
  end.

(* ------------------------------------------------------------------ *)
(* parseInt64 / parseInt (lib.go)                                       *)
(* ------------------------------------------------------------------ *)
Definition digit_val (c : N) : option N :=
  if (48 <=? c) && (c <=? 57) then Some (c - 48)
  else if (97 <=? c) && (c <=? 122) then Some (c - 97 + 10)
  else if (65 <=? c) && (c <=? 90) then Some (c - 65 + 10)
  else None.

Fixpoint digits_val (base : N) (ds : str) (acc : N) : option N :=
  match ds with
  | [] => Some acc
  | c :: ds' =>
      match digit_val c with
      | Some d => if d <? base then digits_val base ds' (acc * base + d) else None
      | None => None
      end
  end.

Definition int64_min : Z := (- 9223372036854775808)%Z.
Definition int64_max : Z := 9223372036854775807%Z.

(* strconv.ParseInt(s, base, 64) for an explicit base (no prefix handling,
   no underscores): optional sign, at least one digit, range check. *)
Definition parse_int_base (base : N) (s : str) : option Z :=
  let '(neg, ds) := match s with
                    | 45 :: r => (true, r)
                    | 43 :: r => (false, r)
                    | _ => (false, s)
                    end in
  match ds with
  | [] => None
  | _ =>
      match digits_val base ds 0 with
      | None => None
      | Some n =>
          let z := if neg then (- Z.of_N n)%Z else Z.of_N n in
          if (int64_min <=? z)%Z && (z <=? int64_max)%Z then Some z else None
      end
  end.

Definition strip_underscores (s : str) : str := filter (fun c => negb (c =? 95)) s.

(* lib.go parseInt64: underscores removed, 0x/0X -> base 16, 0o -> base 8. *)
Definition parse_int64 (s : str) : option Z :=
  let s := strip_underscores s in
  match s with
  | 48 :: 120 :: r => parse_int_base 16 r
  | 48 :: 88 :: r => parse_int_base 16 r
  | 48 :: 111 :: r => parse_int_base 8 r
  | _ => parse_int_base 10 s
  end.

(* ------------------------------------------------------------------ *)
(* operator_slice.go                                                    *)
(* ------------------------------------------------------------------ *)
(* getSliceNumber: the expression must yield exactly one node, whose value is
   parsed.  The Front() access is written as the checked access so that its
   safety is a theorem, not an assumption. *)
Definition get_slice_number (results : list str) : outcome Z :=
  if (length results =? 1)%nat then
    obind (front_value SliceNumberFront results) (fun v =>
      match parse_int64 v with Some z => Ok z | None => Err end)
  else Err.

(* a start further left than the array is long is clamped to 0 (fix 98d1fab) *)
Definition slice_rel_first (len first : Z) : Z :=
  if (first <? 0)%Z then Z.max 0 (len + first)%Z else first.

Definition slice_rel_second (len second : Z) : Z :=
  if (second <? 0)%Z then (len + second)%Z
  else if (second >? len)%Z then len else second.

(* for i := relFirst; i < relSecond; i++ { append(Content[i]) } :
   n = number of remaining iterations. *)
Fixpoint slice_loop {A} (n : nat) (i : Z) (content : list A) : outcome (list A) :=
  match n with
  | O => Ok []
  | S n' =>
      obind (index_at SliceContent content i) (fun x =>
        obind (slice_loop n' (i + 1)%Z content) (fun r => Ok (x :: r)))
  end.

Definition slice_array {A} (content : list A) (first second : Z) : outcome (list A) :=
  let len := Z.of_nat (length content) in
  let rf := slice_rel_first len first in
  let rs := slice_rel_second len second in
  slice_loop (Z.to_nat (rs - rf)) rf content.

(* the same function with the trip count capped at len+1: identical results
   (BoundsProofs.slice_array_exec_eq), but computable when the bounds are near
   the int64 limits *)
Definition slice_array_exec {A} (content : list A) (first second : Z) : outcome (list A) :=
  let len := Z.of_nat (length content) in
  let rf := slice_rel_first len first in
  let rs := slice_rel_second len second in
  slice_loop (Z.to_nat (Z.min (rs - rf) (len + 1))) rf content.

(* sliceArrayOperator on a node: slicing a map is an error (fix 500bb97) *)
Definition slice_node {A} (is_map : bool) (content : list A) (first second : Z) : outcome (list A) :=
  if is_map then Err else slice_array content first second.

(* ------------------------------------------------------------------ *)
(* operator_traverse_path.go traverseArrayWithIndices (one index)       *)
(* ------------------------------------------------------------------ *)
(* The padding loop `for contentLength <= index { AddChild(null) }` runs
   pad_count times; its result is the content followed by that many nulls. *)
Definition pad_count (len index : Z) : nat := Z.to_nat (index + 1 - len).

Definition pad_limit : Z := 1000000%Z.

(* an index pad_limit or more places beyond the end is an error (fix 4925660) *)
Definition traverse_index {A} (null : A) (content : list A) (index : Z) : outcome (A * list A) :=
  if (index - Z.of_nat (length content) >=? pad_limit)%Z then Err else
  let padded := content ++ repeat null (pad_count (Z.of_nat (length content)) index) in
  let clen := Z.of_nat (length padded) in
  let use := if (index <? 0)%Z then (clen + index)%Z else index in
  if (use <? 0)%Z then Err
  else obind (index_at TraverseContent padded use) (fun x => Ok (x, padded)).

(* the same function with the `indexToUse < 0` check removed (the mutant of
   DESIGN Appendix C); used to show the check is what excludes the panic *)
Definition traverse_index_unchecked {A} (null : A) (content : list A) (index : Z) : outcome (A * list A) :=
  let padded := content ++ repeat null (pad_count (Z.of_nat (length content)) index) in
  let clen := Z.of_nat (length padded) in
  let use := if (index <? 0)%Z then (clen + index)%Z else index in
  obind (index_at TraverseContent padded use) (fun x => Ok (x, padded)).

(* traverseArrayOperator line 100: rhs is the result of a collect operator.
   collectOperator returns one sequence when the context is empty and one
   sequence per context node otherwise. *)
Definition collect_results {A} (context : list A) (collected : A -> list A) : list (list A) :=
  match context with
  | [] => [[]]
  | _ => map collected context
  end.

Definition traverse_rhs_indices {A} (context : list A) (collected : A -> list A) : outcome (list A) :=
  front_value TraverseRhsFront (collect_results context collected).

(* ------------------------------------------------------------------ *)
(* operator_collect_object.go: rotation                                 *)
(* ------------------------------------------------------------------ *)
(* rotated[i] = [ c.Content[i] | c in candidates ]  for i < len(first.Content) *)
Fixpoint rotate_column {A} (cands : list (list A)) (i : Z) : outcome (list A) :=
  match cands with
  | [] => Ok []
  | c :: cs =>
      obind (index_at CollectObjectContent c i) (fun x =>
        obind (rotate_column cs i) (fun r => Ok (x :: r)))
  end.

(* the Go loops are candidate-major; the first failing access is the same
   site either way, so the column-major formulation has the same outcome class *)
Fixpoint rotate_cols {A} (cands : list (list A)) (n : nat) (i : Z) : outcome (list (list A)) :=
  match n with
  | O => Ok []
  | S n' =>
      obind (rotate_column cands i) (fun col =>
        obind (rotate_cols cands n' (i + 1)%Z) (fun r => Ok (col :: r)))
  end.

(* since fix c783875 an entry with fewer children than the first one is an error *)
Definition rotate {A} (cands : list (list A)) : outcome (list (list A)) :=
  match cands with
  | [] => Ok []                      (* Len()==0 is tested before Front() *)
  | first :: _ =>
      if forallb (fun c => (length first <=? length c)%nat) cands
      then rotate_cols cands (length first) 0%Z
      else Err
  end.

Definition rotate_guard {A} (cands : list (list A)) : Prop :=
  match cands with
  | [] => True
  | first :: _ => Forall (fun c => (length first <= length c)%nat) cands
  end.

(* ------------------------------------------------------------------ *)
(* operator_multiply.go repeatString                                    *)
(* ------------------------------------------------------------------ *)
Definition repeat_limit : Z := 10000000%Z.
Definition repeat_bytes_limit : Z := 100000000%Z.

(* mem: the largest block the allocator can hand out.  strings.Repeat
   allocates len*count bytes at once; an allocation failure is a fatal
   runtime error (not even recoverable). Result: the length produced. *)
Definition repeat_string (mem : Z) (slen count : Z) : outcome Z :=
  if (count <? 0)%Z then Err
  else if (count >? repeat_limit)%Z then Err
  else if (0 <? count)%Z && (slen >? repeat_bytes_limit / count)%Z then Err   (* fix 3108f38 *)
  else if (slen * count >? mem)%Z then Panic RepeatAlloc
  else Ok (slen * count)%Z.

(* ------------------------------------------------------------------ *)
(* matchKeyString.go                                                    *)
(* ------------------------------------------------------------------ *)
Record gst := { g_px : nat; g_nx : nat; g_npx : nat; g_nnx : nat }.

Inductive gres := GDone (b : bool) | GNext (s : gst).

Definition g_restart (name : str) (s : gst) : gres :=
  if (0 <? g_nnx s)%nat && (g_nnx s <=? length name)%nat
  then GNext {| g_px := g_npx s; g_nx := g_nnx s; g_npx := g_npx s; g_nnx := g_nnx s |}
  else GDone false.

Definition g_adv (s : gst) : gst :=
  {| g_px := S (g_px s); g_nx := S (g_nx s); g_npx := g_npx s; g_nnx := g_nnx s |}.

(* one iteration of the for loop of deepMatch *)
Definition g_step (name pat : str) (s : gst) : gres :=
  if (g_px s <? length pat)%nat || (g_nx s <? length name)%nat then
    match nth_error pat (g_px s) with
    | Some c =>
        if c =? 42 then      (* '*' *)
          GNext {| g_px := S (g_px s); g_nx := g_nx s; g_npx := g_px s; g_nnx := S (g_nx s) |}
        else if c =? 63 then (* '?' *)
          if (g_nx s <? length name)%nat then GNext (g_adv s) else g_restart name s
        else
          match nth_error name (g_nx s) with
          | Some d => if d =? c then GNext (g_adv s) else g_restart name s
          | None => g_restart name s
          end
    | None => g_restart name s
    end
  else GDone true.

Fixpoint g_loop (fuel : nat) (name pat : str) (s : gst) : outcome bool :=
  match fuel with
  | O => OutOfFuel
  | S f =>
      match g_step name pat s with
      | GDone b => Ok b
      | GNext s' => g_loop f name pat s'
      end
  end.

Definition g_init : gst := {| g_px := 0; g_nx := 0; g_npx := 0; g_nnx := 0 |}.

Definition deep_match_fuel (name pat : str) : nat :=
  let n := length name in
  let p := length pat in
  ((n + 4) * (p + n + 3))%nat.

Definition deep_match (name pat : str) : outcome bool :=
  g_loop (deep_match_fuel name pat) name pat g_init.

Definition match_key (name pat : str) : outcome bool :=
  match pat with
  | [] => Ok (match name with [] => true | _ => false end)
  | _ => if str_eqb pat [42] then Ok true else deep_match name pat
  end.

(* ------------------------------------------------------------------ *)
(* alias graphs                                                         *)
(* ------------------------------------------------------------------ *)
(* A decoded YAML document as far as alias following is concerned: a tree
   whose leaves may be aliases naming an anchor; [env a] is the node that
   carries anchor a.  Everything that follows aliases recursively (the JSON /
   XML / properties / CSV / shell / Lua encoders, `traverse`, merge-anchor
   traversal) has the recursion shape of [unfold]. *)
Inductive anode :=
| AScalar
| ANode (l r : anode)      (* a collection: first child and the rest (cons shape) *)
| AAlias (target : nat).

Fixpoint alias_in (b : nat) (n : anode) : Prop :=
  match n with
  | AScalar => False
  | ANode l r => alias_in b l \/ alias_in b r
  | AAlias t => t = b
  end.

(* number of nodes of the fully unfolded value, or OutOfFuel *)
Fixpoint unfold (fuel : nat) (env : nat -> option anode) (n : anode) : outcome nat :=
  match fuel with
  | O => OutOfFuel
  | S f =>
      match n with
      | AScalar => Ok 1%nat
      | ANode l r =>
          obind (unfold f env l) (fun a => obind (unfold f env r) (fun b => Ok (S (a + b))))
      | AAlias t =>
          match env t with
          | Some tgt => unfold f env tgt
          | None => Ok 1%nat      (* explodeNode / encoders treat a nil Alias as a leaf *)
          end
      end
  end.

(* the alias graph is acyclic: anchors can be ranked so that every alias
   occurring under an anchored node points to a lower rank *)
Definition acyclic (env : nat -> option anode) : Prop :=
  exists rank : nat -> nat,
    forall a t, env a = Some t -> forall b, alias_in b t -> env b <> None -> (rank b < rank a)%nat.

(* what yaml.v3 hands over for   - &a [*a]   : the anchor is registered when
   the sequence starts, so the alias inside it resolves to its own ancestor *)
Definition self_ref_env : nat -> option anode :=
  fun a => match a with O => Some (ANode (AAlias 0) AScalar) | _ => None end.

(* ------------------------------------------------------------------ *)
(* serialisation of outcomes for the correspondence check               *)
(* ------------------------------------------------------------------ *)
Definition cls_ok : str := [111; 107].            (* ok *)
Definition cls_err : str := [101; 114; 114].      (* err *)
Definition cls_panic : str := [112; 97; 110; 105; 99]. (* panic *)
Definition cls_fuel : str := [102; 117; 101; 108].    (* fuel *)

Definition site_name (s : psite) : str :=
  match s with
  | SliceContent => str_of_string "operator_slice.go:56"%string
  | TraverseContent => str_of_string "operator_traverse_path.go:212"%string
  | TraverseRhsFront => str_of_string "operator_traverse_path.go:100"%string
  | SliceNumberFront => str_of_string "operator_slice.go:16"%string
  | CollectObjectContent => str_of_string "operator_collect_object.go:39"%string
  | RepeatAlloc => str_of_string "operator_multiply.go:161"%string
  | AliasCycle => str_of_string "alias-cycle"%string
  end.

(* decimal rendering of a Z *)
Fixpoint dec_digits (fuel : nat) (n : N) (acc : str) : str :=
  match fuel with
  | O => acc
  | S f => let acc' := (48 + n mod 10) :: acc in
           if n / 10 =? 0 then acc' else dec_digits f (n / 10) acc'
  end.

Definition dec_of_Z (z : Z) : str :=
  match z with
  | Z0 => [48]
  | Zpos p => dec_digits 70 (Npos p) []
  | Zneg p => 45 :: dec_digits 70 (Npos p) []
  end.

Fixpoint join_with (sep : N) (xs : list str) : str :=
  match xs with
  | [] => []
  | [x] => x
  | x :: r => x ++ sep :: join_with sep r
  end.

Definition show_outcome {A} (show : A -> str) (o : outcome A) : str :=
  match o with
  | Ok a => cls_ok ++ 32 :: show a
  | Err => cls_err
  | Panic s => cls_panic ++ 32 :: site_name s
  | OutOfFuel => cls_fuel
  end.

(* correspondence entry points (inputs are what the check can put into an
   expression; outputs are what it can read back) *)

(* `.[first:second]` on the array [0,1,...,len-1]: the selected elements *)
Definition c_slice (inp : Z * (Z * Z)) : str :=
  let '(len, (f, s)) := inp in
  show_outcome (fun xs => join_with 44 (map dec_of_Z xs))
    (slice_array_exec (map Z.of_nat (seq 0 (Z.to_nat len))) f s).

(* `.[index]` on [0,...,len-1] (nulls shown as -1), with the new length *)
Definition c_index (inp : Z * Z) : str :=
  let '(len, i) := inp in
  show_outcome (fun r => dec_of_Z (fst r) ++ 32 :: dec_of_Z (Z.of_nat (length (snd r))))
    (traverse_index (-1)%Z (map Z.of_nat (seq 0 (Z.to_nat len))) i).

(* `"name" == "pattern"` *)
Definition c_match (inp : str * str) : str :=
  show_outcome (fun b : bool => if b then [116] else [102]) (match_key (fst inp) (snd inp)).

(* `.["text"]` on [0..19]: parseInt of the text (class and value when < 20) *)
Definition c_parse_int (s : str) : str :=
  match parse_int64 s with
  | Some z => cls_ok ++ 32 :: dec_of_Z z
  | None => cls_err
  end.

(* what `.["text"]` shows on the 20-element array [0..19] *)
Definition c_parse_int_obs (s : str) : str :=
  match parse_int64 s with
  | None => cls_err
  | Some z =>
      if (z <? -20)%Z then cls_err
      else if (z <? 0)%Z then cls_ok ++ 32 :: dec_of_Z (20 + z)
      else if (z <? 20)%Z then cls_ok ++ 32 :: dec_of_Z z
      else cls_ok ++ 32 :: str_of_string "null"%string
  end.

(* `"s" * count | length` with mem taken as unbounded for small products *)
Definition c_repeat (inp : Z * Z) : str :=
  show_outcome dec_of_Z (repeat_string (2 ^ 47)%Z (fst inp) (snd inp)).
