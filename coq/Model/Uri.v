(* Model/Uri.v — executable model of pkg/yqlib/encoder_uri.go and
   decoder_uri.go: Go's net/url QueryEscape / QueryUnescape (escape and
   unescape in mode encodeQueryComponent) over byte strings.  No proofs. *)
From YQ Require Import Base.Str.

Definition c_pct : N := 37.    (* % *)
Definition c_plus : N := 43.   (* + *)
Definition c_sp : N := 32.

(* shouldEscape(c, encodeQueryComponent) = false : alphanumerics and - _ . ~ *)
Definition uri_unreserved (c : N) : bool :=
  ((97 <=? c) && (c <=? 122)) || ((65 <=? c) && (c <=? 90)) || ((48 <=? c) && (c <=? 57))
  || (c =? 45) || (c =? 95) || (c =? 46) || (c =? 126).

(* upperhex[d] for d < 16 *)
Definition upperhex (d : N) : N := if d <? 10 then 48 + d else 65 + (d - 10).

(* url.escape *)
Fixpoint uri_escape (s : str) : str :=
  match s with
  | [] => []
  | c :: r =>
      if c =? c_sp then c_plus :: uri_escape r
      else if uri_unreserved c then c :: uri_escape r
      else c_pct :: upperhex (c / 16) :: upperhex (c mod 16) :: uri_escape r
  end.

(* ishex / unhex *)
Definition unhex (c : N) : option N :=
  if (48 <=? c) && (c <=? 57) then Some (c - 48)
  else if (97 <=? c) && (c <=? 102) then Some (c - 97 + 10)
  else if (65 <=? c) && (c <=? 70) then Some (c - 65 + 10)
  else None.

Definition opt_cons (c : N) (r : option str) : option str :=
  match r with Some l => Some (c :: l) | None => None end.

(* url.unescape: None is an EscapeError (a percent sign not followed by two
   hex digits anywhere in the text) *)
Fixpoint uri_unescape (s : str) : option str :=
  match s with
  | [] => Some []
  | c :: r =>
      if c =? c_pct then
        match r with
        | h1 :: h2 :: r' =>
            match unhex h1, unhex h2 with
            | Some a, Some b => opt_cons (a * 16 + b) (uri_unescape r')
            | _, _ => None
            end
        | _ => None
        end
      else if c =? c_plus then opt_cons c_sp (uri_unescape r)
      else opt_cons c (uri_unescape r)
  end.

(* serialisation for the correspondence check *)
Definition uri_unescape_obs (s : str) : str :=
  match uri_unescape s with Some l => 79 :: l | None => [69] end.
