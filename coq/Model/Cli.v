(* Model/Cli.v -- the command layer of yq as far as exit status and output
   truthfulness are concerned.  No proofs here.

   Mirrors:
     pkg/yqlib/format.go : FormatStringFromFilename, FormatFromString (over Gen.Formats, regenerated)
     cmd/utils.go : initCommand (format auto-detection, -p/-o interplay, unwrap default),
                    configureEncoder (a nil factory would be CALLED before it is tested: panic; every format has one) / configureDecoder (a format without decoder is an error)
     cmd/evaluate_sequence_command.go, cmd/evaluate_all_command.go : control flow to the exit status, -e, -n
     pkg/yqlib/stream_evaluator.go : EvaluateFiles / Evaluate / EvaluateNew
     pkg/yqlib/all_at_once_evaluator.go : EvaluateFiles
     pkg/yqlib/printer.go : PrintResults / printNode (printedMatches), NUL separated output
     pkg/yqlib/encoder_{csv,xml,toml,base64,uri}.go : which results the encoder accepts, rejects, or swallows

   The evaluator and the decoders are abstracted by a world: for every file
   the documents the decoder yields (or a decode error), for every document
   the results of the expression (or an evaluation error). *)
From Coq Require Import List NArith Bool.
From YQ Require Import Base.Str Gen.Formats.
Import ListNotations.

(* ------------------------------------------------------------------ *)
(* format.go                                                            *)
Definition lower (c : N) : N := if (65 <=? c) && (c <=? 90) then c + 32 else c.

(* filepath.Ext: from the last dot of the last path element; empty if none *)
Fixpoint ext_scan (s : str) (cur : option str) : option str :=
  match s with
  | [] => cur
  | c :: s' =>
      if c =? 47 then ext_scan s' None
      else if c =? 46 then ext_scan s' (Some [c])
      else ext_scan s' (option_map (fun e => e ++ [c]) cur)
  end.
Definition path_ext (s : str) : str := match ext_scan s None with Some e => e | None => [] end.

Definition yaml_name : str := [121; 97; 109; 108].
Definition json_name : str := [106; 115; 111; 110].
Definition auto_name : str := [97; 117; 116; 111].

Definition format_string_from_filename (filename : str) : str :=
  match filename with
  | [] => yaml_name
  | _ => match path_ext filename with
         | c :: rest => if c =? 46 then List.map lower rest else yaml_name
         | [] => yaml_name
         end
  end.

Definition matches_name (f : format) (name : str) : bool :=
  str_eqb (fmt_formal f) name || existsb (fun n => str_eqb n name) (fmt_names f).

Definition format_from_string (name : str) : option format :=
  match name with
  | [] => None
  | _ => List.find (fun f => matches_name f name) formats
  end.

(* ------------------------------------------------------------------ *)
(* cmd/utils.go: initCommand                                            *)
Record cli := mkCli {
  c_all : bool ;            (* eval-all instead of eval *)
  c_p : str ;               (* -p, default auto *)
  c_o : str ;               (* -o, default auto *)
  c_tojson : bool ;         (* deprecated -j *)
  c_files : list str ;      (* arguments after the expression *)
  c_inplace : bool ;
  c_null : bool ;           (* -n *)
  c_fm : bool ;             (* --front-matter given *)
  c_split : bool ;          (* --split-exp given *)
  c_unwrap : option bool ;  (* -r explicitly set *)
  c_exit_status : bool ;    (* -e *)
  c_nul : bool              (* -0 *)
}.

Definition is_auto (s : str) : bool := str_eqb s [] || str_eqb s auto_name || str_eqb s [97].

Inductive init_res := InitErr | InitOk (inFmt outFmt : str) (unwrap : bool).

Definition first_file (c : cli) : str := match c_files c with f :: _ => f | [] => [] end.

Definition init_command (c : cli) : init_res :=
  let o := if c_tojson c then json_name else c_o c in
  let nofiles := match c_files c with [] => true | _ => false end in
  if c_inplace c && (nofiles || str_eqb (first_file c) [45]) then InitErr
  else if c_fm c && nofiles then InitErr
  else if c_inplace c && c_split c then InitErr
  else if c_null c && negb nofiles then InitErr
  else
    let fname := first_file c in
    let '(inF, outF) :=
      if is_auto (c_p c) then
        let f := format_string_from_filename fname in
        match format_from_string f with
        | None => (yaml_name, if is_auto o then yaml_name else o)   (* unknown extension: yaml *)
        | Some _ => (f, if is_auto o then f else o)
        end
      else (c_p c, if is_auto o then yaml_name else o)              (* backwards compatibility *)
    in
    match format_from_string outF with
    | None => InitErr
    | Some fo =>
        let dflt := (fmt_id fo =? id_YamlFormat) || (fmt_id fo =? id_PropertiesFormat) in
        InitOk inF outF (match c_unwrap c with Some b => b | None => dflt end)
    end.

(* ------------------------------------------------------------------ *)
(* results and what the encoders do with them                           *)
Inductive stag := TagNull | TagBool | TagInt | TagFloat | TagStr.
Inductive node :=
| NScalar (t : stag) (v : str)
| NSeq (l : list node)
| NMap (l : list (node * node)).

Definition is_scalar (n : node) : bool := match n with NScalar _ _ => true | _ => false end.
Definition is_seq (n : node) : bool := match n with NSeq _ => true | _ => false end.
Definition is_map (n : node) : bool := match n with NMap _ => true | _ => false end.

Fixpoint has_complex_key (n : node) : bool :=
  match n with
  | NScalar _ _ => false
  | NSeq l => existsb has_complex_key l
  | NMap l => existsb (fun kv => negb (is_scalar (fst kv)) || has_complex_key (fst kv) || has_complex_key (snd kv)) l
  end.

(* the encoder returned nil and (complete = true) really wrote the whole result,
   or returned an error *)
Inductive enc_out := EncOk (complete : bool) | EncErr.

(* encoder_csv.go *)
Definition csv_row_ok (cells : list node) : bool := forallb is_scalar cells.
Definition map_keys (n : node) : list node := match n with NMap l => List.map fst l | _ => [] end.
Definition map_values (n : node) : list node := match n with NMap l => List.map snd l | _ => [] end.

Definition stag_code (t : stag) : N :=
  match t with TagNull => 0 | TagBool => 1 | TagInt => 2 | TagFloat => 3 | TagStr => 4 end.
(* recursiveNodeEqual on scalar keys: same tag and same text *)
Definition key_eqb (a b : node) : bool :=
  match a, b with
  | NScalar s x, NScalar t y => (stag_code s =? stag_code t) && str_eqb x y
  | _, _ => false
  end.
(* createChildRow: for each header key the first entry with that key text (findKeyInMap), else an empty scalar *)
Definition csv_child_row (headers : list node) (c : node) : list node :=
  match c with
  | NMap l => List.map (fun h => match List.find (fun kv => key_eqb (fst kv) h) l with
                                 | Some kv => snd kv | None => NScalar TagNull [] end) headers
  | _ => []
  end.

Definition csv_class (n : node) : enc_out :=
  match n with
  | NScalar _ _ => EncOk true
  | NMap _ => EncErr
  | NSeq [] => EncOk true
  | NSeq (first :: rest) =>
      match first with
      | NScalar _ _ => if csv_row_ok (first :: rest) then EncOk true else EncErr
      | NMap _ =>
          (* encodeObjects: the header row (the keys of the first object) must be scalars *)
          if negb (csv_row_ok (map_keys first)) then EncErr
          else if forallb (fun c => is_map c && csv_row_ok (csv_child_row (map_keys first) c)) (first :: rest)
               (* createChildRow looks the header keys up: values under other keys are left out *)
               then EncOk (forallb (fun c => forallb (fun k => existsb (key_eqb k) (map_keys first)) (map_keys c)) rest)
               else EncErr
      | NSeq _ =>
          if forallb (fun c => match c with NSeq cells => csv_row_ok cells | _ => false end) (first :: rest)
          then EncOk true else EncErr
      end
  end.

(* encoder_xml.go with the default preferences: attribute prefix +@ *)
Definition is_attr_key (k : node) : bool :=
  match k with NScalar _ (43 :: 64 :: _) => true | _ => false end.

Fixpoint xml_elem_ok (n : node) : bool :=
  match n with
  | NScalar _ _ => true
  | NSeq l => forallb xml_elem_ok l
  | NMap l => forallb (fun kv => is_scalar (fst kv) &&
                                 (if is_attr_key (fst kv) then is_scalar (snd kv) else xml_elem_ok (snd kv))) l
  end.

Definition xml_class (n : node) : enc_out :=
  match n with
  | NScalar _ _ => EncOk true
  | NSeq _ => EncErr
  | NMap l => if forallb (fun kv => is_scalar (fst kv) && xml_elem_ok (snd kv)) l then EncOk true else EncErr
  end.

(* encoder_json.go / candidate_node GetValueRep: a !!int must parse as an integer, a !!float as a
   float that JSON can hold: .inf / .nan (any YAML spelling) and non-numeric text are an error *)
Definition is_digit (c : N) : bool := (48 <=? c) && (c <=? 57).
Definition is_hexdigit (c : N) : bool := is_digit c || ((97 <=? lower c) && (lower c <=? 102)).
Definition strip_sign (v : str) : str := match v with 43 :: r => r | 45 :: r => r | _ => v end.
Definition int_text_ok (v : str) : bool :=
  match strip_sign v with
  | 48 :: 120 :: (_ :: _) as r => forallb is_hexdigit r
  | 48 :: 111 :: (_ :: _) as r => forallb (fun c => (48 <=? c) && (c <=? 55)) r
  | (_ :: _) as r => forallb (fun c => is_digit c || (c =? 95)) r
  | [] => false
  end.
Definition float_text_nonfinite (v : str) : bool :=
  let l := List.map lower (strip_sign v) in
  str_eqb l [46; 105; 110; 102] || str_eqb l [46; 110; 97; 110].
Definition float_text_ok (v : str) : bool :=
  negb (float_text_nonfinite v) &&
  match strip_sign v with
  | c :: _ => is_digit c || (c =? 46)
  | [] => false
  end.
Fixpoint json_values_ok (n : node) : bool :=
  match n with
  | NScalar TagInt v => int_text_ok v
  | NScalar TagFloat v => float_text_ok v
  | NScalar _ _ => true
  | NSeq l => forallb json_values_ok l
  | NMap l => forallb (fun kv => json_values_ok (snd kv)) l
  end.

Definition scalar_only_class (n : node) : enc_out := if is_scalar n then EncOk true else EncErr.
Definition string_only_class (n : node) : enc_out :=
  match n with NScalar TagStr _ => EncOk true | _ => EncErr end.

(* NUL separated output (-0): the printer hands the encoder a bytes.Buffer; the
   csv writer and the xml encoder flush their own buffered writer (since /repo
   a492170), so the class of a result does not depend on -0 *)
Definition enc_class (fid : N) (nul : bool) (n : node) : enc_out :=
  let base :=
    if (fid =? id_CSVFormat) || (fid =? id_TSVFormat) then csv_class n
    else if fid =? id_XMLFormat then xml_class n
    else if fid =? id_TomlFormat then scalar_only_class n
    else if (fid =? id_Base64Format) || (fid =? id_UriFormat) then string_only_class n
    else if fid =? id_JSONFormat
         then if json_values_ok n then EncOk (negb (has_complex_key n)) else EncErr
    else if (fid =? id_PropertiesFormat) || (fid =? id_ShellVariablesFormat)
         then EncOk (negb (has_complex_key n))     (* a non-scalar key is printed as an empty name or dropped *)
    else EncOk true in
  base.

(* printer.go printNode: the -e rule *)
(* operator_booleans.go isTruthyNode: null is not; a boolean is iff it is spelled
   y / yes / on / true in any case; everything else is *)
Definition truthy_bool_text (v : str) : bool :=
  let l := List.map lower v in
  str_eqb l [121] || str_eqb l [121; 101; 115] || str_eqb l [111; 110] || str_eqb l [116; 114; 117; 101].
Definition counts_as_match (n : node) : bool :=
  match n with
  | NScalar TagNull _ => false
  | NScalar TagBool v => truthy_bool_text v
  | _ => true
  end.

(* ------------------------------------------------------------------ *)
(* the world: decoders and evaluator abstracted                         *)
Record result := mkRes { r_id : N ; r_node : node }.
Inductive evalout := EvalErr | EvalOk (rs : list result).
Inductive doc := DocBad | DocOk (out : evalout).
Inductive finput := Missing | Docs (ds : list doc).

Record world := mkWorld {
  w_fs : str -> finput ;     (* each named input as the chosen decoder sees it; - is stdin *)
  w_expr_ok : bool ;         (* the expression parses *)
  w_null_out : evalout ;     (* the expression on the null document (EvaluateNew / empty eval-all input) *)
  w_all_out : evalout ;      (* eval-all: the expression on all documents together *)
  w_flush_ok : N -> bool     (* the write of this result's bytes to the output succeeds (writer.Flush after each result) *)
}.

Record pstate := mkP { p_shown : list N ; p_encoded : list N ; p_matched : bool }.
Definition p0 : pstate := mkP [] [] false.

(* PrintResults: per result set printedMatches, encode, flush, stop at the first error *)
Fixpoint print_results (fl : N -> bool) (fid : N) (nul : bool) (rs : list result) (p : pstate) : pstate * bool :=
  match rs with
  | [] => (p, true)
  | r :: rs' =>
      let m := p_matched p || counts_as_match (r_node r) in
      match enc_class fid nul (r_node r) with
      | EncErr => (mkP (p_shown p) (p_encoded p) m, false)
      | EncOk c =>
          if fl (r_id r)
          then print_results fl fid nul rs'
                 (mkP (if c then p_shown p ++ [r_id r] else p_shown p) (p_encoded p ++ [r_id r]) m)
          else (mkP (p_shown p) (p_encoded p) m, false)    (* writer.Flush() failed: its error is returned *)
      end
  end.

Definition print_eval (fl : N -> bool) (fid : N) (nul : bool) (e : evalout) (p : pstate) : pstate * bool :=
  match e with EvalErr => (p, false) | EvalOk rs => print_results fl fid nul rs p end.

(* stream_evaluator.go Evaluate: decode, evaluate, print, next document *)
Fixpoint eval_docs (fl : N -> bool) (fid : N) (nul : bool) (ds : list doc) (p : pstate) (count : nat) : pstate * bool * nat :=
  match ds with
  | [] => (p, true, count)
  | DocBad :: _ => (p, false, count)
  | DocOk e :: ds' =>
      let '(p', ok) := print_eval fl fid nul e p in
      if ok then eval_docs fl fid nul ds' p' (S count) else (p', false, count)
  end.

Fixpoint eval_files (w : world) (fid : N) (nul : bool) (names : list str) (p : pstate) (count : nat) : pstate * bool * nat :=
  match names with
  | [] => (p, true, count)
  | f :: fs =>
      match w_fs w f with
      | Missing => (p, false, count)
      | Docs ds =>
          let '(p', ok, count') := eval_docs (w_flush_ok w) fid nul ds p count in
          if ok then eval_files w fid nul fs p' count' else (p', false, count')
      end
  end.

Definition stream_run (w : world) (fid : N) (nul : bool) (names : list str) : pstate * bool :=
  if negb (w_expr_ok w) then (p0, false) else
  let '(p, ok, count) := eval_files w fid nul names p0 O in
  if negb ok then (p, false)
  else match count with
       | O => print_eval (w_flush_ok w) fid nul (w_null_out w) p     (* no document at all: EvaluateNew *)
       | _ => (p, true)
       end.

(* all_at_once_evaluator.go: read everything first, evaluate once *)
Fixpoint all_docs_ok (ds : list doc) : bool :=
  match ds with [] => true | DocBad :: _ => false | DocOk _ :: ds' => all_docs_ok ds' end.

Fixpoint read_all (w : world) (names : list str) (count : nat) : option nat :=
  match names with
  | [] => Some count
  | f :: fs => match w_fs w f with
               | Missing => None
               | Docs ds => if all_docs_ok ds then read_all w fs (count + length ds) else None
               end
  end.

Definition all_run (w : world) (fid : N) (nul : bool) (names : list str) : pstate * bool :=
  match read_all w names O with
  | None => (p0, false)
  | Some count =>
      if negb (w_expr_ok w) then (p0, false)
      else print_eval (w_flush_ok w) fid nul (match count with O => w_null_out w | _ => w_all_out w end) p0
  end.

Definition new_run (w : world) (fid : N) (nul : bool) : pstate * bool :=
  if negb (w_expr_ok w) then (p0, false) else print_eval (w_flush_ok w) fid nul (w_null_out w) p0.

(* ------------------------------------------------------------------ *)
(* the command                                                          *)
Record outcome := mkOut {
  o_exit : N ;            (* 0, 1 (error), 2 (Go panic) *)
  o_shown : list N ;      (* ids of the results whose bytes are on stdout, in order *)
  o_encoded : list N ;    (* ids of the results for which Encode returned nil *)
  o_stderr : bool ;       (* something was written to stderr *)
  o_usage : bool          (* no input at all: the usage text is printed *)
}.

Definition fail_out (p : pstate) : outcome := mkOut 1 (p_shown p) (p_encoded p) true false.
Definition panic_out : outcome := mkOut 2 [] [] true false.

(* no file argument and no -n: the usage text is printed *)
Definition no_input (c : cli) : bool := match c_files c with [] => negb (c_null c) | _ => false end.

Definition run (c : cli) (w : world) : outcome :=
  match init_command c with
  | InitErr => fail_out p0
  | InitOk inF outF _ =>
      match format_from_string outF with
      | None => fail_out p0
      | Some fo =>
          if negb (fmt_has_encoder fo) then panic_out else
          match format_from_string inF with
          | None => fail_out p0                       (* configureDecoder: unknown -p *)
          | Some fi =>
              if negb (fmt_has_decoder fi) then fail_out p0   (* configureDecoder: no support for this input format *)
              else
                if no_input c then mkOut 0 [] [] false true     (* usage text, nothing evaluated *)
                else
                  let '(p, ok) :=
                    if c_null c then new_run w (fmt_id fo) (c_nul c)
                    else if c_all c then all_run w (fmt_id fo) (c_nul c) (c_files c)
                    else stream_run w (fmt_id fo) (c_nul c) (c_files c) in
                  if negb ok then fail_out p
                  else if c_exit_status c && negb (p_matched p) then fail_out p   (* no matches found *)
                  else mkOut 0 (p_shown p) (p_encoded p) false false
          end
      end
  end.

(* ------------------------------------------------------------------ *)
(* interface for the correspondence check                               *)
(* init_command as numbers: [0] error; [1; length in; in...; out...] with the format names as text *)
Definition init_obs (c : cli) : list N :=
  match init_command c with
  | InitErr => [0]
  | InitOk i o u => 1 :: N.of_nat (length i) :: i ++ o
  end.

Definition cli_of_formats (p o : str) (tojson : bool) (files : list str) (unwrap : N) : cli :=
  mkCli false p o tojson files false false false false
        (if unwrap =? 1 then Some true else if unwrap =? 2 then Some false else None) false false.

Definition c19_init_case (x : (str * str) * bool * list str * N) : list N :=
  match x with (p, o, tj, files, u) => init_obs (cli_of_formats p o tj files u) end.

(* encoder class as a number: 0 error, 1 complete, 2 swallowed *)
Definition c19_enc_case (x : N * bool * node) : list N :=
  match x with (fid, nul, n) =>
    match enc_class fid nul n with EncErr => [0] | EncOk true => [1] | EncOk false => [2] end
  end.

(* a whole run: [exit; stderr; usage; #shown; shown...; encoded...] *)
Definition run_obs (o : outcome) : list N :=
  o_exit o :: (if o_stderr o then 1 else 0) :: (if o_usage o then 1 else 0)
  :: N.of_nat (length (o_shown o)) :: o_shown o ++ o_encoded o.

Fixpoint lookup_file (tbl : list (str * finput)) (name : str) : finput :=
  match tbl with
  | [] => Missing
  | (n, f) :: tbl' => if str_eqb n name then f else lookup_file tbl' name
  end.

(* sink = true: the output accepts writes; false: every write fails (stdout on a full device / read-only) *)
Definition c19_run_case (x : cli * list (str * finput) * (bool * evalout * evalout) * bool) : list N :=
  match x with (c, tbl, (eok, nullo, allo), sink) =>
    let o := run c (mkWorld (lookup_file tbl) eok nullo allo (fun _ => sink)) in
    o_exit o :: (if o_stderr o then 1 else 0) :: (if o_usage o then 1 else 0) :: N.of_nat (length (o_shown o)) :: o_shown o
  end.
