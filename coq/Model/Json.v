(* Model/Json.v — executable model of yq's JSON codec.  No proofs here.

   Go anchors (pkg/yqlib): candidiate_node_json.go (MarshalJSON,
   UnmarshalJSON, setScalarFromJson), encoder_json.go, decoder_json.go,
   candidate_node.go (GetValueRep), lib.go (parseInt64),
   operator_booleans.go (isTruthyNode); library: goccy/go-json v0.10.5
   internal/encoder/{string.go appendNormalizedString, decode_rune.go,
   indent.go doIndent, compact.go compact, int.go AppendInt}.

   Strings are byte lists (Go strings).  What is NOT modelled and stays an
   opaque parameter: the text goccy prints for a binary64 ([ff], used for
   !!float scalars) and the text Go's %v prints for a non-integral JSON number
   on the reading side (the reader keeps the literal it read, marked JFloat).
   Everything else is computed.  *)
From Coq Require Import List NArith ZArith Bool.
From YQ Require Import Base.Str.
Import ListNotations.
Open Scope N_scope.

(* ------------------------------------------------------------------ *)
(* values and results                                                  *)
(* ------------------------------------------------------------------ *)

Inductive jvalue :=
| JNull
| JBool (b : bool)
| JInt (z : Z)
| JFloat (t : str)                      (* number token kept as opaque text *)
| JStr (s : str)
| JArr (l : list jvalue)
| JObj (m : list (str * jvalue)).       (* ordered, duplicates possible *)

Inductive jerr := EInt | EFloat | ESyntax | ERange | EUnmodelled.

Inductive res (A : Type) := Ok (a : A) | Err (e : jerr).
Arguments Ok {A} a.
Arguments Err {A} e.

Definition bind {A B} (r : res A) (f : A -> res B) : res B :=
  match r with Ok a => f a | Err e => Err e end.

(* ------------------------------------------------------------------ *)
(* decimal text of integers (goccy AppendInt / Go %v of an int64)      *)
(* ------------------------------------------------------------------ *)

Fixpoint dec_aux (fuel : nat) (n : N) (acc : str) : str :=
  match fuel with
  | O => acc
  | S f => if n <? 10 then (48 + n) :: acc
           else dec_aux f (n / 10) ((48 + n mod 10) :: acc)
  end.

Definition dec_N (n : N) : str := dec_aux (S (N.to_nat (N.log2 n))) n [].

Definition dec_Z (z : Z) : str :=
  if (z <? 0)%Z then 45 :: dec_N (Z.abs_N z) else dec_N (Z.abs_N z).

Definition is_digit (c : N) : bool := (48 <=? c) && (c <=? 57).

Fixpoint digits_val (acc : N) (l : str) : N :=
  match l with [] => acc | c :: r => digits_val (acc * 10 + (c - 48)) r end.

Fixpoint all_digits (l : str) : bool :=
  match l with [] => true | c :: r => is_digit c && all_digits r end.

(* ------------------------------------------------------------------ *)
(* string encoding: appendNormalizedString with HTML escaping off      *)
(* ------------------------------------------------------------------ *)

Definition hexd (n : N) : N := if n <? 10 then 48 + n else 87 + n.

Definition u00 (c : N) : str := [92; 117; 48; 48; hexd (c / 16); hexd (c mod 16)].
Definition esc_fffd : str := [92; 117; 102; 102; 102; 100].
Definition esc_2028 : str := [92; 117; 50; 48; 50; 56].
Definition esc_2029 : str := [92; 117; 50; 48; 50; 57].
Definition utf8_fffd : str := [239; 191; 189].

Definition in_rng (lo hi c : N) : bool := (lo <=? c) && (c <=? hi).
Definition cont (c : N) : bool := in_rng 128 191 c.

(* decode_rune.go decodeRuneInString: length of the well-formed UTF-8
   sequence starting with byte c followed by r; 0 = rune error (one byte is
   consumed).  Exactly Go's table [first]/acceptRanges: no overlongs, no
   surrogates, nothing above U+10FFFF. *)
Definition ulen (c : N) (r : str) : nat :=
  if c <? 128 then 1%nat
  else if in_rng 194 223 c then
    match r with c1 :: _ => if cont c1 then 2%nat else 0%nat | _ => 0%nat end
  else if in_rng 224 239 c then
    match r with
    | c1 :: c2 :: _ =>
        if (if c =? 224 then in_rng 160 191 c1
            else if c =? 237 then in_rng 128 159 c1
            else cont c1) && cont c2 then 3%nat else 0%nat
    | _ => 0%nat
    end
  else if in_rng 240 244 c then
    match r with
    | c1 :: c2 :: c3 :: _ =>
        if (if c =? 240 then in_rng 144 191 c1
            else if c =? 244 then in_rng 128 143 c1
            else cont c1) && cont c2 && cont c3 then 4%nat else 0%nat
    | _ => 0%nat
    end
  else 0%nat.

(* one ASCII byte *)
Definition esc1 (c : N) : str :=
  if c =? 34 then [92; 34]
  else if c =? 92 then [92; 92]
  else if c =? 10 then [92; 110]
  else if c =? 13 then [92; 114]
  else if c =? 9 then [92; 116]
  else if c <? 32 then u00 c
  else [c].

Definition esc3 (c c1 c2 : N) : str :=
  if (c =? 226) && (c1 =? 128) && (c2 =? 168) then esc_2028
  else if (c =? 226) && (c1 =? 128) && (c2 =? 169) then esc_2029
  else [c; c1; c2].

Fixpoint enc_body (s : str) : str :=
  match s with
  | [] => []
  | c :: r =>
      match ulen c r, r with
      | 1%nat, _ => esc1 c ++ enc_body r
      | 2%nat, c1 :: r1 => c :: c1 :: enc_body r1
      | 3%nat, c1 :: c2 :: r2 => esc3 c c1 c2 ++ enc_body r2
      | 4%nat, c1 :: c2 :: c3 :: r3 => c :: c1 :: c2 :: c3 :: enc_body r3
      | _, _ => esc_fffd ++ enc_body r
      end
  end.

Definition enc_string (s : str) : str := 34 :: enc_body s ++ [34].

(* what a reader of the output sees: ill-formed bytes became U+FFFD *)
Fixpoint sanitize (s : str) : str :=
  match s with
  | [] => []
  | c :: r =>
      match ulen c r, r with
      | 1%nat, _ => c :: sanitize r
      | 2%nat, c1 :: r1 => c :: c1 :: sanitize r1
      | 3%nat, c1 :: c2 :: r2 => c :: c1 :: c2 :: sanitize r2
      | 4%nat, c1 :: c2 :: c3 :: r3 => c :: c1 :: c2 :: c3 :: sanitize r3
      | _, _ => utf8_fffd ++ sanitize r
      end
  end.

Fixpoint valid_utf8 (s : str) : bool :=
  match s with
  | [] => true
  | c :: r =>
      match ulen c r, r with
      | 1%nat, _ => valid_utf8 r
      | 2%nat, c1 :: r1 => valid_utf8 r1
      | 3%nat, c1 :: c2 :: r2 => valid_utf8 r2
      | 4%nat, c1 :: c2 :: c3 :: r3 => valid_utf8 r3
      | _, _ => false
      end
  end.

(* ------------------------------------------------------------------ *)
(* layout: doIndent / compact applied to MarshalJSON's assembly        *)
(* ------------------------------------------------------------------ *)

(* newline + indentation of [lvl] levels; nothing at all when ind = 0
   (SetIndent with two empty strings turns indentation off) *)
Definition nl (ind : N) (lvl : nat) : str :=
  if ind =? 0 then [] else 10 :: repeat 32 (N.to_nat ind * lvl).

Definition colon (ind : N) : str := if ind =? 0 then [58] else [58; 32].

Fixpoint enc (ind : N) (lvl : nat) (v : jvalue) : str :=
  match v with
  | JNull => [110; 117; 108; 108]
  | JBool true => [116; 114; 117; 101]
  | JBool false => [102; 97; 108; 115; 101]
  | JInt z => dec_Z z
  | JFloat t => t
  | JStr s => enc_string s
  | JArr [] => [91; 93]
  | JArr (x :: xs) =>
      91 :: nl ind (S lvl) ++ enc ind (S lvl) x
         ++ flat_map (fun y => 44 :: nl ind (S lvl) ++ enc ind (S lvl) y) xs
         ++ nl ind lvl ++ [93]
  | JObj [] => [123; 125]
  | JObj ((k, x) :: xs) =>
      123 :: nl ind (S lvl) ++ enc_string k ++ colon ind ++ enc ind (S lvl) x
          ++ flat_map (fun kv => match kv with
                                 | (k', y) => 44 :: nl ind (S lvl) ++ enc_string k' ++ colon ind ++ enc ind (S lvl) y
                                 end) xs
          ++ nl ind lvl ++ [125]
  end.

(* Encoder.Encode: the value followed by one newline *)
Definition enc_top (ind : N) (v : jvalue) : str := enc ind 0 v ++ [10].

(* ------------------------------------------------------------------ *)
(* yq nodes and the scalar mapping (GetValueRep)                       *)
(* ------------------------------------------------------------------ *)

Inductive node :=
| NScalar (tag value : str)
| NSeq (l : list node)
| NMap (m : list (str * node))          (* key: the Value text of the key node *)
| NAlias (target : node)
| NZero.                                (* Kind 0: MarshalJSON default branch *)

Definition t_int : str := [33; 33; 105; 110; 116].
Definition t_float : str := [33; 33; 102; 108; 111; 97; 116].
Definition t_bool : str := [33; 33; 98; 111; 111; 108].
Definition t_null : str := [33; 33; 110; 117; 108; 108].
Definition t_str : str := [33; 33; 115; 116; 114].
Definition t_seq : str := [33; 33; 115; 101; 113].
Definition t_map : str := [33; 33; 109; 97; 112].

Fixpoint is_prefix (p s : str) : bool :=
  match p, s with
  | [], _ => true
  | a :: p', b :: s' => (a =? b) && is_prefix p' s'
  | _, _ => false
  end.

(* strings.ReplaceAll(s, underscore, empty) *)
Definition remove_us (s : str) : str := filter (fun c => negb (c =? 95)) s.

Definition digit_of (base c : N) : option N :=
  let d := if is_digit c then Some (c - 48)
           else if in_rng 97 122 c then Some (c - 87)
           else if in_rng 65 90 c then Some (c - 55)
           else None in
  match d with Some v => if v <? base then Some v else None | None => None end.

Fixpoint parse_unsigned (base acc : N) (s : str) : option N :=
  match s with
  | [] => Some acc
  | c :: r => match digit_of base c with
              | Some d => parse_unsigned base (acc * base + d) r
              | None => None
              end
  end.

Definition two63 : N := 9223372036854775808.

(* strconv.ParseInt(s, base, 64) with an explicit base (no underscores, no
   prefix): None = any error (syntax or range) *)
Definition go_parse_int (base : N) (s : str) : option Z :=
  match s with
  | [] => None
  | c :: r =>
      let neg := c =? 45 in
      let body := if neg || (c =? 43) then r else s in
      match body with
      | [] => None
      | _ => match parse_unsigned base 0 body with
             | None => None
             | Some u =>
                 if neg then (if u <=? two63 then Some (- Z.of_N u)%Z else None)
                 else (if u <? two63 then Some (Z.of_N u) else None)
             end
      end
  end.

(* lib.go parseInt64 *)
Definition parse_int64 (s0 : str) : option Z :=
  let s := remove_us s0 in
  if is_prefix [48; 120] s || is_prefix [48; 88] s then go_parse_int 16 (skipn 2 s)
  else if is_prefix [48; 111] s then go_parse_int 8 (skipn 2 s)
  else go_parse_int 10 s.

Definition lower (c : N) : N := if in_rng 65 90 c then c + 32 else c.

Fixpoint eq_fold (a b : str) : bool :=
  match a, b with
  | [], [] => true
  | x :: a', y :: b' => (lower x =? lower y) && eq_fold a' b'
  | _, _ => false
  end.

(* isTruthyNode on a !!bool scalar (ASCII case folding) *)
Definition truthy (v : str) : bool :=
  eq_fold v [121] || eq_fold v [121; 101; 115] || eq_fold v [111; 110]
  || eq_fold v [116; 114; 117; 101].

(* strconv.ParseFloat, syntax only: does the text denote a number (decimal
   form, underscores as Go allows them)?  special() accepts inf/infinity/nan,
   which goccy then refuses (unsupported value), so they count as errors too.
   None: hexadecimal float syntax, not modelled. *)
Fixpoint scan_mant (s : str) (sawdot sawdig us : bool) : str * bool * bool :=
  match s with
  | [] => ([], sawdig, us)
  | c :: r =>
      if c =? 95 then scan_mant r sawdot sawdig true
      else if c =? 46 then (if sawdot then (s, sawdig, us) else scan_mant r true sawdig us)
      else if is_digit c then scan_mant r sawdot true us
      else (s, sawdig, us)
  end.

Fixpoint scan_expdigits (s : str) (us : bool) : str * bool :=
  match s with
  | [] => ([], us)
  | c :: r => if c =? 95 then scan_expdigits r true
              else if is_digit c then scan_expdigits r us
              else (s, us)
  end.

(* underscoreOK after the sign, decimal: saw = 0 start, 1 digit, 2 underscore, 3 other *)
Fixpoint us_ok (saw : N) (s : str) : bool :=
  match s with
  | [] => negb (saw =? 2)
  | c :: r =>
      if is_digit c then us_ok 1 r
      else if c =? 95 then (if saw =? 1 then us_ok 2 r else false)
      else if saw =? 2 then false
      else us_ok 3 r
  end.

Definition strip_sign (s : str) : str :=
  match s with c :: r => if (c =? 43) || (c =? 45) then r else s | [] => [] end.

Definition go_float_numeric (s : str) : option bool :=
  let body := strip_sign s in
  match body with
  | [] => Some false
  | _ =>
      if (is_prefix [48; 120] body || is_prefix [48; 88] body) && (2 <? N.of_nat (length body)) then None else
      let '(r1, sawdig, us1) := scan_mant body false false false in
      if negb sawdig then Some false else
      match r1 with
      | [] => Some (if us1 then us_ok 0 body else true)
      | c :: r2 =>
          if lower c =? 101 then
            let r3 := strip_sign r2 in
            match r3 with
            | d :: _ =>
                if is_digit d then
                  let '(r4, us2) := scan_expdigits r3 us1 in
                  match r4 with
                  | [] => Some (if us2 then us_ok 0 body else true)
                  | _ => Some false
                  end
                else Some false
            | [] => Some false
            end
          else Some false
      end
  end.

(* !!float scalar: ParseFloat, then goccy's float printing [ff] (opaque text or
   an error such as out of range) *)
Definition float_token (ff : str -> res str) (value : str) : res jvalue :=
  match go_float_numeric value with
  | Some true => match ff value with Ok t => Ok (JFloat t) | Err e => Err e end
  | Some false => Err EFloat
  | None => Err EUnmodelled
  end.

(* the non-finite floats of the YAML core schema *)
Definition yaml_nonfinite : list str :=
  [ [46;105;110;102]; [46;73;110;102]; [46;73;78;70];
    [45;46;105;110;102]; [45;46;73;110;102]; [45;46;73;78;70];
    [43;46;105;110;102]; [43;46;73;110;102]; [43;46;73;78;70];
    [46;110;97;110]; [46;78;97;78]; [46;78;65;78] ].

(* GetValueRep.  [ff]: ParseFloat followed by goccy's float printing, as a
   parameter (text of the token, or an error). *)
Definition scalar_rep (ff : str -> res str) (tag value : str) : res jvalue :=
  if is_prefix [33; 33] tag then
    if str_eqb tag t_int then
      match parse_int64 value with Some z => Ok (JInt z) | None => Err EInt end
    else if str_eqb tag t_float then float_token ff value
    else if str_eqb tag t_bool then Ok (JBool (truthy value))
    else if str_eqb tag t_null then Ok JNull
    else Ok (JStr value)
  else
    match value with
    | [] => Ok (JStr [])
    | _ => Err EUnmodelled              (* guessTagFromCustomType re-parses the text as YAML *)
    end.

Definition mapM {A B : Type} (f : A -> res B) : list A -> res (list B) :=
  fix go (l : list A) : res (list B) :=
    match l with
    | [] => Ok []
    | x :: xs => match f x with
                 | Ok v => match go xs with Ok vs => Ok (v :: vs) | Err e => Err e end
                 | Err e => Err e
                 end
    end.

(* MarshalJSON *)
Fixpoint to_json (ff : str -> res str) (n : node) : res jvalue :=
  match n with
  | NScalar t v => scalar_rep ff t v
  | NSeq l => bind (mapM (to_json ff) l) (fun vs => Ok (JArr vs))
  | NMap m =>
      bind (mapM (fun kx => match kx with
                            | (k, x) => bind (to_json ff x) (fun v => Ok (k, v))
                            end) m) (fun vs => Ok (JObj vs))
  | NAlias t => to_json ff t
  | NZero => Ok JNull
  end.

(* jsonEncoder.Encode *)
Definition yq_encode (ff : str -> res str) (ind : N) (unwrap : bool) (n : node) : res str :=
  match n, unwrap with
  | NScalar _ v, true => Ok (v ++ [10])
  | _, _ => bind (to_json ff n) (fun v => Ok (enc_top ind v))
  end.

(* ------------------------------------------------------------------ *)
(* binary64 rounding of a decimal rational (strconv.ParseFloat)        *)
(* ------------------------------------------------------------------ *)

Definition pow2 (k : N) : N := N.shiftl 1 k.

(* num / den < 2^l ? *)
Definition lt_scaled (num den : N) (l : Z) : bool :=
  if (0 <=? l)%Z then num <? den * pow2 (Z.to_N l)
  else num * pow2 (Z.to_N (- l)) <? den.

(* exponent of the unit in the last place: floor(log2(num/den)) - 52, not below -1074 *)
Definition f64_exp (num den : N) : Z :=
  let l := (Z.of_N (N.log2 num) - Z.of_N (N.log2 den))%Z in
  let fl := if lt_scaled num den l then (l - 1)%Z else l in
  Z.max (fl - 52) (-1074).

(* num/den / 2^e as a fraction *)
Definition f64_scaled (num den : N) (e : Z) : N * N :=
  if (0 <=? e)%Z then (num, den * pow2 (Z.to_N e)) else (num * pow2 (Z.to_N (- e)), den).

Definition round_half_even (n d : N) : N :=
  let q := n / d in
  let r := n mod d in
  if (d <? 2 * r) || ((2 * r =? d) && N.odd q) then q + 1 else q.

(* Some (m, e): the nearest binary64 (ties to even) of num/den is m * 2^e
   with m < 2^53 (m >= 2^52 unless subnormal); None: overflow to infinity *)
Definition f64_round (num den : N) : option (N * Z) :=
  if num =? 0 then Some (0, 0%Z) else
  let e := f64_exp num den in
  let nd := f64_scaled num den e in
  let m := round_half_even (fst nd) (snd nd) in
  let me := if m =? pow2 53 then (pow2 52, (e + 1)%Z) else (m, e) in
  if (971 <? snd me)%Z then None else Some me.

(* the integer m * 2^e if it is one *)
Definition f64_int (m : N) (e : Z) : option N :=
  if (0 <=? e)%Z then Some (m * pow2 (Z.to_N e))
  else let d := pow2 (Z.to_N (- e)) in
       if m mod d =? 0 then Some (m / d) else None.

(* ------------------------------------------------------------------ *)
(* JSON number literals and setScalarFromJson's classification         *)
(* ------------------------------------------------------------------ *)

Fixpoint span_digits (s : str) : str * str :=
  match s with
  | c :: r => if is_digit c then let '(a, b) := span_digits r in (c :: a, b) else ([], s)
  | [] => ([], [])
  end.

Definition is_nil {A : Type} (l : list A) : bool := match l with [] => true | _ => false end.

(* no leading zero, at least one digit *)
Definition lead_ok (ip : str) : bool :=
  match ip with
  | [] => false
  | d0 :: ds => negb ((d0 =? 48) && negb (is_nil ds))
  end.

(* optional exponent part: Some exponent, None = malformed *)
Definition split_exp (s3 : str) : option Z :=
  match s3 with
  | [] => Some 0%Z
  | c :: r =>
      if (c =? 101) || (c =? 69) then
        let eneg := match r with c' :: _ => c' =? 45 | [] => false end in
        let r1 := match r with c' :: r' => if (c' =? 45) || (c' =? 43) then r' else r | [] => [] end in
        let '(ep, rest) := span_digits r1 in
        if negb (is_nil ep) && is_nil rest then
          let ev := Z.of_N (digits_val 0 ep) in Some (if eneg then (- ev)%Z else ev)
        else None
      else None
  end.

(* RFC 8259 number: [-] int [frac] [exp]; returns (neg, int digits, frac digits, exponent) *)
Definition split_number (s : str) : option (bool * str * str * Z) :=
  let neg := match s with c :: _ => c =? 45 | [] => false end in
  let s1 := if neg then tl s else s in
  let '(ip, s2) := span_digits s1 in
  if lead_ok ip then
    let '(fp, s3, fok) :=
      match s2 with
      | c :: r => if c =? 46 then let '(fp, s3) := span_digits r in (fp, s3, negb (is_nil fp))
                  else ([], s2, true)
      | [] => ([], [], true)
      end in
    if fok then
      match split_exp s3 with
      | Some ex => Some (neg, ip, fp, ex)
      | None => None
      end
    else None
  else None.

Definition pow10 (k : N) : N := 10 ^ k.

(* the literal as an exact rational num/den (sign apart).  Exponents far
   outside binary64 are cut off: beyond the guards the result is already
   decided (overflow resp. zero). *)
Definition literal_round (ip fp : str) (ex : Z) : option (N * Z) :=
  let d := digits_val 0 (ip ++ fp) in
  let k := (ex - Z.of_nat (length fp))%Z in
  if d =? 0 then Some (0, 0%Z)
  else if (400 <? k)%Z then None
  else if (k <? - (400 + Z.of_nat (length ip + length fp)))%Z then Some (0, 0%Z)
  else if (0 <=? k)%Z then f64_round (d * pow10 (Z.to_N k)) 1
  else f64_round d (pow10 (Z.to_N (- k))).

(* json number token -> value as UnmarshalJSON/setScalarFromJson see it: an
   integer literal that strconv.ParseInt(.,10,64) accepts is kept exactly;
   everything else goes through float64 and is an int if
   float64(int64(f)) == f (amd64 conversion: out-of-range gives MinInt64, so
   only [-2^63, 2^63) can match) *)
Definition classify_number (s : str) : res jvalue :=
  match split_number s with
  | None => Err ESyntax
  | Some (neg, ip, fp, ex) =>
      match go_parse_int 10 s with
      | Some z => Ok (JInt z)
      | None =>
      match literal_round ip fp ex with
      | None => Err ERange
      | Some (m, e) =>
          match f64_int m e with
          | Some k =>
              if neg then (if k <=? two63 then Ok (JInt (- Z.of_N k)) else Ok (JFloat s))
              else (if k <? two63 then Ok (JInt (Z.of_N k)) else Ok (JFloat s))
          | None => Ok (JFloat s)
          end
      end
      end
  end.

(* ------------------------------------------------------------------ *)
(* floats as values: binary64 = sign, m, e with value (-1)^s * m * 2^e  *)
(* in the canonical form f64_round returns                             *)
(* ------------------------------------------------------------------ *)

Definition f64 : Type := (bool * N * Z)%type.

(* zero has one representation per sign *)
Definition mk_f64 (neg : bool) (m : N) (e : Z) : f64 := if m =? 0 then (neg, 0, 0%Z) else (neg, m, e).

(* strconv.ParseFloat on a JSON number token *)
Definition token_value (t : str) : option f64 :=
  match split_number t with
  | Some (neg, ip, fp, ex) =>
      match literal_round ip fp ex with
      | Some (m, e) => Some (mk_f64 neg m e)
      | None => None
      end
  | None => None
  end.

(* strconv.ParseFloat on the text of a !!float scalar (Go decimal syntax:
   optional sign, digits with underscores, optional fraction, optional
   exponent; None: error, range error or hexadecimal form) *)
Definition go_parse_float (s : str) : option f64 :=
  match go_float_numeric s with
  | Some true =>
      let neg := match s with c :: _ => c =? 45 | [] => false end in
      let body := remove_us (strip_sign s) in
      let '(ip, r1) := span_digits body in
      let '(fp, r2) := match r1 with
                       | c :: r => if c =? 46 then span_digits r else ([], r1)
                       | [] => ([], [])
                       end in
      let ex := match r2 with
                | [] => 0%Z
                | _ :: r3 =>
                    let eneg := match r3 with c :: _ => c =? 45 | [] => false end in
                    let ev := Z.of_N (digits_val 0 (fst (span_digits (strip_sign r3)))) in
                    if eneg then (- ev)%Z else ev
                end in
      match literal_round ip fp ex with
      | Some (m, e) => Some (mk_f64 neg m e)
      | None => None
      end
  | _ => None
  end.

(* GetValueRep's float branch as ParseFloat followed by the float printer [fmt] *)
Definition ff_of (fmt : f64 -> res str) (text : str) : res str :=
  match go_parse_float text with
  | Some f => fmt f
  | None => Err EFloat
  end.

(* a number token the reader accepts *)
Definition float_token_ok (t : str) : bool :=
  forallb (fun c => is_digit c || (c =? 45) || (c =? 43) || (c =? 46) || (c =? 101) || (c =? 69)) t
  && match t with c :: _ => is_digit c || (c =? 45) | [] => false end
  && match classify_number t with Ok _ => true | Err _ => false end.

(* ------------------------------------------------------------------ *)
(* JSON reader (strict RFC 8259 text; values as yq builds them)        *)
(* ------------------------------------------------------------------ *)

Definition is_ws (c : N) : bool := (c =? 32) || (c =? 10) || (c =? 13) || (c =? 9).

Fixpoint skip_ws (s : str) : str :=
  match s with c :: r => if is_ws c then skip_ws r else s | [] => [] end.

Definition hexval (c : N) : option N :=
  if is_digit c then Some (c - 48)
  else if in_rng 97 102 c then Some (c - 87)
  else if in_rng 65 70 c then Some (c - 55)
  else None.

Definition hex4 (a b c d : N) : option N :=
  match hexval a, hexval b, hexval c, hexval d with
  | Some x, Some y, Some z, Some w => Some (x * 4096 + y * 256 + z * 16 + w)
  | _, _, _, _ => None
  end.

Definition utf8_enc (cp : N) : str :=
  if cp <? 128 then [cp]
  else if cp <? 2048 then [192 + cp / 64; 128 + cp mod 64]
  else if cp <? 65536 then [224 + cp / 4096; 128 + (cp / 64) mod 64; 128 + cp mod 64]
  else [240 + cp / 262144; 128 + (cp / 4096) mod 64; 128 + (cp / 64) mod 64; 128 + cp mod 64].

Definition simple_escape (c : N) : option N :=
  if c =? 34 then Some 34 else if c =? 92 then Some 92 else if c =? 47 then Some 47
  else if c =? 98 then Some 8 else if c =? 102 then Some 12 else if c =? 110 then Some 10
  else if c =? 114 then Some 13 else if c =? 116 then Some 9 else None.

(* after the opening quote: (decoded bytes, rest after the closing quote) *)
Fixpoint dec_body (s : str) : option (str * str) :=
  match s with
  | [] => None
  | c :: r =>
      if c =? 34 then Some ([], r)
      else if c =? 92 then
        match r with
        | [] => None
        | e :: r1 =>
            if e =? 117 then
              match r1 with
              | a :: b :: c' :: d :: r2 =>
                  match hex4 a b c' d with
                  | None => None
                  | Some cp =>
                      if in_rng 55296 56319 cp then
                        (* high surrogate: needs a following low one *)
                        match r2 with
                        | 92 :: 117 :: a2 :: b2 :: c2 :: d2 :: r3 =>
                            match hex4 a2 b2 c2 d2 with
                            | Some lo =>
                                if in_rng 56320 57343 lo then
                                  match dec_body r3 with
                                  | Some (t, rest) =>
                                      Some (utf8_enc (65536 + (cp - 55296) * 1024 + (lo - 56320)) ++ t, rest)
                                  | None => None
                                  end
                                else match dec_body r2 with
                                     | Some (t, rest) => Some (utf8_fffd ++ t, rest)
                                     | None => None
                                     end
                            | None => None
                            end
                        | _ => match dec_body r2 with
                               | Some (t, rest) => Some (utf8_fffd ++ t, rest)
                               | None => None
                               end
                        end
                      else if in_rng 56320 57343 cp then
                        match dec_body r2 with
                        | Some (t, rest) => Some (utf8_fffd ++ t, rest)
                        | None => None
                        end
                      else
                        match dec_body r2 with
                        | Some (t, rest) => Some (utf8_enc cp ++ t, rest)
                        | None => None
                        end
                  end
              | _ => None
              end
            else
              match simple_escape e with
              | Some x => match dec_body r1 with
                          | Some (t, rest) => Some (x :: t, rest)
                          | None => None
                          end
              | None => None
              end
        end
      else if c <? 32 then None
      else match dec_body r with
           | Some (t, rest) => Some (c :: t, rest)
           | None => None
           end
  end.

Definition is_numchar (c : N) : bool :=
  is_digit c || (c =? 45) || (c =? 43) || (c =? 46) || (c =? 101) || (c =? 69).

Fixpoint span_num (s : str) : str * str :=
  match s with
  | c :: r => if is_numchar c then let '(a, b) := span_num r in (c :: a, b) else ([], s)
  | [] => ([], [])
  end.

(* the element / member loops, over the value parser of the level below *)
Fixpoint elems_loop (pv : str -> option (jvalue * str)) (n : nat) (r1 : str) (acc : list jvalue)
  : option (jvalue * str) :=
  match n with
  | O => None
  | S n' =>
      match pv r1 with
      | None => None
      | Some (v, r2) =>
          match skip_ws r2 with
          | [] => None
          | c :: r3 =>
              if c =? 44 then elems_loop pv n' r3 (v :: acc)
              else if c =? 93 then Some (JArr (rev (v :: acc)), r3)
              else None
          end
      end
  end.

Fixpoint members_loop (pv : str -> option (jvalue * str)) (n : nat) (r1 : str) (acc : list (str * jvalue))
  : option (jvalue * str) :=
  match n with
  | O => None
  | S n' =>
      match skip_ws r1 with
      | [] => None
      | q :: rk =>
          if q =? 34 then
            match dec_body rk with
            | None => None
            | Some (k, r2) =>
                match skip_ws r2 with
                | [] => None
                | c :: r3 =>
                    if c =? 58 then
                      match pv r3 with
                      | None => None
                      | Some (v, r4) =>
                          match skip_ws r4 with
                          | [] => None
                          | d :: r5 =>
                              if d =? 44 then members_loop pv n' r5 ((k, v) :: acc)
                              else if d =? 125 then Some (JObj (rev ((k, v) :: acc)), r5)
                              else None
                          end
                      end
                    else None
                end
            end
          else None
      end
  end.

(* fuel: one unit per nesting level for parse_val, one per element for the
   loops; the length of the text is always enough *)
Fixpoint parse_val (fuel : nat) (s : str) : option (jvalue * str) :=
  match fuel with
  | O => None
  | S f =>
      match skip_ws s with
      | [] => None
      | c :: r =>
          if c =? 110 then
            match r with 117 :: 108 :: 108 :: r' => Some (JNull, r') | _ => None end
          else if c =? 116 then
            match r with 114 :: 117 :: 101 :: r' => Some (JBool true, r') | _ => None end
          else if c =? 102 then
            match r with 97 :: 108 :: 115 :: 101 :: r' => Some (JBool false, r') | _ => None end
          else if c =? 34 then
            match dec_body r with Some (t, r') => Some (JStr t, r') | None => None end
          else if c =? 91 then
            match skip_ws r with
            | [] => None
            | c' :: r' => if c' =? 93 then Some (JArr [], r') else elems_loop (parse_val f) f (c' :: r') []
            end
          else if c =? 123 then
            match skip_ws r with
            | [] => None
            | c' :: r' => if c' =? 125 then Some (JObj [], r') else members_loop (parse_val f) f (c' :: r') []
            end
          else if is_digit c || (c =? 45) then
            let '(tok, rest) := span_num (c :: r) in
            match classify_number tok with
            | Ok v => Some (v, rest)
            | Err _ => None
            end
          else None
      end
  end.

Definition parse_json (s : str) : res jvalue :=
  match parse_val (S (length s)) s with
  | Some (v, r) => match skip_ws r with [] => Ok v | _ => Err ESyntax end
  | None => Err ESyntax
  end.

(* UnmarshalJSON/setScalarFromJson: the node yq builds from a JSON value *)
Fixpoint of_json (v : jvalue) : node :=
  match v with
  | JNull => NScalar t_null [110; 117; 108; 108]
  | JBool true => NScalar t_bool [116; 114; 117; 101]
  | JBool false => NScalar t_bool [102; 97; 108; 115; 101]
  | JInt z => NScalar t_int (dec_Z z)
  | JFloat t => NScalar t_float t
  | JStr s => NScalar t_str s
  | JArr l => NSeq (map of_json l)
  | JObj m => NMap (map (fun kv => (fst kv, of_json (snd kv))) m)
  end.

(* ------------------------------------------------------------------ *)
(* domains used by the theorems                                        *)
(* ------------------------------------------------------------------ *)

Definition two53 : Z := 9007199254740992.

(* values the reader returns unchanged: no float token, int64 integers,
   strings and keys well-formed UTF-8 *)
Fixpoint rt_domain (v : jvalue) : bool :=
  match v with
  | JNull | JBool _ => true
  | JInt z => ((- Z.of_N two63 <=? z) && (z <? Z.of_N two63))%Z
  | JFloat _ => false
  | JStr s => valid_utf8 s
  | JArr l => forallb rt_domain l
  | JObj m => forallb (fun kv => valid_utf8 (fst kv) && rt_domain (snd kv)) m
  end.

(* what the reader makes of a value whose float tokens it accepts: a token
   denoting an integer in int64 range comes back as that integer, every other
   token as itself *)
Fixpoint reclass (v : jvalue) : jvalue :=
  match v with
  | JFloat t => match classify_number t with Ok w => w | Err _ => JFloat t end
  | JArr l => JArr (map reclass l)
  | JObj m => JObj (map (fun kv => match kv with (k, x) => (k, reclass x) end) m)
  | _ => v
  end.

(* rt_domain with float tokens allowed *)
Fixpoint rt_domain_f (v : jvalue) : bool :=
  match v with
  | JNull | JBool _ => true
  | JInt z => ((- Z.of_N two63 <=? z) && (z <? Z.of_N two63))%Z
  | JFloat t => float_token_ok t
  | JStr s => valid_utf8 s
  | JArr l => forallb rt_domain_f l
  | JObj m => forallb (fun kv => valid_utf8 (fst kv) && rt_domain_f (snd kv)) m
  end.

(* the number a value denotes where it is one *)
Definition num_value (v : jvalue) : option f64 :=
  match v with
  | JInt z => if (z =? 0)%Z then Some (false, 0, 0%Z)
              else match f64_round (Z.abs_N z) 1 with Some (m, e) => Some (mk_f64 (z <? 0)%Z m e) | None => None end
  | JFloat t => token_value t
  | _ => None
  end.

(* float-free values with int64 integers (any strings) *)
Fixpoint int64_domain (v : jvalue) : bool :=
  match v with
  | JNull | JBool _ | JStr _ => true
  | JInt z => ((- Z.of_N two63 <=? z) && (z <? Z.of_N two63))%Z
  | JFloat _ => false
  | JArr l => forallb int64_domain l
  | JObj m => forallb (fun kv => int64_domain (snd kv)) m
  end.

(* every float token of the value satisfies P *)
Fixpoint floats_ok (P : str -> Prop) (v : jvalue) : Prop :=
  match v with
  | JFloat t => P t
  | JArr l => fold_right (fun x a => floats_ok P x /\ a) True l
  | JObj m => fold_right (fun kv a => match kv with (_, x) => floats_ok P x /\ a end) True m
  | _ => True
  end.

Definition is_scalar (n : node) : bool := match n with NScalar _ _ => true | _ => false end.

(* what the reader returns for an arbitrary float-free value: strings sanitised *)
Fixpoint sanitize_value (v : jvalue) : jvalue :=
  match v with
  | JStr s => JStr (sanitize s)
  | JArr l => JArr (map sanitize_value l)
  | JObj m => JObj (map (fun kv => (sanitize (fst kv), sanitize_value (snd kv))) m)
  | _ => v
  end.

(* ------------------------------------------------------------------ *)
(* serialisation of results for the correspondence check               *)
(* ------------------------------------------------------------------ *)

Definition err_bytes (e : jerr) : str :=
  match e with
  | EInt => [69; 82; 82; 58; 105; 110; 116]             (* ERR:int *)
  | EFloat => [69; 82; 82; 58; 102; 108; 111; 97; 116]  (* ERR:float *)
  | ESyntax => [69; 82; 82; 58; 115; 121; 110]          (* ERR:syn *)
  | ERange => [69; 82; 82; 58; 114; 110; 103]           (* ERR:rng *)
  | EUnmodelled => [69; 82; 82; 58; 117; 110; 109]      (* ERR:unm *)
  end.

Definition no_float (_ : str) : res str := Err EUnmodelled.

(* encoder on float-free nodes *)
Definition model_encode (ind : N) (unwrap : bool) (n : node) : str :=
  match yq_encode no_float ind unwrap n with Ok s => s | Err e => err_bytes e end.

(* canonical dump of a node: S tag NUL value NUL | [ items ] | { key NUL item ... };
   float scalars as F (text not claimed) *)
Fixpoint dump_node (n : node) : str :=
  match n with
  | NScalar t v => if str_eqb t t_float then [70] else 83 :: t ++ 0 :: v ++ [0]
  | NSeq l => 91 :: (fix go (l : list node) : str :=
                       match l with [] => [] | x :: xs => dump_node x ++ go xs end) l ++ [93]
  | NMap m => 123 :: (fix go (l : list (str * node)) : str :=
                        match l with [] => [] | (k, x) :: xs => k ++ 0 :: dump_node x ++ go xs end) m ++ [125]
  | NAlias t => 42 :: dump_node t
  | NZero => [90]
  end.

(* a binary64 as text: sign, m, e *)
Definition f64_bytes (o : option f64) : str :=
  match o with
  | Some (neg, m, e) => (if neg then [45] else [43]) ++ dec_N m ++ 32 :: dec_Z e
  | None => [69; 82; 82]
  end.

(* the float printer contract on one observed pair (text of the !!float
   scalar, token the implementation printed): the token is accepted by the
   reader and denotes the binary64 ParseFloat gives for the text *)
Definition fmt_contract_ok (p : str * str) : str :=
  let '(text, token) := p in
  if negb (float_token_ok token) then [66; 65; 68; 58; 116; 111; 107]           (* BAD:tok *)
  else match go_parse_float text, token_value token with
       | Some a, Some b => if str_eqb (f64_bytes (Some a)) (f64_bytes (Some b)) then [79; 75] else [66; 65; 68; 58; 118; 97; 108]
       | _, _ => [66; 65; 68; 58; 112; 102]                                     (* BAD:pf *)
       end.

(* reader: JSON text -> dump of the node, or an error class *)
Definition model_decode (s : str) : str :=
  match parse_json s with Ok v => dump_node (of_json v) | Err e => err_bytes e end.
