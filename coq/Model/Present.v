(* Model/Present.v — node trees carrying presentation attributes and the
   in-place update operations of yq at a position path (property C07).
   No proofs here (Proofs/PresentProofs.v).

   A node mirrors CandidateNode: kind, value, the six presentation attributes
   (head/line/foot comment, style, anchor, tag) and Content.  As in the Go
   code the Content of a mapping is the alternating list key0, value0, key1,
   value1, ...; map keys are nodes of their own (yaml.v3 hangs the comment
   above an entry on the key node), so a position path is a list of indices
   into Content and covers keys and values alike. *)
From Coq Require Import List NArith Bool Lia.
From YQ Require Import Base.Str.
Import ListNotations.

Inductive kind := KScalar | KSeq | KMap | KAlias.

Record attrs := mkAttrs {
  a_head : str; a_line : str; a_foot : str;
  a_style : N;            (* yq Style bit set; 0 = plain/block *)
  a_anchor : str;
  a_tag : str
}.

Inductive pnode := PNode (k : kind) (a : attrs) (v : str) (content : list pnode).

Definition n_kind (n : pnode) := match n with PNode k _ _ _ => k end.
Definition n_attrs (n : pnode) := match n with PNode _ a _ _ => a end.
Definition n_value (n : pnode) := match n with PNode _ _ v _ => v end.
Definition n_content (n : pnode) := match n with PNode _ _ _ c => c end.

Definition path := list nat.

Fixpoint get (p : path) (d : pnode) : option pnode :=
  match p with
  | [] => Some d
  | i :: p' => match nth_error (n_content d) i with
               | Some c => get p' c
               | None => None
               end
  end.

Definition attrs_at (p : path) (d : pnode) : option attrs := option_map n_attrs (get p d).

Fixpoint upd_nth {A} (i : nat) (f : A -> A) (l : list A) : list A :=
  match l, i with
  | [], _ => []
  | x :: r, O => f x :: r
  | x :: r, S i' => x :: upd_nth i' f r
  end.

(* apply f to the node at position p (nothing happens when p does not exist) *)
Fixpoint update_at (f : pnode -> pnode) (p : path) (d : pnode) : pnode :=
  match p with
  | [] => f d
  | i :: p' => match d with
               | PNode k a v c => PNode k a v (upd_nth i (update_at f p') c)
               end
  end.

Fixpoint is_prefix (p q : path) : bool :=
  match p, q with
  | [], _ => true
  | i :: p', j :: q' => Nat.eqb i j && is_prefix p' q'
  | _ :: _, [] => false
  end.

(* ------------------------------------------------------------------ *)
(* UpdateFrom / UpdateAttributesFrom (candidate_node.go)                *)
(* ------------------------------------------------------------------ *)
Record assign_prefs := { dont_overwrite_anchor : bool; clobber_custom_tags : bool }.

(* `=`, `|=` : assignOpToken sets DontOverWriteAnchor *)
Definition plain_assign : assign_prefs := {| dont_overwrite_anchor := true; clobber_custom_tags := false |}.

Definition has_bangbang (t : str) : bool :=
  match t with 33 :: 33 :: _ => true | _ => false end.

Definition is_nil (s : str) : bool := match s with [] => true | _ => false end.

Section UpdateFrom.
  (* guessTagFromCustomType parses the value as a YAML snippet (library) *)
  Variable guess : str -> str.

  Definition guess_tag (n : pnode) : str :=
    let t := a_tag (n_attrs n) in
    if has_bangbang t then t else if is_nil (n_value n) then t else guess (n_value n).

  Definition or_else (new old : str) : str := if is_nil new then old else new.

  (* n.UpdateFrom(other, prefs); Content is replaced by copies of other's
     Content (Copy keeps every attribute of every descendant). *)
  Definition update_from (prefs : assign_prefs) (other n : pnode) : pnode :=
    let an := n_attrs n in
    let ao := n_attrs other in
    let empty_coll := match n_kind n with KScalar => false | _ => match n_content n with [] => true | _ => false end end in
    let style1 := if empty_coll || negb (str_eqb (guess_tag n) (guess_tag other)) then a_style ao else a_style an in
    let tag' := if clobber_custom_tags prefs || has_bangbang (a_tag an) || is_nil (a_tag an) then a_tag ao else a_tag an in
    let anchor' := if dont_overwrite_anchor prefs then a_anchor an else a_anchor ao in
    let style' := if (style1 =? 0)%N then a_style ao else style1 in
    PNode (n_kind other)
          (mkAttrs (or_else (a_head ao) (a_head an)) (or_else (a_line ao) (a_line an)) (or_else (a_foot ao) (a_foot an))
                   style' anchor' tag')
          (n_value other) (n_content other).
End UpdateFrom.

(* ------------------------------------------------------------------ *)
(* delete, append, key creation                                         *)
(* ------------------------------------------------------------------ *)
(* remove w consecutive children starting at index i *)
Definition remove_range {A} (i w : nat) (l : list A) : list A := firstn i l ++ skipn (i + w) l.

(* deleteFromArray removes one child; deleteFromMap removes key and value *)
Definition delete_children (i w : nat) (n : pnode) : pnode :=
  match n with PNode k a v c => PNode k a v (remove_range i w c) end.

Definition delete_at (parent : path) (i w : nat) (d : pnode) : pnode :=
  update_at (delete_children i w) parent d.

(* `+=` on a sequence (addSequences, then UpdateFrom with the sum as `other`):
   the sum is a content-less copy of the node (same comments, anchor, tag)
   whose style is reset when the node was empty; UpdateFrom then leaves every
   attribute as it was except that an empty node takes that (block) style *)
Definition reset_style_if_empty (a : attrs) (c : list pnode) : attrs :=
  match c with
  | [] => mkAttrs (a_head a) (a_line a) (a_foot a) 0 (a_anchor a) (a_tag a)
  | _ => a
  end.

Definition append_children (items : list pnode) (n : pnode) : pnode :=
  match n with PNode k a v c => PNode k (reset_style_if_empty a c) v (c ++ items) end.

(* traverseMap auto-creation: new key/value at the end; an empty map gives up
   its (flow) style *)
Definition create_key (key value : pnode) (n : pnode) : pnode :=
  match n with
  | PNode k a v c =>
      PNode k (reset_style_if_empty a c) v (c ++ [key; value])
  end.

(* ------------------------------------------------------------------ *)
(* the per-path attribute table                                         *)
(* ------------------------------------------------------------------ *)
Fixpoint table_fuel (fuel : nat) (prefix : path) (n : pnode) : list (path * attrs) :=
  match fuel with
  | O => []
  | S f =>
      (prefix, n_attrs n) ::
      (fix go (i : nat) (cs : list pnode) : list (path * attrs) :=
         match cs with
         | [] => []
         | c :: r => table_fuel f (prefix ++ [i]) c ++ go (S i) r
         end) 0%nat (n_content n)
  end.

(* ------------------------------------------------------------------ *)
(* serialisation for the correspondence check                           *)
(* ------------------------------------------------------------------ *)
Fixpoint dec_nat_fuel (fuel : nat) (n : nat) (acc : str) : str :=
  match fuel with
  | O => acc
  | S f => let acc' := (48 + N.of_nat (Nat.modulo n 10)) :: acc in
           match Nat.div n 10 with O => acc' | m => dec_nat_fuel f m acc' end
  end.
Definition dec_nat (n : nat) : str := dec_nat_fuel 20 n [].

Fixpoint show_path (p : path) : str :=
  match p with
  | [] => []
  | i :: r => 47 :: dec_nat i ++ show_path r
  end.

Definition kind_code (k : kind) : N :=
  match k with KScalar => 115 | KSeq => 113 | KMap => 109 | KAlias => 97 end.

(* one line per node: path US kind US style US anchor US tag US value LF.
   Comments are shown apart (below): which of two adjacent nodes a comment is
   attributed to is decided by yaml.v3 when it reads the text back, so the
   table compares the comments as one sequence in document order. *)
Definition show_node_line (p : path) (n : pnode) : str :=
  let a := n_attrs n in
  (* an empty collection can only be printed as [] or {}: its style is not observable *)
  let st := match n_kind n, n_content n with
            | KSeq, [] | KMap, [] => 0%N
            | _, _ => a_style a
            end in
  show_path p ++ 31 :: kind_code (n_kind n) :: 31 ::
  dec_nat (N.to_nat st) ++ 31 :: a_anchor a ++ 31 :: a_tag a ++ 31 :: n_value n ++ [10].

Fixpoint show_tree_fuel (fuel : nat) (prefix : path) (n : pnode) : str :=
  match fuel with
  | O => []
  | S f =>
      show_node_line prefix n ++
      (fix go (i : nat) (cs : list pnode) : str :=
         match cs with
         | [] => []
         | c :: r => show_tree_fuel f (prefix ++ [i]) c ++ go (S i) r
         end) 0%nat (n_content n)
  end.

Definition cmt (c : str) : str := match c with [] => [] | _ => c ++ [30] end.

(* comments in document order: head, line, the children, foot; for a map
   entry the key's foot comment comes after the value *)
Fixpoint comments_fuel (fuel : nat) (n : pnode) : str :=
  match fuel with
  | O => []
  | S f =>
      let a := n_attrs n in
      cmt (a_head a) ++ cmt (a_line a) ++
      match n_kind n with
      | KMap =>
          (fix go (cs : list pnode) : str :=
             match cs with
             | k :: v :: r =>
                 cmt (a_head (n_attrs k)) ++ cmt (a_line (n_attrs k)) ++ comments_fuel f v ++ cmt (a_foot (n_attrs k)) ++ go r
             | _ => []
             end) (n_content n)
      | _ =>
          (fix go (cs : list pnode) : str :=
             match cs with
             | [] => []
             | c :: r => comments_fuel f c ++ go r
             end) (n_content n)
      end ++ cmt (a_foot a)
  end.

Definition show_tree (n : pnode) : str := show_tree_fuel 40 [] n ++ 35 :: comments_fuel 40 n.

(* the updates the check sends: applied to the tree the independent parser
   read from `yq .`, result shown as a table *)
Inductive upd :=
| UAssign (p : path) (other : pnode)         (* PATH = scalar / PATH |= scalar *)
| UDelete (parent : path) (i w : nat)        (* del(PATH) *)
| UAppend (p : path) (items : list pnode)    (* PATH += [...] *)
| UCreate (p : path) (key value : pnode).    (* PATH.new = v *)

Definition apply_upd (guess : str -> str) (u : upd) (d : pnode) : pnode :=
  match u with
  | UAssign p other => update_at (update_from guess plain_assign other) p d
  | UDelete parent i w => delete_at parent i w d
  | UAppend p items => update_at (append_children items) p d
  | UCreate p key value => update_at (create_key key value) p d
  end.

Definition c_apply (inp : upd * pnode) : str :=
  show_tree (apply_upd (fun _ => []) (fst inp) (snd inp)).
