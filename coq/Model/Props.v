(* Model/Props.v — executable model of pkg/yqlib/encoder_properties.go and
   decoder_properties.go with the parts of github.com/magiconair/properties
   they drive: Properties.Set (ordered map, empty key ignored), WriteComment
   with encoding UTF8 (escape), and the lexer / parser of LoadString.

   Strings are byte lists; everything the library inspects is ASCII and
   non-ASCII runes are copied through, so on valid UTF-8 the byte-level
   functions give the bytes Go gives.  Expansion of dollar-brace references
   is disabled on both sides (DisableExpansion, repaired in /repo), so Set
   and Load never inspect values.  Not modelled: comments on nodes, the
   non-default UnwrapScalar = false quoting, and unicode literals above the
   basic plane.  No proofs here. *)
From YQ Require Import Base.Str.

Definition c_bs : N := 92.   (* backslash *)
Definition c_nl : N := 10.
Definition c_cr : N := 13.
Definition c_ff : N := 12.
Definition c_tab : N := 9.
Definition c_sp : N := 32.
Definition c_colon : N := 58.
Definition c_eq : N := 61.
Definition c_dot : N := 46.

(* ---------------- writer ---------------- *)
(* properties.escape; special is space and colon for keys, nothing for values *)
Definition props_escape_char (key : bool) (c : N) : str :=
  if c =? c_ff then [c_bs; 102]
  else if c =? c_nl then [c_bs; 110]
  else if c =? c_cr then [c_bs; 114]
  else if c =? c_tab then [c_bs; 116]
  else if c =? c_bs then [c_bs; c_bs]
  else if key && ((c =? c_sp) || (c =? c_colon)) then [c_bs; c]
  else [c].

Fixpoint props_escape (key : bool) (s : str) : str :=
  match s with
  | [] => []
  | c :: r => props_escape_char key c ++ props_escape key r
  end.

Definition props_line (sep : str) (kv : str * str) : str :=
  props_escape true (fst kv) ++ sep ++ props_escape false (snd kv) ++ [c_nl].

Fixpoint props_write (sep : str) (kvs : list (str * str)) : str :=
  match kvs with
  | [] => []
  | kv :: r => props_line sep kv ++ props_write sep r
  end.

(* Properties.Set on the ordered map: the empty key is ignored, an existing
   key keeps its position and gets the new value *)
Fixpoint omap_replace (k v : str) (m : list (str * str)) : option (list (str * str)) :=
  match m with
  | [] => None
  | (k', v') :: r =>
      if str_eqb k' k then Some ((k', v) :: r)
      else match omap_replace k v r with Some r' => Some ((k', v') :: r') | None => None end
  end.

Definition omap_set (m : list (str * str)) (kv : str * str) : list (str * str) :=
  match fst kv with
  | [] => m
  | _ => match omap_replace (fst kv) (snd kv) m with Some m' => m' | None => m ++ [kv] end
  end.

Definition omap_of (kvs : list (str * str)) : list (str * str) := fold_left omap_set kvs [].

(* fmt %v of an index *)
Fixpoint dec_digits (fuel : nat) (n : N) (acc : str) : str :=
  match fuel with
  | O => acc
  | S k => if n <? 10 then (48 + n) :: acc else dec_digits k (n / 10) ((48 + n mod 10) :: acc)
  end.
Definition dec_str (n : N) : str := dec_digits (S (N.to_nat (N.size n))) n [].

Inductive pnode :=
| PScalar (v : str)
| PSeq (l : list pnode)
| PMap (l : list (str * pnode)).

(* propertiesEncoder.appendPath *)
Definition append_key (path key : str) : str :=
  match path with [] => key | _ => path ++ c_dot :: key end.
Definition append_index (brackets : bool) (path : str) (i : N) : str :=
  match path with
  | [] => dec_str i
  | _ => if brackets then path ++ 91 :: dec_str i ++ [93] else path ++ c_dot :: dec_str i
  end.

(* doEncode / encodeArray / encodeMap: the Set calls in order *)
Fixpoint props_flatten (brackets : bool) (path : str) (n : pnode) : list (str * str) :=
  match n with
  | PScalar v => [(path, v)]
  | PSeq l =>
      (fix go (i : N) (l : list pnode) : list (str * str) :=
         match l with
         | [] => []
         | x :: r => props_flatten brackets (append_index brackets path i) x ++ go (i + 1) r
         end) 0 l
  | PMap l =>
      (fix go (l : list (str * pnode)) : list (str * str) :=
         match l with
         | [] => []
         | (k, x) :: r => props_flatten brackets (append_key path k) x ++ go r
         end) l
  end.

(* propertiesEncoder.Encode (UnwrapScalar = true, no comments) *)
Definition props_encode (sep : str) (brackets : bool) (n : pnode) : str :=
  match n with
  | PScalar v => v ++ [c_nl]
  | _ => props_write (match sep with [] => [c_sp; c_eq; c_sp] | _ => sep end) (omap_of (props_flatten brackets [] n))
  end.

(* ---------------- lexer / parser of LoadString ---------------- *)
Definition is_ws (c : N) : bool := (c =? c_sp) || (c =? c_ff) || (c =? c_tab).
Definition is_eol (c : N) : bool := (c =? c_nl) || (c =? c_cr).
Definition is_comment (c : N) : bool := (c =? 35) || (c =? 33).
Definition is_end_of_key (c : N) : bool := is_ws c || is_eol c || (c =? c_colon) || (c =? c_eq).
(* isEscapedCharacter: one of space : = f n r t *)
Definition escaped_char (c : N) : option N :=
  if c =? 102 then Some c_ff else if c =? 110 then Some c_nl else if c =? 114 then Some c_cr
  else if c =? 116 then Some c_tab else None.

Definition hex_val (c : N) : option N :=
  if (48 <=? c) && (c <=? 57) then Some (c - 48)
  else if (97 <=? c) && (c <=? 102) then Some (c - 87)
  else if (65 <=? c) && (c <=? 70) then Some (c - 55)
  else None.

(* string(rune) for a code point below 0x10000 (surrogates become U+FFFD) *)
Definition utf8_bmp (cp : N) : str :=
  if cp <? 128 then [cp]
  else if cp <? 2048 then [192 + cp / 64; 128 + cp mod 64]
  else if (55296 <=? cp) && (cp <=? 57343) then [239; 191; 189]
  else [224 + cp / 4096; 128 + (cp / 64) mod 64; 128 + cp mod 64].

(* result of lexing from some position: the rest of the token being
   scanned, the value belonging to the key being scanned, later entries *)
Inductive pres :=
| POk (cur : str) (value : str) (entries : list (str * str))
| PErr.

Definition p_app (s : str) (r : pres) : pres :=
  match r with POk cur v es => POk (s ++ cur) v es | PErr => PErr end.
Definition p_key_done (r : pres) : pres :=        (* r is what follows the key: its value *)
  match r with POk v _ es => POk [] v es | PErr => PErr end.
Definition p_value_done (r : pres) : pres :=      (* r is what follows the line *)
  match r with POk _ _ es => POk [] [] es | PErr => PErr end.
Definition p_entry (r : pres) : pres :=           (* r is the key scan started here *)
  match r with
  | POk [] _ _ => PErr                             (* a line without a key: unexpected value token *)
  | POk k v es => POk [] [] ((k, v) :: es)
  | PErr => PErr
  end.

Inductive pmode := PBeforeKey | PComment | PKey | PBeforeSep | PAfterSep | PValue | PContinuation.

Fixpoint props_go (m : pmode) (s : str) : pres :=
  match s with
  | [] => POk [] [] []
  | c :: r =>
      (* scanEscapeSequence after a backslash at c, for the token scanned in mode m' *)
      let escape := fun m' : pmode =>
        match r with
        | [] => PErr                                                  (* premature EOF *)
        | d :: r1 =>
            if d =? 117 then
              match r1 with
              | h1 :: h2 :: h3 :: h4 :: r2 =>
                  match hex_val h1, hex_val h2, hex_val h3, hex_val h4 with
                  | Some a, Some b, Some e, Some f =>
                      p_app (utf8_bmp (a * 4096 + b * 256 + e * 16 + f)) (props_go m' r2)
                  | _, _, _, _ => PErr
                  end
              | _ => PErr
              end
            else
              match escaped_char d with
              | Some x => p_app [x] (props_go m' r1)
              | None => p_app [d] (props_go m' r1)
              end
        end in
      let value_step := fun _ : unit =>
        if c =? c_bs then
          match r with
          | d :: r1 => if is_eol d then props_go PContinuation r1 else escape PValue
          | [] => escape PValue
          end
        else if is_eol c then p_value_done (props_go PBeforeKey r)
        else p_app [c] (props_go PValue r) in
      let after_sep_step := fun _ : unit =>
        if is_ws c then props_go PAfterSep r else value_step tt in
      let before_sep_step := fun _ : unit =>
        if is_ws c then props_go PBeforeSep r
        else if (c =? c_colon) || (c =? c_eq) then props_go PAfterSep r
        else value_step tt in
      let key_step := fun _ : unit =>
        if c =? c_bs then escape PKey
        else if is_end_of_key c then p_key_done (before_sep_step tt)
        else p_app [c] (props_go PKey r) in
      match m with
      | PBeforeKey =>
          if is_eol c then props_go PBeforeKey r
          else if is_comment c then props_go PComment r
          else if is_ws c then props_go PBeforeKey r
          else p_entry (key_step tt)
      | PComment => if is_eol c then props_go PBeforeKey r else props_go PComment r
      | PKey => key_step tt
      | PBeforeSep => before_sep_step tt
      | PAfterSep => after_sep_step tt
      | PValue => value_step tt
      | PContinuation => if is_ws c then props_go PContinuation r else value_step tt
      end
  end.

(* parser: entries in file order, then the ordered-map semantics *)
Definition props_parse (text : str) : option (list (str * str)) :=
  match props_go PBeforeKey text with
  | POk _ _ es => Some (omap_of es)
  | PErr => None
  end.

(* ---------------- key paths (parsePropKey) ---------------- *)
Fixpoint split_dot_aux (s cur : str) : list str :=
  match s with
  | [] => [rev cur]
  | c :: r => if c =? c_dot then rev cur :: split_dot_aux r [] else split_dot_aux r (c :: cur)
  end.
Definition split_dot (s : str) : list str := split_dot_aux s [].

Fixpoint join_dot (l : list str) : str :=
  match l with
  | [] => []
  | [x] => x
  | x :: r => x ++ c_dot :: join_dot r
  end.

(* ---- serialisation for the correspondence check ---- *)
Definition ser_kvs (kvs : list (str * str)) : str :=
  concat (List.map (fun kv => fst kv ++ 0 :: snd kv ++ [1]) kvs).

Definition props_encode_obs (sep : str) (brackets : bool) (n : pnode) : str := 79 :: props_encode sep brackets n.

Definition props_decode_obs (text : str) : str :=
  match text with
  | [] => [78]                                   (* empty input: io.EOF *)
  | _ => match props_parse text with
         | Some kvs => 79 :: ser_kvs kvs
         | None => [69]
         end
  end.
