(* Model/Xml.v — executable model of yq's own XML logic over the token stream
   of encoding/xml (the tokenizer / escaper / printer of the library stay a
   library contract, tied by tests):

     decoder_xml.go : decodeXML (the fold over Decoder.RawToken / Token:
                      element stack, xmlNode.AddChild grouping repeated names
                      at the first occurrence, attributes as prefixed
                      children, trimmed character data, processing
                      instructions and directives per the preferences, the
                      skipped stray end tag), convertToYamlNode / createMap /
                      createValueNodeFromData;
     encoder_xml.go : Encode / encodeTopLevelMap / doEncode / encodeMap /
                      encodeArray as a function from the document to the
                      token list handed to Encoder.EncodeToken.

   Values: the decoder only produces null, strings, sequences and maps, so
   that is the value type (a scalar of another tag is encoded by its text).
   Comments: tokens of kind Comment only set YAML comments of nodes; they
   never change Data / Children, so the value model skips them (their
   placement is not modelled).  trimNonGraphic (unicode tables) is a
   parameter.  No proofs here. *)
From YQ Require Import Base.Str.

Record xprefs := mkXprefs {
  attr_prefix : str;      (* AttributePrefix *)
  content_name : str;     (* ContentName *)
  proc_prefix : str;      (* ProcInstPrefix *)
  directive_name : str;   (* DirectiveName *)
  keep_ns : bool;         (* KeepNamespace *)
  raw_token : bool;       (* UseRawToken: Name.Space is the prefix as written *)
  skip_proc : bool;       (* SkipProcInst *)
  skip_dir : bool         (* SkipDirectives *)
}.

(* xml.Name: Space and Local (with RawToken: the prefix and the local part) *)
Definition xname := (str * str)%type.

Inductive xtok :=
| TStart (name : xname) (attrs : list (xname * str))
| TChar (text : str)
| TEnd (name : xname)
| TComment (text : str)
| TProcInst (target inst : str)
| TDirective (text : str).

Inductive xval :=
| XNull
| XStr (s : str)
| XSeq (l : list xval)
| XMap (l : list (str * xval)).

(* xmlNode: ordered children (key, nodes with that key), character data *)
Inductive xnode := XNode (children : list (str * list xnode)) (data : list str).

Definition xchildren (n : xnode) := match n with XNode c _ => c end.
Definition xdata (n : xnode) := match n with XNode _ d => d end.

(* xmlNode.AddChild, generic in the payload: append to the first entry with
   this key, or add a new entry at the end *)
Fixpoint add_child {A : Type} (k : str) (c : A) (l : list (str * list A)) : list (str * list A) :=
  match l with
  | [] => [(k, [c])]
  | (k', vs) :: r => if str_eqb k' k then (k', vs ++ [c]) :: r else (k', vs) :: add_child k c r
  end.

Definition add_all {A : Type} (kvs : list (str * A)) (l : list (str * list A)) : list (str * list A) :=
  fold_left (fun acc kv => add_child (fst kv) (snd kv) acc) kvs l.

Fixpoint has_prefix (p s : str) : bool :=
  match p, s with
  | [], _ => true
  | a :: p', b :: s' => (a =? b) && has_prefix p' s'
  | _ :: _, [] => false
  end.

Fixpoint drop_prefix (p s : str) : str :=          (* strings.Replace(s, p, "", 1) when p is a prefix of s *)
  match p, s with
  | _ :: p', _ :: s' => drop_prefix p' s'
  | _, _ => s
  end.

Section Xml.
  Variable trim : str -> str.       (* trimNonGraphic *)
  Variable P : xprefs.

  (* ------------------------------ decoder ------------------------------ *)
  Definition attr_key (a : xname) : str :=
    attr_prefix P ++ (if keep_ns P then match fst a with [] => snd a | sp => sp ++ 58 :: snd a end else snd a).

  (* the label of an element: with raw tokens and KeepNamespace the prefix is kept (repaired in /repo) *)
  Definition elem_label (nm : xname) : str :=
    if keep_ns P && raw_token P then match fst nm with [] => snd nm | sp => sp ++ 58 :: snd nm end else snd nm.

  Definition leaf (s : str) : xnode := XNode [] [s].

  Definition frame := (str * xnode)%type.          (* label, node under construction *)

  Record dstate := mkD { d_started : bool; d_cur : frame; d_stack : list frame }.

  Definition with_node (st : dstate) (f : xnode -> xnode) : dstate :=
    mkD true (fst (d_cur st), f (snd (d_cur st))) (d_stack st).

  Definition node_add (k : str) (c : xnode) (n : xnode) : xnode :=
    match n with XNode ch d => XNode (add_child k c ch) d end.

  Definition node_data (s : str) (n : xnode) : xnode :=
    match n with XNode ch d => XNode ch (d ++ [s]) end.

  Definition start_node (attrs : list (xname * str)) : xnode :=
    XNode (add_all (List.map (fun a => (attr_key (fst a), leaf (snd a))) attrs) []) [].

  Inductive dres := DOk (st : dstate) | DErrCharData.

  Definition d_step (st : dstate) (t : xtok) : dres :=
    match t with
    | TStart nm attrs =>
        DOk (mkD true (elem_label nm, start_node attrs) (d_cur st :: d_stack st))
    | TChar text =>
        match trim text with
        | [] => DOk (mkD true (d_cur st) (d_stack st))
        | nb => if d_started st then DOk (with_node st (node_data nb)) else DErrCharData
        end
    | TEnd _ =>
        match d_stack st with
        | [] => DOk st                                            (* stray end tag: skipped (continue) *)
        | (plabel, pnode) :: rest =>
            DOk (mkD true (plabel, node_add (fst (d_cur st)) (snd (d_cur st)) pnode) rest)
        end
    | TComment _ => DOk (mkD true (d_cur st) (d_stack st))
    | TProcInst target inst =>
        if skip_proc P then DOk (mkD true (d_cur st) (d_stack st))
        else DOk (with_node st (node_add (proc_prefix P ++ target) (leaf inst)))
    | TDirective text =>
        if skip_dir P then DOk (mkD true (d_cur st) (d_stack st))
        else DOk (with_node st (node_add (directive_name P) (leaf text)))
    end.

  Fixpoint d_run (toks : list xtok) (st : dstate) : dres :=
    match toks with
    | [] => DOk st
    | t :: r => match d_step st t with DOk st' => d_run r st' | e => e end
    end.

  Definition d_init : dstate := mkD false ([], XNode [] []) [].

  (* the end of the token stream closes every element that is still open
     (lenient parsing, repaired in /repo: they used to be dropped with what
     they hold): each is attached to its parent as by its end tag *)
  Fixpoint close_all (cur : frame) (stack : list frame) : xnode :=
    match stack with
    | [] => snd cur
    | (plabel, pnode) :: rest => close_all (plabel, node_add (fst cur) (snd cur) pnode) rest
    end.

  Definition d_root (st : dstate) : xnode := close_all (d_cur st) (d_stack st).

  (* createValueNodeFromData *)
  Definition from_data (d : list str) : xval :=
    match d with
    | [] => XNull
    | [s] => XStr s
    | _ => XSeq (List.map XStr d)
    end.

  (* createMap: one child entry becomes the converted node, several a sequence *)
  Definition group_val (vs : list xval) : xval :=
    match vs with [v] => v | _ => XSeq vs end.

  (* convertToYamlNode / createMap / createSequence *)
  Fixpoint convert (n : xnode) : xval :=
    match n with
    | XNode [] d => from_data d
    | XNode ch d =>
        XMap ((match d with [] => [] | _ => [(content_name P, from_data d)] end) ++
              List.map (fun e => (fst e, group_val (List.map convert (snd e)))) ch)
    end.

  Inductive xresult :=
  | XOk (v : xval)
  | XErrCharData            (* character data before any token *)
  | XErrEncode.             (* the encoder refuses the document *)

  (* xmlDecoder.Decode *)
  Definition decode_toks (toks : list xtok) : xresult :=
    match d_run toks d_init with
    | DOk st => XOk (convert (d_root st))
    | DErrCharData => XErrCharData
    end.

  (* ------------------------------ encoder ------------------------------ *)
  Inductive kclass := KProc | KDirective | KContent | KAttr | KElem.

  (* the order of the tests in encodeMap; isAttribute is [classify k = KAttr] *)
  Definition classify (k : str) : kclass :=
    if has_prefix (proc_prefix P) k then KProc
    else if str_eqb k (directive_name P) then KDirective
    else if str_eqb k (content_name P) then KContent
    else if has_prefix (attr_prefix P) k then KAttr
    else KElem.

  Definition is_attribute (k : str) : bool :=
    match classify k with KAttr => true | _ => false end.

  (* node.Value of what is written as character data / attribute value *)
  Definition scalar_text (v : xval) : option str :=
    match v with XNull => Some [] | XStr s => Some s | _ => None end.
  Definition value_text (v : xval) : str :=
    match v with XStr s => s | _ => [] end.

  Definition lname (k : str) : xname := ([], k).

  (* attributes of encodeMap: every attribute key must hold a scalar *)
  Fixpoint enc_attrs (l : list (str * xval)) : option (list (xname * str)) :=
    match l with
    | [] => Some []
    | (k, v) :: r =>
        if is_attribute k then
          match scalar_text v, enc_attrs r with
          | Some s, Some rest => Some ((lname (drop_prefix (attr_prefix P) k), s) :: rest)
          | _, _ => None
          end
        else enc_attrs r
    end.

  Definition opt_app {A : Type} (a b : option (list A)) : option (list A) :=
    match a, b with Some x, Some y => Some (x ++ y) | _, _ => None end.

  Definition opt_concat_map {A B : Type} (f : A -> option (list B)) : list A -> option (list B) :=
    fix go (l : list A) : option (list B) :=
      match l with
      | [] => Some []
      | x :: r => opt_app (f x) (go r)
      end.

  (* one entry of the map in the second loop of encodeMap, [elem] being doEncode *)
  Definition enc_entry (elem : str -> xval -> option (list xtok)) (e : str * xval) : option (list xtok) :=
    match e with
    | (key, x) =>
        match classify key with
        | KProc => Some [TProcInst (drop_prefix (proc_prefix P) key) (value_text x)]
        | KDirective => Some [TDirective (value_text x)]
        | KContent => Some [TChar (value_text x)]
        | KAttr => Some []
        | KElem => elem key x
        end
    end.

  (* doEncode for the value v under the start tag named k *)
  Fixpoint enc_elem (k : str) (v : xval) : option (list xtok) :=
    match v with
    | XNull => Some [TStart (lname k) []; TChar []; TEnd (lname k)]
    | XStr s => Some [TStart (lname k) []; TChar s; TEnd (lname k)]
    | XSeq l => opt_concat_map (fun x => enc_elem k x) l
    | XMap entries =>
        match enc_attrs entries with
        | None => None
        | Some attrs =>
            opt_app (Some [TStart (lname k) attrs])
              (opt_app (opt_concat_map (enc_entry (fun key x => enc_elem key x)) entries) (Some [TEnd (lname k)]))
        end
    end.

  (* encodeTopLevelMap: keys starting with the proc-inst prefix and the
     directive name are special, everything else is an element (attributes
     are not recognised at the top level) *)
  Definition xml_decl_key : str := proc_prefix P ++ [120; 109; 108].

  Fixpoint enc_top (l : list (str * xval)) : option (list xtok) :=
    match l with
    | [] => Some []
    | (key, x) :: r =>
        opt_app
          (if str_eqb key xml_decl_key then Some []
           else if has_prefix (proc_prefix P) key then Some [TProcInst (drop_prefix (proc_prefix P) key) (value_text x)]
           else if str_eqb key (directive_name P) then Some [TDirective (value_text x)]
           else enc_elem key x)
          (enc_top r)
    end.

  Fixpoint enc_decl (l : list (str * xval)) : list xtok :=
    match l with
    | [] => []
    | (key, x) :: r =>
        (if str_eqb key xml_decl_key then [TProcInst [120; 109; 108] (value_text x)] else []) ++ enc_decl r
    end.

  (* xmlEncoder.Encode without leading content *)
  Definition encode_toks (doc : xval) : option (list xtok) :=
    match doc with
    | XMap entries => opt_app (Some (enc_decl entries)) (opt_app (enc_top entries) (Some [TChar [10]]))
    | XNull => Some [TChar []]
    | XStr s => Some [TChar s]
    | XSeq _ => None
    end.
End Xml.

(* defaults of NewDefaultXmlPreferences *)
Definition default_xprefs : xprefs :=
  mkXprefs [43; 64] [43; 99; 111; 110; 116; 101; 110; 116] [43; 112; 95]
           [43; 100; 105; 114; 101; 99; 116; 105; 118; 101] true true false false.

(* trimNonGraphic restricted to ASCII edges: controls, space and DEL are
   trimmed, everything else (in particular every byte of a non-ASCII rune)
   is kept; used for the correspondence runs, whose generators keep non-ASCII
   white space and non-graphic runes away from the edges of text *)
Definition ascii_edge (c : N) : bool := (c <=? 32) || (c =? 127).
Fixpoint trim_left (s : str) : str :=
  match s with c :: r => if ascii_edge c then trim_left r else s | [] => [] end.
Definition ascii_trim (s : str) : str := rev (trim_left (rev (trim_left s))).

(* ---- serialisation for the correspondence check (strings hold no NUL) ---- *)
Definition z (s : str) : str := s ++ [0].

Fixpoint ser_xval (v : xval) : str :=
  match v with
  | XNull => [78]
  | XStr s => 83 :: z s
  | XSeq l => 91 :: (fix go (l : list xval) : str := match l with [] => [] | x :: r => ser_xval x ++ go r end) l ++ [93]
  | XMap l => 123 :: (fix go (l : list (str * xval)) : str :=
                        match l with [] => [] | (k, x) :: r => z k ++ ser_xval x ++ go r end) l ++ [125]
  end.

Definition ser_name (n : xname) : str := z (fst n) ++ z (snd n).

Definition ser_tok (t : xtok) : str :=
  match t with
  | TStart nm attrs => 60 :: ser_name nm ++ concat (List.map (fun a => ser_name (fst a) ++ z (snd a)) attrs) ++ [62]
  | TChar s => 67 :: z s
  | TEnd nm => 47 :: ser_name nm
  | TComment s => 77 :: z s
  | TProcInst t i => 80 :: z t ++ z i
  | TDirective s => 68 :: z s
  end.

Definition blank_char (t : xtok) : bool :=
  match t with TChar s => forallb (fun c => c <=? 32) s | _ => false end.

Definition xml_decode_obs (P : xprefs) (toks : list xtok) : str :=
  match decode_toks ascii_trim P toks with
  | XOk v => 79 :: ser_xval v
  | XErrCharData => [69]
  | XErrEncode => [63]
  end.

(* tokens as they come back from a tokenizer: character data that is empty
   or only white space (indentation, the newlines yq writes itself) dropped *)
Definition xml_encode_obs (P : xprefs) (doc : xval) : str :=
  match encode_toks P doc with
  | Some toks => 79 :: concat (List.map ser_tok (filter (fun t => negb (blank_char t)) toks))
  | None => [69]
  end.
