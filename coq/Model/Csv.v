(* Model/Csv.v — executable model of pkg/yqlib/encoder_csv.go and
   decoder_csv_object.go together with the parts of Go's encoding/csv they
   drive (Writer.Write / fieldNeedsQuotes with UseCRLF = false; Reader with
   LazyQuotes = false, TrimLeadingSpace = false, no comment character,
   FieldsPerRecord = 0).  The separator is one byte below 128 (a rune the
   library compares bytewise).  Strings are byte lists.  No proofs.

   Reader: the library works line by line; readLine turns a final CR LF of a
   line into LF and drops a CR that ends the input.  Both are independent of
   the parser state, so the model applies them as a look-ahead in front of a
   character-level automaton (csv_go).  Modes: start of a record (blank
   lines are skipped there), start of a field, inside a bare field, inside a
   quoted field, just after a quote inside a quoted field. *)
From YQ Require Import Base.Str.

Definition c_dq : N := 34.
Definition c_nl : N := 10.
Definition c_cr : N := 13.

(* validDelim *)
Definition csv_valid_sep (sep : N) : bool :=
  negb ((sep =? 0) || (sep =? c_dq) || (sep =? c_cr) || (sep =? c_nl)) && (sep <? 128).

(* unicode.IsSpace of the first rune of the field (UTF-8 decoded): the ASCII
   spaces, U+0085, U+00A0, U+1680, U+2000..U+200A, U+2028, U+2029, U+202F,
   U+205F, U+3000 *)
Definition first_rune_space (f : str) : bool :=
  match f with
  | c :: r =>
      if (c =? 32) || ((9 <=? c) && (c <=? 13)) then true
      else if c =? 194 then match r with d :: _ => (d =? 133) || (d =? 160) | _ => false end
      else if c =? 225 then match r with d :: e :: _ => (d =? 154) && (e =? 128) | _ => false end
      else if c =? 226 then
        match r with
        | d :: e :: _ =>
            ((d =? 128) && (((128 <=? e) && (e <=? 138)) || (e =? 168) || (e =? 169) || (e =? 175)))
            || ((d =? 129) && (e =? 159))
        | _ => false
        end
      else if c =? 227 then match r with d :: e :: _ => (d =? 128) && (e =? 128) | _ => false end
      else false
  | [] => false
  end.

Definition csv_special (sep c : N) : bool :=
  (c =? c_nl) || (c =? c_cr) || (c =? c_dq) || (c =? sep).

(* Writer.fieldNeedsQuotes *)
Definition csv_needs_quotes (sep : N) (f : str) : bool :=
  match f with
  | [] => false
  | _ => str_eqb f [92; 46] || existsb (csv_special sep) f || first_rune_space f
  end.

Fixpoint csv_quote_body (f : str) : str :=
  match f with
  | [] => []
  | c :: r => if c =? c_dq then c_dq :: c_dq :: csv_quote_body r else c :: csv_quote_body r
  end.

Definition csv_write_field (sep : N) (f : str) : str :=
  if csv_needs_quotes sep f then c_dq :: csv_quote_body f ++ [c_dq] else f.

Fixpoint csv_write_fields (sep : N) (fs : list str) : str :=
  match fs with
  | [] => []
  | [f] => csv_write_field sep f
  | f :: r => csv_write_field sep f ++ sep :: csv_write_fields sep r
  end.

(* encodeRow: a record that is one empty field is written quoted by yq itself
   (repaired in /repo: Writer.Write would emit a blank line, which is no
   record); every other record goes through Writer.Write *)
Definition lone_empty (fs : list str) : bool :=
  match fs with [[]] => true | _ => false end.

Definition csv_write_record (sep : N) (fs : list str) : str :=
  if lone_empty fs then [c_dq; c_dq; c_nl] else csv_write_fields sep fs ++ [c_nl].

Definition csv_write (sep : N) (rows : list (list str)) : str :=
  concat (List.map (csv_write_record sep) rows).

(* ------------------------------ reader ------------------------------ *)
Inductive csv_err := CsvBareQuote | CsvQuote | CsvFieldCount | CsvNoHeader | CsvBadNode.

(* result of reading from some position: the rest of the current field, the
   remaining fields of the current record, the records after it *)
Inductive cres :=
| COk (field : str) (fields : list str) (records : list (list str))
| CErr (e : csv_err).

Definition c_prefix (c : N) (r : cres) : cres :=
  match r with COk f fs recs => COk (c :: f) fs recs | e => e end.
Definition c_next_field (r : cres) : cres :=
  match r with COk f fs recs => COk [] (f :: fs) recs | e => e end.
Definition c_end_record (r : cres) : cres :=
  match r with COk _ _ recs => COk [] [] recs | e => e end.
Definition c_as_record (r : cres) : cres :=
  match r with COk f fs recs => COk [] [] ((f :: fs) :: recs) | e => e end.

Inductive cmode := MRecord | MField | MBare | MQuoted | MQuoteSeen.

Fixpoint csv_go (sep : N) (m : cmode) (s : str) : cres :=
  match s with
  | [] =>
      match m with
      | MQuoted => CErr CsvQuote          (* input ends inside a quoted field *)
      | _ => COk [] [] []
      end
  | c :: r =>
      (* thunks: vm_compute is call-by-value *)
      let bare_step := fun _ : unit =>
        if c =? c_dq then CErr CsvBareQuote
        else if c =? sep then c_next_field (csv_go sep MField r)
        else if c =? c_nl then c_end_record (csv_go sep MRecord r)
        else c_prefix c (csv_go sep MBare r) in
      let field_start := fun _ : unit =>
        if c =? c_dq then csv_go sep MQuoted r else bare_step tt in
      let step := fun _ : unit =>
        match m with
        | MRecord => if c =? c_nl then csv_go sep MRecord r else c_as_record (field_start tt)
        | MField => field_start tt
        | MBare => bare_step tt
        | MQuoted => if c =? c_dq then csv_go sep MQuoteSeen r else c_prefix c (csv_go sep MQuoted r)
        | MQuoteSeen =>
            if c =? c_dq then c_prefix c_dq (csv_go sep MQuoted r)
            else if c =? sep then c_next_field (csv_go sep MField r)
            else if c =? c_nl then c_end_record (csv_go sep MRecord r)
            else CErr CsvQuote
        end in
      (* readLine: CR LF -> LF, a CR that ends the input is dropped *)
      if c =? c_cr then
        match r with
        | [] => csv_go sep m r
        | d :: _ => if d =? c_nl then csv_go sep m r else step tt
        end
      else step tt
  end.

Fixpoint all_length (n : nat) (rows : list (list str)) : bool :=
  match rows with
  | [] => true
  | r :: rest => Nat.eqb (length r) n && all_length n rest
  end.

Inductive csv_result (A : Type) :=
| CsvOk (v : A)
| CsvError (e : csv_err).
Arguments CsvOk {A} v.
Arguments CsvError {A} e.

(* Reader.Read until EOF: all records, each with as many fields as the first *)
Definition csv_read (sep : N) (text : str) : csv_result (list (list str)) :=
  match csv_go sep MRecord text with
  | CErr e => CsvError e
  | COk _ _ recs =>
      match recs with
      | [] => CsvOk []
      | first :: _ => if all_length (length first) recs then CsvOk recs else CsvError CsvFieldCount
      end
  end.

(* utfbom.Skip: a UTF-8 byte order mark in front of the text is dropped (the
   UTF-16 / UTF-32 marks are dropped too; those are outside the model) *)
Definition skip_bom (text : str) : str :=
  match text with
  | 239 :: 187 :: 191 :: r => r
  | _ => text
  end.

(* csvObjectDecoder.Decode: the first record is the header, every further
   record becomes a mapping header[i] -> field[i] (fields as text: the
   re-typing of scalars by the YAML snippet parser is outside the model) *)
Definition csv_decode (sep : N) (text : str) : csv_result (list (list (str * str))) :=
  match csv_read sep (skip_bom text) with
  | CsvError e => CsvError e
  | CsvOk [] => CsvError CsvNoHeader
  | CsvOk (header :: rows) => CsvOk (List.map (fun row => combine header row) rows)
  end.

(* ------------------------------ yq encoder ------------------------------ *)
Inductive cnode :=
| CScalar (v : str)
| CSeq (l : list cnode)
| CMap (l : list (str * cnode)).

Definition scalar_value (n : cnode) : option str :=
  match n with CScalar v => Some v | _ => None end.

Fixpoint opt_all {A : Type} (l : list (option A)) : option (list A) :=
  match l with
  | [] => Some []
  | Some x :: r => match opt_all r with Some xs => Some (x :: xs) | None => None end
  | None :: _ => None
  end.

(* encodeRow *)
Definition csv_row (contents : list cnode) : option (list str) :=
  opt_all (List.map scalar_value contents).

(* findKeyInMap + createChildRow: the value under the header, or an empty
   scalar when the key is missing *)
Fixpoint map_find (k : str) (l : list (str * cnode)) : option cnode :=
  match l with
  | [] => None
  | (k', v) :: r => if str_eqb k' k then Some v else map_find k r
  end.

Definition csv_child_row (headers : list str) (m : list (str * cnode)) : list cnode :=
  List.map (fun h => match map_find h m with Some v => v | None => CScalar [] end) headers.

Definition as_map (n : cnode) : option (list (str * cnode)) :=
  match n with CMap l => Some l | _ => None end.
Definition as_seq (n : cnode) : option (list cnode) :=
  match n with CSeq l => Some l | _ => None end.

Definition opt_bind {A B : Type} (o : option A) (f : A -> option B) : option B :=
  match o with Some x => f x | None => None end.

(* csvEncoder.Encode: rows to write, or None for an error *)
Definition csv_rows_of (n : cnode) : option (list (list str)) :=
  match n with
  | CSeq [] => Some []
  | CSeq ((CScalar _ :: _) as l) => opt_bind (csv_row l) (fun r => Some [r])
  | CSeq ((CMap first :: _) as l) =>
      let headers := List.map fst first in
      opt_bind (opt_all (List.map as_map l)) (fun maps =>
      opt_bind (opt_all (List.map (fun m => csv_row (csv_child_row headers m)) maps)) (fun rows =>
      Some (headers :: rows)))
  | CSeq l =>
      opt_bind (opt_all (List.map as_seq l)) (fun seqs => opt_all (List.map csv_row seqs))
  | _ => None
  end.

Definition csv_encode (sep : N) (n : cnode) : option str :=
  match n with
  | CScalar v => Some (v ++ [c_nl])
  | _ =>
      match csv_rows_of n with
      | Some rows =>
          (* errInvalidDelim comes from Writer.Write, which lone empty records do not reach *)
          if csv_valid_sep sep || forallb lone_empty rows then Some (csv_write sep rows) else None
      | None => None
      end
  end.

(* in-expression form: encodeOperator chomps all trailing newlines for CSV/TSV *)
Fixpoint chomp_rev (s : str) : str :=
  match s with c :: r => if c =? c_nl then chomp_rev r else s | [] => [] end.
Definition chomp (s : str) : str := rev (chomp_rev (rev s)).

(* ---- serialisation for the correspondence check ---- *)
Definition ser_field (f : str) : str := f ++ [0].
Definition ser_record (fs : list str) : str := concat (List.map ser_field fs) ++ [1].
Definition ser_records (recs : list (list str)) : str := concat (List.map ser_record recs).

Definition csv_read_obs (sep : N) (text : str) : str :=
  match csv_read sep (skip_bom text) with
  | CsvOk recs => 79 :: ser_records recs
  | CsvError _ => [69]
  end.

Definition csv_write_obs (sep : N) (rows : list (list str)) : str :=
  if csv_valid_sep sep || forallb lone_empty rows then 79 :: csv_write sep rows else [69].

Definition csv_decode_obs (sep : N) (text : str) : str :=
  match csv_decode sep text with
  | CsvOk objs => 79 :: ser_records (List.map (fun o => flat_map (fun kv => [fst kv; snd kv]) o) objs)
  | CsvError CsvNoHeader => [78]
  | CsvError _ => [69]
  end.

Definition csv_encode_obs (sep : N) (n : cnode) : str :=
  match csv_encode sep n with Some t => 79 :: t | None => [69] end.
