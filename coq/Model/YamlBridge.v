(* Model/YamlBridge.v — yq's own layers between the YAML library and the
   evaluator, for the identity expression.  No proofs here.

   Go anchors (pkg/yqlib): candidate_node_yaml.go (MapYamlStyle,
   MapToYamlStyle, copyFromYamlNode, copyToYamlNode, decodeIntoChild,
   UnmarshalYAML, MarshalYAML), decoder_yaml.go (processReadStream, Decode),
   encoder_yaml.go (PrintLeadingContent, Encode).

   gopkg.in/yaml.v3 (scanner, parser, emitter) is NOT modelled: it appears in
   Props/C05.v as Section variables with the contract as hypotheses. *)
From Coq Require Import List NArith Bool.
From YQ Require Import Base.Str.
Import ListNotations.
Open Scope N_scope.

(* ------------------------------------------------------------------ *)
(* the two node types                                                  *)
(* ------------------------------------------------------------------ *)

Inductive ykind := YDocument | YSequence | YMapping | YScalar | YAlias | YZero.
Inductive ckind := CSequence | CMapping | CScalar | CAlias | CZero.

(* mirror of yaml.Node.  [alias]: the Anchor of the node the Alias pointer
   refers to (None = nil pointer). *)
Inductive ynode :=
  YNode (kind : ykind) (style : N) (tag value anchor : str) (alias : option str)
        (head line foot : str) (ln col : N) (content : list ynode).

(* the CandidateNode fields the conversion reads or writes.  [alias]: name
   under which the target was looked up in the anchor map; [key]: tag and
   value of the key node (map values: the key; sequence items: !!int index) *)
Inductive cnode :=
  CNode (kind : ckind) (style : N) (tag value anchor : str) (alias : option str)
        (head line foot : str) (ln col : N) (is_key : bool) (key : option (str * str))
        (leading : str) (content : list cnode).

Definition y_kind (n : ynode) := match n with YNode k _ _ _ _ _ _ _ _ _ _ _ => k end.
Definition y_tag (n : ynode) := match n with YNode _ _ t _ _ _ _ _ _ _ _ _ => t end.
Definition y_value (n : ynode) := match n with YNode _ _ _ v _ _ _ _ _ _ _ _ => v end.
Definition y_head (n : ynode) := match n with YNode _ _ _ _ _ _ h _ _ _ _ _ => h end.
Definition y_foot (n : ynode) := match n with YNode _ _ _ _ _ _ _ _ f _ _ _ => f end.
Definition y_content (n : ynode) := match n with YNode _ _ _ _ _ _ _ _ _ _ _ c => c end.

Definition c_tag (n : cnode) := match n with CNode _ _ t _ _ _ _ _ _ _ _ _ _ _ _ => t end.
Definition c_value (n : cnode) := match n with CNode _ _ _ v _ _ _ _ _ _ _ _ _ _ _ => v end.
Definition c_foot (n : cnode) := match n with CNode _ _ _ _ _ _ _ _ f _ _ _ _ _ _ => f end.
Definition c_leading (n : cnode) := match n with CNode _ _ _ _ _ _ _ _ _ _ _ _ _ l _ => l end.

(* ------------------------------------------------------------------ *)
(* styles: the two switch statements, constant for constant            *)
(* (yaml.v3: Tagged 1, DoubleQuoted 2, SingleQuoted 4, Literal 8,      *)
(*  Folded 16, Flow 32; yqlib: the same values - compared with the Go  *)
(*  constants by the check on every run)                               *)
(* ------------------------------------------------------------------ *)

Definition map_yaml_style (s : N) : N :=
  if s =? 1 then 1 else if s =? 2 then 2 else if s =? 4 then 4 else if s =? 8 then 8
  else if s =? 16 then 16 else if s =? 32 then 32 else if s =? 0 then 0 else s.

Definition map_to_yaml_style (s : N) : N :=
  if s =? 1 then 1 else if s =? 2 then 2 else if s =? 4 then 4 else if s =? 8 then 8
  else if s =? 16 then 16 else if s =? 32 then 32 else if s =? 0 then 0 else s.

Definition t_null : str := [33; 33; 110; 117; 108; 108].
Definition t_int : str := [33; 33; 105; 110; 116].

(* ------------------------------------------------------------------ *)
(* yaml.Node -> CandidateNode                                          *)
(* ------------------------------------------------------------------ *)

Definition alias_name (a : option str) : option str :=
  match a with
  | Some [] => None                      (* node.Alias.Anchor is the empty string *)
  | Some nm => Some nm
  | None => None
  end.

(* copyFromYamlNode, on a node of kind [k] *)
Definition copy_from (k : ckind) (n : ynode) (is_key : bool) (key : option (str * str)) (content : list cnode) : cnode :=
  match n with
  | YNode _ style tag value anchor alias head line foot ln col _ =>
      CNode k (map_yaml_style style) tag value anchor (alias_name alias) head line foot ln col is_key key [] content
  end.

Fixpoint index_text_aux (fuel : nat) (n : N) (acc : str) : str :=
  match fuel with
  | O => acc
  | S f => if n <? 10 then (48 + n) :: acc else index_text_aux f (n / 10) ((48 + n mod 10) :: acc)
  end.
Definition index_text (n : N) : str := index_text_aux (S (N.to_nat (N.log2 n))) n [].

Definition is_yscalar (c : ynode) : bool := match y_kind c with YScalar => true | _ => false end.

(* decodeIntoChild, over the conversion [fy] of the level below: a scalar
   child tagged !!null is copied directly *)
Definition decode_child (fy : bool -> option (str * str) -> ynode -> option cnode)
           (is_key : bool) (key : option (str * str)) (c : ynode) : option cnode :=
  if str_eqb (y_tag c) t_null && is_yscalar c then Some (copy_from CScalar c is_key key [])
  else fy is_key key c.

Definition seq_items (fy : bool -> option (str * str) -> ynode -> option cnode) : N -> list ynode -> option (list cnode) :=
  fix items (i : N) (l : list ynode) : option (list cnode) :=
    match l with
    | [] => Some []
    | c :: r =>
        match decode_child fy false (Some (t_int, index_text i)) c, items (i + 1) r with
        | Some c', Some r' => Some (c' :: r')
        | _, _ => None
        end
    end.

Definition map_pairs (fy : bool -> option (str * str) -> ynode -> option cnode) : list ynode -> option (list cnode) :=
  fix pairs (l : list ynode) : option (list cnode) :=
    match l with
    | k :: v :: r =>
        match decode_child fy true None k with
        | Some k' =>
            match decode_child fy false (Some (c_tag k', c_value k')) v, pairs r with
            | Some v', Some r' => Some (k' :: v' :: r')
            | _, _ => None
            end
        | None => None
        end
    | _ => Some []
    end.

(* UnmarshalYAML.  None: the error branch (a document node anywhere below the
   top).  A mapping with an odd number of children makes the Go code index out
   of range; yaml.v3 never builds one and the theorems exclude it (ywf); here
   the odd last child is dropped. *)
Fixpoint from_y (is_key : bool) (key : option (str * str)) (n : ynode) : option cnode :=
  match n with
  | YNode YAlias _ _ _ _ _ _ _ _ _ _ _ => Some (copy_from CAlias n is_key key [])
  | YNode YScalar _ _ _ _ _ _ _ _ _ _ _ => Some (copy_from CScalar n is_key key [])
  | YNode YZero _ _ _ _ _ _ _ _ _ _ _ => Some (copy_from CZero n is_key key [])
  | YNode YDocument _ _ _ _ _ _ _ _ _ _ _ => None
  | YNode YSequence _ _ _ _ _ _ _ _ _ _ content =>
      match seq_items from_y 0 content with
      | Some cs => Some (copy_from CSequence n is_key key cs)
      | None => None
      end
  | YNode YMapping _ _ _ _ _ _ _ _ _ _ content =>
      match map_pairs from_y content with
      | Some cs => Some (copy_from CMapping n is_key key cs)
      | None => None
      end
  end.

(* ------------------------------------------------------------------ *)
(* CandidateNode -> yaml.Node                                          *)
(* ------------------------------------------------------------------ *)

(* copyToYamlNode: the Alias pointer is not restored (the emitter prints an
   alias node from its Value) *)
Definition copy_to (k : ykind) (c : cnode) (content : list ynode) : ynode :=
  match c with
  | CNode _ style tag value anchor _ head line foot ln col _ _ _ _ =>
      YNode k (map_to_yaml_style style) tag value anchor None head line foot ln col content
  end.

Fixpoint to_y (c : cnode) : ynode :=
  match c with
  | CNode CAlias _ _ _ _ _ _ _ _ _ _ _ _ _ _ => copy_to YAlias c []
  | CNode CScalar _ _ _ _ _ _ _ _ _ _ _ _ _ _ => copy_to YScalar c []
  | CNode CMapping _ _ _ _ _ _ _ _ _ _ _ _ _ content => copy_to YMapping c (map to_y content)
  | CNode CSequence _ _ _ _ _ _ _ _ _ _ _ _ _ content => copy_to YSequence c (map to_y content)
  | CNode CZero _ _ _ _ _ _ _ _ _ _ _ _ _ _ => copy_to YZero c []
  end.

(* what the round trip does to a yaml.Node tree: the alias pointers are
   dropped; every other field of every node comes back *)
Fixpoint norm (n : ynode) : ynode :=
  match n with
  | YNode k style tag value anchor _ head line foot ln col content =>
      YNode k style tag value anchor None head line foot ln col
            (match k with
             | YSequence | YMapping => map norm content
             | _ => []
             end)
  end.

(* shape yaml.v3 builds: mappings have an even number of children, there is
   no document node below the top, scalars/aliases have no children *)
Fixpoint ywf (n : ynode) : bool :=
  match n with
  | YNode k _ _ _ _ _ _ _ _ _ _ content =>
      match k with
      | YDocument => false
      | YSequence => forallb ywf content
      | YMapping => Nat.even (length content) && forallb ywf content
      | _ => match content with [] => true | _ => false end
      end
  end.

(* ------------------------------------------------------------------ *)
(* Decode / Encode around the conversion                               *)
(* ------------------------------------------------------------------ *)

Definition set_comments_leading (c : cnode) (head foot leading : str) : cnode :=
  match c with
  | CNode k s t v a al _ l _ ln col ik key _ content => CNode k s t v a al head l foot ln col ik key leading content
  end.

Definition c_head (n : cnode) := match n with CNode _ _ _ _ _ _ h _ _ _ _ _ _ _ _ => h end.

(* yamlDecoder.Decode on a parsed document node with pending leading content *)
Definition decode_doc (leading : str) (d : ynode) : option cnode :=
  match d with
  | YNode _ _ _ _ _ _ dhead _ dfoot _ _ (root :: _) =>
      match from_y false None root with
      | Some c => Some (set_comments_leading c (dhead ++ c_head c) (dfoot ++ c_foot c) leading)
      | None => None
      end
  | _ => None                              (* yamlNode.Content[0] on an empty document node: index out of range *)
  end.

(* yamlEncoder.Encode: the node handed to yaml.v3 and the trailing content *)
Definition encode_parts (c : cnode) : ynode * str :=
  match to_y c with
  | YNode k s t v a al h l f ln col content => (YNode k s t v a al h l [] ln col content, f)
  end.

(* ------------------------------------------------------------------ *)
(* leading content: processReadStream                                  *)
(* ------------------------------------------------------------------ *)

Definition marker : str :=
  [36; 121; 113; 68; 111; 99; 83; 101; 112; 97; 114; 97; 116; 111; 114; 36].   (* $yqDocSeparator$ *)

(* regexp \s = tab, newline, form feed, carriage return, space *)
Definition is_sp (c : N) : bool := (c =? 32) || (c =? 9) || (c =? 10) || (c =? 13) || (c =? 12).

(* ^\s*# on a string *)
Fixpoint comment_re (s : str) : bool :=
  match s with
  | [] => false
  | c :: r => if c =? 35 then true else if is_sp c then comment_re r else false
  end.

(* ^\s*%YA on a string *)
Fixpoint directive_re (s : str) : bool :=
  match s with
  | [] => false
  | c :: r =>
      if c =? 37 then match r with 89 :: 65 :: _ => true | _ => false end
      else if is_sp c then directive_re r else false
  end.

(* bufio ReadString(newline): (line with its terminator, rest, hit EOF first) *)
Fixpoint read_line (s : str) : str * str * bool :=
  match s with
  | [] => ([], [], true)
  | c :: r => if c =? 10 then ([10], r, false)
              else let '(l, rest, eof) := read_line r in (c :: l, rest, eof)
  end.

Inductive step := Stop | Blank | Sep | Line.

Definition sep_sp : str := [45; 45; 45; 32].
Definition sep_nl : str := [45; 45; 45; 10].

(* the decision taken on the peeked bytes: up to 4, fewer only at the end of
   the stream; nothing left: stop *)
Definition classify (s : str) : step :=
  match s with
  | [] => Stop
  | a :: _ =>
      let w := firstn 4 s in
      if a =? 10 then Blank
      else if str_eqb w sep_sp || str_eqb w sep_nl then Sep
      else if comment_re w || directive_re w then Line
      else Stop
  end.

Fixpoint prs (fuel : nat) (s : str) (sb : str) : str * str :=
  match fuel with
  | O => (sb, s)
  | S f =>
      match classify s with
      | Stop => (sb, s)
      | Blank => prs f (tl s) (sb ++ [10])
      | Sep => prs f (skipn 4 s) (sb ++ marker ++ [10])
      | Line => let '(l, rest, eof) := read_line s in
                if eof then (sb ++ l, []) else prs f rest (sb ++ l)
      end
  end.

(* processReadStream: (leading content, what the YAML parser gets) *)
Definition process_read_stream (s : str) : str * str := prs (S (length s)) s [].

(* ------------------------------------------------------------------ *)
(* leading content: PrintLeadingContent (PrintDocSeparators on, no colours) *)
(* ------------------------------------------------------------------ *)

Fixpoint contains (sub s : str) : bool :=
  match s with
  | [] => match sub with [] => true | _ => false end
  | _ :: r => (fix pre (p t : str) : bool :=
                 match p, t with
                 | [], _ => true
                 | a :: p', b :: t' => (a =? b) && pre p' t'
                 | _, [] => false
                 end) sub s || contains sub r
  end.

(* strings.TrimSpace leaves nothing (ASCII white space; a line of non-ASCII
   Unicode spaces only is outside the model) *)
Definition is_tsp (c : N) : bool := (c =? 32) || (c =? 9) || (c =? 10) || (c =? 11) || (c =? 12) || (c =? 13).

Definition out_line (l : str) : str :=
  if str_eqb l (marker ++ [10]) || str_eqb l marker then [45; 45; 45; 10]
  else
    let needs := negb (forallb is_tsp l)
                 && negb (match l with c :: _ => c =? 37 | [] => false end)
                 && negb (comment_re l) in
    if needs then 35 :: 32 :: l else l.

Fixpoint pl (fuel : nat) (s : str) : str :=
  match fuel with
  | O => []
  | S f =>
      match s with
      | [] => []
      | _ => let '(l, rest, eof) := read_line s in
             if eof then out_line l ++ [10] else out_line l ++ pl f rest
      end
  end.

Definition print_leading_content (content : str) : str := pl (S (length content)) content.

(* ------------------------------------------------------------------ *)
(* header lines, for the statement of the leading-content theorems     *)
(* ------------------------------------------------------------------ *)

Inductive hline :=
| HBlank
| HSep
| HComment (pre txt : str).        (* pre # txt newline *)

Definition render_line (h : hline) : str :=
  match h with
  | HBlank => [10]
  | HSep => [45; 45; 45; 10]
  | HComment pre txt => pre ++ 35 :: txt ++ [10]
  end.

Definition content_line (h : hline) : str :=
  match h with
  | HBlank => [10]
  | HSep => marker ++ [10]
  | HComment pre txt => pre ++ 35 :: txt ++ [10]
  end.

Definition render (hs : list hline) : str := flat_map render_line hs.
Definition content_of (hs : list hline) : str := flat_map content_line hs.

(* horizontal white space the comment regexp skips (newline excluded) *)
Definition is_hsp (c : N) : bool := (c =? 32) || (c =? 9) || (c =? 13) || (c =? 12).

Definition hline_ok (h : hline) : bool :=
  match h with
  | HComment pre txt =>
      (Nat.leb (length pre) 3) && forallb is_hsp pre
      && forallb (fun c => negb (c =? 10)) txt
  | _ => true
  end.

(* the body is where processReadStream stops *)
Definition body_ok (b : str) : bool :=
  match classify b with Stop => true | _ => false end.

(* ------------------------------------------------------------------ *)
(* the identity pipeline on a single-document stream, over the library *)
(* ------------------------------------------------------------------ *)

(* yamlEncoder.Encode: yaml.v3 emits the node, then the trailing content *)
Definition emit_doc (yemit : ynode -> str) (c : cnode) : str :=
  let '(y, tr) := encode_parts c in yemit y ++ print_leading_content tr.

(* Init + Decode: yaml.v3 parses what processReadStream left *)
Definition read_doc (yparse : str -> option (list ynode)) (lead t : str) : option cnode :=
  match yparse t with
  | Some [d] => decode_doc lead d
  | _ => None
  end.

(* yq . on a stream holding one document (first document: no separator is printed) *)
Definition yq_pass (yparse : str -> option (list ynode)) (yemit : ynode -> str) (s : str) : option str :=
  let '(lead, rest) := process_read_stream s in
  match read_doc yparse lead rest with
  | Some c => Some (print_leading_content lead ++ emit_doc yemit c)
  | None => None
  end.

Definition y_set_head_foot (n : ynode) (h f : str) : ynode :=
  match n with YNode k s t v a al _ l _ ln col c => YNode k s t v a al h l f ln col c end.

(* ------------------------------------------------------------------ *)
(* serialisation for the correspondence check                          *)
(* ------------------------------------------------------------------ *)

Definition kind_byte_y (k : ykind) : N :=
  match k with YDocument => 68 | YSequence => 81 | YMapping => 77 | YScalar => 83 | YAlias => 65 | YZero => 90 end.
Definition kind_byte_c (k : ckind) : N :=
  match k with CSequence => 81 | CMapping => 77 | CScalar => 83 | CAlias => 65 | CZero => 90 end.

Definition fld (s : str) : str := s ++ [0].
Definition opt_fld (o : option str) : str := match o with Some s => 1 :: s ++ [0] | None => [2; 0] end.

Fixpoint dump_y (n : ynode) : str :=
  match n with
  | YNode k style tag value anchor alias head line foot ln col content =>
      kind_byte_y k :: fld (index_text style) ++ fld tag ++ fld value ++ fld anchor ++ opt_fld alias
        ++ fld head ++ fld line ++ fld foot ++ fld (index_text ln) ++ fld (index_text col)
        ++ 40 :: flat_map dump_y content ++ [41]
  end.

Fixpoint dump_c (n : cnode) : str :=
  match n with
  | CNode k style tag value anchor alias head line foot ln col is_key key leading content =>
      kind_byte_c k :: fld (index_text style) ++ fld tag ++ fld value ++ fld anchor ++ opt_fld alias
        ++ fld head ++ fld line ++ fld foot ++ fld (index_text ln) ++ fld (index_text col)
        ++ (if is_key then [75] else [107])
        ++ match key with Some (t, v) => 1 :: t ++ 0 :: v ++ [0] | None => [2; 0] end
        ++ 40 :: flat_map dump_c content ++ [41]
  end.

(* conversion of one parsed root: candidate dump, then the yaml.Node dump of MarshalYAML *)
Definition model_conv (n : ynode) : str :=
  match from_y false None n with
  | Some c => dump_c c ++ 124 :: dump_y (to_y c)
  | None => [69; 82; 82]
  end.

Definition model_process (s : str) : str := let '(l, r) := process_read_stream s in l ++ 0 :: r.
