(* Model/Stream.v -- executable model of the two evaluation drivers:
     pkg/yqlib/stream_evaluator.go  (EvaluateFiles / Evaluate / EvaluateNew)
     pkg/yqlib/all_at_once_evaluator.go (EvaluateFiles) + utils.go readDocuments
   with the part of pkg/yqlib/decoder_yaml.go (Init / Decode) that decides
   how many documents a file yields and which of them carries the leading
   content.  No proofs here.

   A file is abstract: its name, the leading content lines that
   processReadStream would strip (comment / blank / directive lines and the
   marker for a leading document start), the bodies of its documents (abstract
   payloads [P]), and whether the decoder reports an error after them (bad
   YAML; an unreadable file behaves like a bad file without documents).

   The expression is abstract: [ev t ds] is DataTreeNavigator.GetMatchingNodes
   on a context holding the documents [ds], with the parsed expression tree
   in state [t]; it returns the results (None = evaluation error) and the
   tree afterwards (some handlers assign into the tree, e.g. sortOperator
   sets RHS).  All theorems quantify over [ev]. *)
From YQ Require Import Base.Str Model.Printer.

Section Stream.
Variables P R T : Type.
Variable blank : P.                        (* createScalarNode(nil, empty): the null scalar *)
Variable absorb : list litem -> P -> P.    (* yaml.v3 reading leading lines itself (no pre-processing): they end up inside the first document *)
Variable pfail : res R -> bool.
Variable parentless : res R -> bool.       (* the result node has no Parent: it was cut loose from the document *)

Record file := mkFile { f_name : str; f_lead : list litem; f_bodies : list P; f_bad : bool }.

(* a decoded document before the evaluator stamps it *)
Record doc := mkDoc { d_lead : list litem; d_body : P }.

(* a stamped document: candidateNode.fileIndex / document / filename /
   EvaluateTogether / LeadingContent + the payload *)
Record sdoc := mkSdoc { s_file : N; s_doc : N; s_name : str; s_together : bool; s_lead : list litem; s_body : P }.

Variable ev : T -> list sdoc -> option (list (res R)) * T.
Variable t0 : T.                           (* ExpressionParser.ParseExpression(expression) *)

Definition is_nil {A} (l : list A) : bool := match l with [] => true | _ => false end.

(* yamlDecoder.Init + the Decode calls up to EOF / error.
   [pre] = leading content is pre-processed for this Init
   (LeadingContentPreProcessing && (!EvaluateTogether || firstFile)).
   With pre-processing the first document carries the leading content, and a
   file with leading content but no document yields one blank node carrying
   it; without, yaml.v3 sees the lines itself.
   Restrictions (kept out of the generators): without pre-processing a file
   that consists of a document start line only is read by yaml.v3 as one null
   document (the model says: no document); processReadStream peeks 4 bytes,
   so a last leading line shorter than 4 bytes at the very end of a file is
   not taken as leading content. *)
Definition decode (pre : bool) (fl : file) : list doc :=
  match f_bodies fl with
  | [] => if pre && negb (is_nil (f_lead fl)) && negb (f_bad fl) then [mkDoc (f_lead fl) blank] else []
  | b :: bs =>
      (if pre then mkDoc (f_lead fl) b else mkDoc [] (absorb (f_lead fl) b)) :: List.map (mkDoc []) bs
  end.

(* the node EvaluateNew / the all-at-once evaluator make up when nothing was read *)
Definition null_sdoc : sdoc := mkSdoc 0 0 [] false [] blank.

(* ------------------------------------------------------------------ *)
(* stream evaluator                                                    *)
(* ------------------------------------------------------------------ *)

(* streamEvaluator.Evaluate stamps results without Parent with the position of
   the document being processed (repair in /repo; before it they reported
   document 0 of file 0).  A node made during evaluation without Parent has
   zero document / file index, so EvaluateNew (null document at 0 / 0) is
   modelled with the same stamping. *)
Definition stamp (fi cur : N) (r : res R) : res R :=
  if parentless r then mkRes cur fi (r_lead r) (r_val r) else r.

(* events of one PrintResults call, tagged with the document the driver was processing *)
Record block := mkBlock { b_doc : sdoc; b_events : list (event R) }.

Definition flat (bs : list block) : list (event R) := flat_map b_events bs.

(* the for loop of streamEvaluator.Evaluate: [fi] = s.fileIndex, [cur] = currentIndex.
   returns currentIndex, the printer state, the tree, the output, the status *)
Fixpoint eval_docs (cfg : pcfg) (name : str) (fi cur : N) (ds : list doc) (ps : pstate) (t : T)
  : N * pstate * T * list block * status :=
  match ds with
  | [] => (cur, ps, t, [], Done)
  | d :: ds' =>
      let sd := mkSdoc fi cur name false (d_lead d) (d_body d) in
      match ev t [sd] with
      | (None, t1) => (cur, ps, t1, [], Failed)
      | (Some rs, t1) =>
          let '(ps1, es, s) := print_results pfail cfg ps (List.map (stamp fi cur) rs) in
          match s with
          | Failed => (cur, ps1, t1, [mkBlock sd es], Failed)
          | Done =>
              let '(n, ps2, t2, bs, s2) := eval_docs cfg name fi (cur + 1) ds' ps1 t1 in
              (n, ps2, t2, mkBlock sd es :: bs, s2)
          end
      end
  end.

(* state carried across files by EvaluateFiles: s.fileIndex, the printer, the tree, totalProcessDocs *)
Record sstate := mkSs { file_index : N; pr : pstate; tree : T; total : N }.

(* one iteration of the loop of EvaluateFiles (readStream, Evaluate) *)
Definition eval_file (cfg : pcfg) (st : sstate) (fl : file) : sstate * list block * status :=
  let '(n, ps, t, bs, s) := eval_docs cfg (f_name fl) (file_index st) 0 (decode true fl) (pr st) (tree st) in
  match s with
  | Failed => (mkSs (file_index st) ps t (total st + n), bs, Failed)
  | Done =>
      if f_bad fl then (mkSs (file_index st) ps t (total st + n), bs, Failed)
      else (mkSs (file_index st + 1) ps t (total st + n), bs, Done)
  end.

Fixpoint eval_files (cfg : pcfg) (st : sstate) (fs : list file) : sstate * list block * status :=
  match fs with
  | [] => (st, [], Done)
  | fl :: fs' =>
      let '(st1, bs1, s1) := eval_file cfg st fl in
      match s1 with
      | Failed => (st1, bs1, Failed)
      | Done => let '(st2, bs2, s2) := eval_files cfg st1 fs' in (st2, bs1 ++ bs2, s2)
      end
  end.

(* EvaluateNew: parses the expression again, evaluates it on the null node *)
Definition eval_new (cfg : pcfg) (ps : pstate) : list block * status :=
  match fst (ev t0 [null_sdoc]) with
  | None => ([], Failed)
  | Some rs => let '(_, es, s) := print_results pfail cfg ps (List.map (stamp 0 0) rs) in ([mkBlock null_sdoc es], s)
  end.

(* streamEvaluator.EvaluateFiles with a new evaluator and a new printer *)
Definition run_seq_blocks (cfg : pcfg) (fs : list file) : list block * status :=
  let '(st, bs, s) := eval_files cfg (mkSs 0 ps0 t0 0) fs in
  match s with
  | Failed => (bs, Failed)
  | Done =>
      if total st =? 0 then let '(bs2, s2) := eval_new cfg (pr st) in (bs ++ bs2, s2)
      else (bs, Done)
  end.

Definition run_seq (cfg : pcfg) (fs : list file) : list (event R) * status :=
  let '(bs, s) := run_seq_blocks cfg fs in (flat bs, s).

(* ------------------------------------------------------------------ *)
(* all-at-once evaluator                                               *)
(* ------------------------------------------------------------------ *)

(* readDocuments: stamps document / filename / fileIndex / EvaluateTogether *)
Fixpoint stamp_together (fi cur : N) (name : str) (ds : list doc) : list sdoc :=
  match ds with
  | [] => []
  | d :: ds' => mkSdoc fi cur name true (d_lead d) (d_body d) :: stamp_together fi (cur + 1) name ds'
  end.

(* the loop of allAtOnceEvaluator.EvaluateFiles; [firstf] = decoder.firstFile *)
Fixpoint read_all (firstf : bool) (fi : N) (fs : list file) : option (list sdoc) :=
  match fs with
  | [] => Some []
  | fl :: fs' =>
      if f_bad fl then None
      else match read_all false (fi + 1) fs' with
           | None => None
           | Some rest => Some (stamp_together fi 0 (f_name fl) (decode firstf fl) ++ rest)
           end
  end.

Definition run_all (cfg : pcfg) (fs : list file) : list (event R) * status :=
  match read_all true 0 fs with
  | None => ([], Failed)
  | Some ds =>
      let ds' := if is_nil ds then [null_sdoc] else ds in
      match fst (ev t0 ds') with
      | None => ([], Failed)
      | Some rs => let '(_, es, s) := print_results pfail cfg ps0 rs in (es, s)
      end
  end.

End Stream.

Arguments mkFile {P}. Arguments f_name {P}. Arguments f_lead {P}. Arguments f_bodies {P}. Arguments f_bad {P}.
Arguments mkDoc {P}. Arguments d_lead {P}. Arguments d_body {P}.
Arguments mkSdoc {P}. Arguments s_file {P}. Arguments s_doc {P}. Arguments s_name {P}.
Arguments s_together {P}. Arguments s_lead {P}. Arguments s_body {P}.
Arguments mkBlock {P R}. Arguments b_doc {P R}. Arguments b_events {P R}.
Arguments flat {P R}.
Arguments decode {P}. Arguments null_sdoc {P}.
Arguments mkSs {T}. Arguments file_index {T}. Arguments pr {T}. Arguments tree {T}. Arguments total {T}.
Arguments stamp {R}. Arguments eval_docs {P R T}. Arguments eval_file {P R T}. Arguments eval_files {P R T}.
Arguments eval_new {P R T}. Arguments run_seq_blocks {P R T}. Arguments run_seq {P R T}.
Arguments stamp_together {P}. Arguments read_all {P}. Arguments run_all {P R T}.

(* sortOperator assigns expressionNode.RHS (a self-reference node) on the
   shared parsed tree and then runs sortByOperator, which reads
   expressionNode.RHS.  Tree state = the RHS slot of the sort node. *)
Section SortTree.
Variables P R E : Type.
Variable self : E.                                   (* ExpressionNode of selfReferenceOpType *)
Variable sort_by : option E -> list (sdoc P) -> option (list (res R)).   (* sortByOperator, reading RHS *)
Definition sort_ev (rhs : option E) (ds : list (sdoc P)) : option (list (res R)) * option E :=
  let rhs' := Some self in (sort_by rhs' ds, rhs').
End SortTree.
Arguments sort_ev {P R E}.
