(* Model/Printer.v -- executable model of pkg/yqlib/printer.go:PrintResults
   (the separator state machine) over abstract results.  No proofs here.

   What is kept of a result node: the document index and file index that
   GetDocument / GetFileIndex report for it (they defer to the root of the
   Parent chain, so a result cut loose from its document reports 0 / 0), its
   LeadingContent as a list of lines, and an abstract payload (what the
   encoder prints).  What is kept of the encoder: whether
   PrintDocumentSeparator writes anything (YAML without -N), whether
   PrintLeadingContent writes anything (YAML only), NUL-separated mode.

   printer state (resultsPrinter): firstTimePrinting, previousDocIndex,
   previousFileIndex; both indices are assigned after every printed node
   (previousFileIndex used to be assigned in the firstTimePrinting branch
   only: repaired in /repo).

   Not modelled: the appendix reader (front matter), the multi-file
   printer writer (-s), colours; partial output of a node whose encoding
   fails after more than one bufio buffer (the model drops the events of the
   failing node, which is what happens for nodes below 4096 bytes because the
   writer is only flushed after a node has been printed completely). *)
From YQ Require Import Base.Str.

(* one line of CandidateNode.LeadingContent as yamlDecoder.processReadStream
   builds it: the marker line for a leading document start, or a comment /
   blank / directive line (kept with its newline) *)
Inductive litem := LSep | LLine (t : str).

(* regexp ^\$yqDocSeparator\$ on LeadingContent *)
Definition starts_with_sep (l : list litem) : bool :=
  match l with LSep :: _ => true | _ => false end.

Record pcfg := mkCfg {
  print_seps : bool;   (* encoder.PrintDocumentSeparator writes the separator: YAML and not -N *)
  print_lead : bool;   (* encoder.PrintLeadingContent writes: YAML *)
  nul_sep : bool       (* SetNulSepOutput(true) *)
}.

Record pstate := mkPs { first_time : bool; prev_doc : N; prev_file : N }.

(* NewPrinter *)
Definition ps0 : pstate := mkPs true 0 0.

Inductive status := Done | Failed.

Section Printer.
Variable R : Type.   (* abstract payload of a result *)

Record res := mkRes { r_doc : N; r_file : N; r_lead : list litem; r_val : R }.

Inductive event :=
| Sep                                  (* PrintDocumentSeparator called from PrintResults *)
| LeadSep                              (* PrintDocumentSeparator called from PrintLeadingContent *)
| LeadLine (t : str)                   (* a leading-content line written through *)
| Res (fi di : N) (j : N) (v : R)      (* node j of this PrintResults call, with the indices it reports *)
| Nul.                                 (* NUL terminator of the NUL-separated mode *)

(* printNode / the NUL check failing: encoder error, or a NUL byte in the
   chunk in NUL-separated mode.  Abstract. *)
Variable pfail : res -> bool.

Definition doc_sep (cfg : pcfg) : list event := if print_seps cfg then [Sep] else [].

Definition lead_event (cfg : pcfg) (it : litem) : list event :=
  match it with
  | LSep => if print_seps cfg then [LeadSep] else []
  | LLine t => [LeadLine t]
  end.

Definition lead_events (cfg : pcfg) (l : list litem) : list event :=
  if print_lead cfg then flat_map (lead_event cfg) l else [].

(* the condition of the if around PrintDocumentSeparator *)
Definition need_sep (st : pstate) (r : res) : bool :=
  (negb (prev_doc st =? r_doc r) || negb (prev_file st =? r_file r)) && negb (starts_with_sep (r_lead r)).

(* what one node contributes apart from the separator *)
Definition node_events (cfg : pcfg) (j : N) (r : res) : list event :=
  lead_events cfg (r_lead r) ++ [Res (r_file r) (r_doc r) j (r_val r)] ++ (if nul_sep cfg then [Nul] else []).

(* one iteration of the loop body *)
Definition print_one (cfg : pcfg) (st : pstate) (j : N) (r : res) : pstate * list event :=
  (mkPs (first_time st) (r_doc r) (r_file r),
   (if need_sep st r then doc_sep cfg else []) ++ node_events cfg j r).

Fixpoint print_loop (cfg : pcfg) (st : pstate) (j : N) (rs : list res) : pstate * list event * status :=
  match rs with
  | [] => (st, [], Done)
  | r :: rs' =>
      if pfail r then (st, [], Failed)
      else
        let '(st1, e1) := print_one cfg st j r in
        let '(st2, e2, s) := print_loop cfg st1 (j + 1) rs' in
        (st2, e1 ++ e2, s)
  end.

(* PrintResults *)
Definition print_results (cfg : pcfg) (st : pstate) (rs : list res) : pstate * list event * status :=
  match rs with
  | [] => (st, [], Done)
  | r0 :: _ =>
      let st1 := if first_time st then mkPs false (r_doc r0) (r_file r0) else st in
      print_loop cfg st1 0 rs
  end.

End Printer.

Arguments mkRes {R}.
Arguments r_doc {R}. Arguments r_file {R}. Arguments r_lead {R}. Arguments r_val {R}.
Arguments Sep {R}. Arguments LeadSep {R}. Arguments LeadLine {R}. Arguments Res {R}. Arguments Nul {R}.
Arguments doc_sep {R}. Arguments lead_event {R}. Arguments lead_events {R}. Arguments need_sep {R}.
Arguments node_events {R}. Arguments print_one {R}. Arguments print_loop {R}. Arguments print_results {R}.
