(* Props/C19.v -- exit status and output tell the truth.  Property theorems only.
   Model: Model/Cli.v (run : cli -> world -> outcome) over the regenerated
   table Gen/Formats.v; spec: Spec/CliSpec.v (expected = the results a complete
   run must print).  The theorems quantify over all command lines and all
   worlds (any number of files and documents, errors at any position). *)
From Coq Require Import List NArith String.
From YQ Require Import Base.Str Gen.Formats Model.Cli Spec.CliSpec Proofs.CliProofs.
Import ListNotations.

(* exit 0 exactly when the formats are usable, the expression parses, every
   file exists, every document decodes and evaluates, Encode returns nil for
   every result AND the flush of its bytes to the output succeeds, and -e (if
   given) saw a result other than null / false *)
Theorem C19_exit0_iff_complete : forall c w,
  has_input c = true -> (o_exit (run c w) = 0%N <-> complete_run c w).
Proof. exact exit0_iff_complete. Qed.
Print Assumptions C19_exit0_iff_complete.

(* on exit 0 every expected result went through Encode in order; the bytes on
   stdout are those of the results the encoder really wrote -- all of them
   whenever no swallowing case occurs (all_complete) *)
Theorem C19_exit0_output : forall c w fid rs,
  has_input c = true -> o_exit (run c w) = 0%N ->
  usable_formats c = Some fid -> expected c w = Some rs ->
  o_encoded (run c w) = ids rs /\ o_shown (run c w) = shown_ids fid (c_nul c) rs
  /\ (all_complete fid (c_nul c) rs = true -> o_shown (run c w) = ids rs).
Proof. exact exit0_output. Qed.
Print Assumptions C19_exit0_output.

(* a failed write of any result to the output (full device, closed or read-only
   stdout) is a failure: no exit 0 *)
Theorem C19_failed_write_fails : forall c w fid rs r,
  has_input c = true -> usable_formats c = Some fid -> expected c w = Some rs ->
  In r rs -> w_flush_ok w (r_id r) = false -> o_exit (run c w) <> 0%N.
Proof. exact failed_write_fails. Qed.
Print Assumptions C19_failed_write_fails.

(* any failure: non-zero exit and a message on stderr, and only then *)
Theorem C19_stderr_iff_failure : forall c w,
  has_input c = true -> (o_stderr (run c w) = true <-> o_exit (run c w) <> 0%N).
Proof. exact stderr_iff_failure. Qed.
Print Assumptions C19_stderr_iff_failure.

(* -e on an otherwise successful run: exit 1 exactly when there is no result
   or no result counts as a match (isTruthyNode) ... *)
Theorem C19_e_flag : forall c w fid rs,
  has_input c = true -> c_exit_status c = true ->
  usable_formats c = Some fid -> expected c w = Some rs -> all_encoded (w_flush_ok w) fid (c_nul c) rs = true ->
  (o_exit (run c w) = 1%N <-> Forall (fun r => not_a_match (r_node r) = true) rs).
Proof. exact e_flag. Qed.
Print Assumptions C19_e_flag.

(* ... which is the documented rule -- no result, or every result null or
   false -- for booleans in any of the spellings YAML resolves (False / FALSE
   used to count as a match; fixed in /repo, see KNOWN_FINDINGS) *)
Theorem C19_e_flag_documented : forall c w fid rs,
  has_input c = true -> c_exit_status c = true ->
  usable_formats c = Some fid -> expected c w = Some rs -> all_encoded (w_flush_ok w) fid (c_nul c) rs = true ->
  Forall (fun r => bool_well_spelled (r_node r) = true) rs ->
  (o_exit (run c w) = 1%N <-> Forall (fun r => null_or_false (r_node r) = true) rs).
Proof. exact e_flag_documented. Qed.
Print Assumptions C19_e_flag_documented.

(* -n: the outcome does not depend on any file or on stdin (only on the expression and on whether
   the output accepts the writes); files together with -n are rejected *)
Theorem C19_n_reads_nothing : forall c w1 w2,
  c_null c = true -> w_expr_ok w1 = w_expr_ok w2 -> w_null_out w1 = w_null_out w2 ->
  w_flush_ok w1 = w_flush_ok w2 ->
  run c w1 = run c w2.
Proof. exact n_reads_nothing. Qed.
Print Assumptions C19_n_reads_nothing.

Theorem C19_n_rejects_files : forall c w, c_null c = true -> c_files c <> [] -> o_exit (run c w) = 1%N.
Proof. exact n_rejects_files. Qed.
Print Assumptions C19_n_rejects_files.

(* automatic formats: both are the lower-cased extension of the FIRST file if
   the table knows it, yaml otherwise (no extension, unknown extension, stdin) *)
Theorem C19_auto_format_first_file : forall c i o u,
  is_auto (c_p c) = true -> is_auto (c_o c) = true -> c_tojson c = false ->
  init_command c = InitOk i o u -> i = auto_format c /\ o = auto_format c.
Proof. exact auto_format_first_file. Qed.
Print Assumptions C19_auto_format_first_file.

(* obligation over the table regenerated from format.go: every formal name
   and alias resolves to the format that lists it (no shadowing) *)
Theorem C19_format_names_resolve : forall f n,
  In f formats -> In n (fmt_formal f :: fmt_names f) -> n <> [] ->
  exists g, format_from_string n = Some g /\ fmt_id g = fmt_id f.
Proof. exact names_resolve. Qed.
Print Assumptions C19_format_names_resolve.

(* ------------------------------------------------------------------ *)
(* refutations of the full statement on the faithful model *)
Definition sc (s : string) : node := NScalar TagStr (str_of_string s).
Definition w_one (n : node) : world :=
  mkWorld (fun _ => Docs [DocOk (EvalOk [mkRes 1 n])]) true (EvalOk []) (EvalOk [mkRes 1 n]) (fun _ => true).
Definition cli_o (o : string) (nul e : bool) : cli :=
  mkCli false [] (str_of_string o) false [str_of_string "f.yml"] false false false false None e nul.

(* -o=csv / -o=tsv of objects whose header row cannot be written (a non-scalar
   key in the first object, e.g. [{? [1,2] : 3}]) is an error (was swallowed:
   exit 0 with empty output; fixed in /repo bca2291) *)
Theorem C19_csv_header_error_reported : forall nul l rest,
  csv_row_ok (map_keys (NMap l)) = false ->
  enc_class id_CSVFormat nul (NSeq (NMap l :: rest)) = EncErr /\
  enc_class id_TSVFormat nul (NSeq (NMap l :: rest)) = EncErr.
Proof. exact csv_header_error. Qed.
Print Assumptions C19_csv_header_error_reported.

(* -0 (NUL separated output) does not change what an encoder accepts or
   completes (csv/tsv sequences and xml maps used to come out empty; fixed in
   /repo a492170); tied to the binary by the plain / -0 halves of the encoder table *)
Theorem C19_nul_output_same_class : forall fid n, enc_class fid true n = enc_class fid false n.
Proof. exact nul_same_class. Qed.
Print Assumptions C19_nul_output_same_class.

(* a mapping key that is not a scalar is printed as an empty name (json) or
   dropped (props, shell) with exit 0 *)
Theorem C19_complex_key_refuted :
  let n := NMap [(NSeq [sc "a"], sc "v")] in
  enc_class id_JSONFormat false n = EncOk false /\
  enc_class id_PropertiesFormat false n = EncOk false /\
  enc_class id_ShellVariablesFormat false n = EncOk false.
Proof. cbv zeta. repeat split; vm_compute; reflexivity. Qed.
Print Assumptions C19_complex_key_refuted.

(* an extension naming a format without decoder (x.sh, x.s, -p=shell) is an
   ordinary error: exit 1 with a message (was a nil-pointer panic, fixed in /repo 2c3a0ea) *)
Example C19_decoderless_format_error :
  run (mkCli false [] [] false [str_of_string "x.sh"] false false false false None false false) (w_one (sc "v"))
  = mkOut 1 [] [] true false.
Proof. vm_compute. reflexivity. Qed.

(* non-vacuity: three files, an undecodable document in the second: exit 1,
   the results before it are on stdout; without it: exit 0 and everything *)
Example C19_example :
  let r k := mkRes k (sc "v") in
  let fs (bad : bool) := fun name : str =>
     if str_eqb name (str_of_string "a.yml") then Docs [DocOk (EvalOk [r 1%N]); DocOk (EvalOk [r 2%N])]
     else if str_eqb name (str_of_string "b.yml") then Docs (DocOk (EvalOk [r 3%N]) :: (if bad then [DocBad] else @nil doc))
     else Docs [DocOk (EvalOk [r 4%N])] in
  let c := mkCli false [] [] false [str_of_string "a.yml"; str_of_string "b.yml"; str_of_string "c.yml"]
                 false false false false None false false in
  let w (bad : bool) := mkWorld (fs bad) true (EvalOk []) (EvalOk []) (fun _ => true) in
  has_input c = true /\
  run c (w true) = mkOut 1 [1; 2; 3]%N [1; 2; 3]%N true false /\
  run c (w false) = mkOut 0 [1; 2; 3; 4]%N [1; 2; 3; 4]%N false false /\
  complete_run c (w false).
Proof.
  cbv zeta. split; [reflexivity|]. split; [vm_compute; reflexivity|]. split; [vm_compute; reflexivity|].
  eexists. eexists. split; [vm_compute; reflexivity|]. split; [vm_compute; reflexivity|].
  split; [vm_compute; reflexivity | intro H; vm_compute in H; discriminate H].
Qed.
