(* Props/C19.v -- exit status and output tell the truth.  Property theorems only.
   Model: Model/Cli.v (run : cli -> world -> outcome) over the regenerated
   table Gen/Formats.v; spec: Spec/CliSpec.v (expected = the results a complete
   run must print).  The theorems quantify over all command lines and all
   worlds (any number of files and documents, errors at any position). *)
From Coq Require Import List NArith String.
From YQ Require Import Base.Str Gen.Formats Model.Cli Spec.CliSpec Proofs.CliProofs.
Import ListNotations.

(* exit 0 exactly when the formats are usable, the expression parses, every
   file exists, every document decodes and evaluates, Encode returns nil for
   every result, and -e (if given) saw a result other than null / false *)
Theorem C19_exit0_iff_complete : forall c w,
  has_input c = true -> (o_exit (run c w) = 0%N <-> complete_run c w).
Proof. exact exit0_iff_complete. Qed.
Print Assumptions C19_exit0_iff_complete.

(* on exit 0 every expected result went through Encode in order; the bytes on
   stdout are those of the results the encoder really wrote -- all of them
   whenever no swallowing case occurs (all_complete) *)
Theorem C19_exit0_output : forall c w fid rs,
  has_input c = true -> o_exit (run c w) = 0%N ->
  usable_formats c = Some fid -> expected c w = Some rs ->
  o_encoded (run c w) = ids rs /\ o_shown (run c w) = shown_ids fid (c_nul c) rs
  /\ (all_complete fid (c_nul c) rs = true -> o_shown (run c w) = ids rs).
Proof. exact exit0_output. Qed.
Print Assumptions C19_exit0_output.

(* any failure: non-zero exit and a message on stderr, and only then *)
Theorem C19_stderr_iff_failure : forall c w,
  has_input c = true -> (o_stderr (run c w) = true <-> o_exit (run c w) <> 0%N).
Proof. exact stderr_iff_failure. Qed.
Print Assumptions C19_stderr_iff_failure.

(* -e on an otherwise successful run: exit 1 exactly when there is no result
   or every result is null or the literal false *)
Theorem C19_e_flag : forall c w fid rs,
  has_input c = true -> c_exit_status c = true ->
  usable_formats c = Some fid -> expected c w = Some rs -> all_encoded fid (c_nul c) rs = true ->
  (o_exit (run c w) = 1%N <-> Forall (fun r => null_or_literal_false (r_node r) = true) rs).
Proof. exact e_flag. Qed.
Print Assumptions C19_e_flag.

(* -n: the outcome does not depend on any file or on stdin; files together with -n are rejected *)
Theorem C19_n_reads_nothing : forall c w1 w2,
  c_null c = true -> w_expr_ok w1 = w_expr_ok w2 -> w_null_out w1 = w_null_out w2 ->
  run c w1 = run c w2.
Proof. exact n_reads_nothing. Qed.
Print Assumptions C19_n_reads_nothing.

Theorem C19_n_rejects_files : forall c w, c_null c = true -> c_files c <> [] -> o_exit (run c w) = 1%N.
Proof. exact n_rejects_files. Qed.
Print Assumptions C19_n_rejects_files.

(* automatic formats: both are the lower-cased extension of the FIRST file if
   the table knows it, yaml otherwise (no extension, unknown extension, stdin) *)
Theorem C19_auto_format_first_file : forall c i o u,
  is_auto (c_p c) = true -> is_auto (c_o c) = true -> c_tojson c = false ->
  init_command c = InitOk i o u -> i = auto_format c /\ o = auto_format c.
Proof. exact auto_format_first_file. Qed.
Print Assumptions C19_auto_format_first_file.

(* obligation over the table regenerated from format.go: every formal name
   and alias resolves to the format that lists it (no shadowing) *)
Theorem C19_format_names_resolve : forall f n,
  In f formats -> In n (fmt_formal f :: fmt_names f) -> n <> [] ->
  exists g, format_from_string n = Some g /\ fmt_id g = fmt_id f.
Proof. exact names_resolve. Qed.
Print Assumptions C19_format_names_resolve.

(* ------------------------------------------------------------------ *)
(* refutations of the full statement on the faithful model *)
Definition sc (s : string) : node := NScalar TagStr (str_of_string s).
Definition w_one (n : node) : world :=
  mkWorld (fun _ => Docs [DocOk (EvalOk [mkRes 1 n])]) true (EvalOk []) (EvalOk [mkRes 1 n]).
Definition cli_o (o : string) (nul e : bool) : cli :=
  mkCli false [] (str_of_string o) false [str_of_string "f.yml"] false false false false None e nul.

(* -o=csv of [{? [1,2] : 3}]: the header row cannot be written, the error is
   swallowed: exit 0, nothing on stdout *)
Definition n_cplx_key : node := NSeq [NMap [(NSeq [sc "1"; sc "2"], sc "3")]].
Theorem C19_csv_swallow_refuted : exists c w fid rs,
  has_input c = true /\ o_exit (run c w) = 0%N /\ usable_formats c = Some fid /\ expected c w = Some rs /\
  rs <> [] /\ o_shown (run c w) = [].
Proof.
  exists (cli_o "csv" false false), (w_one n_cplx_key). eexists. eexists.
  repeat split; try (vm_compute; reflexivity). vm_compute. discriminate.
Qed.
Print Assumptions C19_csv_swallow_refuted.

(* -0 (NUL separated output) with csv / tsv of a sequence, xml of a map: the
   encoder buffers privately and nobody flushes: exit 0, data dropped *)
Theorem C19_nul_output_drops_refuted :
  enc_class id_CSVFormat true (NSeq [sc "a"; sc "b"]) = EncOk false /\
  enc_class id_TSVFormat true (NSeq [NSeq [sc "a"]]) = EncOk false /\
  enc_class id_XMLFormat true (NMap [(sc "k", sc "v")]) = EncOk false /\
  exists c w, has_input c = true /\ o_exit (run c w) = 0%N /\ o_encoded (run c w) = [1%N] /\ o_shown (run c w) = [].
Proof.
  repeat split; try (vm_compute; reflexivity).
  exists (cli_o "xml" true false), (w_one (NMap [(sc "k", sc "v")])). repeat split; vm_compute; reflexivity.
Qed.
Print Assumptions C19_nul_output_drops_refuted.

(* a mapping key that is not a scalar is printed as an empty name (json) or
   dropped (props, shell) with exit 0 *)
Theorem C19_complex_key_refuted :
  let n := NMap [(NSeq [sc "a"], sc "v")] in
  enc_class id_JSONFormat false n = EncOk false /\
  enc_class id_PropertiesFormat false n = EncOk false /\
  enc_class id_ShellVariablesFormat false n = EncOk false.
Proof. cbv zeta. repeat split; vm_compute; reflexivity. Qed.
Print Assumptions C19_complex_key_refuted.

(* -e: YAML false spelled False / FALSE counts as a match: exit 0 although
   every result is false *)
Theorem C19_e_false_spelling_refuted : exists c w fid rs,
  has_input c = true /\ c_exit_status c = true /\ usable_formats c = Some fid /\ expected c w = Some rs /\
  Forall (fun r => null_or_false (r_node r) = true) rs /\ o_exit (run c w) = 0%N.
Proof.
  exists (cli_o "yaml" false true), (w_one (NScalar TagBool (str_of_string "False"))). eexists. eexists.
  split; [vm_compute; reflexivity|]. split; [reflexivity|]. split; [vm_compute; reflexivity|].
  split; [vm_compute; reflexivity|]. split; [|vm_compute; reflexivity].
  constructor; [vm_compute; reflexivity | constructor].
Qed.
Print Assumptions C19_e_false_spelling_refuted.

(* an extension naming a format without decoder (x.sh, x.s, -p=shell): the nil
   DecoderFactory is called: Go panic, exit status 2 (non-zero, with a stack trace) *)
Example C19_decoderless_format_panics :
  o_exit (run (mkCli false [] [] false [str_of_string "x.sh"] false false false false None false false)
              (w_one (sc "v"))) = 2%N.
Proof. vm_compute. reflexivity. Qed.

(* non-vacuity: three files, an undecodable document in the second: exit 1,
   the results before it are on stdout; without it: exit 0 and everything *)
Example C19_example :
  let r k := mkRes k (sc "v") in
  let fs (bad : bool) := fun name : str =>
     if str_eqb name (str_of_string "a.yml") then Docs [DocOk (EvalOk [r 1%N]); DocOk (EvalOk [r 2%N])]
     else if str_eqb name (str_of_string "b.yml") then Docs (DocOk (EvalOk [r 3%N]) :: (if bad then [DocBad] else @nil doc))
     else Docs [DocOk (EvalOk [r 4%N])] in
  let c := mkCli false [] [] false [str_of_string "a.yml"; str_of_string "b.yml"; str_of_string "c.yml"]
                 false false false false None false false in
  let w (bad : bool) := mkWorld (fs bad) true (EvalOk []) (EvalOk []) in
  has_input c = true /\
  run c (w true) = mkOut 1 [1; 2; 3]%N [1; 2; 3]%N true false /\
  run c (w false) = mkOut 0 [1; 2; 3; 4]%N [1; 2; 3; 4]%N false false /\
  complete_run c (w false).
Proof.
  cbv zeta. split; [reflexivity|]. split; [vm_compute; reflexivity|]. split; [vm_compute; reflexivity|].
  eexists. eexists. split; [vm_compute; reflexivity|]. split; [vm_compute; reflexivity|].
  split; [vm_compute; reflexivity | intro H; vm_compute in H; discriminate H].
Qed.
