(* Props/C09.v — parsing honours operator precedence, grouping and layout-insensitivity. *)
From Coq Require Import String.
From YQ Require Import Base.Str Gen.OpTable Model.Postfix Spec.PrecSpec Proofs.PrecTableProofs.
Open Scope N_scope.

(* The regenerated Precedence numbers order every pair of specified operators
   exactly as the specified class relation does. *)
Theorem C09_table_matches_spec :
  forall a b, In a spec_classes -> In b spec_classes ->
  exists pa pb, prec_of (fst a) = Some pa /\ prec_of (fst b) = Some pb /\
                N.compare pa pb = N.compare (snd a) (snd b).
Proof. exact table_matches_spec. Qed.
Print Assumptions C09_table_matches_spec.
