(* Props/C09.v — parsing honours operator precedence, grouping and
   layout-insensitivity.

   Objects: Gen/OpTable.v (regenerated from operation.go on every run),
   Spec/PrecSpec.v (precedence relation between operator classes),
   Model/Postfix.v (ConvertToPostfix), Model/Tree.v (createExpressionTree,
   parse), Spec/PrecGrammar.v (the grammar: operands, f(x), infix, ( ) [ ] { },
   a[i]; okp = parentheses present where this shunting-yard needs them).
   Base/Regex.v + Gen/LexRules.v (regenerated from lexer_participle.go) +
   Model/Lexer.v: the participle driver and Tokenise, so parse_text goes from
   bytes to the operator tree.  Layout-insensitivity is proved for leading
   layout (all inputs) and for fully spaced texts under an executable side
   condition on each token (partial); removing ALL layout between two tokens
   is only tested. *)
From Coq Require Import String.
From YQ Require Import Base.Str Base.Regex Gen.OpTable Gen.LexRules Model.Postfix Model.Tree Model.PostProcess Model.Lexer
  Spec.PrecSpec Spec.PrecGrammar Spec.PrecRaw
  Proofs.PrecTableProofs Proofs.PostfixProofs Proofs.PostProcessProofs Proofs.RegexProofs Proofs.LexerProofs.
Open Scope N_scope.

(* ---- the regenerated table against the specified relation ---- *)

(* The Precedence numbers order every pair of specified operators exactly as
   the class relation does (invariant under monotone renumbering, broken by
   any swap/merge/split of classes). *)
Theorem C09_table_matches_spec :
  forall a b, In a spec_classes -> In b spec_classes ->
  exists pa pb, prec_of (fst a) = Some pa /\ prec_of (fst b) = Some pb /\
                N.compare pa pb = N.compare (snd a) (snd b).
Proof. exact table_matches_spec. Qed.
Print Assumptions C09_table_matches_spec.

(* NumArgs of the operators of the grammar are what the tree builder needs. *)
Theorem C09_table_arity_matches_spec :
  forall a, In a spec_arity -> nargs_of (fst a) = Some (snd a).
Proof. exact table_arity. Qed.
Print Assumptions C09_table_arity_matches_spec.

(* Every operator flagged CheckForPostTraverse binds tighter than the
   SHORT_PIPE / TRAVERSE_ARRAY the post-processing inserts after it. *)
Theorem C09_table_post_traverse_binds :
  forall oi, In oi op_table -> oi_cpt oi = true ->
  exists sp ta, prec_of "shortPipeOpType" = Some sp /\ prec_of "traverseArrayOpType" = Some ta /\
                sp < oi_prec oi /\ ta < oi_prec oi.
Proof. exact table_post_traverse. Qed.
Print Assumptions C09_table_post_traverse_binds.

(* Every operand-like operator of the table (NumArgs <= 1), except del (by
   specification), binds tighter than every infix operator a user can write. *)
Theorem C09_table_operands_bind_tighter :
  forall oi, In oi op_table -> oi_nargs oi <= 1 ->
  (forall n, In n operand_exempt -> oi_var oi <> str_of_string n) ->
  forall n, In n user_infix -> exists p, prec_of n = Some p /\ p < oi_prec oi.
Proof. exact table_operands. Qed.
Print Assumptions C09_table_operands_bind_tighter.

(* min / max are operands like any other (the table gave them the comparison
   number before fix ddd7f9c; they are now inside C09_table_matches_spec):
   `. | min == 1` needs no parentheses and parses as . | (min == 1) *)
Theorem C09_min_max_parsed :
  wf_termb w_minmax_term = true /\
  render (pmin w_minmax_term) = w_minmax_flat /\
  parse w_minmax_flat = Ok (Some (ttree w_minmax_term)).
Proof. exact minmax_parsed. Qed.
Print Assumptions C09_min_max_parsed.

(* ---- shunting-yard and tree builder, unbounded ---- *)

(* (a) the tree builder inverts the postfix listing of every well-formed tree *)
Theorem C09_tree_of_postfix :
  forall t, wf_tree t -> create_expression_tree (postfix_of t) = Ok (Some t).
Proof. exact tree_of_postfix. Qed.
Print Assumptions C09_tree_of_postfix.

(* the stack invariant itself: after the tokens of e the operators of its
   right spine are on the stack and everything else has been emitted *)
Theorem C09_stack_invariant :
  forall e, okp e -> forall S R rest, S <> [] -> stack_safe e S -> top_not_ta S ->
  run (render e ++ rest) false false S R =
  run rest true false (List.map SOp (pending e) ++ S) (R ++ emitted e).
Proof. exact run_render. Qed.
Print Assumptions C09_stack_invariant.

(* every expression of the grammar whose parentheses are where the strict-`>`
   shunting-yard needs them parses to the tree it denotes *)
Theorem C09_parse_correct :
  forall e, okp e -> parse (render e) = Ok (Some (tree_of e)).
Proof. exact parse_render. Qed.
Print Assumptions C09_parse_correct.

(* (b) the minimally and the fully parenthesised spelling of every term give
   the same tree, the one the term denotes (equal precedence nests right) *)
Theorem C09_parse_min_eq_full :
  forall t, wf_termb t = true ->
  parse (render (pmin t)) = Ok (Some (ttree t)) /\
  parse (render (pfull t)) = Ok (Some (ttree t)).
Proof. exact parse_min_eq_full. Qed.
Print Assumptions C09_parse_min_eq_full.

(* (c) redundant parentheses around any sub-expressions do not change the tree *)
Theorem C09_redundant_parens :
  forall e e', okp e -> addp e e' -> parse (render e') = parse (render e).
Proof. exact redundant_parens. Qed.
Print Assumptions C09_redundant_parens.

Theorem C09_same_tree_same_parse :
  forall e e', okp e -> okp e' -> tree_of e = tree_of e' -> parse (render e) = parse (render e').
Proof. exact same_tree_same_parse. Qed.
Print Assumptions C09_same_tree_same_parse.

(* (d) unbalanced brackets are rejected, for EVERY token list *)
Theorem C09_unbalanced_rejected :
  forall ts, ~ balanced ts -> exists e, parse ts = Err e.
Proof. exact unbalanced_rejected. Qed.
Print Assumptions C09_unbalanced_rejected.

(* the former exception (`1 ) ( | 2` and `)(` accepted) is gone since fix 673c42d *)
Theorem C09_close_then_open_rejected :
  parse w_close_open = Err (ENoOpen BParen) /\
  parse [TClose BParen false; TOpen BParen] = Err (ENoOpen BParen).
Proof. exact close_open_rejected. Qed.
Print Assumptions C09_close_then_open_rejected.

(* missing operands: (i) every token list in which an operand directly
   follows a complete operand, or a prefix operator without `(`, is rejected
   (postfix / prefix order, f x); (ii) the tree builder accepts exactly the
   postfix lists whose arities add up to one result without underflow, so an
   operator left without an operand is rejected there *)
Theorem C09_missing_operand_rejected :
  (forall ts, ~ no_juxtaposition ts -> exists e, parse ts = Err e) /\
  (forall ops, (exists t, create_expression_tree ops = Ok (Some t)) <->
               (ops <> [] /\ depth_after ops 0 = Some 1%nat)).
Proof. exact (conj juxtaposition_rejected tree_builder_accepts_iff). Qed.
Print Assumptions C09_missing_operand_rejected.

(* `1 2 +`, `+ 1 2`, `1 + select 2` were accepted before fix 665c233 *)
Theorem C09_postfix_order_rejected :
  parse [TOp w_one; TOp w_two; TOp w_add] = Err EBadExpr /\
  parse [TOp w_add; TOp w_one; TOp w_two] = Err EBadExpr /\
  parse [TOp w_one; TOp w_add; TOp w_select; TOp w_two] = Err EBadExpr.
Proof. exact postfix_order_rejected. Qed.
Print Assumptions C09_postfix_order_rejected.

(* chains of equal precedence nest to the right: 1 - 2 - 3 is 1 - (2 - 3) *)
Theorem C09_equal_precedence_nests_right :
  parse [TOp w_one; TOp w_sub; TOp w_two; TOp w_sub; TOp w_three] =
    Ok (Some (Node w_sub (Some (Node w_one None None))
                (Some (Node w_sub (Some (Node w_two None None)) (Some (Node w_three None None)))))) /\
  parse [TOp w_two; TOp w_mul; TOp w_three; TOp w_add; TOp w_one] =
    Ok (Some (Node w_mul (Some (Node w_two None None))
                (Some (Node w_add (Some (Node w_three None None)) (Some (Node w_one None None)))))).
Proof. exact equal_precedence_nests_right. Qed.
Print Assumptions C09_equal_precedence_nests_right.

(* ---- token post-processing (lexer.go handleToken), unbounded ---- *)

(* For every expression of the grammar written as the RAW tokens of the lexer
   (a.b and a[i] without any operator token), for every assignment cptf of
   CheckForPostTraverse flags: postProcessTokens inserts exactly SHORT_PIPE
   and TRAVERSE_ARRAY where the grammar has them and nothing else ... *)
Theorem C09_postprocess_inserts_implicit_operators :
  forall cptf e, rok cptf e -> post_process (rrender cptf e) = render e.
Proof. exact post_process_rrender. Qed.
Print Assumptions C09_postprocess_inserts_implicit_operators.

(* ... hence lexer output to tree: ParseExpression minus the regex lexer *)
Theorem C09_parse_raw_correct :
  forall cptf e, okp e -> rok cptf e -> parse_raw (rrender cptf e) = Ok (Some (tree_of e)).
Proof. exact parse_raw_rrender. Qed.
Print Assumptions C09_parse_raw_correct.

(* at the RAW level a missing operand can still be fabricated: in `[1: ]` the
   `:` has no right operand, handleToken inserts the slice default `length`
   before any `]`, and the expression is accepted (KNOWN_FINDINGS colon-close) *)
Theorem C09_colon_before_close_refuted :
  exists raw o t, List.In (ROp o None false) raw /\ o_nargs o = 2 /\
    List.last raw RTraverseArrayCollect = RClose BCollect false /\
    List.nth 2 raw RTraverseArrayCollect = ROp o None false /\ List.length raw = 4%nat /\
    parse_raw raw = Ok (Some t).
Proof. exact colon_close_refuted. Qed.
Print Assumptions C09_colon_before_close_refuted.

(* ---- the regex lexer (participle driver over the regenerated rules) ---- *)

(* progress / termination: the fuel the model gives itself always suffices,
   and no token is ever zero-width (no rule of the table is nullable) *)
Theorem C09_lex_progress :
  forall s, tokenise_raw s <> LOutOfFuel /\ tokenise_raw s <> LErr LexEmptyMatch.
Proof. exact tokenise_total. Qed.
Print Assumptions C09_lex_progress.

Theorem C09_lex_token_consumes :
  forall s r rest, first_match lex_rules s = Some (r, rest) -> In r lex_rules /\ (List.length rest < List.length s)%nat.
Proof. exact first_match_progress. Qed.
Print Assumptions C09_lex_token_consumes.

(* first-match determinism: the winning rule is the first of the list that matches *)
Theorem C09_lex_first_match :
  forall s r rest, first_match lex_rules s = Some (r, rest) ->
  exists pre post, lex_rules = (pre ++ r :: post)%list /\
    (forall q, In q pre -> rule_match q s = None) /\ rule_match r s = Some rest.
Proof. exact (first_match_spec lex_rules). Qed.
Print Assumptions C09_lex_first_match.

(* leading layout: any run of blanks, TABs and newlines in front of ANY byte
   string changes neither the token list nor the parse (first-character
   analysis of all rules, checked over the regenerated table) *)
Theorem C09_leading_layout_skipped :
  forall ws s, layout_run ws -> bytes s ->
  tokenise_raw (ws ++ s)%list = tokenise_raw s /\ parse_text (ws ++ s)%list = parse_text s.
Proof. exact (fun ws s Hw Hb => conj (leading_layout ws s Hw Hb) (leading_layout_parse ws s Hw Hb)). Qed.
Print Assumptions C09_leading_layout_skipped.

(* a token followed by layout: if t lexes as exactly one token by rule R and
   the executable condition safe_after holds for the layout byte c, then in
   front of c and ANY continuation z it is still that one token, and z is
   lexed as on its own *)
Theorem C09_token_then_layout_partial :
  forall t c z R, first_match lex_rules t = Some (R, []) -> safe_after lex_rules t c = true ->
  in_ranges c layoutW = true -> bytes z ->
  tokenise_raw (t ++ c :: z)%list = lprepend (tok_of R t) (tokenise_raw z).
Proof. exact token_then_layout. Qed.
Print Assumptions C09_token_then_layout_partial.

(* fully spaced texts (token, layout, token, layout ...; a comment before a
   newline counts as a token without yq token): the token list is the
   concatenation of the single tokens and does not depend on which and how
   many layout bytes separate them *)
Theorem C09_spaced_layout_insensitive_partial :
  (forall l, Forall item_ok l ->
     tokenise_raw (spaced l) = LOk (flat_map (fun it : item => tok_text (fst (fst it))) l)) /\
  (forall l1 l2, Forall item_ok l1 -> Forall item_ok l2 ->
     List.map (fun it : item => fst (fst it)) l1 = List.map (fun it : item => fst (fst it)) l2 ->
     tokenise_raw (spaced l1) = tokenise_raw (spaced l2)).
Proof. exact (conj spaced_tokens spaced_layout_insensitive). Qed.
Print Assumptions C09_spaced_layout_insensitive_partial.

(* exceptions, on the model (= the implementation, KNOWN_FINDINGS sub-number):
   removing the blanks around `-` before a digit changes the tokens *)
Theorem C09_layout_minus_number_refuted :
  tokenise_raw (S_ "3 - 1") <> tokenise_raw (S_ "3-1") /\
  tokenise_raw (S_ "3 - 1") <> tokenise_raw (S_ "3 -1") /\
  tokenise_raw (S_ "3-1") = tokenise_raw (S_ "3 -1").
Proof. exact minus_number_layout_sensitive. Qed.
Print Assumptions C09_layout_minus_number_refuted.

(* the side condition is not vacuous: after an unterminated quote following a dot (dot, quote, a) a newline
   (not a blank) lets a later quote turn it into a wrapped path element *)
Theorem C09_layout_unterminated_quote_refuted :
  tokenise_raw (S_ ".""a" ++ nl ++ S_ "b""")%list <> tokenise_raw (S_ ".""a b""") /\
  safe_after lex_rules (S_ ".""a") 10 = false /\ safe_after lex_rules (S_ ".""a") 32 = true.
Proof. exact unterminated_wrapped_path_layout_sensitive. Qed.
Print Assumptions C09_layout_unterminated_quote_refuted.

(* TAB after a path element or `.` is layout since the repair 5a4c6b6 *)
Theorem C09_tab_after_path_is_layout :
  tokenise_raw (S_ ".a" ++ tab ++ S_ "| .b")%list = tokenise_raw (S_ ".a | .b") /\
  tokenise_raw (S_ "." ++ tab ++ S_ "| .b")%list = tokenise_raw (S_ ". | .b") /\
  safe_after lex_rules (S_ ".a") 9 = true /\ safe_after lex_rules (S_ ".") 9 = true.
Proof. exact tab_after_path_is_layout. Qed.
Print Assumptions C09_tab_after_path_is_layout.

(* the hypotheses are satisfiable and the two spellings really differ:
   (1 | 2) + select(.a == 1)[length]?  *)
Example C09_example :
  wf_termb w_example = true /\ okp (pmin w_example) /\ okp (pfull w_example) /\
  render (pmin w_example) <> render (pfull w_example) /\
  List.length (render (pmin w_example)) = 16%nat.
Proof. exact example_ok. Qed.

(* select(.a == 1).b[length]?  from 10 raw tokens to 12 tokens to its tree *)
Example C09_raw_example :
  okp w_raw_example /\ rok w_cptf w_raw_example /\
  List.length (rrender w_cptf w_raw_example) = 10%nat /\
  List.length (render w_raw_example) = 12%nat.
Proof. exact raw_example_ok. Qed.

(* a spaced text with TABs, newlines and a comment full of brackets: the item
   condition holds for every token and the parse is that of `.a | select(.b 12)` *)
Example C09_spaced_example :
  Forall item_ok w_items /\
  parse_text (spaced w_items) = parse_text (S_ ".a | select(.b 12)").
Proof. exact spaced_example. Qed.
