(* Props/C18.v -- property theorems only (each closed by [exact lemma]).  PARTIAL:
   independence of histories and schedules at the granularity of the model's
   steps; the Go memory model and the race detector's verdict are runtime
   matters (searched by the check, not proved).

   Reading guide: [step g x] evaluates request x (expression, document,
   formats, which library objects are re-used) in global state g; the
   abstract functions parse_core / dec_sem / sem / msg are universally
   quantified, so the theorems hold whatever parsing, decoding and evaluating
   compute from the values the model hands them.  The output is a pair
   (value part: bytes + error class, message part: error text).
   The model is the code after the repairs in /repo (envsubst operations carry
   their own type name; load_* operators create a decoder per use; Init clears
   `finished` in the TOML and Lua decoders). *)
From YQ Require Import Base.Str Model.History Model.HistoryInst Proofs.HistoryProofs.

(* The first evaluation of a process yields the pure specification (parse,
   decode with leading-content pre-processing, evaluate under the request's
   preferences; message from the expression's own type names): no hidden input. *)
Theorem C18_function_of_inputs :
  forall (C Pf D DOCS V M : Type) (parse_core : N -> C) (parse_fails : N -> bool) (parse_err : N -> V) (parse_msg : N -> M)
         (env_toks : N -> list etok) (dec_sem : fmt -> bool -> D -> DOCS) (dec_eof : DOCS) (dec_fails : fmt -> D -> bool)
         (sem : C -> Pf -> DOCS -> V) (msg : C -> Pf -> DOCS -> list str -> M) (default_prefs : Pf) x,
  last_out parse_core parse_fails parse_err parse_msg env_toks dec_sem dec_eof dec_fails sem msg default_prefs [] x
  = spec_out C Pf D DOCS V M parse_core parse_fails parse_err parse_msg env_toks dec_sem sem msg default_prefs x.
Proof. exact fresh_is_spec. Qed.
Print Assumptions C18_function_of_inputs.

(* After ANY two histories the whole output (value and message) of the same
   request is the same, provided the request configures its preferences (as
   cmd does) and does not re-use a YAML decoder built for eval-all (refuted
   below: firstFile). *)
Theorem C18_history_independent :
  forall (C Pf D DOCS V M : Type) (parse_core : N -> C) (parse_fails : N -> bool) (parse_err : N -> V) (parse_msg : N -> M)
         (env_toks : N -> list etok) (dec_sem : fmt -> bool -> D -> DOCS) (dec_eof : DOCS) (dec_fails : fmt -> D -> bool)
         (sem : C -> Pf -> DOCS -> V) (msg : C -> Pf -> DOCS -> list str -> M) (default_prefs : Pf) h1 h2 x,
  ok_req Pf D x ->
  last_out parse_core parse_fails parse_err parse_msg env_toks dec_sem dec_eof dec_fails sem msg default_prefs h1 x
  = last_out parse_core parse_fails parse_err parse_msg env_toks dec_sem dec_eof dec_fails sem msg default_prefs h2 x.
Proof. exact history_independent. Qed.
Print Assumptions C18_history_independent.

(* per-field lemmas of the invariant: Init of every decoder (TOML and Lua included) *)
Theorem C18_init_resets_finished : forall f d, d_finished (init f d) = false.
Proof. exact init_resets_finished. Qed.
Print Assumptions C18_init_resets_finished.

Theorem C18_init_resets_read_anything : forall f d, d_read_anything (init f d) = false.
Proof. exact init_resets_read_anything. Qed.
Print Assumptions C18_init_resets_read_anything.

Theorem C18_first_file_read_only_by_yaml_together :
  forall (D DOCS : Type) (dec_sem : fmt -> bool -> D -> DOCS) (dec_eof : DOCS) (dec_fails : fmt -> D -> bool) f together d1 d2 text,
  (f = FYaml -> together = false) ->
  snd (decode_run dec_sem dec_eof dec_fails f together d1 text) = snd (decode_run dec_sem dec_eof dec_fails f together d2 text).
Proof. exact first_file_read_only_by_yaml_together. Qed.
Print Assumptions C18_first_file_read_only_by_yaml_together.

(* xmlEncoder.leadingContent and the RHS slot sortOperator writes in kept
   trees are written by steps and never read by an output: two global states
   that differ only there (and in which trees are kept) give the same output. *)
Theorem C18_unread_fields :
  forall (C Pf D DOCS V M : Type) (parse_core : N -> C) (parse_fails : N -> bool) (parse_err : N -> V) (parse_msg : N -> M)
         (env_toks : N -> list etok) (dec_sem : fmt -> bool -> D -> DOCS) (dec_eof : DOCS) (dec_fails : fmt -> D -> bool)
         (sem : C -> Pf -> DOCS -> V) (msg : C -> Pf -> DOCS -> list str -> M) (g1 g2 : G C Pf) x,
  Inv C Pf parse_core parse_fails env_toks g1 -> Inv C Pf parse_core parse_fails env_toks g2 -> same_but_unread C Pf g1 g2 ->
  snd (step parse_core parse_fails parse_err parse_msg env_toks dec_sem dec_eof dec_fails sem msg g1 x)
  = snd (step parse_core parse_fails parse_err parse_msg env_toks dec_sem dec_eof dec_fails sem msg g2 x).
Proof. exact unread_fields. Qed.
Print Assumptions C18_unread_fields.

(* evaluating on a parsed tree kept from earlier = evaluating on a fresh parse *)
Theorem C18_reuse_tree :
  forall (C Pf D DOCS V M : Type) (parse_core : N -> C) (parse_fails : N -> bool) (parse_err : N -> V) (parse_msg : N -> M)
         (env_toks : N -> list etok) (dec_sem : fmt -> bool -> D -> DOCS) (dec_eof : DOCS) (dec_fails : fmt -> D -> bool)
         (sem : C -> Pf -> DOCS -> V) (msg : C -> Pf -> DOCS -> list str -> M) (g : G C Pf) x,
  Inv C Pf parse_core parse_fails env_toks g ->
  snd (step parse_core parse_fails parse_err parse_msg env_toks dec_sem dec_eof dec_fails sem msg g (with_reuse Pf D true x))
  = snd (step parse_core parse_fails parse_err parse_msg env_toks dec_sem dec_eof dec_fails sem msg g (with_reuse Pf D false x)).
Proof. exact reuse_tree. Qed.
Print Assumptions C18_reuse_tree.

(* Two evaluations on separate evaluators / documents / decoders / printers,
   interleaved by ANY schedule at the granularity of accesses to shared
   objects: since no step writes a shared object, each ends in the private
   state it reaches alone. *)
Theorem C18_interleave :
  forall (Pf : Type) sch (la lb : list action) (s : Pf) pa pb,
  snd (fst (interleave sch s pa pb la lb)) = snd (acts s pa la)
  /\ snd (interleave sch s pa pb la lb) = snd (acts s pb lb).
Proof. exact interleave_both. Qed.
Print Assumptions C18_interleave.

(* ------------------------------------------------------------------ *)
Definition rq (e : N) (f : fmt) (text : N) (together reuse_dec : bool) : request N N :=
  mkReq e false f text together reuse_dec (Some 0) [].

(* remaining refutation: a re-used YAML decoder with EvaluateTogether no longer
   pre-processes leading content (firstFile stays false) *)
Theorem C18_yaml_together_reuse_refuted :
  fst (last_out (fun e : N => e) (fun _ => false) i_perr i_pmsg (toks_of []) i_dec_sem [] (fun _ _ => false) i_sem i_msg 0 [rq 1 FYaml 7 true true] (rq 1 FYaml 8 true true))
    = [1; 0; 0; 0; 8]
  /\ fst (last_out (fun e : N => e) (fun _ => false) i_perr i_pmsg (toks_of []) i_dec_sem [] (fun _ _ => false) i_sem i_msg 0 [] (rq 1 FYaml 8 true true))
    = [1; 0; 0; 1; 8].
Proof. repeat split; vm_compute; reflexivity. Qed.
Print Assumptions C18_yaml_together_reuse_refuted.

(* non-vacuity: a request that re-uses tree and (TOML) decoder meets ok_req; after a history
   that used the same decoder and lexed envsubst(ne) its output is the specification *)
Example C18_example :
  let x := mkReq 1 true FToml 8 false true (Some 3) [] in
  let tb := [(1, [TokPlain]); (2, [TokOpt [sfx_ne]])] in
  ok_req N N x
  /\ last_out (fun e : N => e) (fun _ => false) i_perr i_pmsg (toks_of tb) i_dec_sem [] (fun _ _ => false) i_sem i_msg 0
       [rq 2 FToml 7 false true; x; rq 2 FJson 9 false true] x
     = ([1; 3; 7; 1; 8], c_envsubst ++ [32]).
Proof.
  cbv zeta. split.
  - split; [discriminate|]. right. discriminate.
  - vm_compute. reflexivity.
Qed.
