(* Props/C18.v -- property theorems only (each closed by [exact lemma]).  PARTIAL:
   value independence of histories and schedules at the granularity of the
   model's steps; the Go memory model and the race detector's verdict are
   runtime matters (searched by the check, not proved).

   Reading guide: [step fixinit g x] evaluates request x (expression,
   document, formats, which library objects are re-used) in global state g;
   the abstract functions parse_core / dec_sem / sem / msg are universally
   quantified, so the theorems hold whatever parsing, decoding and evaluating
   compute from the values the model hands them.  The output is a pair
   (value part: bytes + error class, message part: error text).
   fixinit = false is the code as pinned; true = Init also clears `finished`
   in the TOML and Lua decoders. *)
From YQ Require Import Base.Str Model.History Model.HistoryInst Proofs.HistoryProofs.

(* The value part of the first evaluation of a process is the pure specification
   (parse, decode with leading-content pre-processing, evaluate under the
   request's preferences): no hidden input. *)
Theorem C18_function_of_inputs :
  forall (C Pf D DOCS V M : Type) (parse_core : N -> C) (parse_fails : N -> bool) (parse_err : N -> V) (parse_msg : N -> M) (env_toks : N -> list etok)
         (dec_sem : fmt -> bool -> D -> DOCS) (dec_eof : DOCS) (dec_fails : fmt -> D -> bool) (sem : C -> Pf -> DOCS -> V)
         (msg : C -> Pf -> DOCS -> list str -> str -> M) (default_prefs : Pf) fixinit x,
  q_reuse_dec x = false \/ True ->
  fst (last_out parse_core parse_fails parse_err parse_msg env_toks dec_sem dec_eof dec_fails sem msg default_prefs fixinit [] x)
  = spec_value parse_core parse_fails parse_err dec_sem sem default_prefs x.
Proof. exact fresh_is_spec. Qed.
Print Assumptions C18_function_of_inputs.

(* After ANY two histories the value part of the same request is the same,
   provided the request configures its preferences (as cmd does) and, if it
   re-uses a decoder instance, that decoder's Init re-initialises what Decode
   reads: every format but TOML and Lua, and YAML only without
   EvaluateTogether.  (The excluded cases are refuted below.) *)
Theorem C18_history_independent :
  forall (C Pf D DOCS V M : Type) (parse_core : N -> C) (parse_fails : N -> bool) (parse_err : N -> V) (parse_msg : N -> M) (env_toks : N -> list etok)
         (dec_sem : fmt -> bool -> D -> DOCS) (dec_eof : DOCS) (dec_fails : fmt -> D -> bool) (sem : C -> Pf -> DOCS -> V)
         (msg : C -> Pf -> DOCS -> list str -> str -> M) (default_prefs : Pf) fixinit h1 h2 x,
  ok_req Pf D fixinit x ->
  fst (last_out parse_core parse_fails parse_err parse_msg env_toks dec_sem dec_eof dec_fails sem msg default_prefs fixinit h1 x)
  = fst (last_out parse_core parse_fails parse_err parse_msg env_toks dec_sem dec_eof dec_fails sem msg default_prefs fixinit h2 x).
Proof. exact history_independent. Qed.
Print Assumptions C18_history_independent.

(* per-field lemmas of the invariant *)
Theorem C18_init_resets_finished : forall fixinit f d, resets fixinit f -> d_finished (init fixinit f d) = false.
Proof. exact init_resets_finished. Qed.
Print Assumptions C18_init_resets_finished.

Theorem C18_init_resets_read_anything : forall fixinit f d, resets fixinit f -> d_read_anything (init fixinit f d) = false.
Proof. exact init_resets_read_anything. Qed.
Print Assumptions C18_init_resets_read_anything.

Theorem C18_first_file_read_only_by_yaml_together :
  forall (D DOCS : Type) (dec_sem : fmt -> bool -> D -> DOCS) (dec_eof : DOCS) (dec_fails : fmt -> D -> bool) fixinit f together d1 d2 text,
  d_finished d1 = d_finished d2 -> (f = FYaml -> together = false) ->
  snd (decode_run dec_sem dec_eof dec_fails fixinit f together d1 text) = snd (decode_run dec_sem dec_eof dec_fails fixinit f together d2 text).
Proof. exact first_file_read_only_by_yaml_together. Qed.
Print Assumptions C18_first_file_read_only_by_yaml_together.

(* envsubstOpType.Type, xmlEncoder.leadingContent, the RHS slot sortOperator
   writes and the Type copies inside kept trees are written by steps and never
   read by the value part: two global states that differ only there give the
   same value. *)
Theorem C18_unread_fields :
  forall (C Pf D DOCS V M : Type) (parse_core : N -> C) (parse_fails : N -> bool) (parse_err : N -> V) (parse_msg : N -> M) (env_toks : N -> list etok)
         (dec_sem : fmt -> bool -> D -> DOCS) (dec_eof : DOCS) (dec_fails : fmt -> D -> bool) (sem : C -> Pf -> DOCS -> V)
         (msg : C -> Pf -> DOCS -> list str -> str -> M) fixinit (g1 g2 : G C Pf) x,
  Inv C Pf parse_core parse_fails g1 -> Inv C Pf parse_core parse_fails g2 -> same_but_unread C Pf g1 g2 ->
  fst (snd (step parse_core parse_fails parse_err parse_msg env_toks dec_sem dec_eof dec_fails sem msg fixinit g1 x))
  = fst (snd (step parse_core parse_fails parse_err parse_msg env_toks dec_sem dec_eof dec_fails sem msg fixinit g2 x)).
Proof. exact unread_fields. Qed.
Print Assumptions C18_unread_fields.

(* evaluating on a parsed tree kept from earlier = evaluating on a fresh parse *)
Theorem C18_reuse_tree :
  forall (C Pf D DOCS V M : Type) (parse_core : N -> C) (parse_fails : N -> bool) (parse_err : N -> V) (parse_msg : N -> M) (env_toks : N -> list etok)
         (dec_sem : fmt -> bool -> D -> DOCS) (dec_eof : DOCS) (dec_fails : fmt -> D -> bool) (sem : C -> Pf -> DOCS -> V)
         (msg : C -> Pf -> DOCS -> list str -> str -> M) fixinit (g : G C Pf) x,
  Inv C Pf parse_core parse_fails g ->
  fst (snd (step parse_core parse_fails parse_err parse_msg env_toks dec_sem dec_eof dec_fails sem msg fixinit g (with_reuse Pf D true x)))
  = fst (snd (step parse_core parse_fails parse_err parse_msg env_toks dec_sem dec_eof dec_fails sem msg fixinit g (with_reuse Pf D false x))).
Proof. exact reuse_tree. Qed.
Print Assumptions C18_reuse_tree.

(* Two evaluations on separate evaluators / documents / decoders / printers,
   interleaved by ANY schedule at the granularity of accesses to the two
   shared objects (envsubstOpType.Type, the load_* decoder singletons): what
   each one's load operators decode is what they decode alone, provided the
   two do not use the same load_* decoder.  (Nothing else shared is read by a
   value: C18_unread_fields.) *)
Theorem C18_interleave :
  forall (D : Type) sch (la lb : list (action D)) s pa pb,
  disjoint_load D la lb -> disjoint_load D lb la ->
  p_loaded (snd (fst (interleave sch s pa pb la lb))) = p_loaded (snd (acts s pa la))
  /\ p_loaded (snd (interleave sch s pa pb la lb)) = p_loaded (snd (acts s pb lb)).
Proof. exact interleave_both. Qed.
Print Assumptions C18_interleave.

(* ------------------------------------------------------------------ *)
(* refutations on the faithful model                                    *)
(* ------------------------------------------------------------------ *)
Definition rq (e : N) (f : fmt) (text : N) (together reuse_dec : bool) : request N N :=
  mkReq e false f text together reuse_dec (Some 0) [].

(* A re-used TOML (or Lua) decoder yields nothing the second time: Init does not clear `finished`. *)
Theorem C18_toml_decoder_reuse_refuted :
  fst (last_out (fun e : N => e) (fun _ => false) i_perr i_pmsg (toks_of []) i_dec_sem [] (fun _ _ => false) i_sem i_msg 0 false [rq 1 FToml 7 false true] (rq 1 FToml 8 false true))
    = [1; 0]
  /\ fst (last_out (fun e : N => e) (fun _ => false) i_perr i_pmsg (toks_of []) i_dec_sem [] (fun _ _ => false) i_sem i_msg 0 false [] (rq 1 FToml 8 false true))
    = [1; 0; 7; 1; 8]
  /\ fst (last_out (fun e : N => e) (fun _ => false) i_perr i_pmsg (toks_of []) i_dec_sem [] (fun _ _ => false) i_sem i_msg 0 true [rq 1 FToml 7 false true] (rq 1 FToml 8 false true))
    = [1; 0; 7; 1; 8].
Proof. repeat split; vm_compute; reflexivity. Qed.
Print Assumptions C18_toml_decoder_reuse_refuted.

(* A re-used YAML decoder with EvaluateTogether no longer pre-processes leading content (firstFile stays false). *)
Theorem C18_yaml_together_reuse_refuted :
  fst (last_out (fun e : N => e) (fun _ => false) i_perr i_pmsg (toks_of []) i_dec_sem [] (fun _ _ => false) i_sem i_msg 0 false [rq 1 FYaml 7 true true] (rq 1 FYaml 8 true true))
    = [1; 0; 0; 0; 8]
  /\ fst (last_out (fun e : N => e) (fun _ => false) i_perr i_pmsg (toks_of []) i_dec_sem [] (fun _ _ => false) i_sem i_msg 0 false [] (rq 1 FYaml 8 true true))
    = [1; 0; 0; 1; 8].
Proof. repeat split; vm_compute; reflexivity. Qed.
Print Assumptions C18_yaml_together_reuse_refuted.

(* The message part is history dependent: an error message that prints
   OperationType.Type of an envsubst node shows what the LAST lexed
   envsubst(...) left in the global. *)
Theorem C18_message_history_refuted :
  snd (last_out (fun e : N => e) (fun _ => false) i_perr i_pmsg (toks_of [(2, [TokOpt [sfx_ne]])]) i_dec_sem [] (fun _ _ => false) i_sem i_msg 0 false [rq 2 FYaml 7 false false] (rq 1 FYaml 7 false false))
    = c_envsubst ++ sfx_ne
  /\ snd (last_out (fun e : N => e) (fun _ => false) i_perr i_pmsg (toks_of [(2, [TokOpt [sfx_ne]])]) i_dec_sem [] (fun _ _ => false) i_sem i_msg 0 false [] (rq 1 FYaml 7 false false))
    = c_envsubst.
Proof. repeat split; vm_compute; reflexivity. Qed.
Print Assumptions C18_message_history_refuted.

(* Schedules: two evaluations that use the SAME load_* decoder singleton can
   read each other's file; and the Type copy an evaluation takes while lexing
   envsubst(ne) can be the other's. *)
Theorem C18_interleave_shared_load_refuted :
  let la := [ALoadInit LYaml 1; ALoadDecode LYaml] in
  let lb := [ALoadInit LYaml 2; ALoadDecode LYaml] in
  let s := mkSh c_envsubst (fun _ => None) in
  p_loaded (snd (fst (interleave [true; false; true; false] s priv0 priv0 la lb))) = [Some 2]
  /\ p_loaded (snd (acts s priv0 la)) = [Some 1].
Proof. repeat split; vm_compute; reflexivity. Qed.
Print Assumptions C18_interleave_shared_load_refuted.

Theorem C18_interleave_type_copy_refuted :
  let la := [ASetType; AAppendType sfx_ne; AReadType] in
  let lb := [ASetType (D:=N); AAppendType sfx_nu; AReadType] in
  let s := mkSh c_envsubst (fun _ => None) in
  p_types (snd (fst (interleave [true; true; false; true] s priv0 priv0 la lb))) = [c_envsubst]
  /\ p_types (snd (acts s priv0 la)) = [c_envsubst ++ sfx_ne].
Proof. repeat split; vm_compute; reflexivity. Qed.
Print Assumptions C18_interleave_type_copy_refuted.

(* non-vacuity: a request that re-uses tree and decoder meets ok_req, and its value after a history is the specification *)
Example C18_example :
  let x := mkReq 1 true FJson 8 false true (Some 3) [] in
  ok_req N N false x
  /\ fst (last_out (fun e : N => e) (fun _ => false) i_perr i_pmsg (toks_of []) i_dec_sem [] (fun _ _ => false) i_sem i_msg 0 false [rq 1 FToml 7 false true; x; rq 2 FJson 9 false true] x)
     = spec_value (fun e : N => e) (fun _ => false) i_perr i_dec_sem i_sem 0 x.
Proof.
  cbv zeta. split.
  - split; [discriminate|]. right. split; [right; split; discriminate|discriminate].
  - vm_compute. reflexivity.
Qed.
