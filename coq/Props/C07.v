(* Props/C07.v — property theorems only.  C07: an update leaves the
   presentation of everything it did not touch intact.  PARTIAL: the theorems
   are at the level of node attributes (Model/Present.v); the step from node
   attributes to bytes is yaml.v3 and is covered by the check's oracle. *)
From Coq Require Import String.
From Coq Require Import List NArith Bool Lia.
From YQ Require Import Base.Str Model.Present Proofs.PresentProofs.
Import ListNotations.
Open Scope nat_scope.

(* Every in-place update (assign, |=, +=, key creation: all are `apply some f
   to the node at p`) leaves the attributes (comments, style, anchor, tag) of
   every position q that is not p or below p exactly as they were. *)
Theorem C07_frame_attrs : forall (f : pnode -> pnode) (p q : path) (d : pnode),
  is_prefix p q = false -> attrs_at q (update_at f p d) = attrs_at q d.
Proof. exact attrs_update_frame. Qed.
Print Assumptions C07_frame_attrs.

(* ... and for q on another branch the whole subtree (values, order of
   children, attributes of all descendants) is the same node *)
Theorem C07_frame_subtree : forall (f : pnode -> pnode) (p q : path) (d : pnode),
  is_prefix p q = false -> is_prefix q p = false -> get q (update_at f p d) = get q d.
Proof. exact get_update_disjoint. Qed.
Print Assumptions C07_frame_subtree.

(* delete of w consecutive children (1 for a sequence element, 2 = key and
   value for a map entry) starting at index i of the node at [parent]:
   earlier siblings and everything below them stay in place, *)
Theorem C07_delete_frame_before : forall (parent : path) (i w j : nat) (r : path) (d : pnode),
  j < i -> get (parent ++ j :: r) (delete_at parent i w d) = get (parent ++ j :: r) d.
Proof. exact get_delete_before. Qed.
Print Assumptions C07_delete_frame_before.

(* later siblings move up by w with everything below them unchanged
   (renumbered, same order), *)
Theorem C07_delete_frame_after : forall (parent : path) (i w j : nat) (r : path) (d : pnode),
  i <= j -> get (parent ++ j :: r) (delete_at parent i w d) = get (parent ++ (j + w) :: r) d.
Proof. exact get_delete_after. Qed.
Print Assumptions C07_delete_frame_after.

(* the sibling list is the old one without the deleted range (order kept),
   the parent keeps its own attributes, and positions not below the parent
   are covered by C07_frame_attrs (delete_at is an update_at) *)
Theorem C07_delete_sibling_order : forall (parent : path) (i w : nat) (d : pnode),
  option_map n_content (get parent (delete_at parent i w d)) =
  option_map (fun n => remove_range i w (n_content n)) (get parent d)
  /\ attrs_at parent (delete_at parent i w d) = attrs_at parent d.
Proof.
  intros parent i w d. split; [exact (delete_siblings parent i w d)|].
  exact (attrs_update_target (delete_children i w) parent d (delete_children_attrs i w)).
Qed.
Print Assumptions C07_delete_sibling_order.

(* append and key creation do not touch the existing children, nor the
   attributes of the (non-empty) collection they extend; an empty one gives up
   its flow style, which is not observable (C07_empty_collection_style) *)
Theorem C07_append_keeps_children : forall (items : list pnode) (p : path) (j : nat) (r : path) (d n : pnode),
  get p d = Some n -> j < length (n_content n) ->
  get (p ++ j :: r) (update_at (append_children items) p d) = get (p ++ j :: r) d
  /\ n_attrs (append_children items n) = n_attrs n.
Proof.
  intros items p j r d n Hn Hj. split; [exact (get_append_existing items p j r d n Hn Hj)|].
  apply append_children_attrs_nonempty. destruct (n_content n); [cbn in Hj; lia|discriminate].
Qed.
Print Assumptions C07_append_keeps_children.

Theorem C07_create_key_keeps_children : forall (key value : pnode) (p : path) (j : nat) (r : path) (d n : pnode),
  get p d = Some n -> j < length (n_content n) ->
  get (p ++ j :: r) (update_at (create_key key value) p d) = get (p ++ j :: r) d
  /\ n_attrs (create_key key value n) = n_attrs n.
Proof.
  intros key value p j r d n Hn Hj. split; [exact (get_create_key_existing key value p j r d n Hn Hj)|].
  apply create_key_attrs_nonempty. destruct (n_content n); [cbn in Hj; lia|discriminate].
Qed.
Print Assumptions C07_create_key_keeps_children.

(* the attribute policy of UpdateFrom at the target, for any tag-guessing
   function in place of the YAML snippet parser: comments of the target are
   kept unless the new value brings its own; `=`/`|=` never move the anchor;
   a custom tag is kept unless `=c`; *)
Theorem C07_target_attr_policy : forall (guess : str -> str) (prefs : assign_prefs) (other n : pnode),
  let r := n_attrs (update_from guess prefs other n) in
  a_head r = or_else (a_head (n_attrs other)) (a_head (n_attrs n)) /\
  a_line r = or_else (a_line (n_attrs other)) (a_line (n_attrs n)) /\
  a_foot r = or_else (a_foot (n_attrs other)) (a_foot (n_attrs n)) /\
  a_anchor r = (if dont_overwrite_anchor prefs then a_anchor (n_attrs n) else a_anchor (n_attrs other)) /\
  a_tag r = (if clobber_custom_tags prefs || has_bangbang (a_tag (n_attrs n)) || is_nil (a_tag (n_attrs n))
             then a_tag (n_attrs other) else a_tag (n_attrs n)).
Proof.
  intros guess prefs other n. cbv zeta.
  destruct (update_from_comments guess prefs other n) as (H1 & H2 & H3).
  repeat split; try assumption.
Qed.
Print Assumptions C07_target_attr_policy.

(* an explicit style of the target survives a value of the same type *)
Theorem C07_target_style_kept : forall (guess : str -> str) (prefs : assign_prefs) (other n : pnode),
  (n_kind n = KScalar \/ n_content n <> []) ->
  guess_tag guess n = guess_tag guess other ->
  a_style (n_attrs n) <> 0%N ->
  a_style (n_attrs (update_from guess prefs other n)) = a_style (n_attrs n).
Proof. exact update_from_style_kept. Qed.
Print Assumptions C07_target_style_kept.

(* `PATH = v` with a plain v of the same type changes no attribute of the target *)
Theorem C07_target_plain_assign_keeps_all : forall (guess : str -> str) (other n : pnode),
  (n_kind n = KScalar \/ n_content n <> []) ->
  a_head (n_attrs other) = [] -> a_line (n_attrs other) = [] -> a_foot (n_attrs other) = [] ->
  guess_tag guess n = guess_tag guess other ->
  a_tag (n_attrs other) = a_tag (n_attrs n) ->
  (a_style (n_attrs n) <> 0%N \/ a_style (n_attrs other) = 0%N) ->
  n_attrs (update_from guess plain_assign other n) = n_attrs n.
Proof. exact update_from_plain_keeps. Qed.
Print Assumptions C07_target_plain_assign_keeps_all.

(* The statement "the style of the target is kept" is false in general: a
   value of another type takes the style along (a: "x" with .a = 1 becomes
   a: 1), and so does an empty collection *)
Theorem C07_target_style_refuted : exists (other n : pnode),
  n_kind n = KScalar /\
  a_style (n_attrs (update_from (fun _ => []) plain_assign other n)) <> a_style (n_attrs n).
Proof.
  exists (PNode KScalar (mkAttrs [] [] [] 0%N [] (str_of_string "!!int"%string)) [49%N] []).
  exists (PNode KScalar (mkAttrs [] [] [] 2%N [] (str_of_string "!!str"%string)) [120%N] []).
  split; [reflexivity|]. vm_compute. discriminate.
Qed.
Print Assumptions C07_target_style_refuted.

(* non-vacuity: a commented document, an update deep inside, a sibling keeps everything *)
Example C07_example :
  let c s := str_of_string s in
  let sc h v := PNode KScalar (mkAttrs (c h) [] [] 0%N [] (c "!!str"%string)) (c v) [] in
  let d := PNode KMap (mkAttrs [] [] [] 0%N [] (c "!!map"%string)) []
             [sc "# about a"%string "a"%string; sc ""%string "1"%string; sc "# about b"%string "b"%string; sc ""%string "2"%string] in
  let d' := update_at (update_from (fun _ => c "!!str"%string) plain_assign (sc ""%string "9"%string)) [1] d in
  is_prefix [1] [2] = false /\ attrs_at [2] d' = attrs_at [2] d /\ option_map n_value (get [1] d') = Some (c "9"%string) /\
  option_map n_value (get [1] (delete_at [] 0 2 d)) = Some (c "2"%string).
Proof. cbv zeta. repeat split. Qed.
