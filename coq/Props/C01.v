(* Props/C01.v — property theorems only.
   The reference semantics of the core expression language IS Model/Eval.v
   (handler by handler from operator_*.go); that the implementation computes
   it is what the correspondence check establishes on every run.  The theorems
   are the structural laws the property names, for arbitrary sub-expressions,
   and the independence of the answer from the fuel. *)
From YQ Require Import Base.Str Model.Node Model.Store Model.Eval Proofs.EvalLaws Proofs.EvalFuel Proofs.EvalTotal Proofs.GlobProofs Proofs.EvalNoPanic Proofs.GlobSpec Proofs.EvalLaws2.

(* `|` composes *)
Theorem C01_pipe_composes : forall f l r ro vs ctx st,
  eval (S f) (EPipe l r) ro vs ctx st =
  bind (eval f l ro vs ctx st) (fun ol => eval f r ro vs (fst ol) (snd ol)).
Proof. exact pipe_composes. Qed.
Print Assumptions C01_pipe_composes.

(* ... and is associative: `(a | b) | c` and `a | (b | c)` have the same answer (results, store, error) -- whichever
   has an answer with some fuel, the other has it with one more unit (and then with any larger fuel) *)
Theorem C01_pipe_associative : forall f a b c ro vs ctx st,
  (eval f (EPipe (EPipe a b) c) ro vs ctx st <> OutOfFuel ->
   eval (S f) (EPipe a (EPipe b c)) ro vs ctx st = eval f (EPipe (EPipe a b) c) ro vs ctx st) /\
  (eval f (EPipe a (EPipe b c)) ro vs ctx st <> OutOfFuel ->
   eval (S f) (EPipe (EPipe a b) c) ro vs ctx st = eval f (EPipe a (EPipe b c)) ro vs ctx st).
Proof. intros. split; [apply pipe_assoc_lr | apply pipe_assoc_rl]. Qed.
Print Assumptions C01_pipe_associative.

(* `,` concatenates its operands' results ([union_mode] = Some false: the operands do not hand back the very same
   list object; always the case when one of them builds a new list, C01_union_appends_fresh) *)
Theorem C01_union_appends : forall f l r ro vs ctx st,
  union_mode (list_id (is_bound vs) true (ctx_empty ctx) l) (list_id (is_bound vs) true (ctx_empty ctx) r) = Some false ->
  eval (S f) (EUnion l r) ro vs ctx st =
  bind (eval f l ro vs ctx st) (fun ol =>
  bind (eval f r ro vs ctx (snd ol)) (fun or_ => Ok (fst ol ++ fst or_, snd or_))).
Proof. exact union_appends. Qed.
Print Assumptions C01_union_appends.

Theorem C01_union_appends_fresh : forall a, union_mode a fresh_id = Some false /\ union_mode fresh_id a = Some false.
Proof. intros a. split; [apply union_mode_fresh_r | apply union_mode_fresh_l]. Qed.
Print Assumptions C01_union_appends_fresh.

(* ... except when both operands hand back the very same list (known finding union-same-list): the context's own
   list (`. , .`) or the list a variable holds (`2 as $x | $x , $x`) *)
Theorem C01_union_same_list_refuted : exists doc,
  run (EUnion ESelf ESelf) doc = tag_ok ++ ser_node doc ++ [10] /\
  run (EAs (ELit TInt [50]) [120] (EUnion (EVar [120]) (EVar [120]))) doc = tag_ok ++ ser_node (Scalar TInt [50]) ++ [10].
Proof. exists (Scalar TInt [50]). split; vm_compute; reflexivity. Qed.
Print Assumptions C01_union_same_list_refuted.

(* binary operators pair each left result with each right result, per input node, left-major *)
Theorem C01_cross_left_major : forall ev calc lhs rhs ro vs c st,
  cross ev false no_short calc lhs rhs ro vs [c] st =
  bind (bind (ev lhs ro vs [c] st) (fun ol =>
          bind (Ok ([], snd ol)) (fun o0 =>
          bind (each (fun l st1 =>
                        bind (ev rhs ro vs [c] st1) (fun orr =>
                          match fst orr with
                          | [] => Ok ([], snd orr)
                          | rs => each (fun r st2 => calc st2 (Some l) (Some r)) rs (snd orr)
                          end)) (fst ol) (snd o0))
               (fun o1 => Ok (fst o0 ++ fst o1, snd o1)))))
       (fun o1 => bind (Ok ([], snd o1)) (fun o2 => Ok (fst o1 ++ fst o2, snd o2))).
Proof. exact cross_left_major. Qed.
Print Assumptions C01_cross_left_major.

Theorem C01_cross_per_input_node : forall ev cwe short calc lhs rhs ro vs c cs st,
  cross ev cwe short calc lhs rhs ro vs (c :: cs) st =
  each (fun c0 st0 => cross1 ev cwe short calc lhs rhs ro vs [c0] st0) (c :: cs) st.
Proof. exact cross_per_input_node. Qed.
Print Assumptions C01_cross_per_input_node.

(* every operator maps the whole list of current nodes to a new list: e.g.
   [e] gives one sequence per input node, select(e) a sub-list in order *)
Theorem C01_collect_one_per_node : forall f eo ro vs ctx st o,
  ctx <> [] -> eval (S f) (ECollect eo) ro vs ctx st = Ok o -> length (fst o) = length ctx.
Proof. exact collect_one_per_node. Qed.
Print Assumptions C01_collect_one_per_node.

Theorem C01_select_sublist : forall f e ro vs ctx st o,
  eval (S f) (ESelect e) ro vs ctx st = Ok o -> exists mask, length mask = length ctx /\
    fst o = List.map snd (filter fst (combine mask ctx)).
Proof. exact select_sublist. Qed.
Print Assumptions C01_select_sublist.

(* reduce: source and initial value are evaluated once on the context; the block then runs once per source element,
   in order, on whatever the previous run returned ... *)
Theorem C01_reduce_is_fold : forall f src x init body ro vs ctx st,
  eval (S f) (EReduce src x init body) ro vs ctx st =
  bind (eval f src ro vs ctx st) (fun oa =>
  bind (eval f init ro vs ctx (snd oa)) (fun oi =>
  iter (fun it acc st0 => eval f body (ret_ro init ro) ((x, [it]) :: vs) acc st0) (fst oa) (fst oi) (snd oi))).
Proof. exact reduce_is_fold. Qed.
Print Assumptions C01_reduce_is_fold.

(* ... and every element is visited with the accumulator its predecessors produced, whatever that accumulator holds
   (a block that yielded nothing for an earlier element does not end the fold) *)
Theorem C01_fold_visits_every_element : forall (step : ptr -> list ptr -> store -> res (list ptr * store)) l1 p l2 a st,
  iter step (l1 ++ p :: l2) a st =
  bind (iter step l1 a st) (fun o =>
  bind (step p (fst o) (snd o)) (fun o' => iter step l2 (fst o') (snd o'))).
Proof. intros. apply iter_visits_every_element. Qed.
Print Assumptions C01_fold_visits_every_element.

Theorem C01_reduce_empty_source : forall f src x init body ro vs ctx st st1,
  eval f src ro vs ctx st = Ok (nil, st1) ->
  eval (S f) (EReduce src x init body) ro vs ctx st = eval f init ro vs ctx st1.
Proof. exact reduce_empty_source. Qed.
Print Assumptions C01_reduce_empty_source.

(* non-vacuity: `.[] as $i ireduce (0; $i | select(. > 1))` on [3, 1, 2] is 2 -- the block yields nothing for 1 and the
   fold goes on *)
Example C01_example_fold_restarts :
  run (EReduce (EIndex ESelf None) [105] (ELit TInt [48]) (EPipe (EVar [105]) (ESelect (EBin OGt ESelf (ELit TInt [49])))))
      (Seq [(RIdx 0, Scalar TInt [51]); (RIdx 1, Scalar TInt [49]); (RIdx 2, Scalar TInt [50])])
  = tag_ok ++ ser_node (Scalar TInt [50]) ++ [10].
Proof. vm_compute. reflexivity. Qed.

(* unbounded nesting: the answer (results, error, panic) does not depend on the fuel once sufficient *)
Theorem C01_fuel_independent : forall f f' e ro vs ctx st r,
  (f <= f')%nat -> eval f e ro vs ctx st = r -> r <> OutOfFuel -> eval f' e ro vs ctx st = r.
Proof. exact eval_fuel_mono. Qed.
Print Assumptions C01_fuel_independent.

(* ... and fuel equal to the nesting depth of the expression is always sufficient: the evaluator
   terminates on every expression, document, context and variable environment (also the
   evaluator-level part of C11: never a hang; its outcome is a result list, an error, or an
   explicitly modelled panic site) *)
Theorem C01_fuel_sufficient : forall f e ro vs ctx st,
  (depth e <= f)%nat -> eval f e ro vs ctx st <> OutOfFuel.
Proof. exact eval_fuel_sufficient. Qed.
Print Assumptions C01_fuel_sufficient.

(* ... and on every delete-free expression that outcome is never the model's Panic: the evaluator model defines a
   result list or an error for each of them (the index operator's Front() site is unreachable, a collect always
   hands back a result); the correspondence compares the outcome class, so a crash of yq there is a disagreement *)
Theorem C01_no_panic_without_delete : forall f e ro vs ctx st,
  no_del e = true -> eval f e ro vs ctx st <> Panic.
Proof. exact eval_no_panic. Qed.
Print Assumptions C01_no_panic_without_delete.

(* keys and == go through matchKey (Model/Bounds.v, line by line from matchKeyString.go): on a pattern without
   * and ? that matcher IS string equality, and key traversal by pattern selects or creates exactly that key *)
Theorem C01_glob_plain_is_equality : forall name pat,
  is_wild pat = false -> Bounds.match_key name pat = Bounds.Ok (str_eqb name pat).
Proof. exact match_key_plain. Qed.
Print Assumptions C01_glob_plain_is_equality.

(* ... and on every pattern it decides exactly the glob relation ([glob]: `*` any byte sequence, `?` any one byte,
   any other byte itself): the one-restart-point linear-time algorithm of matchKeyString.go is correct, so key
   traversal by pattern and `==` against a pattern mean what the documentation says, for all names and patterns *)
Theorem C01_key_matching_is_glob : forall name pat,
  Bounds.match_key name pat = Bounds.Ok (glob pat name) /\ glob_match name pat = Ok (glob pat name).
Proof. intros name pat. split; [apply match_key_is_glob | apply eval_glob_match_is_glob]. Qed.
Print Assumptions C01_key_matching_is_glob.

Theorem C01_key_without_metachars_is_exact : forall ro k p es st,
  is_wild k = false -> (length (find_key es k 0) <= 1)%nat ->
  trav_map_pat ro k p es st = trav_map ro k p es st.
Proof. exact trav_map_one_definition. Qed.
Print Assumptions C01_key_without_metachars_is_exact.

Example C01_example_pattern_key :
  run (EKey [99; 42]) (Map [([99; 97; 116], Scalar TInt [49]); ([100], Scalar TInt [50]); ([99], Scalar TInt [51])])
  = tag_ok ++ ser_node (Scalar TInt [49]) ++ [10] ++ ser_node (Scalar TInt [51]) ++ [10].
Proof. vm_compute. reflexivity. Qed.

(* non-vacuity: a multi-result product, left-major, and an error defined by the semantics *)
Example C01_example_product :
  run (EBin OAdd (EIndex ESelf None) (EIndex ESelf None))
      (Seq [(RIdx 0, Scalar TInt [49]); (RIdx 1, Scalar TInt [50])])
  = tag_ok ++ ser_node (Scalar TInt [50]) ++ [10] ++ ser_node (Scalar TInt [51]) ++ [10]
           ++ ser_node (Scalar TInt [51]) ++ [10] ++ ser_node (Scalar TInt [52]) ++ [10].
Proof. vm_compute. reflexivity. Qed.

Example C01_example_error :
  run (EBin OAdd (ELit TInt [49]) (ECollect None)) (Scalar TNull []) = [69; 82; 82].
Proof. vm_compute. reflexivity. Qed.
