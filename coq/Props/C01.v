(* Props/C01.v — placeholder while the model is being validated; theorems follow. *)
From YQ Require Import Base.Str Model.Node Model.Store Model.Eval.
Theorem C01_pipe_composes : forall f l r ro vs ctx st,
  eval (S f) (EPipe l r) ro vs ctx st =
  bind (eval f l ro vs ctx st) (fun ol => eval f r ro vs (fst ol) (snd ol)).
Proof. reflexivity. Qed.
Print Assumptions C01_pipe_composes.
