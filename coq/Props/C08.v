(* Props/C08.v — property theorems only. *)
From YQ Require Import Base.Str Model.Node Model.Store Model.Eval Proofs.EvalRO Proofs.OperandsRO.

(* Read-only evaluation of an expression without assignment / update / delete
   (the in-place operator flatten now works on a copy) only allocates: the
   store afterwards is the store before with new roots appended.  For every
   fuel, expression, variable environment, context and store. *)
Theorem C08_ro_store_monotone : forall f e vs ctx st o,
  afree e = true -> eval f e true vs ctx st = Ok o -> exists x, snd o = st ++ x.
Proof. exact ro_store_monotone. Qed.
Print Assumptions C08_ro_store_monotone.

(* ... hence every pre-existing node keeps every field *)
Theorem C08_ro_old_nodes_unchanged : forall f e vs ctx st o,
  afree e = true -> eval f e true vs ctx st = Ok o ->
  forall p, (fst p < length st)%nat -> deref (snd o) p = deref st p.
Proof. exact ro_old_nodes_unchanged. Qed.
Print Assumptions C08_ro_old_nodes_unchanged.

(* the first form the property names: `e as $x | .` prints the document *)
Theorem C08_as_prints_doc : forall f e x doc o,
  afree e = true ->
  eval f (EAs e x ESelf) false [] [(O, [])] (init_store doc) = Ok o ->
  Forall (fun p => deref (snd o) p = Some doc) (fst o).
Proof. exact as_prints_doc. Qed.
Print Assumptions C08_as_prints_doc.

(* the second form: select(e) passes context nodes through unmodified, in any context mode *)
Theorem C08_select_passes_unmodified : forall f e ro vs ctx st o,
  afree e = true -> eval f (ESelect e) ro vs ctx st = Ok o ->
  incl (fst o) ctx /\ forall p, (fst p < length st)%nat -> deref (snd o) p = deref st p.
Proof. exact select_passes_unmodified. Qed.
Print Assumptions C08_select_passes_unmodified.

(* "both operands of arithmetic, comparison, boolean and alternative operators are free of side effects on the
   document", whatever the mode of the caller: true of the operators whose handler clones its context read-only
   ([ro_binop]: + - * % != and or contains) -- in a writable context too, the store afterwards is the store before
   with new roots appended ... *)
Theorem C08_operands_read_only_in_any_mode : forall f o l r ro vs ctx st out,
  ro_binop o = true -> afree l = true -> afree r = true ->
  eval f (EBin o l r) ro vs ctx st = Ok out ->
  (exists x, snd out = st ++ x) /\ forall p, (fst p < length st)%nat -> deref (snd out) p = deref st p.
Proof. exact binop_operands_read_only. Qed.
Print Assumptions C08_operands_read_only_in_any_mode.

(* ... and so are conditions, keys and arguments (select, has, unique_by, group_by, sort_by, any_c, all_c) *)
Theorem C08_conditions_and_keys_read_only_in_any_mode : forall f e ro vs ctx st out,
  ro_arg_op e = true -> afree e = true ->
  eval f e ro vs ctx st = Ok out ->
  (exists x, snd out = st ++ x) /\ forall p, (fst p < length st)%nat -> deref (snd out) p = deref st p.
Proof. exact arg_read_only. Qed.
Print Assumptions C08_conditions_and_keys_read_only_in_any_mode.

(* ... but `==`, `<` `<=` `>` `>=` and `//` evaluate their operands in the mode of their caller (known findings
   operands-in-caller-mode): in a writable context `(.b[3] == 1), .` on {"b": [1]} pads the document, where
   `(.b[3] != 1), .` leaves it alone *)
Definition c08_doc := Map [([98], Seq [(RIdx 0, Scalar TInt [49])])].
Definition c08_padded :=
  Map [([98], Seq [(RIdx 0, Scalar TInt [49]); (RIdx 1, Scalar TNull [110; 117; 108; 108]);
                   (RIdx 2, Scalar TNull [110; 117; 108; 108]); (RIdx 3, Scalar TNull [110; 117; 108; 108])])].
Definition c08_prog (o : binop) := EUnion (EBin o (EIndex (EKey [98]) (Some (ELit TInt [51]))) (ELit TInt [49])) ESelf.
Definition ends_with (s t : str) : Prop := exists pre, s = pre ++ t.

Theorem C08_operands_in_caller_mode_refuted :
  ends_with (run (c08_prog OEq) c08_doc) (ser_node c08_padded ++ [10]) /\
  ends_with (run (c08_prog OLt) c08_doc) (ser_node c08_padded ++ [10]) /\
  ends_with (run (c08_prog OGe) c08_doc) (ser_node c08_padded ++ [10]) /\
  ends_with (run (c08_prog OAlt) c08_doc) (ser_node c08_padded ++ [10]) /\
  ends_with (run (c08_prog ONe) c08_doc) (ser_node c08_doc ++ [10]) /\
  ends_with (run (c08_prog OAdd) c08_doc) (ser_node c08_doc ++ [10]).
Proof.
  repeat split.
  - exists (tag_ok ++ ser_node (Scalar TBool [102; 97; 108; 115; 101]) ++ [10]). vm_compute. reflexivity.
  - exists (tag_ok ++ ser_node (Scalar TBool [102; 97; 108; 115; 101]) ++ [10]). vm_compute. reflexivity.
  - exists (tag_ok ++ ser_node (Scalar TBool [102; 97; 108; 115; 101]) ++ [10]). vm_compute. reflexivity.
  - exists (tag_ok ++ ser_node (Scalar TInt [49]) ++ [10]). vm_compute. reflexivity.
  - exists (tag_ok ++ ser_node (Scalar TBool [116; 114; 117; 101]) ++ [10]). vm_compute. reflexivity.
  - exists (tag_ok ++ ser_node (Scalar TInt [49]) ++ [10]). vm_compute. reflexivity.
Qed.
Print Assumptions C08_operands_in_caller_mode_refuted.

(* non-vacuity: the model can express mutation — a *writable* traversal pads the
   document — so the theorems above are not true by construction; and an
   expression with many operators satisfies the hypothesis *)
Example C08_writable_traversal_mutates :
  let doc := Map [([97], Seq [(RIdx 0, Scalar TInt [49])])] in
  exists o, eval 10 (EIndex (EKey [97]) (Some (ELit TInt [50]))) false [] [(O, [])] (init_store doc) = Ok o
            /\ deref (snd o) (O, []) <> Some doc.
Proof. eexists. split; [vm_compute; reflexivity | vm_compute; discriminate]. Qed.

Example C08_same_read_only_does_not :
  let doc := Map [([97], Seq [(RIdx 0, Scalar TInt [49])])] in
  let e := EIndex (EKey [97]) (Some (ELit TInt [50])) in
  afree (ESelect (EBin OEq e (ELit TNull [110; 117; 108; 108]))) = true /\
  exists o, eval 10 (EAs e [120] ESelf) false [] [(O, [])] (init_store doc) = Ok o
            /\ deref (snd o) (O, []) = Some doc /\ length (fst o) = 1%nat.
Proof. split; [reflexivity|]. eexists. split; [vm_compute; reflexivity | vm_compute; split; reflexivity]. Qed.
