(* Props/C08.v — property theorems only. *)
From YQ Require Import Base.Str Model.Node Model.Store Model.Eval Proofs.EvalRO.

(* Read-only evaluation of an expression without assignment / update / delete
   (the in-place operator flatten now works on a copy) only allocates: the
   store afterwards is the store before with new roots appended.  For every
   fuel, expression, variable environment, context and store. *)
Theorem C08_ro_store_monotone : forall f e vs ctx st o,
  afree e = true -> eval f e true vs ctx st = Ok o -> exists x, snd o = st ++ x.
Proof. exact ro_store_monotone. Qed.
Print Assumptions C08_ro_store_monotone.

(* ... hence every pre-existing node keeps every field *)
Theorem C08_ro_old_nodes_unchanged : forall f e vs ctx st o,
  afree e = true -> eval f e true vs ctx st = Ok o ->
  forall p, (fst p < length st)%nat -> deref (snd o) p = deref st p.
Proof. exact ro_old_nodes_unchanged. Qed.
Print Assumptions C08_ro_old_nodes_unchanged.

(* the first form the property names: `e as $x | .` prints the document *)
Theorem C08_as_prints_doc : forall f e x doc o,
  afree e = true ->
  eval f (EAs e x ESelf) false [] [(O, [])] (init_store doc) = Ok o ->
  Forall (fun p => deref (snd o) p = Some doc) (fst o).
Proof. exact as_prints_doc. Qed.
Print Assumptions C08_as_prints_doc.

(* the second form: select(e) passes context nodes through unmodified, in any context mode *)
Theorem C08_select_passes_unmodified : forall f e ro vs ctx st o,
  afree e = true -> eval f (ESelect e) ro vs ctx st = Ok o ->
  incl (fst o) ctx /\ forall p, (fst p < length st)%nat -> deref (snd o) p = deref st p.
Proof. exact select_passes_unmodified. Qed.
Print Assumptions C08_select_passes_unmodified.

(* non-vacuity: the model can express mutation — a *writable* traversal pads the
   document — so the theorems above are not true by construction; and an
   expression with many operators satisfies the hypothesis *)
Example C08_writable_traversal_mutates :
  let doc := Map [([97], Seq [(RIdx 0, Scalar TInt [49])])] in
  exists o, eval 10 (EIndex (EKey [97]) (Some (ELit TInt [50]))) false [] [(O, [])] (init_store doc) = Ok o
            /\ deref (snd o) (O, []) <> Some doc.
Proof. eexists. split; [vm_compute; reflexivity | vm_compute; discriminate]. Qed.

Example C08_same_read_only_does_not :
  let doc := Map [([97], Seq [(RIdx 0, Scalar TInt [49])])] in
  let e := EIndex (EKey [97]) (Some (ELit TInt [50])) in
  afree (ESelect (EBin OEq e (ELit TNull [110; 117; 108; 108]))) = true /\
  exists o, eval 10 (EAs e [120] ESelf) false [] [(O, [])] (init_store doc) = Ok o
            /\ deref (snd o) (O, []) = Some doc /\ length (fst o) = 1%nat.
Proof. split; [reflexivity|]. eexists. split; [vm_compute; reflexivity | vm_compute; split; reflexivity]. Qed.
