(* Props/C08.v — placeholder; the read-only purity theorem is added once Proofs/EvalRO.v is done. *)
From YQ Require Import Base.Str Model.Node Model.Store Model.Eval.
Theorem C08_selfcheck : forall st, eval 1 ESelf true [] [] st = Ok ([], st).
Proof. reflexivity. Qed.
Print Assumptions C08_selfcheck.
