(* Props/C13.v — aliases and merge keys read as the YAML specification
   resolves them.  Property theorems only (closed by [exact]), refutation
   witnesses by computation, non-vacuity examples.

   Model: Model/Alias.v (three read routes, faithful to
   operator_traverse_path.go / operator_anchors_aliases.go / printer.go /
   candidiate_node_json.go, including the index arithmetic of overrideEntry),
   at the repaired state of /repo (explode explodes what it copies; only key
   nodes announce a later explicit key).
   Spec: Spec/YamlMergeSpec.v.  Documents are trees whose alias nodes carry
   their anchored target; recursion is on fuel and every statement is about
   runs that did not run out of it. *)
From Coq Require Import List NArith Bool String.
From YQ Require Import Base.Str Spec.YamlMergeSpec Model.Alias Proofs.AliasProofs.
Import ListNotations.

(* ---------------- explode(.) : every document, every fuel ---------------- *)
(* whatever explode returns contains no alias node, no anchor and no merge key *)
Theorem C13_explode_no_alias_no_anchor : forall (fuel : nat) (d d' : node),
  explode fuel d = ROk d' -> clean d' = true.
Proof. exact explode_clean. Qed.
Print Assumptions C13_explode_no_alias_no_anchor.

(* a (sub)tree without alias nodes and merge keys is returned unchanged, minus its anchors *)
Theorem C13_explode_other_values_kept : forall (fuel : nat) (d d' : node),
  plain d = true -> explode fuel d = ROk d' -> d' = strip_anchors d.
Proof. exact explode_plain. Qed.
Print Assumptions C13_explode_other_values_kept.

(* ---------------- the three routes against the spec, one level of merging ---------------- *)
(* For a map  {<<: SOURCES, k1: v1, ...}  with the merge key first, written
   `<<: *s` for one source and `<<: [*s1, *s2, ...]` otherwise, whose sources
   and explicit values are plain (no further alias / merge key inside):
   on the domain [merge_simple] (no key twice among the sources, explicit keys
   pairwise different; since the fix "only key nodes can announce a later
   explicit key" nothing is required of the values any more) every key k
   other than << reads the same on
     route 1: traversal of the un-exploded map (the node found is [want]),
     routes 2/3: the exploded map (its entry for k is [want] minus anchors),
     the spec: [resolve] (its entry for k is the value of [want]),
   where [want] is the explicit value if k is written explicitly, else the
   value in the first source that has k.  Partial: nesting (sources that merge
   or alias again, explicit values holding aliases) and a merge key that is
   not the first entry are covered by the correspondence run, not by this
   theorem; the refutations below delimit the domain. *)
Theorem C13_three_routes_agree_on_partial :
  forall (fuel : nat) (a : bool) (srcs : list entries) (expl : entries) (k : str),
  merge_simple srcs expl -> is_merge k = false ->
  let es := (merge_key, merge_value srcs) :: expl in
  let want := spec_lookup k srcs expl in
  (forall r, tlook fuel k es None = ROk r -> r = want)
  /\ (forall d', explode fuel (Mp a es) = ROk d' ->
        exists es', d' = Mp false es' /\ lookup_entry k es' = option_map strip_anchors want)
  /\ (forall vs, resolve fuel (Mp a es) = Some (VM vs) -> vlookup k vs = option_map value_of want).
Proof. exact three_routes_flat. Qed.
Print Assumptions C13_three_routes_agree_on_partial.

(* ================================================================== *)
(* refutations (each reproduced on the real binary, KNOWN_FINDINGS.txt) *)
(* ================================================================== *)
Definition W (s : string) : str := str_of_string s.
Definition Sv (s : string) : node := Sc false (W s).

Definition map_a : node := Mp true [(W "x", Sv "1"); (W "y", Sv "2")].
Definition map_b : node := Mp true [(W "x", Sv "10"); (W "w", Sv "3")].

(* m: {<<: [*a, *b], q: 0} : traversal reads b's x, explode and JSON a's; the spec says a's *)
Theorem C13_mergelist_overlap_refuted : exists (d : node) (p : list step),
  route1 20 d p = ROk (W "10") /\ route2 20 d p = ROk (W "1")
  /\ option_map (vget p) (resolve 20 d) = Some (Some (VS (W "1"))).
Proof.
  exists (Mp false [(W "a", map_a); (W "b", map_b);
                    (W "m", Mp false [(merge_key, Sq false [Al map_a; Al map_b]); (W "q", Sv "0")])]),
         [PKey (W "m"); PKey (W "x")].
  vm_compute. repeat split.
Qed.
Print Assumptions C13_mergelist_overlap_refuted.

(* n: {x: 5, <<: *a} : all three routes read 1, the spec says 5 *)
Theorem C13_explicit_before_merge_refuted : exists (d : node) (p : list step),
  route1 20 d p = ROk (W "1") /\ route2 20 d p = ROk (W "1")
  /\ route3 20 d = ROk (W "{""a"":{""x"":1,""y"":2},""n"":{""x"":1,""y"":2}}")
  /\ option_map (vget p) (resolve 20 d) = Some (Some (VS (W "5"))).
Proof.
  exists (Mp false [(W "a", map_a); (W "n", Mp false [(W "x", Sv "5"); (merge_key, Al map_a)])]),
         [PKey (W "n"); PKey (W "x")].
  vm_compute. repeat split.
Qed.
Print Assumptions C13_explicit_before_merge_refuted.

(* ================================================================== *)
(* non-vacuity                                                         *)
(* ================================================================== *)
Example C13_example :
  let c := Mp true [(W "z", Sv "9")] in
  let a := Mp true [(merge_key, Al c); (W "x", Sc true (W "5"))] in
  let d := Mp false [(W "c", c); (W "a", a); (W "s", Sq true [Al a; Sv "7"]);
                     (W "e", Mp false [(merge_key, Sq false [Al a]); (W "x", Sv "1"); (W "y", Sv "2")])] in
  route3 20 d = ROk (W "{""c"":{""z"":9},""a"":{""z"":9,""x"":5},""s"":[{""z"":9,""x"":5},7],""e"":{""z"":9,""x"":1,""y"":2}}")
  /\ route1 20 d [PKey (W "e"); PKey (W "z")] = ROk (W "9")
  /\ route2 20 d [PKey (W "e"); PKey (W "x")] = ROk (W "1")
  /\ route1 20 d [PKey (W "s"); PIdx 0; PKey (W "z")] = ROk (W "9")
  /\ option_map (vget [PKey (W "e"); PKey (W "x")]) (resolve 20 d) = Some (Some (VS (W "1")))
  (* the inputs of the two repaired defects *)
  /\ (let a1 := Mp true [(W "x", Sv "1")] in let b1 := Mp true [(W "x", Sv "2"); (W "w", Sv "3")] in
      route2 20 (Mp false [(W "a", a1); (W "b", b1); (W "m", Mp false [(merge_key, Sq false [Al a1; Al b1]); (W "z", Sv "w")])])
             [PKey (W "m"); PKey (W "w")] = ROk (W "3"))
  /\ (let c1 := Mp true [(W "z", Sv "9")] in let a1 := Mp true [(merge_key, Al c1); (W "x", Al (Sc true (W "5")))] in
      route1 20 (Mp false [(W "c", c1); (W "a", a1); (W "b", Al a1)]) [PKey (W "b")] = ROk (W "{""z"":9,""x"":5}"))
  /\ tlook 5 (W "z") [(merge_key, merge_value [[(W "z", Sv "9"); (W "x", Sv "5")]]); (W "x", Sv "1"); (W "y", Sv "2")] None
       = ROk (Some (Sv "9"))
  /\ explode 5 (Mp false [(merge_key, merge_value [[(W "z", Sv "9"); (W "x", Sv "5")]]); (W "x", Sv "1"); (W "y", Sv "2")])
       = ROk (Mp false [(W "z", Sv "9"); (W "x", Sv "1"); (W "y", Sv "2")]).
Proof. cbv zeta. repeat split; vm_compute; reflexivity. Qed.

(* the hypotheses of the partial theorem are satisfiable *)
Example C13_merge_simple_example :
  merge_simple [[(W "z", Sv "9"); (W "x", Sv "5")]; [(W "w", Sv "3")]] [(W "x", Sv "1"); (W "y", Sv "2")].
Proof.
  unfold merge_simple. vm_compute. repeat split.
  - repeat constructor; cbn; intuition discriminate.
  - intros s [<-|[<-|[]]]; reflexivity.
  - repeat constructor; cbn; intuition discriminate.
Qed.
