(* Props/C13.v — aliases and merge keys read as the YAML specification
   resolves them.  Property theorems only (closed by [exact]), refutation
   witnesses by computation, non-vacuity examples.

   Model: Model/Alias.v (three read routes, faithful to
   operator_traverse_path.go / operator_anchors_aliases.go / printer.go /
   candidiate_node_json.go, including the index arithmetic of overrideEntry),
   at the repaired state of /repo (explode explodes what it copies; only key
   nodes announce a later explicit key).
   Spec: Spec/YamlMergeSpec.v.  Documents are trees whose alias nodes carry
   their anchored target; recursion is on fuel and every statement is about
   runs that did not run out of it. *)
From Coq Require Import List NArith Bool String.
From YQ Require Import Base.Str Spec.YamlMergeSpec Model.Alias Proofs.AliasProofs Proofs.AliasNested.
Import ListNotations.

(* ---------------- explode(.) : every document, every fuel ---------------- *)
(* whatever explode returns contains no alias node, no anchor and no merge key *)
Theorem C13_explode_no_alias_no_anchor : forall (fuel : nat) (d d' : node),
  explode fuel d = ROk d' -> clean d' = true.
Proof. exact explode_clean. Qed.
Print Assumptions C13_explode_no_alias_no_anchor.

(* a (sub)tree without alias nodes and merge keys is returned unchanged, minus its anchors *)
Theorem C13_explode_other_values_kept : forall (fuel : nat) (d d' : node),
  plain d = true -> explode fuel d = ROk d' -> d' = strip_anchors d.
Proof. exact explode_plain. Qed.
Print Assumptions C13_explode_other_values_kept.

(* ---------------- the three routes against the spec, one level of merging ---------------- *)
(* For a map  {<<: SOURCES, k1: v1, ...}  with the merge key first, written
   `<<: *s` for one source and `<<: [*s1, *s2, ...]` otherwise, whose sources
   and explicit values are plain (no further alias / merge key inside):
   on the domain [merge_simple] (no key twice among the sources, explicit keys
   pairwise different; since the fix "only key nodes can announce a later
   explicit key" nothing is required of the values any more) every key k
   other than << reads the same on
     route 1: traversal of the un-exploded map (the node found is [want]),
     routes 2/3: the exploded map (its entry for k is [want] minus anchors),
     the spec: [resolve] (its entry for k is the value of [want]),
   where [want] is the explicit value if k is written explicitly, else the
   value in the first source that has k.  Partial: nesting (sources that merge
   or alias again, explicit values holding aliases) and a merge key that is
   not the first entry are covered by the correspondence run, not by this
   theorem; the refutations below delimit the domain. *)
Theorem C13_three_routes_agree_on_partial :
  forall (fuel : nat) (a : bool) (srcs : list entries) (expl : entries) (k : str),
  merge_simple srcs expl -> is_merge k = false ->
  let es := (merge_key, merge_value srcs) :: expl in
  let want := spec_lookup k srcs expl in
  (forall r, tlook fuel k es None = ROk r -> r = want)
  /\ (forall d', explode fuel (Mp a es) = ROk d' ->
        exists es', d' = Mp false es' /\ lookup_entry k es' = option_map strip_anchors want)
  /\ (forall vs, resolve fuel (Mp a es) = Some (VM vs) -> vlookup k vs = option_map value_of want).
Proof. exact three_routes_flat. Qed.
Print Assumptions C13_three_routes_agree_on_partial.

(* ---------------- explode is idempotent ---------------- *)
Theorem C13_explode_idempotent : forall (f1 f2 : nat) (d d' d'' : node),
  explode f1 d = ROk d' -> explode f2 d' = ROk d'' -> d'' = d'.
Proof. exact explode_idempotent. Qed.
Print Assumptions C13_explode_idempotent.

(* ---------------- the whole domain: any position of <<, merge lists of any length, nested merges ---------------- *)
(* [merge_simple_doc fuel d] (Model/Alias.v, a boolean) holds when, in every map
   of d and of every alias target, hereditarily: no key is written twice (so
   at most one <<); a merge value is `*t` or `[*t1, ..., *tn]` with anchored
   MAPS as targets; no key is provided by two maps of one merge list (keys as
   the spec resolves the targets, so nested merges count); and no explicit key
   written BEFORE the merge key is provided by a merged map - the one clause
   that is a known finding (C13_explicit_before_merge_refuted), the other
   being overlapping merge lists (C13_mergelist_overlap_refuted).

   JSON conversion = spec: the exploded document has the same value as the
   spec resolution ([veq]: sequences element-wise, maps key by key). *)
Theorem C13_json_is_resolution_on : forall (fe fs : nat) (d d' : node) (v : value),
  merge_simple_doc fs d = true -> explode fe d = ROk d' -> resolve fs d = Some v -> veq (value_of d') v.
Proof. exact explode_is_resolve. Qed.
Print Assumptions C13_json_is_resolution_on.

(* the three routes, for every document of the domain and every path the spec can read:
   route 1 - traversal of the un-exploded document reaches a node whose printed
             (exploded) value is the spec's value at that path;
   route 2 - explode the document, then the model's traverse on the exploded tree
             reaches a node with that value;
   route 3 - the value of the exploded document (what the JSON encoder prints)
             holds that value at that path. *)
Theorem C13_three_routes_agree_on : forall (fs : nat) (d : node) (v : value) (p : list step) (x : value),
  merge_simple_doc fs d = true -> resolve fs d = Some v -> vget p v = Some x ->
  (forall F r, traverse F d p = ROk r ->
     exists n, r = TNode n /\ forall fe n', explode fe n = ROk n' -> veq (value_of n') x)
  /\ (forall fe d' F r, explode fe d = ROk d' -> traverse F d' p = ROk r -> exists n, r = TNode n /\ veq (value_of n) x)
  /\ (forall fe d', explode fe d = ROk d' -> exists x1, vget p (value_of d') = Some x1 /\ veq x1 x).
Proof. exact three_routes_on_domain. Qed.
Print Assumptions C13_three_routes_agree_on.

(* the node-level statement behind route 1 *)
Theorem C13_traversal_finds_spec_node : forall (p : list step) (d : node) (f : nat) (v : value) (F : nat) (r : tres) (x : value),
  merge_simple_doc f d = true -> resolve f d = Some v -> traverse F d p = ROk r -> vget p v = Some x ->
  exists n g, r = TNode n /\ merge_simple_doc g n = true /\ resolve g n = Some x.
Proof. exact traverse_domain. Qed.
Print Assumptions C13_traversal_finds_spec_node.

(* ================================================================== *)
(* refutations (each reproduced on the real binary, KNOWN_FINDINGS.txt) *)
(* ================================================================== *)
Definition W (s : string) : str := str_of_string s.
Definition Sv (s : string) : node := Sc false (W s).

Definition map_a : node := Mp true [(W "x", Sv "1"); (W "y", Sv "2")].
Definition map_b : node := Mp true [(W "x", Sv "10"); (W "w", Sv "3")].

(* m: {<<: [*a, *b], q: 0} : traversal reads b's x, explode and JSON a's; the spec says a's *)
Theorem C13_mergelist_overlap_refuted : exists (d : node) (p : list step),
  route1 20 d p = ROk (W "10") /\ route2 20 d p = ROk (W "1")
  /\ option_map (vget p) (resolve 20 d) = Some (Some (VS (W "1"))).
Proof.
  exists (Mp false [(W "a", map_a); (W "b", map_b);
                    (W "m", Mp false [(merge_key, Sq false [Al map_a; Al map_b]); (W "q", Sv "0")])]),
         [PKey (W "m"); PKey (W "x")].
  vm_compute. repeat split.
Qed.
Print Assumptions C13_mergelist_overlap_refuted.

(* n: {x: 5, <<: *a} : all three routes read 1, the spec says 5 *)
Theorem C13_explicit_before_merge_refuted : exists (d : node) (p : list step),
  route1 20 d p = ROk (W "1") /\ route2 20 d p = ROk (W "1")
  /\ route3 20 d = ROk (W "{""a"":{""x"":1,""y"":2},""n"":{""x"":1,""y"":2}}")
  /\ option_map (vget p) (resolve 20 d) = Some (Some (VS (W "5"))).
Proof.
  exists (Mp false [(W "a", map_a); (W "n", Mp false [(W "x", Sv "5"); (merge_key, Al map_a)])]),
         [PKey (W "n"); PKey (W "x")].
  vm_compute. repeat split.
Qed.
Print Assumptions C13_explicit_before_merge_refuted.

(* ================================================================== *)
(* non-vacuity                                                         *)
(* ================================================================== *)
Example C13_example :
  let c := Mp true [(W "z", Sv "9")] in
  let a := Mp true [(merge_key, Al c); (W "x", Sc true (W "5"))] in
  let d := Mp false [(W "c", c); (W "a", a); (W "s", Sq true [Al a; Sv "7"]);
                     (W "e", Mp false [(merge_key, Sq false [Al a]); (W "x", Sv "1"); (W "y", Sv "2")])] in
  route3 20 d = ROk (W "{""c"":{""z"":9},""a"":{""z"":9,""x"":5},""s"":[{""z"":9,""x"":5},7],""e"":{""z"":9,""x"":1,""y"":2}}")
  /\ route1 20 d [PKey (W "e"); PKey (W "z")] = ROk (W "9")
  /\ route2 20 d [PKey (W "e"); PKey (W "x")] = ROk (W "1")
  /\ route1 20 d [PKey (W "s"); PIdx 0; PKey (W "z")] = ROk (W "9")
  /\ option_map (vget [PKey (W "e"); PKey (W "x")]) (resolve 20 d) = Some (Some (VS (W "1")))
  (* the inputs of the two repaired defects *)
  /\ (let a1 := Mp true [(W "x", Sv "1")] in let b1 := Mp true [(W "x", Sv "2"); (W "w", Sv "3")] in
      route2 20 (Mp false [(W "a", a1); (W "b", b1); (W "m", Mp false [(merge_key, Sq false [Al a1; Al b1]); (W "z", Sv "w")])])
             [PKey (W "m"); PKey (W "w")] = ROk (W "3"))
  /\ (let c1 := Mp true [(W "z", Sv "9")] in let a1 := Mp true [(merge_key, Al c1); (W "x", Al (Sc true (W "5")))] in
      route1 20 (Mp false [(W "c", c1); (W "a", a1); (W "b", Al a1)]) [PKey (W "b")] = ROk (W "{""z"":9,""x"":5}"))
  /\ tlook 5 (W "z") [(merge_key, merge_value [[(W "z", Sv "9"); (W "x", Sv "5")]]); (W "x", Sv "1"); (W "y", Sv "2")] None
       = ROk (Some (Sv "9"))
  /\ explode 5 (Mp false [(merge_key, merge_value [[(W "z", Sv "9"); (W "x", Sv "5")]]); (W "x", Sv "1"); (W "y", Sv "2")])
       = ROk (Mp false [(W "z", Sv "9"); (W "x", Sv "1"); (W "y", Sv "2")]).
Proof. cbv zeta. repeat split; vm_compute; reflexivity. Qed.

(* the hypotheses of the partial theorem are satisfiable *)
Example C13_merge_simple_example :
  merge_simple [[(W "z", Sv "9"); (W "x", Sv "5")]; [(W "w", Sv "3")]] [(W "x", Sv "1"); (W "y", Sv "2")].
Proof.
  unfold merge_simple. vm_compute. repeat split.
  - repeat constructor; cbn; intuition discriminate.
  - intros s [<-|[<-|[]]]; reflexivity.
  - repeat constructor; cbn; intuition discriminate.
Qed.

(* realistic documents are in the domain: merge key in the middle, a merge list,
   a merged map that itself merges, aliases in value position and in sequences;
   the two known findings are outside *)
Example C13_domain_example :
  let base := Mp true [(W "z", Sv "9"); (W "u", Sq false [Sv "1"; Sv "2"])] in
  let mid := Mp true [(W "q", Sv "0"); (merge_key, Al base); (W "x", Sc true (W "5"))] in
  let other := Mp true [(W "w", Sv "3")] in
  let d := Mp false [(W "base", base); (W "mid", mid); (W "other", other);
                     (W "top", Mp false [(W "a", Sv "1"); (merge_key, Sq false [Al mid; Al other]); (W "x", Sv "7"); (W "s", Sq true [Al base; Al mid])])] in
  merge_simple_doc 12 d = true
  /\ route3 20 d = ROk (W "{""base"":{""z"":9,""u"":[1,2]},""mid"":{""q"":0,""z"":9,""u"":[1,2],""x"":5},""other"":{""w"":3},""top"":{""a"":1,""w"":3,""q"":0,""z"":9,""u"":[1,2],""x"":7,""s"":[{""z"":9,""u"":[1,2]},{""q"":0,""z"":9,""u"":[1,2],""x"":5}]}}")
  /\ route1 20 d [PKey (W "top"); PKey (W "u"); PIdx 1] = ROk (W "2")
  /\ merge_simple_doc 12 (Mp false [(W "a", map_a); (W "n", Mp false [(W "x", Sv "5"); (merge_key, Al map_a)])]) = false
  /\ merge_simple_doc 12 (Mp false [(W "a", map_a); (W "b", map_b); (W "m", Mp false [(merge_key, Sq false [Al map_a; Al map_b])])]) = false.
Proof. cbv zeta. repeat split; vm_compute; reflexivity. Qed.
