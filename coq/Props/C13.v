(* Props/C13.v — property theorems only. *)
From Coq Require Import List NArith Bool.
From YQ Require Import Base.Str Spec.YamlMergeSpec Model.Alias Proofs.AliasProofs.
Import ListNotations.

Theorem C13_explode_scalar : forall f a s, explode (S f) (Sc a s) = ROk (Sc false s).
Proof. exact explode_scalar. Qed.
Print Assumptions C13_explode_scalar.
