(* Props/C13.v — aliases and merge keys read as the YAML specification
   resolves them.  Property theorems only (closed by [exact]), refutation
   witnesses by computation, non-vacuity examples.

   Model: Model/Alias.v (three read routes, faithful to
   operator_traverse_path.go / operator_anchors_aliases.go / printer.go /
   candidiate_node_json.go, including the index arithmetic of overrideEntry).
   Spec: Spec/YamlMergeSpec.v.  Documents are trees whose alias nodes carry
   their anchored target; recursion is on fuel and every statement is about
   runs that did not run out of it. *)
From Coq Require Import List NArith Bool String.
From YQ Require Import Base.Str Spec.YamlMergeSpec Model.Alias Proofs.AliasProofs.
Import ListNotations.

(* ---------------- explode(.) : every document, every fuel ---------------- *)
(* whatever explode returns contains no alias node, no anchor and no merge key *)
Theorem C13_explode_no_alias_no_anchor : forall (fuel : nat) (d d' : node),
  explode fuel d = ROk d' -> clean d' = true.
Proof. exact explode_clean. Qed.
Print Assumptions C13_explode_no_alias_no_anchor.

(* a (sub)tree without alias nodes and merge keys is returned unchanged, minus its anchors *)
Theorem C13_explode_other_values_kept : forall (fuel : nat) (d d' : node),
  plain d = true -> explode fuel d = ROk d' -> d' = strip_anchors d.
Proof. exact explode_plain. Qed.
Print Assumptions C13_explode_other_values_kept.

(* ---------------- the three routes against the spec, one level of merging ---------------- *)
(* For a map  {<<: SOURCES, k1: v1, ...}  with the merge key first, written
   `<<: *s` for one source and `<<: [*s1, *s2, ...]` otherwise, whose sources
   and explicit values are plain (no further alias / merge key inside):
   on the domain [merge_simple] (no key twice among the sources, no empty
   source key, explicit keys pairwise different, no explicit VALUE spelled like
   a merged key) every key k other than << reads the same on
     route 1: traversal of the un-exploded map (the node found is [want]),
     routes 2/3: the exploded map (its entry for k is [want] minus anchors),
     the spec: [resolve] (its entry for k is the value of [want]),
   where [want] is the explicit value if k is written explicitly, else the
   value in the first source that has k.  Partial: nesting (sources that merge
   or alias again, explicit values holding aliases) and a merge key that is
   not the first entry are covered by the correspondence run, not by this
   theorem; the refutations below delimit the domain. *)
Theorem C13_three_routes_agree_on_partial :
  forall (fuel : nat) (a : bool) (srcs : list entries) (expl : entries) (k : str),
  merge_simple srcs expl -> is_merge k = false ->
  let es := (merge_key, merge_value srcs) :: expl in
  let want := spec_lookup k srcs expl in
  (forall r, tlook fuel k es None = ROk r -> r = want)
  /\ (forall d', explode fuel (Mp a es) = ROk d' ->
        exists es', d' = Mp false es' /\ lookup_entry k es' = option_map strip_anchors want)
  /\ (forall vs, resolve fuel (Mp a es) = Some (VM vs) -> vlookup k vs = option_map value_of want).
Proof. exact three_routes_flat. Qed.
Print Assumptions C13_three_routes_agree_on_partial.

(* ================================================================== *)
(* refutations (each reproduced on the real binary, KNOWN_FINDINGS.txt) *)
(* ================================================================== *)
Definition W (s : string) : str := str_of_string s.
Definition Sv (s : string) : node := Sc false (W s).

Definition map_a : node := Mp true [(W "x", Sv "1"); (W "y", Sv "2")].
Definition map_b : node := Mp true [(W "x", Sv "10"); (W "w", Sv "3")].

(* m: {<<: [*a, *b], q: 0} : traversal reads b's x, explode and JSON a's; the spec says a's *)
Theorem C13_mergelist_overlap_refuted : exists (d : node) (p : list step),
  route1 20 d p = ROk (W "10") /\ route2 20 d p = ROk (W "1")
  /\ option_map (vget p) (resolve 20 d) = Some (Some (VS (W "1"))).
Proof.
  exists (Mp false [(W "a", map_a); (W "b", map_b);
                    (W "m", Mp false [(merge_key, Sq false [Al map_a; Al map_b]); (W "q", Sv "0")])]),
         [PKey (W "m"); PKey (W "x")].
  vm_compute. repeat split.
Qed.
Print Assumptions C13_mergelist_overlap_refuted.

(* n: {x: 5, <<: *a} : all three routes read 1, the spec says 5 *)
Theorem C13_explicit_before_merge_refuted : exists (d : node) (p : list step),
  route1 20 d p = ROk (W "1") /\ route2 20 d p = ROk (W "1")
  /\ route3 20 d = ROk (W "{""a"":{""x"":1,""y"":2},""n"":{""x"":1,""y"":2}}")
  /\ option_map (vget p) (resolve 20 d) = Some (Some (VS (W "5"))).
Proof.
  exists (Mp false [(W "a", map_a); (W "n", Mp false [(W "x", Sv "5"); (merge_key, Al map_a)])]),
         [PKey (W "n"); PKey (W "x")].
  vm_compute. repeat split.
Qed.
Print Assumptions C13_explicit_before_merge_refuted.

(* m: {<<: [*a, *b], z: w} : the merged key w is dropped by explode because a VALUE is spelled w *)
Theorem C13_mergelist_value_text_refuted : exists (d : node) (p : list step),
  route1 20 d p = ROk (W "3") /\ route2 20 d p = ROk (W "null")
  /\ option_map (vget p) (resolve 20 d) = Some (Some (VS (W "3"))).
Proof.
  exists (Mp false [(W "a", Mp true [(W "x", Sv "1")]); (W "b", map_b);
                    (W "m", Mp false [(merge_key, Sq false [Al (Mp true [(W "x", Sv "1")]); Al map_b]); (W "z", Sv "w")])]),
         [PKey (W "m"); PKey (W "w")].
  vm_compute. repeat split.
Qed.
Print Assumptions C13_mergelist_value_text_refuted.

(* b: *a with a: &a {<<: *c, x: *d} : printing the result of .b keeps a literal << key *)
Theorem C13_subresult_literal_merge_refuted : exists (d : node) (p : list step),
  route1 20 d p = ROk (W "{""<<"":{""z"":9},""x"":5}") /\ route2 20 d p = ROk (W "{""z"":9,""x"":5}").
Proof.
  pose (c := Mp true [(W "z", Sv "9")]). pose (dd := Sc true (W "5")).
  pose (a := Mp true [(merge_key, Al c); (W "x", Al dd)]).
  exists (Mp false [(W "c", c); (W "d", dd); (W "a", a); (W "b", Al a)]), [PKey (W "b")].
  vm_compute. split; reflexivity.
Qed.
Print Assumptions C13_subresult_literal_merge_refuted.

(* ================================================================== *)
(* non-vacuity                                                         *)
(* ================================================================== *)
Example C13_example :
  let c := Mp true [(W "z", Sv "9")] in
  let a := Mp true [(merge_key, Al c); (W "x", Sc true (W "5"))] in
  let d := Mp false [(W "c", c); (W "a", a); (W "s", Sq true [Al a; Sv "7"]);
                     (W "e", Mp false [(merge_key, Sq false [Al a]); (W "x", Sv "1"); (W "y", Sv "2")])] in
  route3 20 d = ROk (W "{""c"":{""z"":9},""a"":{""z"":9,""x"":5},""s"":[{""z"":9,""x"":5},7],""e"":{""z"":9,""x"":1,""y"":2}}")
  /\ route1 20 d [PKey (W "e"); PKey (W "z")] = ROk (W "9")
  /\ route2 20 d [PKey (W "e"); PKey (W "x")] = ROk (W "1")
  /\ route1 20 d [PKey (W "s"); PIdx 0; PKey (W "z")] = ROk (W "9")
  /\ option_map (vget [PKey (W "e"); PKey (W "x")]) (resolve 20 d) = Some (Some (VS (W "1")))
  /\ tlook 5 (W "z") [(merge_key, merge_value [[(W "z", Sv "9"); (W "x", Sv "5")]]); (W "x", Sv "1"); (W "y", Sv "2")] None
       = ROk (Some (Sv "9"))
  /\ explode 5 (Mp false [(merge_key, merge_value [[(W "z", Sv "9"); (W "x", Sv "5")]]); (W "x", Sv "1"); (W "y", Sv "2")])
       = ROk (Mp false [(W "z", Sv "9"); (W "x", Sv "1"); (W "y", Sv "2")]).
Proof. cbv zeta. repeat split; vm_compute; reflexivity. Qed.

(* the hypotheses of the partial theorem are satisfiable *)
Example C13_merge_simple_example :
  merge_simple [[(W "z", Sv "9"); (W "x", Sv "5")]; [(W "w", Sv "3")]] [(W "x", Sv "1"); (W "y", Sv "2")].
Proof.
  unfold merge_simple. vm_compute. repeat split.
  - repeat constructor; cbn; intuition discriminate.
  - intros s [<-|[<-|[]]]; reflexivity.
  - intuition discriminate.
  - repeat constructor; cbn; intuition discriminate.
  - intros k H1 H2. intuition (subst; discriminate).
Qed.
