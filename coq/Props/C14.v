(* Props/C14.v — property theorems only (each closed by [exact lemma]). *)
From Coq Require Import String.
From YQ Require Import Base.Str Model.Base64 Model.Uri Spec.Codecs Proofs.Base64Proofs Proofs.UriProofs.

(* ---------------- base64 ---------------- *)

(* decode (encode v) = v for every byte string, through yq's padder and the
   newline filter of the library decoder *)
Theorem C14_b64_roundtrip : forall s : str, bytes s -> b64_decode (b64_encode s) = B64Ok s.
Proof. exact b64_roundtrip. Qed.
Print Assumptions C14_b64_roundtrip.

(* the encoder output is RFC 4648 text: alphabet characters, then zero to two
   pad characters, length a multiple of four *)
Theorem C14_b64_wellformed : forall s : str, bytes s -> b64_wf (b64_encode s).
Proof. exact b64_wellformed. Qed.
Print Assumptions C14_b64_wellformed.

(* unpadded text (the reason yq wraps the reader in a padder) is decoded too *)
Theorem C14_b64_unpadded_roundtrip : forall s : str, bytes s ->
  b64_decode (strip_pad (b64_encode s)) = B64Ok s.
Proof. exact b64_unpadded_roundtrip. Qed.
Print Assumptions C14_b64_unpadded_roundtrip.

(* KNOWN FINDING b64-newline: the padder counts CR / LF as data, so base64
   text followed by a newline (any file written by base64(1) or echo) is
   rejected although the library decoder is built to skip newlines. *)
Theorem C14_b64_trailing_newline_refuted : exists s : str,
  bytes s /\ b64_decode (b64_encode s ++ [10]) <> B64Ok s.
Proof.
  exists [97]. split.
  - repeat constructor.
  - vm_compute. discriminate.
Qed.
Print Assumptions C14_b64_trailing_newline_refuted.

(* fix candidate: padding by the count of non-newline characters accepts the
   encoding of every byte string with CR / LF inserted anywhere *)
Theorem C14_b64_fixed_accepts_newlines : forall s t : str, bytes s ->
  strip_newlines t = b64_encode s -> b64_decode_fixed t = B64Ok s.
Proof. exact b64_fixed_accepts_newlines. Qed.
Print Assumptions C14_b64_fixed_accepts_newlines.

(* ---------------- URI ---------------- *)

(* the escaper's output is a well-formed form-urlencoded component (only
   unreserved characters, plus, and percent escapes with upper-case hex)
   which denotes the input *)
Theorem C14_uri_wellformed : forall s : str, bytes s ->
  uri_wf (uri_escape s) /\ uri_denotes (uri_escape s) s.
Proof. intros s H. split; [exact (uri_escape_wf s H)|exact (uri_escape_denotes s H)]. Qed.
Print Assumptions C14_uri_wellformed.

(* decoding any well-formed text yields the value it denotes *)
Theorem C14_uri_decode_denotes : forall t v : str, uri_denotes t v -> uri_unescape t = Some v.
Proof. exact uri_unescape_denotes. Qed.
Print Assumptions C14_uri_decode_denotes.

Theorem C14_uri_roundtrip : forall s : str, bytes s -> uri_unescape (uri_escape s) = Some s.
Proof. exact uri_roundtrip. Qed.
Print Assumptions C14_uri_roundtrip.

(* non-vacuity *)
Example C14_example :
  let s := str_of_string "a b&c/~"%string in
  bytes s /\ uri_escape s = str_of_string "a+b%26c%2F~"%string
  /\ b64_encode s = str_of_string "YSBiJmMvfg=="%string.
Proof.
  cbv zeta. split; [|split].
  - vm_compute. repeat (constructor; [reflexivity|]). constructor.
  - vm_compute. reflexivity.
  - vm_compute. reflexivity.
Qed.
