(* Props/C14.v — property theorems only (each closed by [exact lemma]), the
   refuted witnesses (by computation) and one example.

   Modelled and proved here: base64, URI, CSV/TSV (writer, reader, yq's header
   and object logic), properties (writer, lexer/parser, flat maps, paths), the
   Lua encoder's string literals and bare keys, and XML at the level of the
   token stream of encoding/xml (yq's decoder fold, its grouping, its encoder
   as a token writer; the tokenizer / escaper is the library's), and TOML at the
   level of the expression list of go-toml's parser (the decoder's control
   flow against a section-by-section denotation; assignment / merge are the
   model's).  The Lua decoder runs a VM: no theorem, tied by tests only. *)
From Coq Require Import String.
From YQ Require Import Base.Str Model.Base64 Model.Uri Model.Csv Model.Props Model.LuaStr Model.Xml Model.Toml Spec.Codecs Spec.XmlSpec Spec.TomlSpec
  Proofs.Base64Proofs Proofs.UriProofs Proofs.CsvProofs Proofs.PropsProofs Proofs.LuaProofs Proofs.PairProofs Proofs.XmlProofs Proofs.TomlProofs.

(* ======================= base64 ======================= *)

(* decode (encode v) = v for every byte string, through yq's padder, the
   newline filter and the block structure of the library's stream decoder *)
Theorem C14_b64_roundtrip : forall s : str, bytes s -> b64_decode (b64_encode s) = B64Ok s.
Proof. exact b64_roundtrip. Qed.
Print Assumptions C14_b64_roundtrip.

(* the output is RFC 4648 text: alphabet characters, then zero to two pad
   characters, length a multiple of four *)
Theorem C14_b64_wellformed : forall s : str, bytes s -> b64_wf (b64_encode s).
Proof. exact b64_wellformed. Qed.
Print Assumptions C14_b64_wellformed.

(* unpadded text (the reason yq wraps the reader in a padder) is decoded too *)
Theorem C14_b64_unpadded_roundtrip : forall s : str, bytes s ->
  b64_decode (strip_pad (b64_encode s)) = B64Ok s.
Proof. exact b64_unpadded_roundtrip. Qed.
Print Assumptions C14_b64_unpadded_roundtrip.

(* base64 text with CR / LF anywhere (written by base64(1), echo, MIME line
   wrapping), padded or unpadded, decodes to the bytes (repaired in /repo:
   the padder no longer counts the newline bytes the decoder skips) *)
Theorem C14_b64_accepts_newlines : forall s t : str, bytes s ->
  (strip_newlines t = b64_encode s \/ strip_newlines t = strip_pad (b64_encode s)) -> b64_decode t = B64Ok s.
Proof. exact b64_accepts_newlines. Qed.
Print Assumptions C14_b64_accepts_newlines.

(* ======================= URI ======================= *)

(* the output is a well-formed form-urlencoded component (unreserved
   characters, plus, percent escapes with upper-case hex) denoting the input *)
Theorem C14_uri_wellformed : forall s : str, bytes s ->
  uri_wf (uri_escape s) /\ uri_denotes (uri_escape s) s.
Proof. exact uri_escape_wf_denotes. Qed.
Print Assumptions C14_uri_wellformed.

(* decoding any well-formed text yields the value it denotes *)
Theorem C14_uri_decode_denotes : forall t v : str, uri_denotes t v -> uri_unescape t = Some v.
Proof. exact uri_unescape_denotes. Qed.
Print Assumptions C14_uri_decode_denotes.

Theorem C14_uri_roundtrip : forall s : str, bytes s -> uri_unescape (uri_escape s) = Some s.
Proof. exact uri_roundtrip. Qed.
Print Assumptions C14_uri_roundtrip.

(* a node that is not a string is rejected by both encoders *)
Theorem C14_nonstring_rejected : forall v : str,
  encode_string_node b64_encode false v = None /\ encode_string_node uri_escape false v = None.
Proof. exact (fun v => conj (nonstring_rejected b64_encode v) (nonstring_rejected uri_escape v)). Qed.
Print Assumptions C14_nonstring_rejected.

(* ======================= CSV / TSV ======================= *)

(* what the writer emits for a field is an RFC 4180 field denoting it
   (bare without quote / separator / CR / LF, or quoted with doubled quotes) *)
Theorem C14_csv_field_wellformed : forall (sep : N) (f : str),
  csv_field_denotes sep (csv_write_field sep f) f.
Proof. exact csv_field_wellformed. Qed.
Print Assumptions C14_csv_field_wellformed.

(* read (write rows) = rows for every valid separator and all rectangular
   rows of at least one field whose fields hold no CR LF pair: separators,
   quotes, CR, LF, leading blanks, any bytes inside fields, and also a row
   that is one empty field (repaired in /repo: it is written quoted) *)
Theorem C14_csv_rows_roundtrip : forall (sep : N) (rows : list (list str)),
  csv_valid_sep sep = true -> Forall csv_row_ok rows -> rectangular rows ->
  csv_read sep (csv_write sep rows) = CsvOk rows.
Proof. exact csv_rows_roundtrip. Qed.
Print Assumptions C14_csv_rows_roundtrip.

(* yq's object form: an array of objects over one header is written as
   header + rows and decoded to the same objects *)
Theorem C14_csv_objects_roundtrip : forall (sep : N) (header : list str) (rows : list (list str)),
  csv_valid_sep sep = true -> NoDup header -> header <> [] -> rows <> [] ->
  Forall (fun r => length r = length header) rows ->
  Forall csv_row_ok (header :: rows) ->
  skip_bom (csv_write sep (header :: rows)) = csv_write sep (header :: rows) ->
  exists text, csv_encode sep (obj_doc header rows) = Some text /\
               csv_decode sep text = CsvOk (List.map (fun row => combine header row) rows).
Proof. exact csv_objects_roundtrip. Qed.
Print Assumptions C14_csv_objects_roundtrip.

(* KNOWN FINDING csv-crlf: CR LF inside a field comes back as LF *)
Theorem C14_csv_crlf_refuted : exists rows : list (list str),
  rectangular rows /\ csv_read 44 (csv_write 44 rows) = CsvOk [[[120; 10; 121]]] /\ rows <> [[[120; 10; 121]]].
Proof. exists [[[120; 13; 10; 121]]]. split; [reflexivity|]. split; [vm_compute; reflexivity|discriminate]. Qed.
Print Assumptions C14_csv_crlf_refuted.

(* KNOWN FINDING csv-extra-keys: a key the first object lacks is dropped *)
Theorem C14_csv_extra_keys_refuted : exists doc : cnode,
  doc = CSeq [CMap [([97], CScalar [49])]; CMap [([97], CScalar [50]); ([98], CScalar [51])]] /\
  csv_encode 44 doc = Some [97; 10; 49; 10; 50; 10].
Proof. eexists. split; [reflexivity|vm_compute; reflexivity]. Qed.
Print Assumptions C14_csv_extra_keys_refuted.

(* ======================= properties ======================= *)

(* the library's lexer / parser reads back the entries the writer wrote, for
   every admissible separator, on the stated key / value domain *)
Theorem C14_props_entries_roundtrip : forall (sep : str) (kvs : list (str * str)),
  props_sep_ok sep = true -> Forall props_entry_ok kvs -> NoDup (List.map fst kvs) ->
  props_parse (props_write sep kvs) = Some kvs.
Proof. exact props_flat_roundtrip. Qed.
Print Assumptions C14_props_entries_roundtrip.

(* decode (encode m) = m for flat string maps *)
Theorem C14_props_flat_roundtrip : forall (sep : str) (kvs : list (str * str)),
  props_sep_ok sep = true -> Forall props_entry_ok kvs -> NoDup (List.map fst kvs) -> kvs <> [] ->
  props_parse (props_encode sep false (flat_doc kvs)) = Some kvs.
Proof. exact props_flat_map_roundtrip. Qed.
Print Assumptions C14_props_flat_roundtrip.

(* paths joined with dots split back into their keys when no key holds a dot *)
Theorem C14_props_paths : forall keys : list str,
  keys <> [] -> Forall (fun k => no_dot k = true) keys -> split_dot (join_dot keys) = keys.
Proof. exact split_join_dot. Qed.
Print Assumptions C14_props_paths.

(* KNOWN FINDING props-key-escape: an equals sign in a key is not escaped *)
Theorem C14_props_key_equals_refuted : exists kvs : list (str * str),
  kvs = [([97; 61; 98], [118])] /\ props_parse (props_write [32; 61; 32] kvs) = Some [([97], [98; 32; 61; 32; 118])].
Proof. eexists. split; [reflexivity|vm_compute; reflexivity]. Qed.
Print Assumptions C14_props_key_equals_refuted.

(* ... and a key starting with a comment character loses its entry *)
Theorem C14_props_comment_key_refuted : exists kvs : list (str * str),
  kvs = [([35; 97], [118])] /\ props_parse (props_write [32; 61; 32] kvs) = Some [].
Proof. eexists. split; [reflexivity|vm_compute; reflexivity]. Qed.
Print Assumptions C14_props_comment_key_refuted.

(* KNOWN FINDING props-leading-space *)
Theorem C14_props_leading_space_refuted : exists kvs : list (str * str),
  kvs = [([97], [32; 120])] /\ props_parse (props_write [32; 61; 32] kvs) = Some [([97], [120])].
Proof. eexists. split; [reflexivity|vm_compute; reflexivity]. Qed.
Print Assumptions C14_props_leading_space_refuted.

(* ======================= Lua encoder ======================= *)

(* a string scalar is written as a Lua short literal that a Lua lexer reads
   back as the same bytes, whatever follows the closing quote *)
Theorem C14_lua_string_literal_roundtrip : forall s rest : str, bytes s ->
  exists body, lua_quote s ++ rest = 34 :: body /\ lua_read_dq body = Some (s, rest).
Proof. exact lua_quote_reads_back. Qed.
Print Assumptions C14_lua_string_literal_roundtrip.

(* a key written bare is a Lua Name that is not a reserved word (the empty
   key is quoted: repaired in /repo) *)
Theorem C14_lua_bare_key_sound : forall k : str,
  lua_needs_quoting k = false -> lua_is_name k = true.
Proof. exact lua_bare_key_sound. Qed.
Print Assumptions C14_lua_bare_key_sound.

(* ======================= XML (token level) ======================= *)

(* decoding the token stream of ANY ordered element forest (attributes, text
   chunks in front of the children, children in any order, same-named
   siblings adjacent or not, at every depth; any preferences, any trimming
   function) yields the document that forest denotes (Spec/XmlSpec.v) *)
Theorem C14_xml_decode_denotes : forall (trim : str -> str) (P : xprefs) (f : list otree),
  decode_toks trim P (forest_toks f) = XOk (forest_val trim P f).
Proof. exact xml_decode_denotes. Qed.
Print Assumptions C14_xml_decode_denotes.

(* elements still open at the end of the input are closed there (repaired in
   /repo: they were dropped with what they hold): leaving out any number of
   end tags at the very end of a token stream does not change the document *)
Theorem C14_xml_unclosed_kept : forall (trim : str -> str) (P : xprefs) (toks : list xtok) (names : list xname),
  decode_toks trim P (toks ++ List.map TEnd names) = decode_toks trim P toks.
Proof. exact xml_trailing_ends_redundant. Qed.
Print Assumptions C14_xml_unclosed_kept.

(* the grouping of repeated names (xmlNode.AddChild), characterised: the keys
   are the given keys in order of first occurrence ... *)
Theorem C14_xml_group_keys : forall (A : Type) (kvs : list (str * A)),
  List.map fst (add_all kvs []) = first_keys [] (List.map fst kvs).
Proof. exact (@group_keys). Qed.
Print Assumptions C14_xml_group_keys.

(* ... and every key holds exactly the values given for it, in document order *)
Theorem C14_xml_group_values : forall (A : Type) (kvs : list (str * A)) (k : str),
  find_key k (add_all kvs []) = match values_of k kvs with [] => None | vs => Some vs end.
Proof. exact (@group_values). Qed.
Print Assumptions C14_xml_group_values.

(* decode (encode d) = d for every canonical document: elements with
   attributes (distinct names), optional text that the decoder keeps (trim s =
   s, non-empty), child groups with distinct element keys, each group one
   value or a sequence, to any depth; for all preferences that keep the key
   classes apart and every trimming function that drops the empty string and
   a newline *)
Theorem C14_xml_tree_roundtrip : forall (trim : str -> str) (P : xprefs),
  trim [] = [] -> trim [10] = [] ->
  classify P (content_name P) = KContent -> (forall nm, classify P (attr_prefix P ++ nm) = KAttr) ->
  forall doc, doc_ok trim P doc ->
  exists toks, encode_toks P (cdoc P doc) = Some toks /\ decode_toks trim P toks = XOk (cdoc P doc).
Proof. exact xml_roundtrip. Qed.
Print Assumptions C14_xml_tree_roundtrip.

(* the default preferences and the ASCII trimming meet those hypotheses *)
Theorem C14_xml_roundtrip_default : forall doc, doc_ok ascii_trim default_xprefs doc ->
  exists toks, encode_toks default_xprefs (cdoc default_xprefs doc) = Some toks /\
               decode_toks ascii_trim default_xprefs toks = XOk (cdoc default_xprefs doc).
Proof. exact xml_roundtrip_default. Qed.
Print Assumptions C14_xml_roundtrip_default.

(* KNOWN FINDING xml-text-trim: text with surrounding white space is not in the
   domain: it comes back trimmed *)
Theorem C14_xml_text_trim_refuted : exists d : xval,
  d = XMap [([97], XStr [32; 120; 32])] /\
  exists toks, encode_toks default_xprefs d = Some toks /\
               decode_toks ascii_trim default_xprefs toks = XOk (XMap [([97], XStr [120])]).
Proof. eexists. split; [reflexivity|]. eexists. split; vm_compute; reflexivity. Qed.
Print Assumptions C14_xml_text_trim_refuted.

(* KNOWN FINDING xml-chardata-split: one text made of several character data
   tokens (a CDATA section or a comment inside the text) becomes a sequence *)
Theorem C14_xml_chardata_split_refuted : exists toks : list xtok,
  toks = [TStart ([], [97]) []; TChar [116]; TChar [60; 120; 62]; TChar [117]; TEnd ([], [97])] /\
  decode_toks ascii_trim default_xprefs toks = XOk (XMap [([97], XSeq [XStr [116]; XStr [60; 120; 62]; XStr [117]])]).
Proof. eexists. split; [reflexivity|vm_compute; reflexivity]. Qed.
Print Assumptions C14_xml_chardata_split_refuted.

(* the map form cannot keep the document order of differently named
   siblings: decoding b c b and encoding the result writes b b c *)
Theorem C14_xml_sibling_order_refuted : exists f : list otree,
  forest_toks f = [TStart ([], [114]) []; TStart ([], [98]) []; TChar [49]; TEnd ([], [98]);
                   TStart ([], [99]) []; TChar [50]; TEnd ([], [99]); TStart ([], [98]) []; TChar [51]; TEnd ([], [98]); TEnd ([], [114])] /\
  encode_toks default_xprefs (forest_val ascii_trim default_xprefs f) =
    Some [TStart ([], [114]) []; TStart ([], [98]) []; TChar [49]; TEnd ([], [98]); TStart ([], [98]) []; TChar [51]; TEnd ([], [98]);
          TStart ([], [99]) []; TChar [50]; TEnd ([], [99]); TEnd ([], [114]); TChar [10]].
Proof.
  exists [ONode ([], [114]) [] [] [ONode ([], [98]) [] [[49]] []; ONode ([], [99]) [] [[50]] []; ONode ([], [98]) [] [[51]] []]].
  split; vm_compute; reflexivity.
Qed.
Print Assumptions C14_xml_sibling_order_refuted.

(* ======================= TOML (expression level) ======================= *)

(* for every document (top-level key/values, then sections: [table] or
   [[array table]] headers with their key/values, sections without key/values
   and a header at the very end included), decoding its expression list gives
   its section-by-section denotation (Spec/TomlSpec.v), errors included: the
   read-ahead / run-against-current-expression control flow of the decoder
   groups the expressions correctly *)
Theorem C14_toml_denotes : forall d : tdoc, toml_decode (flatten d) = toml_den d.
Proof. exact toml_denotes. Qed.
Print Assumptions C14_toml_denotes.

(* a dotted key assigned into an empty table creates the nested tables *)
Theorem C14_toml_dotted_key : forall (p : list str) (v : tnode), p <> [] -> deeply_assign p v [] = TOk (nest p v).
Proof. exact dotted_key_nests. Qed.
Print Assumptions C14_toml_dotted_key.

(* KNOWN FINDING toml-array-subtable: a table under the last element of an
   array of tables (valid TOML) is an error: the path a.b does not step into
   the last element of the sequence a *)
Theorem C14_toml_array_subtable_refuted : exists d : tdoc,
  d = ([], [mkSection true [[97]] [([[120]], TVScalar KInteger [49])]; mkSection false [[97]; [98]] [([[121]], TVScalar KInteger [50])]]) /\
  toml_decode (flatten d) = TErrIndexArray.
Proof. eexists. split; [reflexivity|vm_compute; reflexivity]. Qed.
Print Assumptions C14_toml_array_subtable_refuted.

(* KNOWN FINDING toml-local-datetime *)
Theorem C14_toml_local_date_refuted : exists d : tdoc,
  d = ([([[100]], TVScalar KLocalDate [49; 57; 55; 57; 45; 48; 53; 45; 50; 55])], []) /\ toml_decode (flatten d) = TErrKind.
Proof. eexists. split; [reflexivity|vm_compute; reflexivity]. Qed.
Print Assumptions C14_toml_local_date_refuted.

(* non-vacuity for TOML: an empty table, an array of tables with an empty
   element at the end, dotted keys sharing a prefix inside an inline table *)
Example C14_toml_example :
  let one := TVScalar KInteger [49] in
  let d : tdoc := ([([[120]], TVInline [([[97]; [98]], one); ([[97]; [99]], one)])],
                   [mkSection false [[116]] []; mkSection true [[113]] [([[110]], one)]; mkSection true [[113]] []]) in
  toml_decode (flatten d) =
  TOk [([120], NMap [([97], NMap [([98], NScalar GInt [49]); ([99], NScalar GInt [49])])]);
       ([116], NMap []); ([113], NSeq [NMap [([110], NScalar GInt [49])]; NMap []])].
Proof. vm_compute. reflexivity. Qed.

(* ======================= in-expression pairs ======================= *)

(* @base64 / @base64d, @uri / @urid, to_props / from_props are the codecs
   applied to the node value, hence inverse pairs on the domains above *)
Theorem C14_inverse_pairs :
  (forall s, bytes s -> b64_decode (b64_encode s) = B64Ok s) /\
  (forall s, bytes s -> uri_unescape (uri_escape s) = Some s) /\
  (forall kvs, Forall props_entry_ok kvs -> NoDup (List.map fst kvs) -> kvs <> [] ->
     props_parse (props_encode [] false (flat_doc kvs)) = Some kvs).
Proof. exact inverse_pairs. Qed.
Print Assumptions C14_inverse_pairs.

(* non-vacuity for XML: a document with attributes, text, a repeated child and nesting is in the domain *)
Example C14_xml_example :
  let leaf s := CNode [] (Some s) [] in
  let doc := [([114], [CNode [([105; 100], [49; 60])] (Some [116; 32; 38])
                         [([98], [leaf [49]; leaf [51]]); ([99], [CNode [([107], [])] None []])]])] in
  doc_ok ascii_trim default_xprefs doc.
Proof.
  assert (leaf_ok : forall s, ascii_trim s = s -> s <> [] -> cok ascii_trim default_xprefs (CNode [] (Some s) [])).
  { intros s H1 H2. constructor; [split; assumption|constructor|constructor|constructor]. }
  cbv zeta. unfold doc_ok. split; [discriminate|]. split; [repeat constructor; intros []|].
  constructor; [|constructor]. split; [vm_compute; reflexivity|]. split; [discriminate|].
  constructor; [|constructor]. constructor.
  - split; [vm_compute; reflexivity|discriminate].
  - repeat constructor. intros [].
  - repeat constructor; cbn; intuition discriminate.
  - constructor; [|constructor; [|constructor]].
    + split; [vm_compute; reflexivity|]. split; [discriminate|].
      constructor; [apply leaf_ok; [vm_compute; reflexivity|discriminate]|].
      constructor; [apply leaf_ok; [vm_compute; reflexivity|discriminate]|constructor].
    + split; [vm_compute; reflexivity|]. split; [discriminate|].
      constructor; [|constructor]. constructor; [exact I|repeat constructor; intros []|constructor|constructor].
Qed.

(* non-vacuity: the hypotheses are met by adversarial inputs *)
Example C14_example :
  let s := str_of_string "a b&c/~"%string in
  let rows := [[str_of_string "k,1"%string; str_of_string "q"%string];
               [str_of_string " x"%string; [34; 10; 13]]] in
  let kvs := [(str_of_string "a b:c"%string, str_of_string "x=y\z"%string)] in
  bytes s /\ uri_escape s = str_of_string "a+b%26c%2F~"%string
  /\ b64_encode s = str_of_string "YSBiJmMvfg=="%string
  /\ csv_valid_sep 44 = true /\ Forall csv_row_ok rows /\ rectangular rows
  /\ Forall props_entry_ok kvs /\ props_sep_ok [32; 61; 32] = true
  /\ props_write [32; 61; 32] kvs = str_of_string "a\ b\:c = x=y\\z"%string ++ [10].
Proof.
  cbv zeta. repeat split; try (vm_compute; reflexivity); try (vm_compute; discriminate).
  - vm_compute. repeat (constructor; [reflexivity|]). constructor.
  - repeat constructor; try (vm_compute; discriminate).
  - repeat constructor.
Qed.
