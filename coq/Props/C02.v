(* Props/C02.v — placeholder; lens theorems are added from Proofs/Lens.v. *)
From YQ Require Import Base.Str Model.Node Model.Store Model.Eval.
Theorem C02_selfcheck : forall st, eval 1 ESelf false [] [] st = Ok ([], st).
Proof. reflexivity. Qed.
Print Assumptions C02_selfcheck.
