(* Props/C02.v — property theorems only. *)
From YQ Require Import Base.Str Model.Node Model.Store Model.Eval Spec.Lens Proofs.LensProofs Proofs.AssignProofs Proofs.AssignPathProofs Proofs.EvalRO.
From Coq Require Import ZArith.

(* The update laws, for every simple path (keys and non-negative indices, of
   any length, existing or to be created), every value and every document. *)
Theorem C02_put_get : forall p v n n', put p v n = Some n' -> get p n' = Some v.
Proof. exact put_get. Qed.
Print Assumptions C02_put_get.

Theorem C02_get_put : forall p v n, get p n = Some v -> put p v n = Some n.
Proof. exact get_put. Qed.
Print Assumptions C02_get_put.

Theorem C02_put_put : forall p v1 v2 n n1, put p v1 n = Some n1 -> put p v2 n1 = put p v2 n.
Proof. exact put_put. Qed.
Print Assumptions C02_put_put.

(* frame: a path that is neither a prefix nor an extension of p reads the same before and after *)
Theorem C02_frame : forall p q v n n' w,
  put p v n = Some n' -> incomparable p q = true -> get q n = Some w -> get q n' = Some w.
Proof. exact put_frame. Qed.
Print Assumptions C02_frame.

(* sequences are padded with null *)
Theorem C02_pads_with_null : forall i v items n',
  put [SIdx i] v (Seq items) = Some n' ->
  forall j, (length items <= j < i)%nat -> get [SIdx j] n' = Some null_node.
Proof. exact put_pads_with_null. Qed.
Print Assumptions C02_pads_with_null.

(* The tie between the evaluator model and the lens, proved (not sampled) for EVERY simple path: keys and
   non-negative index literals, mixed, of any length, existing or to be created.  `p = scalar` on the evaluator
   (writable traversal with vivification, null re-typing and null padding; read-only re-evaluation of the path in
   the cross product; UpdateFrom) leaves exactly the document [put] describes, so put-get, get-put, put-put, frame
   and padding above hold for the evaluator.  [estep] carries the text of each index literal with the number it
   denotes ([step_ok]: Z_of_index text = that number, below the padding limit of the implementation).  Evaluating
   an index literal allocates scratch roots; the document is root 0. *)
Theorem C02_assign_is_put : forall p t v doc fuel,
  p <> [] -> Forall step_ok p -> (length p + 4 <= fuel)%nat ->
  forall n', put (List.map erase p) (Scalar t v) doc = Some n' ->
  exists st', eval fuel (EAssign (pe p) (ELit t v)) false [] [(O, [])] (init_store doc) = Ok ([(O, [])], st')
              /\ deref st' (O, []) = Some n'.
Proof. exact assign_path_is_put. Qed.
Print Assumptions C02_assign_is_put.

(* ... and for every assignment-free right-hand side r that has one result (`.a[1].b = .c`, `= [1,2]`, `= .x + 1`,
   ...): r is evaluated read-only on the document with the path created -- which only appends to the store, the C08
   theorem -- and the document afterwards is [put p v] of the original one, v the value r's result denotes. *)
Theorem C02_assign_any_value_is_put : forall p r doc f n1 pos,
  p <> [] -> Forall step_ok p -> (length p + 3 <= f)%nat -> afree r = true ->
  vivp p doc = Some (n1, pos) ->
  exists g, forall q st3 v,
    eval f r true [] [(O, [])] ([mkRoot None None n1] ++ g) = Ok ([q], st3) ->
    ptr_eqb (O, pos) q = false -> deref st3 q = Some v ->
    exists st', eval (S f) (EAssign (pe p) r) false [] [(O, [])] (init_store doc) = Ok ([(O, [])], st')
                /\ Some (deref st' (O, [])) = Some (put (List.map erase p) v doc).
Proof. exact assign_path_value_is_put. Qed.
Print Assumptions C02_assign_any_value_is_put.

Example C02_value_example :
  let doc := Map [([99], Seq [(RIdx 0, Scalar TInt [53])])] in
  let p := [EK [97]; EI [49] 1] in
  afree (EKey [99]) = true /\
  put (List.map erase p) (Seq [(RIdx 0, Scalar TInt [53])]) doc
  = Some (Map [([99], Seq [(RIdx 0, Scalar TInt [53])]);
               ([97], Seq [(RIdx 0, null_node); (RIdx 1, Seq [(RIdx 0, Scalar TInt [53])])])]) /\
  run (EAssign (pe p) (EKey [99])) doc
  = tag_ok ++ ser_node (Map [([99], Seq [(RIdx 0, Scalar TInt [53])]);
               ([97], Seq [(RIdx 0, null_node); (RIdx 1, Seq [(RIdx 0, Scalar TInt [53])])])]) ++ [10].
Proof. exact assign_value_example. Qed.

(* `p o= r` (+=, -=, *=, ...) at any simple path is `p = (old o r)`: the path is created, the match is cloned ($c),
   `$c o r` is evaluated read-only in the caller's context, and the match receives its result -- for every operator o
   and every assignment-free r with one result *)
Theorem C02_compound_is_assignment_of_result : forall p o r doc f n1 pos,
  p <> [] -> Forall step_ok p -> (length p + 3 <= f)%nat -> afree r = true ->
  vivp p doc = Some (n1, pos) ->
  forall old, get_at n1 pos = Some old ->
  exists g cp, forall q st3 w,
    eval f (EBin o (EVar var_c) r) true [(var_l, [(O, pos)]); (var_c, [cp])] [(O, [])] ([mkRoot None None n1] ++ g) = Ok ([q], st3) ->
    ptr_eqb (O, pos) q = false -> deref st3 q = Some w ->
    deref ([mkRoot None None n1] ++ g) cp = Some old /\
    exists st', eval (S f) (ECompound o (pe p) r) false [] [(O, [])] (init_store doc) = Ok ([(O, [])], st')
                /\ deref st' (O, []) = Some (upd_at n1 pos (fun _ => w)).
Proof. exact compound_path_value. Qed.
Print Assumptions C02_compound_is_assignment_of_result.

Example C02_compound_example :
  run (ECompound OAdd (pe [EK [97]; EI [49] 1]) (ELit TInt [53])) (Map [([97], Seq [(RIdx 0, Scalar TInt [49]); (RIdx 1, Scalar TInt [50])])])
  = tag_ok ++ ser_node (Map [([97], Seq [(RIdx 0, Scalar TInt [49]); (RIdx 1, Scalar TInt [55])])]) ++ [10].
Proof. exact compound_example. Qed.

(* a multi-match left-hand side: `.[] = scalar` gives every child of a sequence or map the value, in document order,
   keeps every key, and touches nothing else *)
Theorem C02_assign_splat_sets_every_child : forall t v doc f,
  (3 <= f)%nat -> (match doc with Scalar _ _ => False | _ => True end) ->
  exists st', eval (S f) (EAssign (EIndex ESelf None) (ELit t v)) false [] [(O, [])] (init_store doc) = Ok ([(O, [])], st')
              /\ deref st' (O, []) = Some (set_children doc (Scalar t v)).
Proof. exact assign_splat_sets_children. Qed.
Print Assumptions C02_assign_splat_sets_every_child.

(* `p |= r` at any simple path and for every body r: the path is created, r runs with the match as its context, and
   the match receives r's FIRST result; no result leaves it alone. *)
Theorem C02_update_first_result_or_none : forall p r doc f n1 pos,
  p <> [] -> Forall step_ok p -> (length p + 2 <= f)%nat ->
  vivp p doc = Some (n1, pos) ->
  exists g,
    (forall q qs st2 v,
       eval f r false [] [(O, pos)] ([mkRoot None None n1] ++ g) = Ok (q :: qs, st2) ->
       ptr_eqb (O, pos) q = false -> deref st2 q = Some v ->
       eval (S f) (EUpdate (pe p) r) false [] [(O, [])] (init_store doc)
       = Ok ([(O, [])], update st2 (O, pos) (fun _ => v)))
    /\
    (forall st2,
       eval f r false [] [(O, pos)] ([mkRoot None None n1] ++ g) = Ok ([], st2) ->
       eval (S f) (EUpdate (pe p) r) false [] [(O, [])] (init_store doc) = Ok ([(O, [])], st2)).
Proof. exact update_path_results. Qed.
Print Assumptions C02_update_first_result_or_none.

(* [vivp] is [put]: the document in which r runs is the one [put] builds, with the old value still at the position *)
Theorem C02_put_is_vivify_then_write : forall p v n,
  put (List.map erase p) v n =
  match vivp p n with Some (n1, pos) => Some (upd_at n1 pos (fun _ => v)) | None => None end.
Proof. exact put_is_vivp. Qed.
Print Assumptions C02_put_is_vivify_then_write.

(* non-vacuity: `.a[2].b = 7` on {"a": [1]} pads, creates and assigns, on the lens and on the evaluator *)
Example C02_path_example :
  let p := [EK [97]; EI [50] 2; EK [98]] in
  Forall step_ok p /\
  put (List.map erase p) (Scalar TInt [55]) (Map [([97], Seq [(RIdx 0, Scalar TInt [49])])])
  = Some (Map [([97], Seq [(RIdx 0, Scalar TInt [49]); (RIdx 1, null_node);
                          (RIdx 2, Map [([98], Scalar TInt [55])])])]) /\
  run (EAssign (pe p) (ELit TInt [55])) (Map [([97], Seq [(RIdx 0, Scalar TInt [49])])])
  = tag_ok ++ ser_node (Map [([97], Seq [(RIdx 0, Scalar TInt [49]); (RIdx 1, null_node);
                                        (RIdx 2, Map [([98], Scalar TInt [55])])])]) ++ [10].
Proof. exact assign_path_example. Qed.

(* The key-path special cases (Proofs/AssignProofs.v), kept because their statements are exact about the store.
   Other multi-match left-hand sides (select-filtered, recursive), right-hand sides with several results and multi-match
   op= are tied by the correspondence check only. *)
Theorem C02_assign_is_put_keys_partial : forall ks t v doc fuel,
  ks <> [] -> (length ks + 3 <= fuel)%nat -> no_wild ks ->
  forall n', put (List.map SKey ks) (Scalar t v) doc = Some n' ->
  exists st', eval fuel (EAssign (pk ks) (ELit t v)) false [] [(O, [])] (init_store doc) = Ok ([(O, [])], st')
              /\ deref st' (O, []) = Some n'.
Proof. exact assign_is_put. Qed.
Print Assumptions C02_assign_is_put_keys_partial.

(* `p |= f`: the match of a key path gets the FIRST result of f applied to it
   (f evaluated with the match as its context, in the document where the path
   has been created); no result leaves it alone.  For every body expression f. *)
Theorem C02_update_first_result_keys_partial : forall ks r doc f n1 pos q qs st2 v,
  ks <> [] -> (length ks <= f)%nat -> no_wild ks ->
  viv ks doc = Some (n1, pos) ->
  eval f r false [] [(O, pos)] (update (init_store doc) (O, []) (fun _ => n1)) = Ok (q :: qs, st2) ->
  ptr_eqb (O, pos) q = false -> deref st2 q = Some v ->
  eval (S f) (EUpdate (pk ks) r) false [] [(O, [])] (init_store doc)
  = Ok ([(O, [])], update st2 (O, pos) (fun _ => v)).
Proof. exact update_first_result. Qed.
Print Assumptions C02_update_first_result_keys_partial.

Theorem C02_update_no_result_keys_partial : forall ks r doc f n1 pos st2,
  ks <> [] -> (length ks <= f)%nat -> no_wild ks ->
  viv ks doc = Some (n1, pos) ->
  eval f r false [] [(O, pos)] (update (init_store doc) (O, []) (fun _ => n1)) = Ok ([], st2) ->
  eval (S f) (EUpdate (pk ks) r) false [] [(O, [])] (init_store doc) = Ok ([(O, [])], st2).
Proof. exact update_no_result. Qed.
Print Assumptions C02_update_no_result_keys_partial.

(* index steps, one step at a time: `[i]` applied in a writable context to a sequence, or to a null (re-typed to an
   empty sequence first), pads it with nulls exactly as the lens step [SIdx i] does (pad_to) and answers position i.
   Chaining index steps through the evaluator (each literal index allocates scratch roots) is tied by the
   correspondence only: partial. *)
Theorem C02_index_step_is_lens_step_partial : forall p st n items t i,
  deref st p = Some n ->
  (n = Seq items \/ (exists tv, n = Scalar TNull tv) /\ items = []) ->
  Z_of_index t = Ok (Z.of_nat i) -> (Z.of_nat i <= 100000)%Z ->
  exists st', trav_indices false [Scalar TInt t] p st = Ok ([(fst p, snd p ++ [i])], st')
              /\ deref st' p = Some (Seq (pad_to items (S i - length items))).
Proof. exact index_step_is_lens_step. Qed.
Print Assumptions C02_index_step_is_lens_step_partial.

(* non-vacuity: a path that creates a map under null and a padded sequence *)
Example C02_example :
  let doc := Map [([97], Scalar TNull [110; 117; 108; 108]); ([98], Seq [(RIdx 0, Scalar TInt [49])])] in
  put [SKey [97]; SKey [99]] (Scalar TInt [55]) doc
    = Some (Map [([97], Map [([99], Scalar TInt [55])]); ([98], Seq [(RIdx 0, Scalar TInt [49])])])
  /\ put [SKey [98]; SIdx 2] (Scalar TInt [55]) doc
    = Some (Map [([97], Scalar TNull [110; 117; 108; 108]);
                 ([98], Seq [(RIdx 0, Scalar TInt [49]); (RIdx 1, null_node); (RIdx 2, Scalar TInt [55])])])
  /\ incomparable [SKey [97]; SKey [99]] [SKey [98]; SIdx 0] = true.
Proof. vm_compute. repeat split. Qed.
