(* Props/C10.v -- property theorems only (each closed by [exact lemma]).

   Reading guide.  P = document payloads, R = result payloads, T = states of
   the parsed expression tree.  [ev t ds] = GetMatchingNodes on the context
   [ds] with the tree in state [t]; every theorem holds for every [ev], i.e.
   for every expression.  [parentless r]: the result node has no Parent.
   [fresh parentless ev t0 sd] = the results of the expression, freshly
   parsed, on the single stamped document [sd], as the stream evaluator hands
   them to the printer (results without Parent stamped with sd's position).
   The hypotheses TInv... say that what handlers write into the shared tree
   never changes a later result (instance: C10_sort_tree_write_idempotent).
   The model is the code after the two repairs in /repo (previousFileIndex
   assigned after every node; parentless results stamped by the evaluator). *)
From YQ Require Import Base.Str Model.Printer Model.Stream Spec.StreamSpec Proofs.StreamProofs.

(* (1a) Sequence mode = separator-joined concatenation of the single-document
   results (spec_run: no printer state, no counters), for every expression
   whose results that keep a Parent have the document as their root. *)
Theorem C10_seq_is_concat_spec :
  forall (P R T : Type) (blank : P) (absorb : list litem -> P -> P) (pfail parentless : res R -> bool)
         (ev : T -> list (sdoc P) -> option (list (res R)) * T) (t0 : T) (TInv : T -> Prop),
  TInv t0 -> (forall t ds, TInv t -> TInv (snd (ev t ds))) -> (forall t ds, TInv t -> fst (ev t ds) = fst (ev t0 ds)) ->
  forall cfg fs, attached parentless ev t0 ->
  run_seq blank absorb pfail parentless ev t0 cfg fs = spec_run blank pfail (fresh parentless ev t0) cfg fs.
Proof. exact run_seq_exact. Qed.
Print Assumptions C10_seq_is_concat_spec.

(* the hypothesis in terms of the results as the expression returns them *)
Theorem C10_attached_of_raw :
  forall (P R T : Type) (parentless : res R -> bool) (ev : T -> list (sdoc P) -> option (list (res R)) * T) (t0 : T),
  (forall sd rs, fst (ev t0 [sd]) = Some rs ->
     Forall (fun r => parentless r = true \/ att (s_file sd) (s_doc sd) r) rs) -> attached parentless ev t0.
Proof. exact attached_of_raw. Qed.
Print Assumptions C10_attached_of_raw.

(* (1b) Readable form over readable files: the output is join_sep over the
   documents at their true positions. *)
Theorem C10_seq_is_concat :
  forall (P R T : Type) (blank : P) (absorb : list litem -> P -> P) (pfail parentless : res R -> bool)
         (ev : T -> list (sdoc P) -> option (list (res R)) * T) (t0 : T) (TInv : T -> Prop),
  TInv t0 -> (forall t ds, TInv t -> TInv (snd (ev t ds))) -> (forall t ds, TInv t -> fst (ev t ds) = fst (ev t0 ds)) ->
  forall cfg fs, attached parentless ev t0 ->
  Forall (fun fl => f_bad fl = false) fs -> spec_docs blank fs <> [] ->
  run_seq blank absorb pfail parentless ev t0 cfg fs =
    (jev (join_sep pfail cfg false (List.map (fresh parentless ev t0) (spec_docs blank fs))),
     jst (join_sep pfail cfg false (List.map (fresh parentless ev t0) (spec_docs blank fs)))).
Proof. exact seq_is_concat. Qed.
Print Assumptions C10_seq_is_concat.

(* (1c) With no hypothesis on the results: everything except the printer's
   own separators, and the exit status, is as specified (contents, order,
   leading content, stop at the first error). *)
Theorem C10_content_in_order :
  forall (P R T : Type) (blank : P) (absorb : list litem -> P -> P) (pfail parentless : res R -> bool)
         (ev : T -> list (sdoc P) -> option (list (res R)) * T) (t0 : T) (TInv : T -> Prop),
  TInv t0 -> (forall t ds, TInv t -> TInv (snd (ev t ds))) -> (forall t ds, TInv t -> fst (ev t ds) = fst (ev t0 ds)) ->
  forall cfg fs,
  strip_sep (fst (run_seq blank absorb pfail parentless ev t0 cfg fs)) = strip_sep (fst (spec_run blank pfail (fresh parentless ev t0) cfg fs))
  /\ snd (run_seq blank absorb pfail parentless ev t0 cfg fs) = snd (spec_run blank pfail (fresh parentless ev t0) cfg fs).
Proof. exact run_seq_content. Qed.
Print Assumptions C10_content_in_order.

(* (2) The documents handed to the expression are, in order, exactly the
   documents of the files stamped with their true file index, document index
   and file name. *)
Theorem C10_indices_true :
  forall (P R T : Type) (blank : P) (absorb : list litem -> P -> P) (pfail parentless : res R -> bool)
         (ev : T -> list (sdoc P) -> option (list (res R)) * T) (t0 : T) (TInv : T -> Prop),
  TInv t0 -> (forall t ds, TInv t -> TInv (snd (ev t ds))) -> (forall t ds, TInv t -> fst (ev t ds) = fst (ev t0 ds)) ->
  forall cfg fs bs,
  run_seq_blocks blank absorb pfail parentless ev t0 cfg fs = (bs, Done) -> spec_docs blank fs <> [] ->
  List.map b_doc bs = spec_docs blank fs
  /\ forall sd, In sd (spec_docs blank fs) <->
       exists i fl k d, nth_error fs i = Some fl /\ nth_error (decode blank absorb true fl) k = Some d
         /\ sd = mkSdoc (N.of_nat i) (N.of_nat k) (f_name fl) false (d_lead d) (d_body d).
Proof. exact indices_true. Qed.
Print Assumptions C10_indices_true.

(* (3) Non-interference: what is printed for a document (up to the printer's
   separators) is a function of that stamped document alone -- the same in
   any two runs, over any files. *)
Theorem C10_doc_independent :
  forall (P R T : Type) (blank : P) (absorb : list litem -> P -> P) (pfail parentless : res R -> bool)
         (ev : T -> list (sdoc P) -> option (list (res R)) * T) (t0 : T) (TInv : T -> Prop),
  TInv t0 -> (forall t ds, TInv t -> TInv (snd (ev t ds))) -> (forall t ds, TInv t -> fst (ev t ds) = fst (ev t0 ds)) ->
  forall cfg fs1 fs2 bs1 s1 bs2 s2 B1 B2,
  run_seq_blocks blank absorb pfail parentless ev t0 cfg fs1 = (bs1, s1) ->
  run_seq_blocks blank absorb pfail parentless ev t0 cfg fs2 = (bs2, s2) ->
  In B1 bs1 -> In B2 bs2 -> b_doc B1 = b_doc B2 ->
  strip_sep (b_events B1) = strip_sep (b_events B2).
Proof. exact doc_independent. Qed.
Print Assumptions C10_doc_independent.

(* the one write into the shared tree that exists in the source satisfies the TInv hypotheses *)
Theorem C10_sort_tree_write_idempotent :
  forall (P R E : Type) (self : E) (sort_by : option E -> list (sdoc P) -> option (list (res R))) t ds ds',
    fst (sort_ev self sort_by t ds) = fst (sort_ev self sort_by None ds)
    /\ sort_ev self sort_by (snd (sort_ev self sort_by t ds)) ds' = sort_ev self sort_by t ds'.
Proof. exact sort_tree_write_idempotent. Qed.
Print Assumptions C10_sort_tree_write_idempotent.

(* (4) One result per document (the identity): N documents in, N results out
   (one when nothing was read: the null document), no error. *)
Theorem C10_identity_count :
  forall (P R T : Type) (blank : P) (absorb : list litem -> P -> P) (pfail parentless : res R -> bool)
         (ev : T -> list (sdoc P) -> option (list (res R)) * T) (t0 : T) (TInv : T -> Prop),
  TInv t0 -> (forall t ds, TInv t -> TInv (snd (ev t ds))) -> (forall t ds, TInv t -> fst (ev t ds) = fst (ev t0 ds)) ->
  forall cfg fs,
  (forall sd, exists r, fresh parentless ev t0 sd = Some [r] /\ pfail r = false) ->
  Forall (fun fl => f_bad fl = false) fs ->
  count_res (fst (run_seq blank absorb pfail parentless ev t0 cfg fs)) = Nat.max 1 (length (spec_docs blank fs))
  /\ snd (run_seq blank absorb pfail parentless ev t0 cfg fs) = Done.
Proof. exact identity_count. Qed.
Print Assumptions C10_identity_count.

(* (5) eval-all = eval on an input of at most one document, for expressions
   that do not look at the EvaluateTogether flag (the flag only switches
   collect to read-only traversal: total traversals); nodes made during
   evaluation without Parent have zero document / file index. *)
Theorem C10_evalall_eq_eval_single :
  forall (P R T : Type) (blank : P) (absorb : list litem -> P -> P) (pfail parentless : res R -> bool)
         (ev : T -> list (sdoc P) -> option (list (res R)) * T) (t0 : T) cfg fl,
  parentless_zero parentless ev t0 ->
  f_bad fl = false ->
  (length (decode blank absorb true fl) <= 1)%nat ->
  (forall sd, fst (ev t0 [set_together sd]) = fst (ev t0 [sd])) ->
  run_all blank absorb pfail ev t0 cfg [fl] = run_seq blank absorb pfail parentless ev t0 cfg [fl].
Proof. exact evalall_single. Qed.
Print Assumptions C10_evalall_eq_eval_single.

(* ------------------------------------------------------------------ *)
(* the two former counterexamples, now instances of (1a)                *)
(* ------------------------------------------------------------------ *)
Definition cfg_yaml : pcfg := mkCfg true true false.
Definition nofail : res (bool * N) -> bool := fun _ => false.
Definition is_parentless (r : res (bool * N)) : bool := fst (r_val r).
Definition two_files : list (file N) := [mkFile [102; 49] [] [7] false; mkFile [102; 50] [] [8] false].
Definition one_file_two_docs : list (file N) := [mkFile [102; 49] [] [7; 8] false].

(* `.a, .b`: two results per document, both below the document root *)
Definition ev_two (_ : unit) (ds : list (sdoc N)) : option (list (res (bool * N))) * unit :=
  (Some (flat_map (fun sd => [mkRes (s_doc sd) (s_file sd) [] (false, 1); mkRes (s_doc sd) (s_file sd) [] (false, 2)]) ds), tt).

(* `[.a]`, `keys`, `length` ...: one result that replaces the root (no Parent, document 0 / file 0 in the node) *)
Definition ev_detached (_ : unit) (ds : list (sdoc N)) : option (list (res (bool * N))) * unit :=
  (Some (List.map (fun sd => mkRes 0 0 [] (true, s_body sd)) ds), tt).

(* non-vacuity: both meet the hypotheses of (1a) with TInv := True; one separator per document boundary *)
Example C10_example :
  attached is_parentless ev_two tt
  /\ attached is_parentless ev_detached tt
  /\ run_seq 0 (fun _ b => b) nofail is_parentless ev_two tt cfg_yaml two_files
     = ([Res 0 0 0 (false, 1); Res 0 0 1 (false, 2); Sep; Res 1 0 0 (false, 1); Res 1 0 1 (false, 2)], Done)
  /\ run_seq 0 (fun _ b => b) nofail is_parentless ev_detached tt cfg_yaml one_file_two_docs
     = ([Res 0 0 0 (true, 7); Sep; Res 0 1 0 (true, 8)], Done).
Proof.
  split; [|split; [|split; vm_compute; reflexivity]].
  - apply attached_of_raw. intros sd rs H. cbn in H. injection H as <-. repeat constructor; right; split; reflexivity.
  - apply attached_of_raw. intros sd rs H. cbn in H. injection H as <-. repeat constructor; left; reflexivity.
Qed.
