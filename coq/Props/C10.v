(* Props/C10.v -- property theorems only (each closed by [exact lemma]).

   Reading guide.  P = document payloads, R = result payloads, T = states of
   the parsed expression tree.  [ev t ds] = GetMatchingNodes on the context
   [ds] with the tree in state [t]; every theorem holds for every [ev], i.e.
   for every expression.  [fresh ev t0 sd] = the results of the expression,
   freshly parsed, on the single stamped document [sd].  The hypotheses
   TInv... say that what handlers write into the shared tree never changes a
   later result (instance: C10_sort_tree_write_idempotent).
   [run_seq cfg fixp fs]: the sequence-mode driver + printer; fixp = false is
   the printer as coded, fixp = true the repaired one (previousFileIndex
   assigned after every node). *)
From YQ Require Import Base.Str Model.Printer Model.Stream Spec.StreamSpec Proofs.StreamProofs.

(* (1a) Sequence mode = separator-joined concatenation of the single-document
   results, for the REPAIRED printer and every expression whose results
   report the position of their document (results reached through the
   document root). *)
Theorem C10_seq_is_concat_fixed :
  forall (P R T : Type) (blank : P) (absorb : list litem -> P -> P) (pfail : res R -> bool)
         (ev : T -> list (sdoc P) -> option (list (res R)) * T) (t0 : T) (TInv : T -> Prop),
  TInv t0 -> (forall t ds, TInv t -> TInv (snd (ev t ds))) -> (forall t ds, TInv t -> fst (ev t ds) = fst (ev t0 ds)) ->
  forall cfg fs, attached ev t0 ->
  run_seq blank absorb pfail ev t0 cfg true fs = spec_run blank pfail (fresh ev t0) cfg fs.
Proof. intros P R T blank absorb pfail ev t0 TInv H0 H1 H2 cfg fs Ha.
  exact (run_seq_exact P R T blank absorb pfail ev t0 TInv H0 H1 H2 cfg true fs Ha (or_introl eq_refl)). Qed.
Print Assumptions C10_seq_is_concat_fixed.

(* (1b) The printer as coded: the same, but only for expressions with at most
   one result per document (see C10_separator_refuted for two results). *)
Theorem C10_seq_is_concat_partial :
  forall (P R T : Type) (blank : P) (absorb : list litem -> P -> P) (pfail : res R -> bool)
         (ev : T -> list (sdoc P) -> option (list (res R)) * T) (t0 : T) (TInv : T -> Prop),
  TInv t0 -> (forall t ds, TInv t -> TInv (snd (ev t ds))) -> (forall t ds, TInv t -> fst (ev t ds) = fst (ev t0 ds)) ->
  forall cfg fs, attached ev t0 -> le1 ev t0 ->
  run_seq blank absorb pfail ev t0 cfg false fs = spec_run blank pfail (fresh ev t0) cfg fs.
Proof. intros P R T blank absorb pfail ev t0 TInv H0 H1 H2 cfg fs Ha Hl.
  exact (run_seq_exact P R T blank absorb pfail ev t0 TInv H0 H1 H2 cfg false fs Ha (or_intror Hl)). Qed.
Print Assumptions C10_seq_is_concat_partial.

(* (1c) Readable form over readable files: the output is join_sep over the
   documents at their true positions. *)
Theorem C10_seq_is_concat :
  forall (P R T : Type) (blank : P) (absorb : list litem -> P -> P) (pfail : res R -> bool)
         (ev : T -> list (sdoc P) -> option (list (res R)) * T) (t0 : T) (TInv : T -> Prop),
  TInv t0 -> (forall t ds, TInv t -> TInv (snd (ev t ds))) -> (forall t ds, TInv t -> fst (ev t ds) = fst (ev t0 ds)) ->
  forall cfg b fs, attached ev t0 -> (b = true \/ le1 ev t0) ->
  Forall (fun fl => f_bad fl = false) fs -> spec_docs blank fs <> [] ->
  run_seq blank absorb pfail ev t0 cfg b fs =
    (jev (join_sep pfail cfg false (List.map (fresh ev t0) (spec_docs blank fs))),
     jst (join_sep pfail cfg false (List.map (fresh ev t0) (spec_docs blank fs)))).
Proof. exact seq_is_concat. Qed.
Print Assumptions C10_seq_is_concat.

(* (1d) With no hypothesis on the results and for both printers: everything
   except the printer's own separators, and the exit status, is as specified
   (contents, order, leading content, stop at the first error). *)
Theorem C10_content_in_order :
  forall (P R T : Type) (blank : P) (absorb : list litem -> P -> P) (pfail : res R -> bool)
         (ev : T -> list (sdoc P) -> option (list (res R)) * T) (t0 : T) (TInv : T -> Prop),
  TInv t0 -> (forall t ds, TInv t -> TInv (snd (ev t ds))) -> (forall t ds, TInv t -> fst (ev t ds) = fst (ev t0 ds)) ->
  forall cfg b fs,
  strip_sep (fst (run_seq blank absorb pfail ev t0 cfg b fs)) = strip_sep (fst (spec_run blank pfail (fresh ev t0) cfg fs))
  /\ snd (run_seq blank absorb pfail ev t0 cfg b fs) = snd (spec_run blank pfail (fresh ev t0) cfg fs).
Proof. exact run_seq_content. Qed.
Print Assumptions C10_content_in_order.

(* (2) The documents handed to the expression are, in order, exactly the
   documents of the files stamped with their true file index, document index
   and file name. *)
Theorem C10_indices_true :
  forall (P R T : Type) (blank : P) (absorb : list litem -> P -> P) (pfail : res R -> bool)
         (ev : T -> list (sdoc P) -> option (list (res R)) * T) (t0 : T) (TInv : T -> Prop),
  TInv t0 -> (forall t ds, TInv t -> TInv (snd (ev t ds))) -> (forall t ds, TInv t -> fst (ev t ds) = fst (ev t0 ds)) ->
  forall cfg b fs bs,
  run_seq_blocks blank absorb pfail ev t0 cfg b fs = (bs, Done) -> spec_docs blank fs <> [] ->
  List.map b_doc bs = spec_docs blank fs
  /\ forall sd, In sd (spec_docs blank fs) <->
       exists i fl k d, nth_error fs i = Some fl /\ nth_error (decode blank absorb true fl) k = Some d
         /\ sd = mkSdoc (N.of_nat i) (N.of_nat k) (f_name fl) false (d_lead d) (d_body d).
Proof. exact indices_true. Qed.
Print Assumptions C10_indices_true.

(* (3) Non-interference: what is printed for a document (up to the printer's
   separators) is a function of that stamped document alone -- the same in
   any two runs, over any files, with either printer. *)
Theorem C10_doc_independent :
  forall (P R T : Type) (blank : P) (absorb : list litem -> P -> P) (pfail : res R -> bool)
         (ev : T -> list (sdoc P) -> option (list (res R)) * T) (t0 : T) (TInv : T -> Prop),
  TInv t0 -> (forall t ds, TInv t -> TInv (snd (ev t ds))) -> (forall t ds, TInv t -> fst (ev t ds) = fst (ev t0 ds)) ->
  forall cfg b1 b2 fs1 fs2 bs1 s1 bs2 s2 B1 B2,
  run_seq_blocks blank absorb pfail ev t0 cfg b1 fs1 = (bs1, s1) ->
  run_seq_blocks blank absorb pfail ev t0 cfg b2 fs2 = (bs2, s2) ->
  In B1 bs1 -> In B2 bs2 -> b_doc B1 = b_doc B2 ->
  strip_sep (b_events B1) = strip_sep (b_events B2).
Proof. exact doc_independent. Qed.
Print Assumptions C10_doc_independent.

(* the one write into the shared tree that exists in the source satisfies the TInv hypotheses *)
Theorem C10_sort_tree_write_idempotent :
  forall (P R E : Type) (self : E) (sort_by : option E -> list (sdoc P) -> option (list (res R))) t ds ds',
    fst (sort_ev self sort_by t ds) = fst (sort_ev self sort_by None ds)
    /\ sort_ev self sort_by (snd (sort_ev self sort_by t ds)) ds' = sort_ev self sort_by t ds'.
Proof. exact sort_tree_write_idempotent. Qed.
Print Assumptions C10_sort_tree_write_idempotent.

(* (4) One result per document (the identity): N documents in, N results out
   (one when nothing was read: the null document), no error. *)
Theorem C10_identity_count :
  forall (P R T : Type) (blank : P) (absorb : list litem -> P -> P) (pfail : res R -> bool)
         (ev : T -> list (sdoc P) -> option (list (res R)) * T) (t0 : T) (TInv : T -> Prop),
  TInv t0 -> (forall t ds, TInv t -> TInv (snd (ev t ds))) -> (forall t ds, TInv t -> fst (ev t ds) = fst (ev t0 ds)) ->
  forall cfg b fs,
  (forall sd, exists r, fresh ev t0 sd = Some [r] /\ pfail r = false) ->
  Forall (fun fl => f_bad fl = false) fs ->
  count_res (fst (run_seq blank absorb pfail ev t0 cfg b fs)) = Nat.max 1 (length (spec_docs blank fs))
  /\ snd (run_seq blank absorb pfail ev t0 cfg b fs) = Done.
Proof. exact identity_count. Qed.
Print Assumptions C10_identity_count.

(* (5) eval-all = eval on an input of at most one document, for expressions
   that do not look at the EvaluateTogether flag (the flag only switches
   collect to read-only traversal: total traversals). *)
Theorem C10_evalall_eq_eval_single :
  forall (P R T : Type) (blank : P) (absorb : list litem -> P -> P) (pfail : res R -> bool)
         (ev : T -> list (sdoc P) -> option (list (res R)) * T) (t0 : T) cfg b fl,
  f_bad fl = false ->
  (length (decode blank absorb true fl) <= 1)%nat ->
  (forall sd, fst (ev t0 [set_together sd]) = fst (ev t0 [sd])) ->
  run_all blank absorb pfail ev t0 cfg b [fl] = run_seq blank absorb pfail ev t0 cfg b [fl].
Proof. exact evalall_single. Qed.
Print Assumptions C10_evalall_eq_eval_single.

(* ------------------------------------------------------------------ *)
(* refutations of the full statement on the faithful model              *)
(* ------------------------------------------------------------------ *)
Definition cfg_yaml : pcfg := mkCfg true true false.
Definition nofail : res N -> bool := fun _ => false.
Definition two_files : list (file N) := [mkFile [102; 49] [] [7] false; mkFile [102; 50] [] [8] false].
Definition one_file_two_docs : list (file N) := [mkFile [102; 49] [] [7; 8] false].

(* `.a, .b`: two results per document, both below the document root *)
Definition ev_two (_ : unit) (ds : list (sdoc N)) : option (list (res N)) * unit :=
  (Some (flat_map (fun sd => [mkRes (s_doc sd) (s_file sd) [] 1; mkRes (s_doc sd) (s_file sd) [] 2]) ds), tt).

(* `[.a]`, `keys`, `length`, `document_index` ...: one result that replaces
   the root (CreateReplacement: no Parent, so document 0 / file 0 is reported) *)
Definition ev_detached (_ : unit) (ds : list (sdoc N)) : option (list (res N)) * unit :=
  (Some (List.map (fun sd => mkRes 0 0 [] (s_body sd)) ds), tt).

(* A spurious separator between the two results of the document of the
   second file (previousFileIndex is never updated), although the expression
   satisfies every hypothesis of C10_seq_is_concat_fixed. *)
Theorem C10_separator_refuted :
  attached ev_two tt
  /\ run_seq 0 (fun _ b => b) nofail ev_two tt cfg_yaml false two_files
     = ([Res 0 0 0 1; Res 0 0 1 2; Sep; Res 1 0 0 1; Sep; Res 1 0 1 2], Done)
  /\ spec_run 0 nofail (fresh ev_two tt) cfg_yaml two_files
     = ([Res 0 0 0 1; Res 0 0 1 2; Sep; Res 1 0 0 1; Res 1 0 1 2], Done).
Proof.
  split; [|split; vm_compute; reflexivity].
  intros sd rs H. unfold fresh, ev_two in H. cbn in H. injection H as <-.
  repeat constructor.
Qed.
Print Assumptions C10_separator_refuted.

(* No separator at all between the results of two documents when the
   results are cut loose from the document root. *)
Theorem C10_detached_separator_refuted :
  run_seq 0 (fun _ b => b) nofail ev_detached tt cfg_yaml false one_file_two_docs = ([Res 0 0 0 7; Res 0 0 0 8], Done)
  /\ run_seq 0 (fun _ b => b) nofail ev_detached tt cfg_yaml true one_file_two_docs = ([Res 0 0 0 7; Res 0 0 0 8], Done).
Proof. split; vm_compute; reflexivity. Qed.
Print Assumptions C10_detached_separator_refuted.

(* non-vacuity: ev_two meets the hypotheses of (1a) with TInv := True, and the repaired printer prints what the spec says *)
Example C10_example :
  attached ev_two tt
  /\ (forall t ds, fst (ev_two t ds) = fst (ev_two tt ds))
  /\ run_seq 0 (fun _ b => b) nofail ev_two tt cfg_yaml true two_files
     = ([Res 0 0 0 1; Res 0 0 1 2; Sep; Res 1 0 0 1; Res 1 0 1 2], Done).
Proof.
  split; [exact (proj1 C10_separator_refuted)|]. split; [intros [] ds; reflexivity|vm_compute; reflexivity].
Qed.
