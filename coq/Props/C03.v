(* Props/C03.v — placeholder; delete theorems are added from Proofs/DeleteProofs.v. *)
From YQ Require Import Base.Str Model.Node Model.Store Model.Eval.
Theorem C03_selfcheck : forall st, eval 1 ESelf false [] [] st = Ok ([], st).
Proof. reflexivity. Qed.
Print Assumptions C03_selfcheck.
