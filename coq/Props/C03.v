(* Props/C03.v — property theorems only. *)
From Coq Require Import Arith Sorted.
From YQ Require Import Base.Str Model.Node Model.Store Model.Eval Spec.Lens Proofs.DeleteProofs Proofs.AssignPathProofs Proofs.DeletePathProofs.

(* Deleting a sequence element removes exactly that element: all others keep
   value and relative order ... *)
Theorem C03_remove_item_exact : forall items p,
  List.map snd (remove_item items p O 0) = drop_at p (List.map snd items).
Proof. exact remove_item_exact. Qed.
Print Assumptions C03_remove_item_exact.

(* ... and the survivors are renumbered 0,1,2,... so the sequence stays well-keyed *)
Theorem C03_survivors_renumbered : forall items victim pos kept,
  Forall (fun kc => exists i, fst kc = RIdx i) items ->
  well_keyed_from kept (remove_item items victim pos kept).
Proof. exact remove_item_keys. Qed.
Print Assumptions C03_survivors_renumbered.

(* Deleting a map entry (unique keys) removes exactly that entry *)
Theorem C03_remove_entry_exact : forall es k i,
  unique_keys es -> find_idx es k = Some i -> remove_entries es k = drop_at i es.
Proof. exact remove_entries_exact. Qed.
Print Assumptions C03_remove_entry_exact.

(* deleteChildOperator's loop on one selected sequence child / map entry:
   only the parent container changes, by exactly that removal *)
Theorem C03_del_one_seq : forall fuel r q i st items cx,
  deref st (r, q) = Some (Seq items) -> (i < length items)%nat ->
  del_loop (S fuel) [(r, q ++ [i])] cx st =
  Ok (shift_ptrs (r, q) [i] cx, update st (r, q) (fun _ => Seq (remove_item items i O 0))).
Proof. exact del_loop_one_seq. Qed.
Print Assumptions C03_del_one_seq.

Theorem C03_del_one_map : forall fuel r q i st es k c cx,
  deref st (r, q) = Some (Map es) -> nth_error es i = Some (k, c) ->
  del_loop (S fuel) [(r, q ++ [i])] cx st =
  Ok (shift_ptrs (r, q) (removed_entries es k O) cx, update st (r, q) (fun _ => Map (remove_entries es k))).
Proof. exact del_loop_one_map. Qed.
Print Assumptions C03_del_one_map.

(* Several elements of one sequence, any number, selected in ANY order (a union
   written in any order, duplicates already removed by the loop): exactly the
   selected elements disappear, "those elements, not their neighbours"; all
   others keep value and relative order. *)
Theorem C03_del_many_any_order : forall r q ps items st cx fuel,
  deref st (r, q) = Some (Seq items) ->
  NoDup ps -> Forall (fun p => (p < length items)%nat) ps -> (length ps <= fuel)%nat ->
  exists cx' items',
    del_loop fuel (List.map (fun p => (r, q ++ [p])) ps) cx st = Ok (cx', update st (r, q) (fun _ => Seq items'))
    /\ List.map snd items' = keep_not_in ps (List.map snd items) O.
Proof. exact del_loop_any. Qed.
Print Assumptions C03_del_many_any_order.

(* hence del(s1, s2) and del(s2, s1) on one sequence leave the same elements *)
Theorem C03_del_union_commutes : forall (A : Type) (p1 p2 : list nat) (l : list A),
  keep_not_in (p1 ++ p2) l O = keep_not_in (p2 ++ p1) l O.
Proof. intros A. exact (@keep_not_in_comm A). Qed.
Print Assumptions C03_del_union_commutes.

(* Through the evaluator: `del(p)` for any existing simple path p (keys and index literals mixed, any length)
   -- selection evaluated read-only, victims de-duplicated, deleteChildOperator's loop -- leaves the document with
   exactly the named child removed from its parent container ([removed_child]: remove_item / remove_entries,
   characterised above) and every position outside that container untouched ([upd_at]). *)
Theorem C03_del_path_exact : forall p doc f pos,
  p <> [] -> Forall step_ok p -> (length p + 2 <= f)%nat ->
  resolvep p doc = Some pos ->
  exists par par' st',
    get_at doc (removelast pos) = Some par /\ removed_child par (last pos O) = Some par' /\
    eval (S f) (EDel (pe p)) false [] [(O, [])] (init_store doc) = Ok ([(O, [])], st') /\
    deref st' (O, []) = Some (upd_at doc (removelast pos) (fun _ => par')).
Proof. exact del_path_exact. Qed.
Print Assumptions C03_del_path_exact.

(* a multi-match selection through the evaluator: `del(.[])` on a sequence removes every element -- the victims are
   visited back to front, each located by identity, none skipped or removed twice *)
Theorem C03_del_splat_empties : forall items f,
  (2 <= f)%nat ->
  exists cx' st',
    eval (S f) (EDel (EIndex ESelf None)) false [] [(O, [])] (init_store (Seq items)) = Ok (cx', st')
    /\ deref st' (O, []) = Some (Seq []).
Proof. exact del_splat_empties. Qed.
Print Assumptions C03_del_splat_empties.

Example C03_del_path_example :
  let doc := Map [([97], Seq [(RIdx 0, Scalar TInt [48]); (RIdx 1, Map [([98], Scalar TInt [49]); ([99], Scalar TInt [50])])])] in
  let p := [EK [97]; EI [49] 1; EK [98]] in
  Forall step_ok p /\ resolvep p doc = Some [0; 1; 0]%nat /\
  run (EDel (pe p)) doc
  = tag_ok ++ ser_node (Map [([97], Seq [(RIdx 0, Scalar TInt [48]); (RIdx 1, Map [([99], Scalar TInt [50])])])]) ++ [10].
Proof. exact del_path_example. Qed.

(* non-vacuity and the formerly failing witnesses (now repaired in /repo and in the model):
   delete on a re-ordered container removes the selected element, and a node selected twice is deleted once *)
Example C03_example_sorted :
  run (EPipe (ESortBy ESelf) (EDel (EIndex ESelf (Some (ELit TInt [48])))))
      (Seq [(RIdx 0, Scalar TInt [51]); (RIdx 1, Scalar TInt [49]); (RIdx 2, Scalar TInt [50])])
  = tag_ok ++ ser_node (Seq [(RIdx 0, Scalar TInt [50]); (RIdx 1, Scalar TInt [51])]) ++ [10].
Proof. vm_compute. reflexivity. Qed.

Example C03_example_twice :
  run (EDel (EUnion (EIndex ESelf (Some (ELit TInt [48]))) (EIndex ESelf (Some (ELit TInt [48])))))
      (Seq [(RIdx 0, Scalar TInt [49]); (RIdx 1, Scalar TInt [50]); (RIdx 2, Scalar TInt [51])])
  = tag_ok ++ ser_node (Seq [(RIdx 0, Scalar TInt [50]); (RIdx 1, Scalar TInt [51])]) ++ [10].
Proof. vm_compute. reflexivity. Qed.
