(* Props/C06.v — property theorems only (each closed by [exact lemma]).

   Reading guide.  [node] is yq's CandidateNode as the JSON encoder sees it;
   [to_json] is MarshalJSON + GetValueRep; [enc_top ind v] the bytes goccy
   prints for indent [ind] (0 = compact); [yq_encode] is jsonEncoder.Encode
   (with the unwrap switch); [parse_json] the JSON reader with yq's int/float
   classification through binary64; [of_json] the node UnmarshalJSON builds.
   [ff] stands for strconv.ParseFloat followed by goccy's float printing: the
   float *text* is never computed by the model, only passed through. *)
From Coq Require Import ZArith String.
From YQ Require Import Base.Str Model.Json Spec.JsonGrammar Proofs.JsonProofs.

(* Always valid JSON: for every node tree, indent and float printer that
   prints JSON numbers, whatever yq prints is an RFC 8259 text (well-formed
   UTF-8 included) - except a top-level scalar with unwrapping on, which is
   printed raw by design (see C06_unwrap_scalar_refuted). *)
Theorem C06_valid : forall (ff : str -> res str) (ind : N) (unwrap : bool) (n : node) (out : str),
  (forall t o, ff t = Ok o -> jnumber o) ->
  unwrap = false \/ is_scalar n = false ->
  yq_encode ff ind unwrap n = Ok out -> json_text out.
Proof. exact yq_encode_valid. Qed.
Print Assumptions C06_valid.

Theorem C06_valid_value : forall (v : jvalue) (ind : N),
  floats_ok jnumber v -> json_text (enc_top ind v).
Proof. exact enc_top_valid. Qed.
Print Assumptions C06_valid_value.

(* Reading the output back gives the same value, for every indent: nested
   containers, key order and duplicates, strings (well-formed UTF-8) to the
   byte, every int64 integer.  Float tokens are outside. *)
Theorem C06_decode_encode : forall (v : jvalue) (ind : N),
  rt_domain v = true -> parse_json (enc_top ind v) = Ok v.
Proof. exact decode_encode. Qed.
Print Assumptions C06_decode_encode.

(* The same with float tokens: every value whose float tokens the reader
   accepts (float_token_ok: a JSON number in range) reads back as itself,
   except that a token denoting an int64 integer comes back as that integer
   (reclass) - exactly what setScalarFromJson does. *)
Theorem C06_decode_encode_floats : forall (v : jvalue) (ind : N),
  rt_domain_f v = true -> parse_json (enc_top ind v) = Ok (reclass v).
Proof. exact decode_encode_f. Qed.
Print Assumptions C06_decode_encode_floats.

(* Floats by value, under the contract of the float printer (strconv /
   goccy shortest round-trip formatting: the printed token is a number that
   ParseFloat maps back to the same binary64; a premise, validated on every
   run): the !!float scalar with text x becomes a JSON token that denotes the
   binary64 ParseFloat gives for x ([go_parse_float], [token_value]: exact
   correctly rounded decimal -> binary64 in the model), and that token reads
   back (as itself, or as the int64 integer it denotes). *)
Theorem C06_float_value_exact :
  forall (fmt : f64 -> res str),
  (forall f t, fmt f = Ok t -> float_token_ok t = true /\ token_value t = Some f) ->
  forall (x : str) (v : jvalue) (ind : N),
  to_json (ff_of fmt) (NScalar t_float x) = Ok v ->
  exists f t, go_parse_float x = Some f /\ token_value t = Some f
              /\ parse_json (enc_top ind v) = Ok (reclass (JFloat t)).
Proof. exact float_through_json. Qed.
Print Assumptions C06_float_value_exact.

(* Strings: any byte string reads back as itself with ill-formed UTF-8
   replaced by U+FFFD, and a well-formed one is unchanged. *)
Theorem C06_string_exact : forall (s : str) (ind : N),
  parse_json (enc_top ind (JStr s)) = Ok (JStr (sanitize s))
  /\ (valid_utf8 s = true -> sanitize s = s).
Proof. intros s ind. split; [exact (string_exact s ind)|exact (valid_sanitize s)]. Qed.
Print Assumptions C06_string_exact.

(* Integers: every int64 written in decimal in the YAML node becomes exactly
   that JSON integer, and reads back exactly (since the repair of the JSON
   reader: integer literals that fit int64 no longer go through float64). *)
Theorem C06_int_exact : forall (ff : str -> res str) (z : Z) (ind : N),
  (- Z.of_N two63 <= z < Z.of_N two63)%Z ->
  to_json ff (NScalar t_int (dec_Z z)) = Ok (JInt z)
  /\ enc_top ind (JInt z) = (dec_Z z ++ [10])%list
  /\ parse_json (enc_top ind (JInt z)) = Ok (JInt z).
Proof.
  intros ff z ind Hz. split; [exact (int_exact_yaml ff z Hz)|]. split; [reflexivity|exact (int_exact_json z ind Hz)].
Qed.
Print Assumptions C06_int_exact.

(* JSON -> node -> JSON: the node yq builds from a float-free JSON value with
   int64 integers encodes back to the same value (the YAML text in between is
   the YAML library's business: contract of C05, tested on the binary). *)
Theorem C06_json_node_json : forall (ff : str -> res str) (v : jvalue),
  int64_domain v = true -> to_json ff (of_json v) = Ok v.
Proof. exact to_json_of_json. Qed.
Print Assumptions C06_json_node_json.

(* .inf / .nan (every spelling of the YAML core schema) is an error, whatever
   the float printer is. *)
Theorem C06_nonfinite_errors : forall (ff : str -> res str) (t : str),
  In t yaml_nonfinite -> to_json ff (NScalar t_float t) = Err EFloat.
Proof. exact nonfinite_errors. Qed.
Print Assumptions C06_nonfinite_errors.

(* Finding (still open): an integer literal beyond int64 in JSON input is
   read through float64 and comes back as a float token, not as itself. *)
Theorem C06_json_int_beyond_int64_refuted :
  parse_json (str_of_string "9223372036854775808") = Ok (JFloat (str_of_string "9223372036854775808")).
Proof. vm_compute. reflexivity. Qed.
Print Assumptions C06_json_int_beyond_int64_refuted.

(* With unwrapping on a top-level scalar is printed raw: the output need not
   be JSON at all, and when it is, it can be a different value. *)
Theorem C06_unwrap_scalar_refuted :
  (exists n out, yq_encode no_float 2 true n = Ok out /\ parse_json out = Err ESyntax)
  /\ (exists n out v, yq_encode no_float 2 true n = Ok out /\ to_json no_float n = Ok v
                      /\ parse_json out = Ok (JInt 123) /\ v = JStr (str_of_string "123")).
Proof.
  split.
  - exists (NScalar t_str [97; 34; 98]), [97; 34; 98; 10]. split; vm_compute; reflexivity.
  - exists (NScalar t_str (str_of_string "123")), (str_of_string "123" ++ [10])%list, (JStr (str_of_string "123")).
    repeat split; vm_compute; reflexivity.
Qed.
Print Assumptions C06_unwrap_scalar_refuted.

(* non-vacuity: an adversarial document in the domain of the theorems *)
Example C06_example :
  let doc := NMap [ (str_of_string "k""1", NSeq [ NScalar t_int (str_of_string "0x1F");
                                                  NScalar t_str [34; 10; 1; 226; 128; 168; 240; 159; 152; 128];
                                                  NScalar t_bool (str_of_string "Yes");
                                                  NScalar t_null (str_of_string "~"); NSeq []; NMap [] ]) ] in
  yq_encode no_float 0 false doc
  = Ok (str_of_string "{""k\""1"":[31,""\""\n\u0001\u2028" ++ [240; 159; 152; 128] ++ str_of_string """,true,null,[],{}]}" ++ [10])%list
  /\ (exists v, to_json no_float doc = Ok v /\ rt_domain v = true /\ floats_ok jnumber v
                /\ parse_json (enc_top 7 v) = Ok v).
Proof.
  cbv zeta. split; [vm_compute; reflexivity|].
  exists (JObj [ (str_of_string "k""1", JArr [ JInt 31; JStr [34; 10; 1; 226; 128; 168; 240; 159; 152; 128];
                                               JBool true; JNull; JArr []; JObj [] ]) ]).
  split; [vm_compute; reflexivity|]. split; [vm_compute; reflexivity|].
  split; [cbn; tauto|vm_compute; reflexivity].
Qed.

(* non-vacuity of the float contract: a printer that knows one value *)
Example C06_float_example :
  let fmt := fun f : f64 => match f with
                            | (neg, m, e) => if negb neg && (m =? 6755399441055744)%N && (e =? -52)%Z
                                             then Ok (str_of_string "1.5") else Err EFloat
                            end in
  (forall f t, fmt f = Ok t -> float_token_ok t = true /\ token_value t = Some f)
  /\ to_json (ff_of fmt) (NScalar t_float (str_of_string "+1_5.0e-1")) = Ok (JFloat (str_of_string "1.5"))
  /\ parse_json (enc_top 2 (JArr [JFloat (str_of_string "1.5"); JFloat (str_of_string "1e3")]))
     = Ok (JArr [JFloat (str_of_string "1.5"); JInt 1000]).
Proof.
  cbv zeta. split; [|split; vm_compute; reflexivity].
  intros [[neg m] e] t H.
  destruct (negb neg && (m =? 6755399441055744)%N && (e =? -52)%Z) eqn:E; [|discriminate].
  injection H as <-.
  apply andb_prop in E as [E E3]. apply andb_prop in E as [E1 E2].
  apply N.eqb_eq in E2. apply Z.eqb_eq in E3. destruct neg; [discriminate|]. subst m e.
  split; vm_compute; reflexivity.
Qed.
