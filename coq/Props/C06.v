(* Props/C06.v — property theorems only (each closed by [exact lemma]). *)
From YQ Require Import Base.Str Model.Json.

Theorem C06_bigint_via_float_refuted :
  exists s z, parse_json s = Ok (JInt z) /\ s = dec_Z (z + 1).
Proof. exists (dec_Z 9007199254740993), 9007199254740992%Z. vm_compute. split; reflexivity. Qed.
Print Assumptions C06_bigint_via_float_refuted.
