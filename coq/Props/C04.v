(* Props/C04.v — property theorems only.

   [merge fl a b] (Spec/MergeSpec.v) is the deep merge `a *FLAGS b` as a pure
   function by structural recursion on b; [None] is the open region the
   property leaves undefined (kinds differ at an existing position and one of
   `+ ? n` is set).  [ukeys b]: the maps inside b have pairwise distinct keys.
   The theorems hold for nodes of any depth and width.  The tie between
   [merge] and `*` of the implementation is the differential check
   (checks/props/c04.py), not a theorem: partial in that sense. *)
From YQ Require Import Base.Str Model.Node Spec.MergeSpec Proofs.MergeProofs.

(* ---- a's entries first, then b's new entries in b's order ---- *)
Theorem C04_entries_order : forall fl ea eb r,
  NoDup (keys eb) -> merge fl (Map ea) (Map eb) = Some r ->
  exists er, r = Map er /\ keys er = keys ea ++ (if f_existing fl then [] else new_keys (keys ea) (keys eb)).
Proof. exact entries_order. Qed.
Print Assumptions C04_entries_order.

(* ... at every level that is a map in both operands *)
Theorem C04_entries_order_deep : forall fl p a b r ea' eb',
  ukeys b -> merge fl a b = Some r ->
  get_keys p a = Some (Map ea') -> get_keys p b = Some (Map eb') ->
  exists er', get_keys p r = Some (Map er') /\
              keys er' = keys ea' ++ (if f_existing fl then [] else new_keys (keys ea') (keys eb')).
Proof. exact entries_order_deep. Qed.
Print Assumptions C04_entries_order_deep.

(* ---- merging with the empty map ---- *)
Theorem C04_empty_identity_right : forall fl ea, merge fl (Map ea) (Map []) = Some (Map ea).
Proof. exact empty_identity_right. Qed.
Print Assumptions C04_empty_identity_right.

(* on the left the identity needs `?` off (by design: `?` creates nothing, see C04_empty_left_existing) *)
Theorem C04_empty_identity_left : forall fl eb,
  f_existing fl = false -> ukeys (Map eb) -> merge fl (Map []) (Map eb) = Some (Map eb).
Proof. exact empty_identity_left. Qed.
Print Assumptions C04_empty_identity_left.

Theorem C04_empty_left_existing : forall fl eb, f_existing fl = true -> merge fl (Map []) (Map eb) = Some (Map []).
Proof. exact empty_left_existing. Qed.
Print Assumptions C04_empty_left_existing.

(* ---- a * a = a (every flag set without `+`) ---- *)
Theorem C04_idempotent : forall fl, f_append fl = false -> forall a, ukeys a -> merge fl a a = Some a.
Proof. exact idempotent. Qed.
Print Assumptions C04_idempotent.

(* merging b in once more changes nothing (default flags) *)
Theorem C04_absorb : forall a b r, ukeys b -> merge fl0 a b = Some r -> merge fl0 r b = Some r.
Proof. exact absorb. Qed.
Print Assumptions C04_absorb.

(* ---- the value at each key of the result (entry_spec, Proofs/MergeProofs.v):
   a key only a has keeps its value; a common key gets [mv fl (Some va) vb];
   a key only b has gets [mv fl None vb], or is absent with `?` ---- *)
Theorem C04_common_keys : forall fl ea eb er,
  NoDup (keys eb) -> merge fl (Map ea) (Map eb) = Some (Map er) -> forall k, entry_spec fl ea eb er k.
Proof. exact common_keys. Qed.
Print Assumptions C04_common_keys.

(* ... which is the recursive merge when both values are maps *)
Theorem C04_common_map_map : forall fl ea eb, mv fl (Some (Map ea)) (Map eb) = merge fl (Map ea) (Map eb).
Proof. exact common_map_map. Qed.
Print Assumptions C04_common_map_map.

(* ... and otherwise b's value (default flags; nested null included) *)
Theorem C04_common_takes_b : forall va vb, kind_of vb <> KMap -> mv fl0 (Some va) vb = Some vb.
Proof. exact default_takes_b. Qed.
Print Assumptions C04_common_takes_b.

Theorem C04_common_map_over_other : forall va eb,
  kind_of va <> KMap -> ukeys (Map eb) -> mv fl0 (Some va) (Map eb) = Some (Map eb).
Proof. exact default_map_over_other. Qed.
Print Assumptions C04_common_map_over_other.

(* with `d` alone a kind clash also takes b's side: written as onto a fresh position *)
Theorem C04_clash_is_fresh : forall fl va vb,
  flagged fl = false -> kind_of va <> kind_of vb -> mv fl (Some va) vb = mv fl None vb.
Proof. exact clash_is_fresh. Qed.
Print Assumptions C04_clash_is_fresh.

(* sequences: replaced / appended with `+` / merged by position with `d` *)
Theorem C04_seq_replaced : forall fl la lb,
  f_append fl = false -> f_deep fl = false -> f_new fl = false -> mv fl (Some (Seq la)) (Seq lb) = Some (Seq lb).
Proof. exact seq_replaced. Qed.
Print Assumptions C04_seq_replaced.

Theorem C04_seq_appended : forall fl la lb,
  f_append fl = true -> f_new fl = false -> mv fl (Some (Seq la)) (Seq lb) = Some (Seq (la ++ lb)).
Proof. exact seq_appended. Qed.
Print Assumptions C04_seq_appended.

(* `+d` is `+`: an appended sequence is complete, `d` adds nothing, anywhere in the merge
   (this was false before the repair recorded in KNOWN_FINDINGS.txt: the items were
   also assigned by position onto the appended sequence) *)
Theorem C04_append_ignores_deep : forall fl, f_append fl = true -> forall b t, mv fl t b = mv (no_deep fl) t b.
Proof. exact append_ignores_deep. Qed.
Print Assumptions C04_append_ignores_deep.

Theorem C04_seq_by_position : forall fl la lb r,
  f_append fl = false -> f_deep fl = true -> mv fl (Some (Seq la)) (Seq lb) = Some r ->
  exists lr, r = Seq lr /\ length lr = Nat.max (length la) (length lb) /\ forall i, item_spec fl la lb lr i.
Proof. exact seq_by_position. Qed.
Print Assumptions C04_seq_by_position.

(* ---- `?`: only existing keys ---- *)
Theorem C04_only_existing : forall fl ea eb er,
  f_existing fl = true -> NoDup (keys eb) -> merge fl (Map ea) (Map eb) = Some (Map er) ->
  keys er = keys ea /\ forall k, lookup ea k = None -> lookup er k = None.
Proof. exact only_existing. Qed.
Print Assumptions C04_only_existing.

(* ---- `n`: only new keys.  An existing value that is not null is kept
   (scalars; sequences unless `d` visits their items; maps are merged
   recursively with the same flags, C04_common_map_map); new keys are written
   in full.  An existing null is overwritten: C04_only_new_null_refuted. ---- *)
Theorem C04_only_new_partial : forall fl ea eb er k va vb,
  f_new fl = true -> NoDup (keys eb) -> merge fl (Map ea) (Map eb) = Some (Map er) ->
  lookup ea k = Some va -> lookup eb k = Some vb -> is_null va = false ->
  (kind_of va = KScalar /\ kind_of vb = KScalar) \/ (kind_of va = KSeq /\ kind_of vb = KSeq /\ f_deep fl = false) ->
  lookup er k = Some va.
Proof. exact only_new. Qed.
Print Assumptions C04_only_new_partial.

Theorem C04_new_keys_written : forall fl ea eb er k vb,
  f_existing fl = false -> ukeys (Map eb) ->
  merge fl (Map ea) (Map eb) = Some (Map er) -> lookup ea k = None -> lookup eb k = Some vb -> lookup er k = Some vb.
Proof. exact only_new_writes_new. Qed.
Print Assumptions C04_new_keys_written.

(* ---- `. as $i ireduce ({}; . * $i)`: the left fold of the binary merge,
   stated for the spec-level fold [merge_all]; that the evaluator's ireduce
   computes this fold is tied by the correspondence check ---- *)
Theorem C04_ireduce_is_fold : forall fl ds d,
  merge_all fl [] = Some (Map []) /\
  merge_all fl (ds ++ [d]) = match merge_all fl ds with Some m => merge fl m d | None => None end.
Proof. exact (fun fl ds d => conj (merge_all_nil fl) (merge_all_snoc fl ds d)). Qed.
Print Assumptions C04_ireduce_is_fold.

Theorem C04_ireduce_app : forall fl ds1 ds2,
  merge_all fl (ds1 ++ ds2) = fold_left (merge_step fl) ds2 (merge_all fl ds1).
Proof. exact merge_all_app. Qed.
Print Assumptions C04_ireduce_app.

Theorem C04_ireduce_single : forall fl eb,
  f_existing fl = false -> ukeys (Map eb) -> merge_all fl [Map eb] = Some (Map eb).
Proof. exact merge_all_single. Qed.
Print Assumptions C04_ireduce_single.

(* ---- operands untouched.  At spec level [merge] is a pure function: there is
   no state an evaluation could change, so all that can be said here is that
   evaluating it again on the same operands gives the same result.  The real
   content — multiply() works on lhs.Copy(), UpdateFrom copies the RHS node,
   so neither operand is mutated or shared with the result — is decided by
   the oracle of checks/props/c04.py on the implementation (operands re-read
   after the merge, merge repeated, result overwritten). ---- *)
Theorem C04_operands_untouched_spec_level : forall fl a b r1 r2,
  merge fl a b = r1 -> merge fl a b = r2 -> r1 = r2.
Proof. exact (fun fl a b r1 r2 H1 H2 => eq_trans (eq_sym H1) H2). Qed.
Print Assumptions C04_operands_untouched_spec_level.

(* ---------- where the faithful spec departs from the documented merge ---------- *)
Definition s_k : str := [107].
Definition i_ (n : N) : node := Scalar TInt [48 + n].
Definition it (l : list node) : list (rkey * node) := renumber_from 0 l.
Definition fl_n : flags := mkFlags false false false true.
Definition fl_p : flags := mkFlags true false false false.

(* `n`: {k:null} *n {k:5} = {k:5}: a key that exists in a is overwritten *)
Theorem C04_only_new_null_refuted :
  exists ea eb er k va, NoDup (keys ea) /\ NoDup (keys eb) /\ merge fl_n (Map ea) (Map eb) = Some (Map er) /\
                        lookup ea k = Some va /\ lookup er k <> Some va.
Proof.
  exists [(s_k, null_node)], [(s_k, i_ 5)], [(s_k, i_ 5)], s_k, null_node.
  split; [repeat constructor; cbn; intuition discriminate|].
  split; [repeat constructor; cbn; intuition discriminate|].
  split; [vm_compute; reflexivity|].
  split; [vm_compute; reflexivity|].
  intro H; vm_compute in H; discriminate.
Qed.
Print Assumptions C04_only_new_null_refuted.

(* keys are data: * and ? in a key of b are ordinary characters, so every theorem
   above holds for such keys too (before the repair recorded in KNOWN_FINDINGS.txt
   the implementation matched them as patterns: {ab:1, ac:2} * {a*:3} renamed both
   keys).  The instance that used to fail: *)
Theorem C04_pattern_keys_are_literal : forall fl ea k vb r,
  f_existing fl = false -> lookup ea k = None -> ukeys vb ->
  merge fl (Map ea) (Map [(k, vb)]) = Some r -> r = Map (ea ++ [(k, vb)]).
Proof. exact new_single_key_appended. Qed.
Print Assumptions C04_pattern_keys_are_literal.

(* `+` is not idempotent (by design: a sequence is appended to itself) *)
Theorem C04_idempotent_append_refuted : exists a, ukeys a /\ merge fl_p a a <> Some a /\ merge fl_p a a <> None.
Proof.
  exists (Map [(s_k, Seq (it [i_ 1]))]).
  split; [repeat constructor; cbn; intuition discriminate|].
  split; intro H; vm_compute in H; discriminate.
Qed.
Print Assumptions C04_idempotent_append_refuted.

(* non-vacuity: a three-level merge with a map-over-scalar clash, a nested null and a replaced sequence *)
Example C04_example :
  let a := Map [([97], Map [([120], i_ 1); ([121], Seq (it [i_ 1; i_ 2]))]); ([98], i_ 2); ([99], Map [([122], i_ 0)])] in
  let b := Map [([100], i_ 4); ([97], Map [([121], Seq (it [i_ 9])); ([119], Map [([118], null_node)])]); ([98], Map [([113], i_ 7)]); ([99], null_node)] in
  ukeys a /\ ukeys b /\
  merge fl0 a b = Some (Map [([97], Map [([120], i_ 1); ([121], Seq (it [i_ 9])); ([119], Map [([118], null_node)])]);
                             ([98], Map [([113], i_ 7)]); ([99], null_node); ([100], i_ 4)]) /\
  merge (mkFlags true false true false) a b = None.
Proof.
  cbv zeta.
  split; [repeat constructor; cbn; intuition discriminate|].
  split; [repeat constructor; cbn; intuition discriminate|].
  split; vm_compute; reflexivity.
Qed.

(* {ab:1, ac:2} * {a*:3} = {ab:1, ac:2, a*:3} *)
Example C04_example_pattern_key :
  merge fl0 (Map [([97; 98], i_ 1); ([97; 99], i_ 2)]) (Map [([97; 42], i_ 3)])
  = Some (Map [([97; 98], i_ 1); ([97; 99], i_ 2); ([97; 42], i_ 3)]).
Proof. vm_compute. reflexivity. Qed.
