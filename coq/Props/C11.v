(* Props/C11.v — property theorems only (each closed by [exact lemma] or a
   computed witness).  C11: every input is answered with a result or an
   error, never a crash or a hang.  PARTIAL: the theorems cover yq's own
   bounds / restart / alias-following logic as modelled in Model/Bounds.v;
   third-party parsers and the Go runtime are searched by the check, not
   modelled. *)
From Coq Require Import String.
From Coq Require Import List NArith ZArith Bool Lia.
From YQ Require Import Base.Str Model.Bounds Proofs.BoundsProofs.
Import ListNotations.

(* ---- sliceArrayOperator: .[first:second] ---------------------------- *)

(* since fix 98d1fab (start clamped to 0) the slice loop never indexes out of
   range: for every content and every pair of bounds the result is the
   sub-list between the normalised bounds *)
Theorem C11_slice_no_panic : forall (A : Type) (content : list A) (first second : Z) (s : psite),
  slice_array content first second <> Panic s.
Proof. exact @slice_array_no_panic. Qed.
Print Assumptions C11_slice_no_panic.

Theorem C11_slice_result : forall (A : Type) (content : list A) (first second : Z),
  let len := Z.of_nat (length content) in
  let rf := slice_rel_first len first in
  let rs := slice_rel_second len second in
  slice_array content first second = Ok (firstn (Z.to_nat (rs - rf)) (skipn (Z.to_nat rf) content)).
Proof. exact @slice_array_spec. Qed.
Print Assumptions C11_slice_result.

(* slicing a map is an error (fix 500bb97), anything else goes through slice_array *)
Theorem C11_slice_node_no_panic : forall (A : Type) (is_map : bool) (content : list A) (first second : Z) (s : psite),
  slice_node is_map content first second <> Panic s.
Proof. exact @slice_node_no_panic. Qed.
Print Assumptions C11_slice_node_no_panic.

(* the variant evaluated by the correspondence check is the same function *)
Theorem C11_slice_exec_eq : forall (A : Type) (content : list A) (first second : Z),
  slice_array_exec content first second = slice_array content first second.
Proof. exact @slice_array_exec_eq. Qed.
Print Assumptions C11_slice_exec_eq.

(* the clamp is what the theorem rests on: the loop entered at a negative
   index (.[-5:1] on [1,2] before the fix) panics at once *)
Theorem C11_slice_unclamped_refuted : forall (A : Type) (content : list A) (n : nat) (i : Z),
  (i < 0)%Z -> slice_loop (S n) i content = Panic SliceContent.
Proof. exact @slice_loop_unclamped_panics. Qed.
Print Assumptions C11_slice_unclamped_refuted.

(* getSliceNumber: Front().Value is protected by the Len() != 1 test *)
Theorem C11_slice_number_front_unreachable : forall (results : list str) (s : psite),
  get_slice_number results <> Panic s.
Proof. exact get_slice_number_no_panic. Qed.
Print Assumptions C11_slice_number_front_unreachable.

(* ---- traverseArrayWithIndices: .[index] ------------------------------ *)

Theorem C11_traverse_index_no_panic : forall (A : Type) (null : A) (content : list A) (index : Z) (s : psite),
  traverse_index null content index <> Panic s.
Proof. exact @traverse_index_no_panic. Qed.
Print Assumptions C11_traverse_index_no_panic.

(* without the `indexToUse < 0` test the same function panics: the test is
   what the theorem above rests on (.[-1] on an empty array) *)
Theorem C11_traverse_index_unchecked_refuted : exists (content : list Z) (index : Z),
  traverse_index_unchecked 0%Z content index = Panic TraverseContent.
Proof. exists [], (-1)%Z. vm_compute. reflexivity. Qed.
Print Assumptions C11_traverse_index_unchecked_refuted.

(* traverseArrayOperator line 100: the RHS is the result of a collect, which
   is never empty, so Front() is never nil *)
Theorem C11_traverse_rhs_front_unreachable : forall (A : Type) (context : list A) (collected : A -> list A) (s : psite),
  traverse_rhs_indices context collected <> Panic s.
Proof. exact @traverse_rhs_no_panic. Qed.
Print Assumptions C11_traverse_rhs_front_unreachable.

(* since fix 4925660 the padding loop adds at most pad_limit = 10^6 nodes
   (.[9223372036854775807] is an error now) *)
Theorem C11_index_padding_bounded : forall (A : Type) (null : A) (content : list A) (index : Z) (x : A) (padded : list A),
  traverse_index null content index = Ok (x, padded) ->
  (Z.of_nat (length padded) <= Z.of_nat (length content) + pad_limit)%Z.
Proof. exact @traverse_index_padding_bounded. Qed.
Print Assumptions C11_index_padding_bounded.

(* ---- collectObjectOperator: rotation --------------------------------- *)

(* since fix c783875 (entries shorter than the first one are an error) *)
Theorem C11_collect_object_no_panic : forall (A : Type) (cands : list (list A)) (s : psite),
  rotate cands <> Panic s.
Proof. exact @rotate_no_panic. Qed.
Print Assumptions C11_collect_object_no_panic.

(* the unchecked column access (the code before the fix) panics as soon as a
   later candidate is shorter *)
Theorem C11_collect_object_unchecked_refuted : forall (A : Type) (cands : list (list A)) (i : Z),
  (0 <= i)%Z -> Exists (fun c => (Z.of_nat (length c) <= i)%Z) cands ->
  rotate_column cands i = Panic CollectObjectContent.
Proof. exact @rotate_column_panic. Qed.
Print Assumptions C11_collect_object_unchecked_refuted.

(* (the sort comparator's panic(err) calls were removed from /repo by a fix
   commit; its panic-freedom is now a theorem of property C15) *)

(* ---- repeatString ----------------------------------------------------- *)

(* since fix 3108f38 (product limit) no allocation above 10^8 bytes is asked for *)
Theorem C11_repeat_no_panic : forall (mem slen count : Z) (s : psite),
  (repeat_bytes_limit <= mem)%Z -> (0 <= slen)%Z -> repeat_string mem slen count <> Panic s.
Proof. exact repeat_no_panic. Qed.
Print Assumptions C11_repeat_no_panic.

(* the limit on the count alone did not bound the product *)
Theorem C11_repeat_count_limit_refuted :
  exists slen count, (0 <= count <= repeat_limit)%Z /\ (slen * count > 2 ^ 46)%Z.
Proof. exact repeat_count_limit_insufficient. Qed.
Print Assumptions C11_repeat_count_limit_refuted.

(* ---- matchKey / deepMatch: termination -------------------------------- *)

(* the restart loop always finishes within deep_match_fuel iterations: the
   result is never OutOfFuel (and there is no panic site in it) *)
Theorem C11_match_key_total : forall name pat : str, exists b, match_key name pat = Ok b.
Proof. exact match_key_total. Qed.
Print Assumptions C11_match_key_total.

(* ---- alias following --------------------------------------------------- *)

Theorem C11_alias_unfold_total_acyclic : forall (env : nat -> option anode) (n : anode),
  acyclic env -> exists fuel k, unfold fuel env n = Ok k.
Proof. exact unfold_acyclic_total. Qed.
Print Assumptions C11_alias_unfold_total_acyclic.

(* a graph in which an alias points to a node that contains it is not
   acyclic, and following it never ends, whatever the fuel.  The YAML reader
   rejects such documents since fix af4915a (`- &a [*a]`); assignments can
   still build one (.b = .d with d: *x and b: &x), which stays a known finding *)
Theorem C11_alias_cycle_refuted :
  ~ acyclic self_ref_env /\ forall fuel, unfold fuel self_ref_env (AAlias 0) = OutOfFuel.
Proof.
  split; [exact self_ref_not_acyclic|]. intro fuel. exact (proj1 (unfold_self_ref_diverges fuel)).
Qed.
Print Assumptions C11_alias_cycle_refuted.

(* non-vacuity: the guards are satisfiable and the models compute *)
Example C11_example :
  slice_array [10; 20]%Z (-2) 5 = Ok [10; 20]%Z /\ slice_array [1; 2]%Z (-5) 1 = Ok [1]%Z /\
  traverse_index (-1)%Z [10; 20]%Z 3 = Ok ((-1)%Z, [10; 20; -1; -1]%Z) /\
  traverse_index (-1)%Z [10; 20]%Z (-3) = Err /\
  match_key (str_of_string "a.b.c"%string) (str_of_string "a*c"%string) = Ok true /\
  match_key (str_of_string "abc"%string) (str_of_string "a*d"%string) = Ok false /\
  parse_int64 (str_of_string "0x1_0"%string) = Some 16%Z /\
  rotate [[1; 2]; []]%Z = Err /\ traverse_index (-1)%Z [10; 20]%Z 9223372036854775807 = Err.
Proof. repeat split; vm_compute; reflexivity. Qed.
