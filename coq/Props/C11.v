(* Props/C11.v — property theorems only (each closed by [exact lemma] or a
   computed witness).  C11: every input is answered with a result or an
   error, never a crash or a hang.  PARTIAL: the theorems cover yq's own
   bounds / restart / alias-following logic as modelled in Model/Bounds.v;
   third-party parsers and the Go runtime are searched by the check, not
   modelled. *)
From Coq Require Import String.
From Coq Require Import List NArith ZArith Bool Lia.
From YQ Require Import Base.Str Model.Bounds Proofs.BoundsProofs.
Import ListNotations.

(* ---- sliceArrayOperator: .[first:second] ---------------------------- *)

(* under the guard (first bound not left of the array, or empty range) the
   slice loop never indexes out of range *)
Theorem C11_slice_no_panic_guarded : forall (A : Type) (content : list A) (first second : Z),
  slice_guard (Z.of_nat (length content)) first second ->
  exists r, slice_array content first second = Ok r.
Proof. exact @slice_guarded_ok. Qed.
Print Assumptions C11_slice_no_panic_guarded.

(* the guard is the exact complement of the panic condition *)
Theorem C11_slice_guard_exact : forall (A : Type) (content : list A) (first second : Z),
  (exists s, slice_array content first second = Panic s) <->
  ~ slice_guard (Z.of_nat (length content)) first second.
Proof. exact @slice_panic_iff. Qed.
Print Assumptions C11_slice_guard_exact.

(* the variant evaluated by the correspondence check is the same function *)
Theorem C11_slice_exec_eq : forall (A : Type) (content : list A) (first second : Z),
  slice_array_exec content first second = slice_array content first second.
Proof. exact @slice_array_exec_eq. Qed.
Print Assumptions C11_slice_exec_eq.

(* .[-5:1] on [1,2] : index out of range at operator_slice.go:56 *)
Theorem C11_panic_slice_refuted : exists (content : list Z) (first second : Z),
  slice_array content first second = Panic SliceContent.
Proof. exists [1; 2]%Z, (-5)%Z, 1%Z. vm_compute. reflexivity. Qed.
Print Assumptions C11_panic_slice_refuted.

(* getSliceNumber: Front().Value is protected by the Len() != 1 test *)
Theorem C11_slice_number_front_unreachable : forall (results : list str) (s : psite),
  get_slice_number results <> Panic s.
Proof. exact get_slice_number_no_panic. Qed.
Print Assumptions C11_slice_number_front_unreachable.

(* ---- traverseArrayWithIndices: .[index] ------------------------------ *)

Theorem C11_traverse_index_no_panic : forall (A : Type) (null : A) (content : list A) (index : Z) (s : psite),
  traverse_index null content index <> Panic s.
Proof. exact @traverse_index_no_panic. Qed.
Print Assumptions C11_traverse_index_no_panic.

(* without the `indexToUse < 0` test the same function panics: the test is
   what the theorem above rests on (.[-1] on an empty array) *)
Theorem C11_traverse_index_unchecked_refuted : exists (content : list Z) (index : Z),
  traverse_index_unchecked 0%Z content index = Panic TraverseContent.
Proof. exists [], (-1)%Z. vm_compute. reflexivity. Qed.
Print Assumptions C11_traverse_index_unchecked_refuted.

(* traverseArrayOperator line 100: the RHS is the result of a collect, which
   is never empty, so Front() is never nil *)
Theorem C11_traverse_rhs_front_unreachable : forall (A : Type) (context : list A) (collected : A -> list A) (s : psite),
  traverse_rhs_indices context collected <> Panic s.
Proof. exact @traverse_rhs_no_panic. Qed.
Print Assumptions C11_traverse_rhs_front_unreachable.

(* "bounded time" fails for the padding loop: a 19-byte index makes it run
   2^63 times (the hang  .[9223372036854775807]) *)
Theorem C11_index_padding_unbounded_refuted : exists (text : str) (index : Z),
  length text = 19%nat /\ parse_int64 text = Some index /\
  (Z.of_nat (pad_count 0 index) >= 2 ^ 62)%Z.
Proof.
  exists (str_of_string "9223372036854775807"%string), 9223372036854775807%Z.
  split; [reflexivity|]. split; [vm_compute; reflexivity|].
  rewrite pad_count_Z. vm_compute. discriminate.
Qed.
Print Assumptions C11_index_padding_unbounded_refuted.

(* ---- collectObjectOperator: rotation --------------------------------- *)

Theorem C11_collect_object_no_panic_guarded : forall (A : Type) (cands : list (list A)),
  rotate_guard cands -> exists r, rotate cands = Ok r.
Proof. exact @rotate_guarded_ok. Qed.
Print Assumptions C11_collect_object_no_panic_guarded.

(* a later candidate with fewer children than the first one *)
Theorem C11_panic_collect_object_refuted : exists cands : list (list Z),
  rotate cands = Panic CollectObjectContent.
Proof. exists [[1; 2]; []]%Z. vm_compute. reflexivity. Qed.
Print Assumptions C11_panic_collect_object_refuted.

(* (the sort comparator's panic(err) calls were removed from /repo by a fix
   commit; its panic-freedom is now a theorem of property C15) *)

(* ---- repeatString ----------------------------------------------------- *)

Theorem C11_repeat_guard_exact : forall mem slen count : Z,
  (exists s, repeat_string mem slen count = Panic s) <->
  (0 <= count <= repeat_limit /\ slen * count > mem)%Z.
Proof. exact repeat_panic_iff. Qed.
Print Assumptions C11_repeat_guard_exact.

(* ("x" * 10000000) * 10000000 : the count limit does not bound the product;
   10^14 bytes exceed any block a 47-bit address space can hold *)
Theorem C11_panic_repeat_alloc_refuted : exists slen count : Z,
  repeat_string (2 ^ 46) slen count = Panic RepeatAlloc.
Proof. exists 10000000%Z, 10000000%Z. vm_compute. reflexivity. Qed.
Print Assumptions C11_panic_repeat_alloc_refuted.

(* ---- matchKey / deepMatch: termination -------------------------------- *)

(* the restart loop always finishes within deep_match_fuel iterations: the
   result is never OutOfFuel (and there is no panic site in it) *)
Theorem C11_match_key_total : forall name pat : str, exists b, match_key name pat = Ok b.
Proof. exact match_key_total. Qed.
Print Assumptions C11_match_key_total.

(* ---- alias following --------------------------------------------------- *)

Theorem C11_alias_unfold_total_acyclic : forall (env : nat -> option anode) (n : anode),
  acyclic env -> exists fuel k, unfold fuel env n = Ok k.
Proof. exact unfold_acyclic_total. Qed.
Print Assumptions C11_alias_unfold_total_acyclic.

(* `- &a [*a]` decodes to a graph that is not acyclic, and following it never
   ends, whatever the fuel *)
Theorem C11_alias_cycle_refuted :
  ~ acyclic self_ref_env /\ forall fuel, unfold fuel self_ref_env (AAlias 0) = OutOfFuel.
Proof.
  split; [exact self_ref_not_acyclic|]. intro fuel. exact (proj1 (unfold_self_ref_diverges fuel)).
Qed.
Print Assumptions C11_alias_cycle_refuted.

(* non-vacuity: the guards are satisfiable and the models compute *)
Example C11_example :
  slice_guard 2 (-2) 5 /\ slice_array [10; 20]%Z (-2) 5 = Ok [10; 20]%Z /\
  traverse_index (-1)%Z [10; 20]%Z 3 = Ok ((-1)%Z, [10; 20; -1; -1]%Z) /\
  traverse_index (-1)%Z [10; 20]%Z (-3) = Err /\
  match_key (str_of_string "a.b.c"%string) (str_of_string "a*c"%string) = Ok true /\
  match_key (str_of_string "abc"%string) (str_of_string "a*d"%string) = Ok false /\
  parse_int64 (str_of_string "0x1_0"%string) = Some 16%Z /\
  rotate_guard [[1; 2]; [3; 4]]%Z.
Proof.
  repeat split; try (vm_compute; reflexivity).
  - left. vm_compute. discriminate.
  - cbn. repeat constructor.
Qed.
