(* Props/C05.v — property theorems only (each closed by [exact lemma]).

   C05 is PARTIAL by design: gopkg.in/yaml.v3 (scanner, parser, emitter) is
   not modelled.  What is proved is everything yq itself does between the
   library's parser and the library's emitter for the identity expression:
   the yaml.Node <-> CandidateNode conversion on every field, the
   leading-content scanner/printer, and their composition; the library enters
   [yq_pass] as the functions [yparse] / [yemit], and the two facts about it
   that the second-pass theorem needs are explicit hypotheses (validated by
   the check on generated inputs, not proved). *)
From Coq Require Import String.
From YQ Require Import Base.Str Model.Printer Model.Stream Spec.StreamSpec Model.YamlBridge Proofs.YamlBridgeProofs
                       Model.YamlStream Proofs.YamlStreamProofs.

(* Conversion: for every node tree yaml.v3 can build (ywf), UnmarshalYAML
   followed by MarshalYAML returns the same tree on every field - kind, style,
   tag, value, anchor, the three comments, line, column, children in order -
   except the one normalisation of [norm]: the Alias pointer is not restored
   (the emitter prints an alias from its Value).  (Since the repair of
   decodeIntoChild a collection tagged !!null keeps its content.) *)
Theorem C05_node_roundtrip : forall (n : ynode) (is_key : bool) (key : option (str * str)) (c : cnode),
  ywf n = true -> from_y is_key key n = Some c -> to_y c = norm n.
Proof. exact node_roundtrip. Qed.
Print Assumptions C05_node_roundtrip.

Theorem C05_conversion_total : forall (n : ynode) (is_key : bool) (key : option (str * str)),
  ywf n = true -> exists c, from_y is_key key n = Some c.
Proof. exact from_y_total. Qed.
Print Assumptions C05_conversion_total.

(* [norm] changes nothing on trees without alias pointers: there the round
   trip is the identity. *)
Theorem C05_node_roundtrip_exact : forall n : ynode, norm_free n = true -> norm n = n.
Proof. exact norm_free_id. Qed.
Print Assumptions C05_node_roundtrip_exact.

(* Leading content: for every header block (blank lines, separator lines,
   comment lines indented by at most 3 white-space characters - whatever their
   text, the internal marker included) in front of any body at which the
   scanner stops (however short), processReadStream splits exactly there and
   PrintLeadingContent prints the block back byte for byte. *)
Theorem C05_leading_roundtrip : forall (hs : list hline) (body : str),
  Forall (fun h => hline_ok h = true) hs -> body_ok body = true ->
  process_read_stream (render hs ++ body) = (content_of hs, body)
  /\ print_leading_content (content_of hs) = render hs.
Proof. exact leading_roundtrip. Qed.
Print Assumptions C05_leading_roundtrip.

(* Identity at the interface to the library: whatever yaml.v3 parses the body
   to, yq prints the header block unchanged, then has yaml.v3 emit the very
   tree it parsed (up to [norm]; the document's head comment in front of the
   root's, foot comments printed after the document). *)
Theorem C05_identity_preserves_partial :
  forall (yparse : str -> option (list ynode)) (yemit : ynode -> str)
         hs body dk ds dt dv da dal dhead dline dfoot dln dcol root rest,
  Forall (fun h => hline_ok h = true) hs -> body_ok body = true -> ywf root = true ->
  yparse body = Some [YNode dk ds dt dv da dal dhead dline dfoot dln dcol (root :: rest)] ->
  yq_pass yparse yemit (render hs ++ body)
  = Some (render hs ++ yemit (y_set_head_foot (norm root) (dhead ++ y_head root) [])
                    ++ print_leading_content (dfoot ++ y_foot root)).
Proof. exact identity_preserves. Qed.
Print Assumptions C05_identity_preserves_partial.

(* Second pass: if the library's output for a document is stable when read
   back on its own (H_reread) and does not start with header-shaped lines
   (H_body), then with ANY header block in front the whole output of yq is a
   fixed point of yq. *)
Theorem C05_second_pass_fixed_partial :
  forall (yparse : str -> option (list ynode)) (yemit : ynode -> str) (good : cnode -> Prop),
  (forall c, good c -> body_ok (emit_doc yemit c) = true) ->
  (forall lead c, good c ->
     exists c', read_doc yparse lead (emit_doc yemit c) = Some c' /\ emit_doc yemit c' = emit_doc yemit c) ->
  forall hs body c,
  Forall (fun h => hline_ok h = true) hs -> body_ok body = true ->
  read_doc yparse (content_of hs) body = Some c -> good c ->
  let o := (render hs ++ emit_doc yemit c)%list in
  yq_pass yparse yemit (render hs ++ body) = Some o /\ yq_pass yparse yemit o = Some o.
Proof. exact second_pass_fixed. Qed.
Print Assumptions C05_second_pass_fixed_partial.

(* ---------------------------------------------------------------- *)
(* streams of any number of documents: the stream evaluator and the   *)
(* printer's separator logic are C10's model (Model/Stream.v,          *)
(* Model/Printer.v), instantiated with the identity expression         *)
(* ---------------------------------------------------------------- *)

(* The identity on a stream: the header block comes back byte for byte, then
   the documents as the library emits them, one separator line between two
   documents and nowhere else. *)
Theorem C05_stream_identity :
  forall (yparse : str -> option (list ynode)) (yemit : ynode -> str) hs body c0 cs,
  Forall (fun h => hline_ok h = true) hs -> body_ok body = true ->
  read_stream yparse body = Some (c0 :: cs) ->
  yq_stream yparse yemit (render hs ++ body) = Some (render hs ++ join_docs (map (emit_doc yemit) (c0 :: cs))).
Proof. exact stream_pass. Qed.
Print Assumptions C05_stream_identity.

(* N documents in, N documents out, no error: the printer is asked to print
   exactly one node per document the library found. *)
Theorem C05_doc_count :
  forall (yparse : str -> option (list ynode)) hs body c0 cs,
  Forall (fun h => hline_ok h = true) hs -> body_ok body = true ->
  read_stream yparse body = Some (c0 :: cs) ->
  let '(lead, rest) := process_read_stream (render hs ++ body) in
  exists cs', read_stream yparse rest = Some cs' /\
    count_res (fst (stream_events lead cs')) = length cs' /\ snd (stream_events lead cs') = Done.
Proof. exact stream_doc_count. Qed.
Print Assumptions C05_doc_count.

(* Second pass, any number of documents, any header block: if the stream the
   library emits for these documents (joined by the separator) does not begin
   with header-shaped lines (H_body) and reads back, document by document, to
   candidates that are emitted identically (H_reread), then yq's output is a
   fixed point of yq.  The two library facts are premises, validated by the
   check on every run. *)
Theorem C05_second_pass_fixed :
  forall (yparse : str -> option (list ynode)) (yemit : ynode -> str) (good : list cnode -> Prop),
  (forall cs, good cs -> body_ok (join_docs (map (emit_doc yemit) cs)) = true) ->
  (forall cs, good cs ->
     exists cs', read_stream yparse (join_docs (map (emit_doc yemit) cs)) = Some cs'
                 /\ map (emit_doc yemit) cs' = map (emit_doc yemit) cs) ->
  forall hs body c0 cs,
  Forall (fun h => hline_ok h = true) hs -> body_ok body = true ->
  read_stream yparse body = Some (c0 :: cs) -> good (c0 :: cs) ->
  let o := (render hs ++ join_docs (map (emit_doc yemit) (c0 :: cs)))%list in
  yq_stream yparse yemit (render hs ++ body) = Some o /\ yq_stream yparse yemit o = Some o.
Proof. exact stream_second_pass_fixed. Qed.
Print Assumptions C05_second_pass_fixed.

(* A white-space-only line kept as leading content is printed back as it is
   (it used to get a comment prefix). *)
Theorem C05_whitespace_line_kept : forall pre : str,
  forallb is_hsp pre = true -> out_line (pre ++ [10]) = (pre ++ [10])%list.
Proof. exact out_line_space. Qed.
Print Assumptions C05_whitespace_line_kept.

(* non-vacuity: a header block and a body in the domain of the theorems *)
Example C05_example :
  let hs := [HComment [] (str_of_string " top $yqDocSeparator$"); HBlank; HSep; HComment [32; 32] (str_of_string " second")] in
  let body := str_of_string "0
" in
  Forall (fun h => hline_ok h = true) hs /\ body_ok body = true
  /\ render hs = str_of_string "# top $yqDocSeparator$

---
  # second
"
  /\ process_read_stream (render hs ++ body) = (content_of hs, body).
Proof.
  cbv zeta. split; [repeat constructor|]. split; [reflexivity|]. split; vm_compute; reflexivity.
Qed.
