(* Props/C05.v — property theorems only (each closed by [exact lemma]).

   C05 is PARTIAL by design: gopkg.in/yaml.v3 (scanner, parser, emitter) is
   not modelled.  What is proved is everything yq itself does between the
   library's parser and the library's emitter for the identity expression:
   the yaml.Node <-> CandidateNode conversion on every field, the
   leading-content scanner/printer, and their composition; the library enters
   [yq_pass] as the functions [yparse] / [yemit], and the two facts about it
   that the second-pass theorem needs are explicit hypotheses (validated by
   the check on generated inputs, not proved). *)
From Coq Require Import String.
From YQ Require Import Base.Str Model.YamlBridge Proofs.YamlBridgeProofs.

(* Conversion: for every node tree yaml.v3 can build (ywf), UnmarshalYAML
   followed by MarshalYAML returns the same tree on every field - kind, style,
   tag, value, anchor, the three comments, line, column, children in order -
   except exactly the two normalisations of [norm]: the Alias pointer is not
   restored (the emitter prints an alias from its Value), and a child tagged
   !!null becomes a scalar without children (decodeIntoChild). *)
Theorem C05_node_roundtrip : forall (n : ynode) (is_key : bool) (key : option (str * str)) (c : cnode),
  ywf n = true -> from_y is_key key n = Some c -> to_y c = norm n.
Proof. exact node_roundtrip. Qed.
Print Assumptions C05_node_roundtrip.

Theorem C05_conversion_total : forall (n : ynode) (is_key : bool) (key : option (str * str)),
  ywf n = true -> exists c, from_y is_key key n = Some c.
Proof. exact from_y_total. Qed.
Print Assumptions C05_conversion_total.

(* [norm] changes nothing on trees without aliases and without a collection
   tagged !!null: there the round trip is the identity. *)
Theorem C05_node_roundtrip_exact : forall n : ynode, norm_free n = true -> norm n = n.
Proof. exact norm_free_id. Qed.
Print Assumptions C05_node_roundtrip_exact.

(* Leading content: for every header block (blank lines, separator lines,
   comment lines indented by at most 3 white-space characters, not containing
   the internal marker text) in front of any body at which the scanner stops
   (at least 4 bytes), processReadStream splits exactly there and
   PrintLeadingContent prints the block back byte for byte. *)
Theorem C05_leading_roundtrip : forall (hs : list hline) (body : str),
  Forall (fun h => hline_ok h = true) hs -> body_ok body = true ->
  process_read_stream (render hs ++ body) = (content_of hs, body)
  /\ print_leading_content (content_of hs) = render hs.
Proof. exact leading_roundtrip. Qed.
Print Assumptions C05_leading_roundtrip.

(* Identity at the interface to the library: whatever yaml.v3 parses the body
   to, yq prints the header block unchanged, then has yaml.v3 emit the very
   tree it parsed (up to [norm]; the document's head comment in front of the
   root's, foot comments printed after the document). *)
Theorem C05_identity_preserves_partial :
  forall (yparse : str -> option (list ynode)) (yemit : ynode -> str)
         hs body dk ds dt dv da dal dhead dline dfoot dln dcol root rest,
  Forall (fun h => hline_ok h = true) hs -> body_ok body = true -> ywf root = true ->
  yparse body = Some [YNode dk ds dt dv da dal dhead dline dfoot dln dcol (root :: rest)] ->
  yq_pass yparse yemit (render hs ++ body)
  = Some (render hs ++ yemit (y_set_head_foot (norm root) (dhead ++ y_head root) [])
                    ++ print_leading_content (dfoot ++ y_foot root)).
Proof. exact identity_preserves. Qed.
Print Assumptions C05_identity_preserves_partial.

(* Second pass: if the library's output for a document is stable when read
   back on its own (H_reread) and does not start with header-shaped lines
   (H_body), then with ANY header block in front the whole output of yq is a
   fixed point of yq. *)
Theorem C05_second_pass_fixed_partial :
  forall (yparse : str -> option (list ynode)) (yemit : ynode -> str) (good : cnode -> Prop),
  (forall c, good c -> body_ok (emit_doc yemit c) = true) ->
  (forall lead c, good c ->
     exists c', read_doc yparse lead (emit_doc yemit c) = Some c' /\ emit_doc yemit c' = emit_doc yemit c) ->
  forall hs body c,
  Forall (fun h => hline_ok h = true) hs -> body_ok body = true ->
  read_doc yparse (content_of hs) body = Some c -> good c ->
  let o := (render hs ++ emit_doc yemit c)%list in
  yq_pass yparse yemit (render hs ++ body) = Some o /\ yq_pass yparse yemit o = Some o.
Proof. exact second_pass_fixed. Qed.
Print Assumptions C05_second_pass_fixed_partial.

(* Finding: a comment that contains the internal marker text is printed as a
   document separator. *)
Theorem C05_marker_injection_refuted : exists c : str,
  comment_re c = true /\ print_leading_content c = str_of_string "---
"%string.
Proof. exists (str_of_string "# $yqDocSeparator$
"%string). split; vm_compute; reflexivity. Qed.
Print Assumptions C05_marker_injection_refuted.

(* Finding: a white-space-only line in front of a comment is kept as leading
   content and printed back as a comment. *)
Theorem C05_whitespace_line_refuted : exists s : str,
  let '(lead, rest) := process_read_stream s in
  print_leading_content lead ++ rest <> s.
Proof. exists (str_of_string " 
#c
a: 1
"%string). vm_compute. discriminate. Qed.
Print Assumptions C05_whitespace_line_refuted.

(* Finding: with fewer than 4 bytes left the scanner stops, so the blank line
   in front of a tiny document is not kept. *)
Theorem C05_peek4_short_stream_refuted :
  process_read_stream (str_of_string "
0
"%string) = ([], str_of_string "
0
"%string)
  /\ fst (process_read_stream (str_of_string "

0
"%string)) = [10].
Proof. split; vm_compute; reflexivity. Qed.
Print Assumptions C05_peek4_short_stream_refuted.

(* Finding: a collection tagged !!null loses its content in the conversion. *)
Theorem C05_null_tagged_collection_refuted : exists n c,
  ywf n = true /\ from_y false None n = Some c /\ to_y c <> n
  /\ y_content (nth 1 (y_content (to_y c)) n) = [].
Proof.
  exists (YNode YMapping 0 (str_of_string "!!map") [] [] None [] [] [] 1 1
            [ YNode YScalar 0 (str_of_string "!!str") [97] [] None [] [] [] 1 1 [];
              YNode YSequence 32 t_null [] [] None [] [] [] 1 4
                [ YNode YScalar 0 t_int [49] [] None [] [] [] 1 12 [] ] ]).
  eexists. split; [reflexivity|]. split; [vm_compute; reflexivity|]. split; [vm_compute; discriminate|reflexivity].
Qed.
Print Assumptions C05_null_tagged_collection_refuted.

(* non-vacuity: a header block and a body in the domain of the theorems *)
Example C05_example :
  let hs := [HComment [] (str_of_string " top"); HBlank; HSep; HComment [32; 32] (str_of_string " second")] in
  let body := str_of_string "a: 1 # line
" in
  Forall (fun h => hline_ok h = true) hs /\ body_ok body = true
  /\ render hs = str_of_string "# top

---
  # second
"
  /\ process_read_stream (render hs ++ body) = (content_of hs, body).
Proof.
  cbv zeta. split; [repeat constructor|]. split; [reflexivity|]. split; vm_compute; reflexivity.
Qed.
