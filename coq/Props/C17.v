(* Props/C17.v — property theorems only (each closed by [exact lemma]). *)
From Coq Require Import String.
From YQ Require Import Base.Str Gen.ShSafe Model.Sh Spec.PosixSh Proofs.ShProofs.

(* @sh: every NUL-free string (the empty one included) becomes exactly one
   shell word that the shell expands to that string: no splitting, globbing,
   substitution.  (A shell word cannot hold NUL at all.) *)
Theorem C17_sh_single_word : forall s : str,
  nul_free s -> sh_words (sh_encode s) = Some [s].
Proof. exact sh_single_word. Qed.
Print Assumptions C17_sh_single_word.

(* obligation over the table regenerated from encoder_sh.go *)
Theorem C17_safe_class_sound : forall c : N,
  should_quote c = false -> literal_safe c = true.
Proof. exact safe_class_sound. Qed.
Print Assumptions C17_safe_class_sound.

(* -o=shell: sourcing the output executes nothing and defines exactly the
   assignments (name, text) of the document's scalars, names being valid;
   for any normalisation function in place of NFKD. *)
Theorem C17_shellvars_source : forall (nfkd : str -> str) (d : svnode),
  sv_values_nul_free d ->
  sh_source (sv_output nfkd d) = Some (sv_encode nfkd d [])
  /\ Forall (fun p => name_ok (fst p) = true) (sv_encode nfkd d []).
Proof.
  intros nfkd d H. split; [exact (sv_output_sources nfkd d H)|].
  pose proof (sv_encode_ok nfkd d [] (or_introl eq_refl) H) as Hok.
  unfold assigns_ok in Hok. rewrite Forall_forall in *. intros p Hp. exact (proj1 (Hok p Hp)).
Qed.
Print Assumptions C17_shellvars_source.

(* "precisely those variables" fails for colliding names: the name mapping is
   not injective (documented in the source: NOT a 1:1 mapping). *)
Theorem C17_names_not_injective_refuted : exists d : svnode,
  let l := sv_encode (fun k => k) d [] in
  exists a b, nth_error l 0 = Some a /\ nth_error l 1 = Some b /\ fst a = fst b /\ snd a <> snd b.
Proof.
  exists (SvMap [([97; 45; 98], SvScalar [49]); ([97; 95; 98], SvScalar [50])]).
  cbv zeta. eexists. eexists. vm_compute. repeat split. discriminate.
Qed.
Print Assumptions C17_names_not_injective_refuted.

(* non-vacuity: hypotheses are met by an adversarial string *)
Example C17_example :
  let s := str_of_string "it's $(rm -rf ~) `x` *"%string in
  nul_free s /\ s <> [] /\ sh_encode s = str_of_string "it\'s' $(rm -rf ~) `x` *'"%string.
Proof.
  cbv zeta. split; [|split].
  - vm_compute. repeat (constructor; [discriminate|]). constructor.
  - vm_compute. discriminate.
  - vm_compute. reflexivity.
Qed.
