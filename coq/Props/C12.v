(* Props/C12.v -- in-place edit is all-or-nothing.  Property theorems only.
   Model: Model/InPlace.v (run : config -> schedule -> plan -> file -> outcome),
   spec: Spec/FsSpec.v.  Every theorem quantifies over all old files (bytes and
   mode), all plans (what the evaluator hands to the printer and how it ends:
   this is the expression x content pair as far as the protocol can see it) and
   all schedules (every step ok / fail / crash before / during / after). *)
From Coq Require Import List NArith String.
From YQ Require Import Base.Str Model.InPlace Spec.FsSpec Proofs.InPlaceProofs.
Import ListNotations.

(* Temp dir on the same device and os.Rename not failing: whatever else fails
   or wherever the process is killed, the target is the old file or the
   complete new file (bytes and mode). *)
Theorem C12_same_device_atomic : forall cfg sch pl old,
  cfg_cross cfg = false -> (forall n, sch ORename <> Fail n) ->
  atomic (Some old) (Some (new_file cfg pl old)) (final_target (run cfg sch pl old)).
Proof. exact same_device_atomic. Qed.
Print Assumptions C12_same_device_atomic.

(* Exit 0 (same or other device): the target holds exactly the bytes the same
   PrintResults calls write to stdout, with the old mode, and nothing failed:
   initCommand, configuration, evaluation succeeded and -e did not trigger. *)
Theorem C12_exit0_new : forall cfg sch pl old s,
  run cfg sch pl old = Exited 0 s ->
  fs_target (s_fs s) = Some (new_file cfg pl old) /\ plan_ok pl.
Proof. exact exit0_new. Qed.
Print Assumptions C12_exit0_new.

(* Exit <> 0: the target is the old file, except in exactly two situations,
   both with exit 1 after a fully successful evaluation:
   (a) an error injected at the hook point after_rename (no real operation
       can fail there) -- the target is the new file;
   (b) os.Rename failed and the fallback copy had already truncated the
       target -- the target is some prefix of the new bytes. *)
Theorem C12_nonzero_exit_cases : forall cfg sch pl old c s,
  run cfg sch pl old = Exited c s -> c <> 0%N ->
  fs_target (s_fs s) = Some old
  \/ (c = 1%N /\ plan_ok pl /\ fs_target (s_fs s) = Some (new_file cfg pl old)
      /\ In ORename (s_trace s) /\ is_fail (sch HAfterRename))
  \/ (c = 1%N /\ plan_ok pl /\ rename_fails (cfg_cross cfg) sch /\ In OCreateDst (s_trace s)
      /\ exists n, fs_target (s_fs s) = Some (mkFile (firstn n (new_bytes cfg pl old)) (f_mode old))).
Proof. exact nonzero_exit_cases. Qed.
Print Assumptions C12_nonzero_exit_cases.

Theorem C12_fail_keeps_old : forall cfg sch pl old c s,
  run cfg sch pl old = Exited c s -> c <> 0%N ->
  cfg_cross cfg = false -> (forall n, sch ORename <> Fail n) -> (forall n, sch HAfterRename <> Fail n) ->
  fs_target (s_fs s) = Some old.
Proof. exact nonzero_keeps_old. Qed.
Print Assumptions C12_fail_keeps_old.

(* The commit points, for every outcome (exit or kill, any device): before
   rename / truncate happened the target is old; after a rename it is new;
   after the truncation of the fallback it is a prefix of new. *)
Theorem C12_old_until_commit : forall cfg sch pl old,
  let o := run cfg sch pl old in
  ~ In ORename (final_trace o) -> ~ In OCreateDst (final_trace o) -> final_target o = Some old.
Proof. exact old_until_commit. Qed.
Print Assumptions C12_old_until_commit.

Theorem C12_renamed_is_new : forall cfg sch pl old,
  let o := run cfg sch pl old in
  In ORename (final_trace o) -> final_target o = Some (new_file cfg pl old).
Proof. exact renamed_is_new. Qed.
Print Assumptions C12_renamed_is_new.

Theorem C12_truncated_is_prefix : forall cfg sch pl old,
  let o := run cfg sch pl old in
  In OCreateDst (final_trace o) ->
  exists n, final_target o = Some (mkFile (firstn n (new_bytes cfg pl old)) (f_mode old)).
Proof. exact truncated_is_prefix. Qed.
Print Assumptions C12_truncated_is_prefix.

(* permission bits of the target never change, on any device, whatever happens *)
Theorem C12_mode_kept : forall cfg sch pl old,
  mode_kept (Some old) (final_target (run cfg sch pl old)).
Proof. exact mode_always_kept. Qed.
Print Assumptions C12_mode_kept.

(* a Go panic during configuration or evaluation (exit status 2) leaves the old file *)
Theorem C12_panic_keeps_old : forall cfg sch pl old s,
  run cfg sch pl old = Exited 2 s -> fs_target (s_fs s) = Some old.
Proof. exact panic_keeps_old. Qed.
Print Assumptions C12_panic_keeps_old.

(* --front-matter=process: as long as the fallback copy did not truncate the
   target, the text after the front matter is in the target byte for byte
   (exit or kill), whether or not the expression produced a result (a run
   always makes at least one PrintResults call; the no-result case used to
   empty the file, fixed in /repo a2f5710). *)
Theorem C12_front_matter_tail_kept : forall sch pl old cross,
  let cfg := mkCfg cross FmProcess in
  let o := run cfg sch pl old in
  pl_calls pl <> [] ->
  ~ In OCreateDst (final_trace o) ->
  tail_kept (snd (fm_split (f_bytes old))) (final_target o).
Proof. exact front_matter_tail_kept. Qed.
Print Assumptions C12_front_matter_tail_kept.

(* ------------------------------------------------------------------ *)
(* refutations: the full statement of the property is false of the faithful model *)
Definition w_old : file := mkFile (str_of_string "a: 1
"%string) 416.
Definition w_plan : plan := mkPlan true Done [[str_of_string "a: 5
"%string]] Done false.

(* temp dir on another device, killed right after os.Create truncated the
   target (hook point copy_after_truncate): empty file, neither old nor new *)
Theorem C12_cross_device_kill_refuted : exists cfg sch pl old s,
  cfg_cross cfg = true /\ run cfg sch pl old = Killed s /\
  truncated_mix (Some old) (Some (new_file cfg pl old)) (fs_target (s_fs s)).
Proof.
  exists (mkCfg true FmNone), (sched_of [(HCopyAfterTruncate, CrashBefore)]), w_plan, w_old.
  eexists. split; [reflexivity|]. split; [vm_compute; reflexivity|].
  split; vm_compute; intro H; discriminate H.
Qed.
Print Assumptions C12_cross_device_kill_refuted.

(* the same with the copy itself interrupted after 2 bytes: a proper prefix *)
Theorem C12_cross_device_partial_copy_refuted : exists cfg sch pl old s,
  cfg_cross cfg = true /\ run cfg sch pl old = Killed s /\
  truncated_mix (Some old) (Some (new_file cfg pl old)) (fs_target (s_fs s)) /\
  fs_target (s_fs s) = Some (mkFile (firstn 2 (new_bytes cfg pl old)) (f_mode old)).
Proof.
  exists (mkCfg true FmNone), (sched_of [(OCopyData, CrashDuring 2)]), w_plan, w_old.
  eexists. split; [reflexivity|]. split; [vm_compute; reflexivity|].
  split; [split; vm_compute; intro H; discriminate H | vm_compute; reflexivity].
Qed.
Print Assumptions C12_cross_device_partial_copy_refuted.

(* exit status 1 although the file changed: the fallback copy fails after the
   truncation (empty file), or only its fsync fails (complete new file) *)
Theorem C12_cross_device_fail_refuted : exists cfg sch1 sch2 pl old s1 s2,
  cfg_cross cfg = true /\
  run cfg sch1 pl old = Exited 1 s1 /\ truncated_mix (Some old) (Some (new_file cfg pl old)) (fs_target (s_fs s1)) /\
  run cfg sch2 pl old = Exited 1 s2 /\ fs_target (s_fs s2) = Some (new_file cfg pl old) /\
  fs_target (s_fs s2) <> Some old.
Proof.
  exists (mkCfg true FmNone), (sched_of [(HCopyAfterTruncate, Fail 0)]), (sched_of [(OSync, Fail 0)]), w_plan, w_old.
  eexists. eexists. split; [reflexivity|]. split; [vm_compute; reflexivity|].
  split; [split; vm_compute; intro H; discriminate H|].
  split; [vm_compute; reflexivity|]. split; [vm_compute; reflexivity | vm_compute; intro H; discriminate H].
Qed.
Print Assumptions C12_cross_device_fail_refuted.

(* the former counterexample as a positive instance: no result, exit 0, tail kept *)
Definition w_fm_old : file := mkFile (str_of_string "---
a: 1
---
tail
"%string) 420.
Example C12_front_matter_no_result_keeps_tail : exists s,
  run (mkCfg false FmProcess) (sched_of []) (mkPlan true Done [[]] Done false) w_fm_old = Exited 0 s /\
  fs_target (s_fs s) = Some (mkFile (snd (fm_split (f_bytes w_fm_old))) 420) /\
  snd (fm_split (f_bytes w_fm_old)) <> [].
Proof.
  eexists. split; [vm_compute; reflexivity|]. split; [vm_compute; reflexivity | vm_compute; intro H; discriminate H].
Qed.

(* not part of the statement but of the protocol: at every exit (status 0, 1
   or 2) the temp file is gone, unless a step of the finishing / clean-up phase
   itself (close, remove, rename, fallback copy, or an error injected at one of
   their hook points) does not go through.  (Every error used to leave the temp
   file behind; fixed in /repo d27ead5.) *)
Theorem C12_temp_removed : forall cfg sch pl old c s,
  finish_clean sch -> run cfg sch pl old = Exited c s -> fs_temp (s_fs s) = None.
Proof. exact temp_removed. Qed.
Print Assumptions C12_temp_removed.

(* non-vacuity: a successful run on the same device exits 0 with the new file
   and the old mode; the hypotheses of the atomicity theorem hold for it *)
Example C12_example :
  let cfg := mkCfg false FmNone in let sch := sched_of [] in
  cfg_cross cfg = false /\ (forall n, sch ORename <> Fail n) /\
  exists s, run cfg sch w_plan w_old = Exited 0 s /\
            fs_target (s_fs s) = Some (mkFile (str_of_string "a: 5
"%string) 416) /\ fs_temp (s_fs s) = None.
Proof.
  cbv zeta. split; [reflexivity|]. split; [intros n H; vm_compute in H; discriminate H|].
  eexists. split; [vm_compute; reflexivity|]. split; vm_compute; reflexivity.
Qed.
