(* Props/C15.v — sort, min/max and the comparison operators agree on one
   consistent total order.  Property theorems only (each closed by [exact]),
   refutation witnesses by computation, one non-vacuity example.

   Model: Model/Sort.v (faithful to operator_sort.go / operator_compare.go /
   operator_sort_keys.go / lib.go parseInt64, 64-bit wrap-around and the
   panic(err) branch explicit).  Spec: Spec/Order.v.

   The consistent domain D ([pair_ok], pairwise; [consistent] for a sequence):
   both scalars denote a value (ints accepted by parseInt64; floats readable,
   the yaml spellings .inf / -.inf included, and not NaN) and an int that
   meets a float is exactly representable in binary64.  Since the fixes in
   /repo (three-way integer compare, no panic, null = null, numbers before
   strings) the former clauses "int differences fit in int64", "no hex / octal
   next to a float", "nulls spelled alike" and "no number next to a string"
   are gone; the remaining clauses are delimited by [_refuted] witnesses. *)
From Coq Require Import List NArith ZArith QArith Permutation Sorted String.
From YQ Require Import Base.Str Spec.Order Model.Sort Proofs.SortProofs Proofs.SortNoPanic Proofs.SortFirst.
Import ListNotations.
Open Scope Z_scope.

(* ---------------- the spec order is a total preorder (all values) ---------------- *)
Theorem C15_order_total_preorder : cmp_laws ord_cmp /\ cmp_laws keys_cmp.
Proof. exact (conj ord_cmp_laws keys_cmp_laws). Qed.
Print Assumptions C15_order_total_preorder.

(* ---------------- sort / sort_by: every sequence, every comparator answer ---------------- *)
(* whenever the sort returns (no panic), the result is a permutation of the input *)
Theorem C15_sort_perm : forall l l' : list elem, sort_by l = Ok l' -> Permutation l l'.
Proof. exact sort_by_perm. Qed.
Print Assumptions C15_sort_perm.

(* the insertion sort itself, for ANY boolean comparator: permutation *)
Theorem C15_psort_perm : forall (A : Type) (lt : A -> A -> bool) (l : list A), Permutation l (psort lt l).
Proof. exact @psort_perm. Qed.
Print Assumptions C15_psort_perm.

(* the comparator has no panic outcome for any two scalars *)
Theorem C15_cmp_never_panics : forall a b : scalar, cmp a b <> Panic.
Proof. exact cmp_no_panic. Qed.
Print Assumptions C15_cmp_never_panics.

(* nor have < <= > >=, min / max and sort / sort_by themselves: for every pair of scalars, every
   sequence of any length and every key list, the outcome is a result or an error, never a panic
   (no consistency hypothesis: this holds outside D too) *)
Theorem C15_ops_never_panic : forall (or_equal greater : bool) (a b : scalar),
  compare_scalars or_equal greater a b <> Panic.
Proof. exact compare_scalars_no_panic. Qed.
Print Assumptions C15_ops_never_panic.

Theorem C15_min_max_never_panic : forall (greater : bool) (l : list (scalar * N)), superlative greater l <> Panic.
Proof. exact superlative_no_panic. Qed.
Print Assumptions C15_min_max_never_panic.

Theorem C15_sort_never_panics : forall l : list elem, sort_by l <> Panic.
Proof. exact sort_by_no_panic. Qed.
Print Assumptions C15_sort_never_panics.

(* ---------------- on the consistent domain: defined, sorted, stable, idempotent, unique ---------------- *)
Theorem C15_sort_sorted : forall l : list elem, consistent l ->
  exists l', sort_by l = Ok l' /\ StronglySorted elem_le l'.
Proof. exact sort_by_sorted. Qed.
Print Assumptions C15_sort_sorted.

Theorem C15_sort_stable : forall l l' : list elem, consistent l -> sort_by l = Ok l' ->
  forall z, filter (elem_eqb z) l' = filter (elem_eqb z) l.
Proof. exact sort_by_stable. Qed.
Print Assumptions C15_sort_stable.

Theorem C15_sort_idempotent : forall l l' : list elem, consistent l -> sort_by l = Ok l' -> sort_by l' = Ok l'.
Proof. exact sort_by_idempotent. Qed.
Print Assumptions C15_sort_idempotent.

(* any permutation that is ordered under the spec order and keeps equal elements
   in input order IS the model's result: the outcome does not depend on which
   stable sorting algorithm runs (insertion sort here, symMerge in Go above 20 elements) *)
Theorem C15_sort_unique : forall l l' : list elem, consistent l ->
  Permutation l l' -> StronglySorted elem_le l' ->
  (forall z, filter (elem_eqb z) l' = filter (elem_eqb z) l) -> sort_by l = Ok l'.
Proof. exact sort_by_unique. Qed.
Print Assumptions C15_sort_unique.

(* the same, as a statement about sorting ALGORITHMS: whatever procedure returns an ordered stable
   permutation (no bound on the length; Go's sort.Stable = insertion sort on blocks of 20 + symMerge
   is such a procedure whenever the comparator is a total preorder, which it is on D) returns the
   model's result.  The algorithm itself is not modelled above 20 elements; this theorem is why
   that does not matter on D. *)
Theorem C15_any_stable_sort_agrees : forall f : list elem -> list elem,
  (forall l, Permutation l (f l) /\ StronglySorted elem_le (f l) /\ forall z, filter (elem_eqb z) (f l) = filter (elem_eqb z) l) ->
  forall l, consistent l -> sort_by l = Ok (f l).
Proof. exact any_stable_sort_agrees. Qed.
Print Assumptions C15_any_stable_sort_agrees.

(* ---------------- the comparator on D ---------------- *)
Theorem C15_cmp_agrees_on : forall a b : scalar,
  pair_ok a b = true -> cmp_sign a b = Some (ord_cmp (vden a) (vden b)).
Proof. exact cmp_agrees. Qed.
Print Assumptions C15_cmp_agrees_on.

Theorem C15_cmp_total_preorder_on : forall a b c : scalar,
  pair_ok a b = true -> pair_ok b a = true -> pair_ok b c = true -> pair_ok a c = true ->
  (exists s, cmp_sign a b = Some s /\ cmp_sign b a = Some (CompOpp s))
  /\ (cmp_le a b -> cmp_le b c -> cmp_le a c)
  /\ (cmp_le a b \/ cmp_le b a).
Proof.
  intros a b c Hab Hba Hbc Hac.
  exact (conj (cmp_antisym_on a b Hab Hba) (conj (cmp_trans_on a b c Hab Hbc Hac) (cmp_total_on a b Hab Hba))).
Qed.
Print Assumptions C15_cmp_total_preorder_on.

(* ---------------- < <= > >= and min / max ---------------- *)
Theorem C15_ops_agree : forall (or_equal greater : bool) (a b : scalar),
  ops_ok a b = true ->
  compare_scalars or_equal greater a b = Ok (op_spec or_equal greater (ord_cmp (vden a) (vden b))).
Proof. exact ops_agree. Qed.
Print Assumptions C15_ops_agree.

Theorem C15_min_max_agree : forall (greater : bool) (l : list (scalar * N)),
  (forall x y, In x l -> In y l -> ops_ok (fst x) (fst y) = true) ->
  (l <> [] -> exists m, superlative greater l = Ok (Some m))
  /\ (forall m, superlative greater l = Ok (Some m) ->
        In m l /\ forall x, In x l -> sup_cmp greater (fst m) (fst x) <> Gt).
Proof.
  intros greater l Hok.
  exact (conj (superlative_defined greater l Hok) (fun m => superlative_spec greater l m Hok)).
Qed.
Print Assumptions C15_min_max_agree.

(* which of several best elements: the FIRST one in input order - every element before the answer is
   strictly worse, no element after it is better (ties do not move the answer; sequences of any length) *)
Theorem C15_min_max_first_of_ties : forall (greater : bool) (l : list (scalar * N)) (m : scalar * N),
  (forall x y, In x l -> In y l -> ops_ok (fst x) (fst y) = true) ->
  superlative greater l = Ok (Some m) ->
  exists l1 l2, l = l1 ++ m :: l2
    /\ (forall x, In x l1 -> sup_cmp greater (fst m) (fst x) = Lt)
    /\ (forall x, In x l2 -> sup_cmp greater (fst m) (fst x) <> Gt).
Proof. exact superlative_first. Qed.
Print Assumptions C15_min_max_first_of_ties.

(* ---------------- sort_keys(..) changes key order only ---------------- *)
Theorem C15_sort_keys_only_order : forall (t : tree), unique_keys t ->
  (forall p, get p (sort_keys_rec t) = option_map sort_keys_rec (get p t))
  /\ (forall p es, get p (sort_keys_rec t) = Some (TMap es) -> StronglySorted str_le (map fst es))
  /\ (forall p es0, get p t = Some (TMap es0) ->
        exists es, get p (sort_keys_rec t) = Some (TMap es) /\ Permutation (map fst es0) (map fst es)).
Proof.
  intros t HU.
  exact (conj (fun p => sort_keys_values_kept p t HU)
        (conj (fun p es => sort_keys_sorted p t es HU) (fun p es0 => sort_keys_same_keys p t es0 HU))).
Qed.
Print Assumptions C15_sort_keys_only_order.

(* ================================================================== *)
(* refutations: the full statement fails outside D, clause by clause   *)
(* ================================================================== *)
Definition Sx (t : tag) (s : string) : scalar := mk t (str_of_string s).
Definition E1 (t : tag) (s : string) (i : N) : elem := mke [Sx t s] i.

(* an !!int that parseInt64 cannot read (binary, negative hex) is ordered by its TEXT: 0b11 (three) sorts before 1 *)
Theorem C15_int_unreadable_refuted :
  cmp_sign (Sx TInt "0b11") (Sx TInt "1") = Some Lt /\ cmp_sign (Sx TInt "-0x10") (Sx TInt "-20") = Some Lt
  /\ den (Sx TInt "0b11") = None.
Proof. vm_compute. repeat split. Qed.
Print Assumptions C15_int_unreadable_refuted.

(* NaN is greater than 1.0 and 1.0 is greater than NaN *)
Theorem C15_nan_refuted : exists a b : scalar, cmp_sign a b = Some Gt /\ cmp_sign b a = Some Gt.
Proof. exists (Sx TFloat "nan"), (Sx TFloat "1.0"). vm_compute. split; reflexivity. Qed.
Print Assumptions C15_nan_refuted.

(* int/float through binary64, int/int exactly: a == b, b == c but a > c *)
Theorem C15_mixed_precision_refuted : exists a b c : scalar,
  cmp_sign a b = Some Eq /\ cmp_sign b c = Some Eq /\ cmp_sign a c = Some Gt.
Proof.
  exists (Sx TInt "9007199254740993"), (Sx TFloat "9007199254740992.0"), (Sx TInt "9007199254740992").
  vm_compute. repeat split.
Qed.
Print Assumptions C15_mixed_precision_refuted.

(* null against a non-null: every operator answers false, so min depends on the input order *)
Theorem C15_ops_null_refuted : exists a b : scalar,
  ord_cmp (vden a) (vden b) = Lt /\ compare_scalars false false a b = Ok false /\ compare_scalars true false a b = Ok false
  /\ superlative false [(b, 0%N); (a, 1%N)] = Ok (Some (b, 0%N))
  /\ superlative false [(a, 0%N); (b, 1%N)] = Ok (Some (a, 0%N)).
Proof. exists (Sx TNull "null"), (Sx TInt "1"). vm_compute. repeat split. Qed.
Print Assumptions C15_ops_null_refuted.

(* the operators compare an int with a float through binary64 *)
Theorem C15_ops_mixed_precision_refuted : exists a b : scalar,
  ord_cmp (vden a) (vden b) = Gt /\ compare_scalars false true a b = Ok false.
Proof. exists (Sx TInt "9007199254740993"), (Sx TFloat "9007199254740992.0"). vm_compute. split; reflexivity. Qed.
Print Assumptions C15_ops_mixed_precision_refuted.

(* a repeated key: sortKeys loses a value *)
Theorem C15_sort_keys_dup_refuted : exists t : tree,
  get [SKey [97%N]] t = Some (TScalar [49%N]) /\ get [SKey [97%N]] (sort_keys_rec t) = Some (TScalar [50%N]).
Proof. exists (TMap [([97%N], TScalar [49%N]); ([97%N], TScalar [50%N])]). vm_compute. split; reflexivity. Qed.
Print Assumptions C15_sort_keys_dup_refuted.

(* ================================================================== *)
(* non-vacuity: a consistent sequence mixing null, booleans, ints in   *)
(* three spellings (one of them equal to a float), floats, duplicates  *)
(* ================================================================== *)
Example C15_example :
  let l := [E1 TInt "0x10" 0; E1 TFloat "1.5" 1 ; E1 TBool "true" 2; E1 TNull "~" 3; E1 TInt "16" 4;
            E1 TFloat "16.0" 5; E1 TInt "-3" 6; E1 TBool "False" 7; E1 TInt "1_000" 8; E1 TFloat "0.1" 9;
            E1 TNull "null" 10; E1 TStr "5" 11; E1 TFloat "-.inf" 12; E1 TInt "4611686018427387904" 13; E1 TFloat ".INF" 14] in
  consistentb l = true /\ consistent l
  /\ map e_id (match sort_by l with Ok r => r | _ => [] end) = [3; 10; 7; 2; 12; 6; 9; 1; 0; 4; 5; 8; 13; 14; 11]%N
  (* the inputs of the repaired defects now sort by value *)
  /\ map e_id (match sort_by [E1 TInt "9223372036854775807" 0; E1 TInt "-2" 1; E1 TInt "1" 2] with Ok r => r | _ => [] end) = [1; 2; 0]%N
  /\ map e_id (match sort_by [E1 TInt "10" 0; E1 TStr "5" 1; E1 TInt "9" 2] with Ok r => r | _ => [] end) = [2; 0; 1]%N
  /\ cmp_sign (Sx TInt "0x10") (Sx TFloat "1.5") = Some Gt /\ cmp_sign (Sx TFloat ".inf") (Sx TFloat "1.5") = Some Gt
  /\ cmp_sign (Sx TNull "~") (Sx TNull "null") = Some Eq
  (* floats with exponents, leading dot, trailing dot, sign: all in D, ordered by their binary64 value *)
  /\ (let e := [E1 TFloat "1e3" 0; E1 TFloat "2.5e-3" 1; E1 TFloat "-1E2" 2; E1 TFloat ".5" 3; E1 TFloat "1." 4; E1 TInt "1000" 5;
                 E1 TFloat "1.7976931348623157e308" 6; E1 TFloat "5e-324" 7; E1 TFloat "+2.5" 8] in
      consistentb e = true /\ map e_id (match sort_by e with Ok r => r | _ => [] end) = [2; 7; 1; 3; 4; 8; 0; 5; 6]%N)
  (* what is still outside D *)
  /\ consistentb [E1 TInt "9007199254740993" 0; E1 TFloat "1.0" 1] = false
  /\ consistentb [E1 TFloat ".nan" 0; E1 TFloat "1.0" 1] = false
  /\ int_exact (Sx TInt "9007199254740992") = true /\ int_exact (Sx TInt "9007199254740993") = false.
Proof.
  cbv zeta. split; [vm_compute; reflexivity|]. split; [apply consistentb_sound; vm_compute; reflexivity|].
  vm_compute. repeat split.
Qed.
