(* Props/C15.v — property theorems only. *)
From Coq Require Import List NArith ZArith Permutation.
From YQ Require Import Base.Str Model.Sort Spec.Order Proofs.SortProofs.
Import ListNotations.

Theorem C15_psort_perm : forall (A : Type) (lt : A -> A -> bool) (l : list A), Permutation l (psort lt l).
Proof. exact @psort_perm. Qed.
Print Assumptions C15_psort_perm.
