(* Props/C16.v — property theorems only. *)
From Coq Require Import Arith ZArith.
From YQ Require Import Base.Str Model.Node Model.Store Model.Eval Spec.Lens Proofs.DeleteProofs Proofs.PathProofs Proofs.AssignPathProofs Proofs.PathEvalProofs.

(* On a well-keyed document (what every decoder produces: each sequence child
   records its actual index, keys unique), for every node reachable at a
   position p: the path it reports is the list of keys/indices by which it is
   reached ... *)
Theorem C16_path_is_position : forall doc p m,
  wk doc -> get_at doc p = Some m -> path_of (init_store doc) (O, p) = position_path doc p.
Proof. exact path_of_doc. Qed.
Print Assumptions C16_path_is_position.

(* ... traversing that path from the root returns the node ... *)
Theorem C16_path_roundtrip : forall doc p m,
  wk doc -> get_at doc p = Some m -> trav_path (path_of (init_store doc) (O, p)) doc = Some p.
Proof. exact path_roundtrip. Qed.
Print Assumptions C16_path_roundtrip.

(* ... key is the last element of path ... *)
Theorem C16_key_is_last : forall doc q i m,
  wk doc -> get_at doc (q ++ [i]) = Some m ->
  exists k, key_of (init_store doc) (O, q ++ [i]) = Some k
            /\ path_of (init_store doc) (O, q ++ [i]) = path_of (init_store doc) (O, q) ++ [rkey_pelem k].
Proof. exact key_is_last. Qed.
Print Assumptions C16_key_is_last.

(* ... and parent is the container that holds the node at that position *)
Theorem C16_parent_holds : forall doc q i m,
  get_at doc (q ++ [i]) = Some m ->
  parent_ptr (O, q ++ [i]) = Some (O, q)
  /\ exists par, deref (init_store doc) (O, q) = Some par /\ nth_error (children par) i = Some m.
Proof. exact parent_holds. Qed.
Print Assumptions C16_parent_holds.

(* Through the evaluator: the node reached by traversing any simple path p (keys and index literals mixed, any
   length) of a well-keyed document reports p itself -- `p | path` = p *)
Theorem C16_path_of_traversal : forall p doc fuel pos,
  p <> [] -> Forall step_ok p -> (length p + 3 <= fuel)%nat -> wk doc ->
  resolvep p doc = Some pos ->
  exists q st', eval fuel (EPipe (pe p) EPath) true [] [(O, [])] (init_store doc) = Ok ([q], st')
                /\ deref st' q = Some (path_node (List.map pelem_of p)).
Proof. exact path_of_traversal. Qed.
Print Assumptions C16_path_of_traversal.

(* delete keeps a sequence well-keyed (survivors renumbered) *)
Theorem C16_delete_keeps_well_keyed : forall items victim pos kept,
  Forall (fun kc => exists i, fst kc = RIdx i) items ->
  well_keyed_from kept (remove_item items victim pos kept).
Proof. exact remove_item_keys. Qed.
Print Assumptions C16_delete_keeps_well_keyed.

(* writing a well-keyed value at a position of a well-keyed document keeps it well-keyed
   (what assignment does); a value rebuilt by the operators below is NOT well-keyed, see the witnesses *)
Theorem C16_assign_keeps_well_keyed : forall p n v,
  wk n -> (forall m, get_at n p = Some m -> wk v) -> wk (upd_at n p (fun _ => v)).
Proof. exact wk_upd_at. Qed.
Print Assumptions C16_assign_keeps_well_keyed.

(* "after the container has been reordered, sliced, filtered, concatenated or
   rebuilt" the statement is FALSE on the faithful model (and on yq): AddChild
   keeps a child's old Key.  One witness per rebuilding operator; each is a
   recorded known finding replayed on the implementation (the pinned tests pin
   this output, so it is not repaired). *)
Definition kids_paths (f : expr) : expr := EPipe f (ECollect (Some (EPipe (EIndex ESelf None) EPath))).
Definition ints (l : list N) : node := Seq (renumber_from 0 (List.map (fun i => Scalar TInt (dec_N i)) l)).
Definition paths (l : list N) : node := Seq (renumber_from 0 (List.map (fun i => Seq [(RIdx 0, Scalar TInt (dec_N i))]) l)).

Theorem C16_sort_refuted : exists doc,
  run (kids_paths (ESortBy ESelf)) doc = tag_ok ++ ser_node (paths [1; 2; 0]) ++ [10].
Proof. exists (ints [3; 1; 2]). vm_compute. reflexivity. Qed.
Theorem C16_reverse_refuted : exists doc,
  run (kids_paths EReverse) doc = tag_ok ++ ser_node (paths [1; 0]) ++ [10].
Proof. exists (ints [1; 2]). vm_compute. reflexivity. Qed.
Theorem C16_slice_refuted : exists doc,
  run (kids_paths (ESlice ESelf (ELit TInt [49]) (ELit TInt [51]))) doc = tag_ok ++ ser_node (paths [1; 2]) ++ [10].
Proof. exists (ints [1; 2; 3]). vm_compute. reflexivity. Qed.
Theorem C16_filter_refuted : exists doc,
  run (kids_paths (EFilter (EBin ONe ESelf (ELit TInt [49])))) doc = tag_ok ++ ser_node (paths [1; 2]) ++ [10].
Proof. exists (ints [1; 2; 3]). vm_compute. reflexivity. Qed.
Theorem C16_add_refuted : exists doc,
  run (kids_paths (EBin OAdd ESelf (ECollect (Some (ELit TInt [57]))))) doc = tag_ok ++ ser_node (paths [0; 0]) ++ [10].
Proof. exists (ints [1]). vm_compute. reflexivity. Qed.
Theorem C16_collect_refuted : exists doc,
  run (kids_paths (ECollect (Some (EUnion (EIndex ESelf (Some (ELit TInt [49]))) (EIndex ESelf (Some (ELit TInt [48]))))))) doc
  = tag_ok ++ ser_node (paths [1; 0]) ++ [10].
Proof. exists (ints [1; 2]). vm_compute. reflexivity. Qed.
Theorem C16_unique_refuted : exists doc,
  run (kids_paths (EUniqueBy ESelf)) doc = tag_ok ++ ser_node (paths [0; 2]) ++ [10].
Proof. exists (ints [1; 1; 2]). vm_compute. reflexivity. Qed.
Theorem C16_flatten_refuted : exists doc,
  run (kids_paths (EFlatten (-1))) doc = tag_ok ++ ser_node (paths [0; 0]) ++ [10].
Proof. exists (Seq [(RIdx 0, ints [1]); (RIdx 1, ints [2])]). vm_compute. reflexivity. Qed.

(* ... and such a value assigned back into the document carries its stale keys along: `.b |= [.]` *)
Theorem C16_update_with_rebuilt_value_refuted : exists doc,
  run (EPipe (EUpdate (EKey [98]) (ECollect (Some ESelf))) (ECollect (Some (EPipe ERecurse EPath)))) doc
  = tag_ok ++ ser_node (Seq (renumber_from 0 [Seq []; Seq [(RIdx 0, Scalar TStr [98])];
                                              Seq [(RIdx 0, Scalar TStr [98]); (RIdx 1, Scalar TStr [98])]])) ++ [10].
Proof. exists (Map [([98], Scalar TInt [55])]). vm_compute. reflexivity. Qed.

(* non-vacuity: a nested well-keyed document and a deep position *)
Example C16_example :
  let doc := Map [([97], Seq [(RIdx 0, Scalar TInt [49]); (RIdx 1, Map [([98], Scalar TStr [120])])])] in
  wk doc /\ get_at doc [O; 1%nat; O] = Some (Scalar TStr [120])
  /\ path_of (init_store doc) (O, [O; 1%nat; O]) = [PStr [97]; PInt 1; PStr [98]].
Proof. cbn. repeat split; reflexivity. Qed.
