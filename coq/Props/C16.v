(* Props/C16.v — placeholder; path theorems are added from Proofs/PathProofs.v. *)
From YQ Require Import Base.Str Model.Node Model.Store Model.Eval.
Theorem C16_selfcheck : forall st, eval 1 ESelf false [] [] st = Ok ([], st).
Proof. reflexivity. Qed.
Print Assumptions C16_selfcheck.
