(* Proofs/PropsProofs.v — lemmas for C14 (properties): on the stated domain
   the lexer / parser of the library reads back exactly the entries the
   writer wrote (for every admissible separator), a flat string map is
   encoded as those entries, and dotted paths split back into their keys. *)
From Coq Require Import Lia.
From YQ Require Import Base.Str Model.Props Spec.Codecs.

(* ---------- the automaton, unfolded once ---------- *)
Definition p_escape (m' : pmode) (r : str) : pres :=
  match r with
  | [] => PErr
  | d :: r1 =>
      if d =? 117 then
        match r1 with
        | h1 :: h2 :: h3 :: h4 :: r2 =>
            match hex_val h1, hex_val h2, hex_val h3, hex_val h4 with
            | Some a, Some b, Some e, Some f =>
                p_app (utf8_bmp (a * 4096 + b * 256 + e * 16 + f)) (props_go m' r2)
            | _, _, _, _ => PErr
            end
        | _ => PErr
        end
      else
        match escaped_char d with
        | Some x => p_app [x] (props_go m' r1)
        | None => p_app [d] (props_go m' r1)
        end
  end.

Definition p_value_step (c : N) (r : str) : pres :=
  if c =? c_bs then
    match r with
    | d :: r1 => if is_eol d then props_go PContinuation r1 else p_escape PValue r
    | [] => p_escape PValue r
    end
  else if is_eol c then p_value_done (props_go PBeforeKey r)
  else p_app [c] (props_go PValue r).

Definition p_before_sep_step (c : N) (r : str) : pres :=
  if is_ws c then props_go PBeforeSep r
  else if (c =? c_colon) || (c =? c_eq) then props_go PAfterSep r
  else p_value_step c r.

Definition p_key_step (c : N) (r : str) : pres :=
  if c =? c_bs then p_escape PKey r
  else if is_end_of_key c then p_key_done (p_before_sep_step c r)
  else p_app [c] (props_go PKey r).

Lemma go_value c r : props_go PValue (c :: r) = p_value_step c r.
Proof. reflexivity. Qed.
Lemma go_key c r : props_go PKey (c :: r) = p_key_step c r.
Proof. reflexivity. Qed.
Lemma go_before_sep c r : props_go PBeforeSep (c :: r) = p_before_sep_step c r.
Proof. reflexivity. Qed.
Lemma go_after_sep c r : props_go PAfterSep (c :: r) = if is_ws c then props_go PAfterSep r else p_value_step c r.
Proof. reflexivity. Qed.
Lemma go_before_key c r : props_go PBeforeKey (c :: r) =
  if is_eol c then props_go PBeforeKey r
  else if is_comment c then props_go PComment r
  else if is_ws c then props_go PBeforeKey r
  else p_entry (p_key_step c r).
Proof. reflexivity. Qed.

Lemma p_app_nil r : p_app [] r = r.
Proof. destruct r; reflexivity. Qed.
Lemma p_app_app a b r : p_app a (p_app b r) = p_app (a ++ b) r.
Proof. destruct r; cbn [p_app]; [rewrite app_assoc|]; reflexivity. Qed.

Lemma pws_is_ws c : pws c = is_ws c.
Proof. reflexivity. Qed.

(* ---------- one escaped character, in a key and in a value ---------- *)
Lemma key_char c X : (c =? c_eq) = false ->
  props_go PKey (props_escape_char true c ++ X) = p_app [c] (props_go PKey X).
Proof.
  intro Heq. unfold props_escape_char.
  destruct (c =? c_ff) eqn:E1; [apply N.eqb_eq in E1; subst c; reflexivity|].
  destruct (c =? c_nl) eqn:E2; [apply N.eqb_eq in E2; subst c; reflexivity|].
  destruct (c =? c_cr) eqn:E3; [apply N.eqb_eq in E3; subst c; reflexivity|].
  destruct (c =? c_tab) eqn:E4; [apply N.eqb_eq in E4; subst c; reflexivity|].
  destruct (c =? c_bs) eqn:E5; [apply N.eqb_eq in E5; subst c; reflexivity|].
  cbn [andb]. destruct (c =? c_sp) eqn:E6; [apply N.eqb_eq in E6; subst c; reflexivity|].
  destruct (c =? c_colon) eqn:E7; [apply N.eqb_eq in E7; subst c; reflexivity|].
  cbn [orb app]. rewrite go_key. unfold p_key_step. rewrite E5.
  unfold is_end_of_key, is_ws, is_eol. rewrite E6, E1, E4, E2, E3, E7, Heq. reflexivity.
Qed.

Lemma value_char c X :
  props_go PValue (props_escape_char false c ++ X) = p_app [c] (props_go PValue X).
Proof.
  unfold props_escape_char.
  destruct (c =? c_ff) eqn:E1; [apply N.eqb_eq in E1; subst c; reflexivity|].
  destruct (c =? c_nl) eqn:E2; [apply N.eqb_eq in E2; subst c; reflexivity|].
  destruct (c =? c_cr) eqn:E3; [apply N.eqb_eq in E3; subst c; reflexivity|].
  destruct (c =? c_tab) eqn:E4; [apply N.eqb_eq in E4; subst c; reflexivity|].
  destruct (c =? c_bs) eqn:E5; [apply N.eqb_eq in E5; subst c; reflexivity|].
  cbn [andb app]. rewrite go_value. unfold p_value_step. rewrite E5.
  unfold is_eol. rewrite E2, E3. reflexivity.
Qed.

Lemma key_text k X : existsb (fun x => x =? 61) k = false ->
  props_go PKey (props_escape true k ++ X) = p_app k (props_go PKey X).
Proof.
  induction k as [|c k IH]; intro H.
  - cbn [props_escape app]. rewrite p_app_nil. reflexivity.
  - cbn [existsb] in H. apply orb_false_iff in H as [Hc Hk].
    cbn [props_escape]. rewrite <- app_assoc, (key_char c _ Hc), (IH Hk), p_app_app. reflexivity.
Qed.

Lemma value_text v X : props_go PValue (props_escape false v ++ X) = p_app v (props_go PValue X).
Proof.
  induction v as [|c v IH].
  - cbn [props_escape app]. rewrite p_app_nil. reflexivity.
  - cbn [props_escape]. rewrite <- app_assoc, (value_char c _), IH, p_app_app. reflexivity.
Qed.

(* ---------- first characters ---------- *)
(* the first character of an escaped text: a backslash, or the character itself when it is not one the writer escapes *)
Lemma escape_head key c k X :
  exists h t, props_escape key (c :: k) ++ X = h :: t /\
    (h = c_bs \/ (h = c /\ (c =? c_ff) = false /\ (c =? c_nl) = false /\ (c =? c_cr) = false /\ (c =? c_tab) = false /\ (c =? c_bs) = false
                   /\ (key = true -> (c =? c_sp) = false))).
Proof.
  cbn [props_escape]. unfold props_escape_char.
  destruct (c =? c_ff) eqn:E1; [eexists _, _; split; [reflexivity|left; reflexivity]|].
  destruct (c =? c_nl) eqn:E2; [eexists _, _; split; [reflexivity|left; reflexivity]|].
  destruct (c =? c_cr) eqn:E3; [eexists _, _; split; [reflexivity|left; reflexivity]|].
  destruct (c =? c_tab) eqn:E4; [eexists _, _; split; [reflexivity|left; reflexivity]|].
  destruct (c =? c_bs) eqn:E5; [eexists _, _; split; [reflexivity|left; reflexivity]|].
  destruct key; cbn [andb].
  - destruct (c =? c_sp) eqn:E6; [eexists _, _; split; [reflexivity|left; reflexivity]|].
    destruct (c =? c_colon) eqn:E7; [eexists _, _; split; [reflexivity|left; reflexivity]|].
    cbn [orb app]. eexists _, _. split; [reflexivity|]. right. repeat split; auto.
  - cbn [app]. eexists _, _. split; [reflexivity|]. right. repeat split; auto. intro; discriminate.
Qed.

(* ---------- the separator ---------- *)
Lemma after_sep_ws ws y Y : forallb pws ws = true -> is_ws y = false ->
  props_go PAfterSep (ws ++ y :: Y) = props_go PValue (y :: Y).
Proof.
  intros Hws Hy. induction ws as [|c ws IH].
  - cbn [app]. rewrite go_after_sep, Hy, go_value. reflexivity.
  - cbn [forallb] in Hws. apply andb_true_iff in Hws as [Hc Hws].
    cbn [app]. rewrite go_after_sep. rewrite pws_is_ws in Hc. rewrite Hc. exact (IH Hws).
Qed.

Lemma before_sep sep y Y : props_sep_tail sep = true -> is_ws y = false ->
  props_go PBeforeSep (sep ++ y :: Y) = props_go PValue (y :: Y).
Proof.
  intros Hs Hy. induction sep as [|c sep IH]; [discriminate|].
  cbn [props_sep_tail] in Hs. cbn [app]. rewrite go_before_sep. unfold p_before_sep_step.
  rewrite pws_is_ws in Hs. destruct (is_ws c) eqn:Ew.
  - exact (IH Hs).
  - apply andb_true_iff in Hs as [Hd Hws]. unfold c_colon, c_eq. rewrite Hd.
    exact (after_sep_ws sep y Y Hws Hy).
Qed.

Lemma sep_head sep : props_sep_tail sep = true ->
  exists c r, sep = c :: r /\ (c =? c_bs) = false /\ is_end_of_key c = true.
Proof.
  destruct sep as [|c r]; [discriminate|]. cbn [props_sep_tail]. intro H.
  exists c, r. split; [reflexivity|]. rewrite pws_is_ws in H. unfold is_end_of_key.
  destruct (is_ws c) eqn:Ew.
  - split; [|reflexivity]. unfold is_ws in Ew.
    destruct (c =? c_bs) eqn:E; [|reflexivity]. apply N.eqb_eq in E. subst c. discriminate.
  - apply andb_true_iff in H as [Hd _]. split.
    + destruct (c =? c_bs) eqn:E; [|reflexivity]. apply N.eqb_eq in E. subst c. discriminate.
    + cbn [orb]. apply orb_true_iff in Hd as [Hd|Hd].
      * unfold c_colon. rewrite Hd. rewrite !orb_true_r. reflexivity.
      * unfold c_eq. rewrite Hd. rewrite !orb_true_r. reflexivity.
Qed.

Lemma key_then_sep sep y Y : props_sep_tail sep = true -> is_ws y = false ->
  props_go PKey (sep ++ y :: Y) = p_key_done (props_go PValue (y :: Y)).
Proof.
  intros Hs Hy. destruct (sep_head sep Hs) as (c & r & E & Hb & He).
  pose proof (before_sep sep y Y Hs Hy) as B. rewrite E in *. cbn [app] in *.
  rewrite go_key. unfold p_key_step. rewrite Hb, He. rewrite go_before_sep in B. rewrite B. reflexivity.
Qed.

(* ---------- one line ---------- *)
Definition line_read (kv : str * str) (r : pres) : pres :=
  match r with POk _ _ es => POk [] [] (kv :: es) | PErr => PErr end.

Lemma value_head_not_ws v X : props_value_ok v = true ->
  exists y Y, props_escape false v ++ c_nl :: X = y :: Y /\ is_ws y = false.
Proof.
  intro Hv. destruct v as [|c v].
  - exists c_nl, X. split; reflexivity.
  - destruct (escape_head false c v (c_nl :: X)) as (h & t & E & [Hh|(Hh & F1 & _ & _ & F4 & _ & _)]).
    + exists h, t. split; [exact E|]. subst h. reflexivity.
    + exists h, t. split; [exact E|]. subst h. cbn [props_value_ok] in Hv. apply negb_true_iff in Hv.
      unfold is_ws. unfold c_sp. rewrite Hv, F1, F4. reflexivity.
Qed.

Lemma read_line sep k v X :
  props_sep_ok sep = true -> props_key_ok k = true -> props_value_ok v = true ->
  props_go PBeforeKey (props_line sep (k, v) ++ X) = line_read (k, v) (props_go PBeforeKey X).
Proof.
  intros Hs Hk Hv. unfold props_sep_ok in Hs. unfold props_line. cbn [fst snd].
  destruct k as [|c k]; [discriminate|].
  cbn [props_key_ok] in Hk. apply andb_true_iff in Hk as [Hk Hne]. apply andb_true_iff in Hk as [H35 H33].
  apply negb_true_iff in H35, H33, Hne.
  rewrite <- !app_assoc. cbn [app].
  (* the key *)
  destruct (escape_head true c k (sep ++ props_escape false v ++ c_nl :: X)) as (h & t & E & Hh).
  assert (Hstart : props_go PBeforeKey (h :: t) = p_entry (props_go PKey (h :: t))).
  { rewrite go_before_key, go_key.
    destruct Hh as [->|(-> & F1 & F2 & F3 & F4 & F5 & F6)]; [reflexivity|].
    specialize (F6 eq_refl). unfold is_eol, is_comment, is_ws. rewrite F2, F3, H35, H33, F6, F1, F4. reflexivity. }
  rewrite E, Hstart, <- E.
  rewrite (key_text (c :: k) _ Hne).
  (* the separator and the value *)
  destruct (value_head_not_ws v X Hv) as (y & Y & EY & Hy).
  rewrite EY, (key_then_sep sep y Y Hs Hy), <- EY.
  rewrite (value_text v).
  rewrite go_value. unfold p_value_step. change (c_nl =? c_bs) with false. change (is_eol c_nl) with true. cbv iota.
  destruct (props_go PBeforeKey X) as [cur val es|]; cbn [p_value_done p_app p_key_done p_entry line_read]; [|reflexivity].
  rewrite !app_nil_r. reflexivity.
Qed.

Lemma read_lines sep kvs :
  props_sep_ok sep = true -> Forall props_entry_ok kvs ->
  props_go PBeforeKey (props_write sep kvs) = POk [] [] kvs.
Proof.
  intros Hs Hall. induction Hall as [|[k v] kvs (Hk & Hv) _ IH]; [reflexivity|].
  cbn [props_write]. cbn [fst snd] in Hk, Hv. rewrite (read_line sep k v _ Hs Hk Hv), IH. reflexivity.
Qed.

(* ---------- the ordered map ---------- *)
Lemma omap_replace_absent k v m : ~ In k (List.map fst m) -> omap_replace k v m = None.
Proof.
  induction m as [|[k' v'] m IH]; intro H; [reflexivity|].
  cbn [omap_replace]. cbn [List.map fst In] in H.
  destruct (str_eqb k' k) eqn:E.
  - apply str_eqb_eq in E. exfalso. apply H. left. exact E.
  - rewrite IH; [reflexivity|]. intro Hin. apply H. right. exact Hin.
Qed.

Lemma omap_fold kvs acc :
  Forall (fun kv => fst kv <> []) kvs -> NoDup (List.map fst (acc ++ kvs)) ->
  fold_left omap_set kvs acc = acc ++ kvs.
Proof.
  revert acc. induction kvs as [|[k v] kvs IH]; intros acc Hne Hnd.
  - cbn [fold_left]. rewrite app_nil_r. reflexivity.
  - inversion Hne as [|? ? Hk Hne']; subst. cbn [fst] in Hk.
    cbn [fold_left]. unfold omap_set at 2. cbn [fst snd].
    destruct k as [|c k]; [congruence|].
    rewrite omap_replace_absent.
    + rewrite IH; [rewrite <- app_assoc; reflexivity|exact Hne'|rewrite <- app_assoc; exact Hnd].
    + rewrite map_app in Hnd. cbn [List.map fst] in Hnd.
      apply NoDup_remove_2 in Hnd. intro Hin. apply Hnd. apply in_or_app. left. exact Hin.
Qed.

Lemma key_ok_nonempty kv : props_entry_ok kv -> fst kv <> [].
Proof. intros (Hk & _). destruct (fst kv); [discriminate|discriminate]. Qed.

Theorem props_flat_roundtrip sep kvs :
  props_sep_ok sep = true -> Forall props_entry_ok kvs -> NoDup (List.map fst kvs) ->
  props_parse (props_write sep kvs) = Some kvs.
Proof.
  intros Hs Hall Hnd. unfold props_parse. rewrite (read_lines sep kvs Hs Hall). cbv iota beta.
  unfold omap_of. f_equal. apply (omap_fold kvs []); [|exact Hnd].
  rewrite Forall_forall in *. intros kv Hin. exact (key_ok_nonempty kv (Hall kv Hin)).
Qed.

(* ---------- the encoder on a flat string map ---------- *)
Definition flat_doc (kvs : list (str * str)) : pnode :=
  PMap (List.map (fun kv => (fst kv, PScalar (snd kv))) kvs).

Lemma flatten_flat b kvs : Forall (fun kv => fst kv <> []) kvs -> props_flatten b [] (flat_doc kvs) = kvs.
Proof.
  unfold flat_doc. induction 1 as [|[k v] kvs Hk _ IH]; [reflexivity|].
  cbn [List.map fst snd]. cbn [props_flatten]. cbn [props_flatten] in IH. rewrite IH.
  cbn [fst] in Hk. destruct k; [congruence|]. reflexivity.
Qed.

Theorem props_flat_map_roundtrip sep kvs :
  props_sep_ok sep = true -> Forall props_entry_ok kvs -> NoDup (List.map fst kvs) -> kvs <> [] ->
  props_parse (props_encode sep false (flat_doc kvs)) = Some kvs.
Proof.
  intros Hs Hall Hnd Hne.
  assert (Hk : Forall (fun kv => fst kv <> []) kvs).
  { rewrite Forall_forall in *. intros kv Hin. exact (key_ok_nonempty kv (Hall kv Hin)). }
  unfold props_encode. unfold flat_doc at 1. fold (flat_doc kvs). rewrite (flatten_flat false kvs Hk).
  assert (Ho : omap_of kvs = kvs) by exact (omap_fold kvs [] Hk Hnd).
  rewrite Ho.
  destruct sep as [|c sep]; [discriminate|].
  exact (props_flat_roundtrip (c :: sep) kvs Hs Hall Hnd).
Qed.

(* ---------- paths: joined with dots, split back ---------- *)
Definition no_dot (k : str) : bool := negb (existsb (fun c => c =? c_dot) k).

Lemma split_aux_nodot k rest cur : no_dot k = true ->
  split_dot_aux (k ++ rest) cur = split_dot_aux rest (rev k ++ cur).
Proof.
  revert cur. induction k as [|c k IH]; intros cur H; [reflexivity|].
  unfold no_dot in H. cbn [existsb] in H. apply negb_true_iff in H. apply orb_false_iff in H as [Hc Hk].
  cbn [app split_dot_aux]. rewrite Hc. rewrite IH by (unfold no_dot; rewrite Hk; reflexivity).
  cbn [rev]. rewrite <- app_assoc. reflexivity.
Qed.

Theorem split_join_dot keys : keys <> [] -> Forall (fun k => no_dot k = true) keys ->
  split_dot (join_dot keys) = keys.
Proof.
  intros Hne Hall. unfold split_dot. induction Hall as [|k keys Hk Hall IH]; [congruence|].
  destruct keys as [|k2 keys].
  - cbn [join_dot]. rewrite <- (app_nil_r k) at 1. rewrite (split_aux_nodot k [] [] Hk).
    cbn [split_dot_aux]. rewrite app_nil_r, rev_involutive. reflexivity.
  - change (join_dot (k :: k2 :: keys)) with (k ++ c_dot :: join_dot (k2 :: keys)).
    rewrite (split_aux_nodot k _ [] Hk). cbn [split_dot_aux]. change (c_dot =? c_dot) with true. cbv iota.
    rewrite app_nil_r, rev_involutive. rewrite IH by discriminate. reflexivity.
Qed.
