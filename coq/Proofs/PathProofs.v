(* Proofs/PathProofs.v — C16: on a well-keyed document, path / key / parent
   describe where a node is, and traversing the reported path leads back. *)
From Coq Require Import Arith ZArith.
From YQ Require Import Base.Str Model.Node Model.Store Model.Eval Spec.Lens Proofs.LensProofs Proofs.AssignProofs Proofs.DeleteProofs.

(* well-keyed: every sequence child records its actual index, keys are unique, recursively *)
Fixpoint wk (n : node) : Prop :=
  match n with
  | Scalar _ _ => True
  | Seq items =>
      (fix go (l : list (rkey * node)) (i : nat) : Prop :=
         match l with
         | [] => True
         | (k, c) :: r => k = RIdx (N.of_nat i) /\ wk c /\ go r (S i)
         end) items O
  | Map es =>
      unique_keys es /\
      (fix go (l : list (str * node)) : Prop :=
         match l with [] => True | (_, c) :: r => wk c /\ go r end) es
  end.

Definition wk_items (l : list (rkey * node)) (i : nat) : Prop :=
  (fix go (l : list (rkey * node)) (i : nat) : Prop :=
     match l with
     | [] => True
     | (k, c) :: r => k = RIdx (N.of_nat i) /\ wk c /\ go r (S i)
     end) l i.

Lemma wk_items_nth l : forall i j k c, wk_items l i -> nth_error l j = Some (k, c) -> k = RIdx (N.of_nat (i + j)) /\ wk c.
Proof.
  induction l as [|[k0 c0] l IH]; intros i j k c H Hn; [destruct j; discriminate|].
  destruct H as (Hk & Hc & Hr). destruct j as [|j]; cbn in Hn.
  - injection Hn as <- <-. rewrite Nat.add_0_r. split; assumption.
  - replace (i + S j)%nat with (S i + j)%nat by lia. eapply IH; eassumption.
Qed.

Lemma wk_seq_nth items j k c : wk (Seq items) -> nth_error items j = Some (k, c) -> k = RIdx (N.of_nat j) /\ wk c.
Proof. intros H Hn. exact (wk_items_nth items O j k c H Hn). Qed.

Lemma wk_map_nth es j k c : wk (Map es) -> nth_error es j = Some (k, c) -> wk c.
Proof.
  intros [_ H]. revert j. induction es as [|[k0 c0] es IH]; intros j Hn; [destruct j; discriminate|].
  destruct H as [Hc Hr]. destruct j as [|j]; cbn in Hn; [injection Hn as <- <-; assumption | eapply IH; eassumption].
Qed.

Lemma unique_find es : forall j k c, unique_keys es -> nth_error es j = Some (k, c) -> find_idx es k = Some j.
Proof.
  induction es as [|[k0 c0] es IH]; intros j k c Hu Hn; [destruct j; discriminate|].
  destruct Hu as [Hn0 Hu]. destruct j as [|j]; cbn in Hn.
  - injection Hn as <- <-. cbn. rewrite str_eqb_refl. reflexivity.
  - cbn. destruct (str_eqb k0 k) eqn:E.
    + apply str_eqb_eq in E. subst k0. rewrite (IH j k c Hu Hn) in Hn0. discriminate.
    + rewrite (IH j k c Hu Hn). reflexivity.
Qed.

(* walking a reported path from the root: keys select map entries, integers sequence positions *)
Fixpoint trav_path (ps : list pelem) (n : node) : option (list nat) :=
  match ps with
  | [] => Some []
  | PStr k :: r =>
      match n with
      | Map es => match find_idx es k with
                  | Some i => match nth_error es i with
                              | Some (_, c) => option_map (cons i) (trav_path r c)
                              | None => None
                              end
                  | None => None
                  end
      | _ => None
      end
  | PInt z :: r =>
      match n with
      | Seq items => match nth_error items (Z.to_nat z) with
                     | Some (_, c) => if (z <? 0)%Z then None else option_map (cons (Z.to_nat z)) (trav_path r c)
                     | None => None
                     end
      | _ => None
      end
  end.

(* the path a position should report *)
Fixpoint position_path (n : node) (p : list nat) : list pelem :=
  match p with
  | [] => []
  | i :: r =>
      match n with
      | Seq items => match nth_error items i with
                     | Some (_, c) => PInt (Z.of_nat i) :: position_path c r
                     | None => []
                     end
      | Map es => match nth_error es i with
                  | Some (k, c) => PStr k :: position_path c r
                  | None => []
                  end
      | Scalar _ _ => []
      end
  end.

Theorem keys_along_wk p : forall n m, wk n -> get_at n p = Some m -> keys_along n p = position_path n p.
Proof.
  induction p as [|i p IH]; intros n m Hw Hg; cbn [keys_along position_path get_at] in *; [reflexivity|].
  destruct n as [t v|items|es]; cbn [children child_key] in *; try (destruct i; discriminate).
  - rewrite nth_error_map in *. destruct (nth_error items i) as [[k c]|] eqn:En; cbn in *; [|discriminate].
    destruct (wk_seq_nth _ _ _ _ Hw En) as [-> Hc]. cbn [rkey_pelem]. rewrite nat_N_Z. f_equal. eapply IH; eassumption.
  - rewrite nth_error_map in *. destruct (nth_error es i) as [[k c]|] eqn:En; cbn in *; [|discriminate].
    f_equal. eapply IH; [eapply wk_map_nth; eassumption | eassumption].
Qed.

Theorem trav_position_path p : forall n m, wk n -> get_at n p = Some m -> trav_path (position_path n p) n = Some p.
Proof.
  induction p as [|i p IH]; intros n m Hw Hg; cbn [position_path get_at trav_path] in *; [reflexivity|].
  destruct n as [t v|items|es]; cbn [children] in *; try (destruct i; discriminate).
  - rewrite nth_error_map in Hg. destruct (nth_error items i) as [[k c]|] eqn:En; cbn in Hg; [|discriminate].
    cbn [trav_path]. rewrite Nat2Z.id, En.
    replace (Z.of_nat i <? 0)%Z with false by (symmetry; apply Z.ltb_ge; lia).
    destruct (wk_seq_nth _ _ _ _ Hw En) as [_ Hc]. rewrite (IH _ _ Hc Hg). reflexivity.
  - rewrite nth_error_map in Hg. destruct (nth_error es i) as [[k c]|] eqn:En; cbn in Hg; [|discriminate].
    cbn [trav_path]. destruct Hw as [Hu Hw']. rewrite (unique_find es i k c Hu En), En.
    rewrite (IH _ _ (wk_map_nth es i k c (conj Hu Hw') En) Hg). reflexivity.
Qed.

(* path_of on the document root *)
Theorem path_of_doc doc p m :
  wk doc -> get_at doc p = Some m -> path_of (init_store doc) (O, p) = position_path doc p.
Proof. intros Hw Hg. unfold path_of, init_store, fresh_root, root_path. cbn. eapply keys_along_wk; eassumption. Qed.

Theorem path_roundtrip doc p m :
  wk doc -> get_at doc p = Some m -> trav_path (path_of (init_store doc) (O, p)) doc = Some p.
Proof. intros Hw Hg. rewrite (path_of_doc doc p m Hw Hg). eapply trav_position_path; eassumption. Qed.

Lemma child_key_some d j c : nth_error (children d) j = Some c -> exists k, child_key d j = Some k.
Proof.
  destruct d as [t v|items|es]; cbn [children child_key]; try (destruct j; discriminate);
    rewrite nth_error_map; intros H.
  - destruct (nth_error items j) as [[k c0]|]; [eexists; reflexivity | discriminate].
  - destruct (nth_error es j) as [[k c0]|]; [eexists; reflexivity | discriminate].
Qed.

(* key is the last element of path; parent holds the node at that key *)
Theorem key_is_last doc q i m :
  wk doc -> get_at doc (q ++ [i]) = Some m ->
  exists k, key_of (init_store doc) (O, q ++ [i]) = Some k
            /\ path_of (init_store doc) (O, q ++ [i]) = path_of (init_store doc) (O, q) ++ [rkey_pelem k].
Proof.
  intros Hw Hg. rewrite get_at_app in Hg. destruct (get_at doc q) as [par|] eqn:Eq; [|discriminate].
  assert (Hd : deref (init_store doc) (O, q) = Some par) by exact Eq.
  rewrite (key_of_child _ _ _ i _ Hd).
  cbn [get_at] in Hg. destruct (nth_error (children par) i) as [c|] eqn:En; [|discriminate].
  assert (Hk : exists k, child_key par i = Some k).
  { destruct par as [t v|items|es]; cbn [children child_key] in *; try (destruct i; discriminate);
      rewrite nth_error_map in En.
    - destruct (nth_error items i) as [[k c0]|]; [eexists; reflexivity | discriminate].
    - destruct (nth_error es i) as [[k c0]|]; [eexists; reflexivity | discriminate]. }
  destruct Hk as [k Hk]. exists k. split; [assumption|].
  unfold path_of, init_store, fresh_root, root_path. cbn [nth_error fst snd r_key r_parent r_body app].
  revert Eq. generalize doc. clear - Hk En. induction q as [|j q IH]; intros d Eq; cbn [app keys_along get_at] in *.
  - injection Eq as ->. rewrite Hk, En. reflexivity.
  - destruct (nth_error (children d) j) as [cj|] eqn:Ej; [|discriminate].
    destruct (child_key_some d j cj Ej) as [kj ->]. cbn [app]. f_equal. apply IH. assumption.
Qed.

Theorem parent_holds doc q i m :
  get_at doc (q ++ [i]) = Some m ->
  parent_ptr (O, q ++ [i]) = Some (O, q)
  /\ exists par, deref (init_store doc) (O, q) = Some par /\ nth_error (children par) i = Some m.
Proof.
  intros Hg. split; [apply parent_ptr_snoc|]. rewrite get_at_app in Hg.
  destruct (get_at doc q) as [par|] eqn:Eq; [|discriminate]. exists par. split; [exact Eq|].
  cbn [get_at] in Hg. destruct (nth_error (children par) i); [congruence | discriminate].
Qed.

(* ---------- well-keyedness is preserved by writing a well-keyed value at a position ---------- *)
Lemma wk_items_upd l : forall i j v,
  wk_items l i -> wk v -> wk_items (upd_nth l j (fun kc => (fst kc, v))) i.
Proof.
  induction l as [|[k c] l IH]; intros i j v H Hv; [destruct j; exact H|].
  destruct H as (Hk & Hc & Hr). destruct j as [|j]; cbn [upd_nth].
  - cbn. repeat split; try assumption.
  - change (k = RIdx (N.of_nat i) /\ wk c /\ wk_items (upd_nth l j (fun kc => (fst kc, v))) (S i)).
    repeat split; try assumption. apply IH; assumption.
Qed.

Lemma wk_map_children_upd es : forall j v,
  (fix go (l : list (str * node)) : Prop := match l with [] => True | (_, c) :: r => wk c /\ go r end) es ->
  wk v ->
  (fix go (l : list (str * node)) : Prop := match l with [] => True | (_, c) :: r => wk c /\ go r end)
    (upd_nth es j (fun kc => (fst kc, v))).
Proof.
  induction es as [|[k c] es IH]; intros j v H Hv; [destruct j; exact H|].
  destruct H as [Hc Hr]. destruct j as [|j]; cbn [upd_nth]; cbn; split; try assumption. apply IH; assumption.
Qed.

Lemma unique_keys_upd es : forall j v, unique_keys es -> unique_keys (upd_nth es j (fun kc => (fst kc, v))).
Proof.
  intros j v H.
  assert (Hk : List.map fst (upd_nth es j (fun kc => (fst kc, v))) = List.map fst es).
  { clear H. revert j. induction es as [|[k c] es IH]; intros j; destruct j as [|j]; cbn; try reflexivity; f_equal; apply IH. }
  revert Hk H. generalize (upd_nth es j (fun kc : str * node => (fst kc, v))). intros es'. revert es'.
  induction es as [|[k c] es IH]; intros [|[k' c'] es'] Hk H; cbn in *; try discriminate; try exact I.
  injection Hk as -> Hk. destruct H as [Hn Hu]. split.
  - rewrite (find_idx_keys es' es k Hk). assumption.
  - apply IH; assumption.
Qed.

Theorem wk_upd_at p : forall n v, wk n -> (forall m, get_at n p = Some m -> wk v) -> wk (upd_at n p (fun _ => v)).
Proof.
  induction p as [|i p IH]; intros n v Hw Hv; cbn [upd_at].
  - apply (Hv n). reflexivity.
  - destruct n as [t tv|items|es]; [exact Hw| |].
    + cbn [wk]. fold (wk_items (upd_nth items i (fun kc => (fst kc, upd_at (snd kc) p (fun _ => v)))) O).
      destruct (nth_error items i) as [[k c]|] eqn:En.
      * assert (Hc : wk c) by (eapply wk_seq_nth; eassumption).
        assert (Hsub : wk (upd_at c p (fun _ => v))).
        { apply IH; [assumption|]. intros m Hm. apply (Hv m). cbn [get_at children]. rewrite nth_error_map, En. exact Hm. }
        replace (upd_nth items i (fun kc => (fst kc, upd_at (snd kc) p (fun _ => v))))
          with (upd_nth items i (fun kc => (fst kc, upd_at c p (fun _ => v)))).
        -- apply wk_items_upd; assumption.
        -- apply upd_nth_ext_on with (x := (k, c)); [assumption | reflexivity].
      * replace (upd_nth items i _) with items; [exact Hw|].
        clear - En. revert i En. induction items as [|y l IHl]; intros [|i] En; cbn in *; try discriminate; try reflexivity.
        f_equal. apply IHl. assumption.
    + destruct Hw as [Hu Hch]. cbn [wk].
      destruct (nth_error es i) as [[k c]|] eqn:En.
      * assert (Hc : wk c) by (eapply (wk_map_nth es i k c (conj Hu Hch)); eassumption).
        assert (Hsub : wk (upd_at c p (fun _ => v))).
        { apply IH; [assumption|]. intros m Hm. apply (Hv m). cbn [get_at children]. rewrite nth_error_map, En. exact Hm. }
        replace (upd_nth es i (fun kc => (fst kc, upd_at (snd kc) p (fun _ => v))))
          with (upd_nth es i (fun kc => (fst kc, upd_at c p (fun _ => v)))).
        -- split; [apply unique_keys_upd; assumption | apply wk_map_children_upd; assumption].
        -- apply upd_nth_ext_on with (x := (k, c)); [assumption | reflexivity].
      * replace (upd_nth es i _) with es; [split; assumption|].
        clear - En. revert i En. induction es as [|y l IHl]; intros [|i] En; cbn in *; try discriminate; try reflexivity.
        f_equal. apply IHl. assumption.
Qed.
