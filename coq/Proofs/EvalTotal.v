(* Proofs/EvalTotal.v — the evaluator terminates: fuel proportional to the
   nesting depth of the expression is always enough, whatever the document,
   the context and the variables (C11 for the modelled evaluator; with
   Proofs/EvalFuel.v the answer is then the same for every larger fuel). *)
From YQ Require Import Base.Str Model.Node Model.Store Model.Eval.
From Coq Require Import ZArith Lia.

Fixpoint depth (e : expr) : nat :=
  match e with
  | ESelf | ELit _ _ | EKey _ | ERecurse | ENot | ELength | EKeys | EToEntries | EFromEntries
  | EReverse | EFlatten _ | EAny | EAll | EVar _ | EPath | EGetKey | EParent | EEmpty => 1
  | EIndex l None => 2 + depth l
  | EIndex l (Some i) => 2 + Nat.max (depth l) (depth i)
  | ESlice l a b => 1 + Nat.max (depth l) (Nat.max (depth a) (depth b))
  | EPipe l r | EUnion l r | EBin _ l r | EAssign l r | EUpdate l r => 1 + Nat.max (depth l) (depth r)
  | ECompound _ l r => 3 + Nat.max (depth l) (depth r)
  | ECollect None => 1
  | ECollect (Some e1) => 1 + depth e1
  | EFilter e1 => 2 + depth e1
  | ESelect e1 | EMap e1 | EHas e1 | EWithEntries e1 | EUniqueBy e1 | EGroupBy e1
  | EAnyC e1 | EAllC e1 | EJoin e1 | ESplit e1 | ESortBy e1 | EDel e1 => 1 + depth e1
  | EAs src _ body => 1 + Nat.max (depth src) (depth body)
  | EReduce src _ init body => 1 + Nat.max (depth src) (Nat.max (depth init) (depth body))
  | EObject es =>
      1 + (fix mx (l : list (expr * expr)) : nat :=
             match l with [] => O | (k, v) :: r => Nat.max (Nat.max (depth k) (depth v)) (mx r) end) es
  end.

Definition nofuel {A} (r : res A) : Prop := r <> OutOfFuel.

Lemma nf_bind {A B} (m : res A) (k : A -> res B) : nofuel m -> (forall a, nofuel (k a)) -> nofuel (bind m k).
Proof. unfold nofuel. destruct m; cbn; intros; auto; discriminate. Qed.

Lemma nf_ok {A} (a : A) : nofuel (Ok a). Proof. discriminate. Qed.
Lemma nf_err {A} : nofuel (@Err A). Proof. discriminate. Qed.
Lemma nf_unsup {A} : nofuel (@Unsup A). Proof. discriminate. Qed.
Lemma nf_panic {A} : nofuel (@Panic A). Proof. discriminate. Qed.

Lemma each_nf {A} (f : A -> store -> res out) l : (forall x st, nofuel (f x st)) -> forall st, nofuel (each f l st).
Proof.
  intros H. induction l as [|x l IH]; intros st; cbn [each]; [apply nf_ok|].
  apply nf_bind; [apply H|]. intros. apply nf_bind; [apply IH|]. intros. apply nf_ok.
Qed.

Lemma iter_nf {A} (f : ptr -> A -> store -> res (A * store)) l :
  (forall p a st, nofuel (f p a st)) -> forall a st, nofuel (Eval.iter f l a st).
Proof.
  intros H. induction l as [|p l IH]; intros a st; cbn [Eval.iter]; [apply nf_ok|].
  apply nf_bind; [apply H|]. intros. apply IH.
Qed.

(* the pure helpers never report OutOfFuel *)
Lemma nf_glob_match a b : nofuel (glob_match a b).
Proof. unfold glob_match. destruct (Bounds.match_key a b); discriminate. Qed.

Ltac nf_pure :=
  repeat first
    [ apply nf_ok | apply nf_err | apply nf_unsup | apply nf_panic | apply nf_glob_match
    | apply nf_bind; [ | intros ]
    | apply each_nf; intros
    | match goal with |- nofuel (match ?x with _ => _ end) => destruct x end
    | match goal with |- nofuel (if ?x then _ else _) => destruct x end
    | match goal with |- nofuel (let '(_, _) := ?x in _) => destruct x end
    | progress unfold one, deref_r, of_option, mk_bool, first_text, Z_of_index, int_of, key_text, truthy_ptr ].

Lemma nf_deref st p : nofuel (deref_r st p). Proof. nf_pure. Qed.
Lemma nf_mk_bool st o b : nofuel (mk_bool st o b). Proof. nf_pure. Qed.
Lemma nf_first_text st ps d : nofuel (first_text st ps d). Proof. nf_pure. Qed.
Lemma nf_Z_of_index s : nofuel (Z_of_index s). Proof. nf_pure. Qed.
Lemma nf_int_of s : nofuel (int_of s). Proof. nf_pure. Qed.
Lemma nf_find_glob es pat i : nofuel (find_glob es pat i).
Proof.
  revert i. induction es as [|[k v] es IH]; intros i; cbn [find_glob]; [apply nf_ok|].
  apply nf_bind; [apply nf_glob_match|]. intros b. apply nf_bind; [apply IH|]. intros t. apply nf_ok.
Qed.
Lemma nf_trav_map ro k p es st : nofuel (trav_map ro k p es st).
Proof.
  unfold trav_map, trav_map_pat. destruct (is_wild k); [|nf_pure].
  apply nf_bind; [apply nf_find_glob|]. intros idxs. nf_pure.
Qed.
Lemma nf_trav_index ro p items idx st : nofuel (trav_index ro p items idx st). Proof. unfold trav_index. nf_pure. Qed.
Lemma nf_trav_key ro k p st : nofuel (trav_key ro k p st).
Proof. unfold trav_key. apply nf_bind; [apply nf_deref|]. intros [t v|items|es]; nf_pure; try apply nf_trav_map; try apply nf_trav_index. Qed.
Lemma nf_trav_indices ro idx p st : nofuel (trav_indices ro idx p st).
Proof.
  unfold trav_indices. apply nf_bind; [apply nf_deref|]. intros n0.
  match goal with |- nofuel (let '(_, _) := ?x in _) => destruct x as [n st'] end.
  destruct n as [t v|items|es]; [apply nf_ok| |]; destruct idx; try apply nf_ok;
    apply each_nf; intros ix st1; nf_pure; try apply nf_trav_index; try apply nf_trav_map.
Qed.
Lemma nf_collect_items st ps : forall acc, nofuel (collect_items st ps acc).
Proof. induction ps as [|p ps IH]; intros acc; cbn [collect_items]; [apply nf_ok|]. apply nf_bind; [apply nf_deref|]. intros. apply IH. Qed.
Lemma nf_any_truthy st ps : nofuel (any_truthy st ps).
Proof. induction ps as [|p ps IH]; cbn [any_truthy]; [apply nf_ok|]. apply nf_bind; [apply nf_deref|]. intros n. destruct (truthy n); [apply nf_ok | exact IH]. Qed.
Lemma nf_build_groups st l : forall acc, nofuel (build_groups st l acc).
Proof. induction l as [|[k ps] l IH]; intros acc; cbn [build_groups]; [apply nf_ok|]. apply nf_bind; [apply nf_collect_items|]. intros. apply IH. Qed.
Lemma nf_read_pairs st ps : nofuel (read_pairs st ps).
Proof.
  induction ps as [|p ps IH]; cbn [read_pairs]; [apply nf_ok|]. apply nf_bind; [apply nf_deref|]. intros n.
  destruct n as [| |[|[k v] [|? ?]]]; try apply nf_unsup. apply nf_bind; [exact IH|]. intros. apply nf_ok.
Qed.
Lemma nf_entries_of_items l : forall acc, nofuel (entries_of_items l acc).
Proof.
  induction l as [|[k n] l IH]; intros acc; cbn [entries_of_items]; [apply nf_ok|].
  destruct n as [| |ent]; try apply nf_unsup.
  destruct (find_key ent _ 0) as [|i [|? ?]]; try apply nf_err.
  destruct (find_key ent _ 0) as [|j [|? ?]]; try apply nf_err.
  destruct (nth_error ent i) as [[? [[] ?| |]]|]; try apply nf_unsup; destruct (nth_error ent j) as [[? ?]|]; try apply nf_unsup; apply IH.
Qed.

Lemma nf_update_from st a b : nofuel (update_from st a b).
Proof. unfold update_from. destruct (ptr_eqb a b); [apply nf_ok|]. apply nf_bind; [apply nf_deref|]. intros. apply nf_ok. Qed.
Lemma nf_del_loop f : forall vs cx st, nofuel (del_loop f vs cx st).
Proof.
  induction f as [|f IH]; intros vs cx st; cbn [del_loop]; [apply nf_ok|].
  destruct vs as [|v rest]; [apply nf_ok|].
  destruct (parent_ptr v).
  - apply nf_bind; [apply nf_deref|]. intros pn. destruct (key_of st v); [|apply nf_panic].
    apply nf_bind; [unfold delete_child; nf_pure|]. intros. apply IH.
  - nf_pure.
Qed.

Lemma nf_calcs :
  (forall st l r, nofuel (add_nodes st l r)) /\ (forall st l r, nofuel (lift2 sub_nodes st l r)) /\
  (forall fl st l r, nofuel (lift2 (mul_nodes fl) st l r)) /\ (forall st l r, nofuel (lift2 mod_nodes st l r)) /\
  (forall fl st l r, nofuel (eq_nodes fl st l r)) /\ (forall a b st l r, nofuel (cmp_nodes a b st l r)) /\
  (forall st l r, nofuel (bool_calc st l r)) /\ (forall st l r, nofuel (alt_calc st l r)) /\
  (forall st l r, nofuel (lift2 contains_calc st l r)) /\ (forall st l r, nofuel (lift2 pair_calc st l r)) /\
  (forall t st l, nofuel (bool_short t st l)) /\ (forall st l, nofuel (alt_short st l)).
Proof.
  repeat split; intros;
    unfold add_nodes, lift2, sub_nodes, mul_nodes, mod_nodes, eq_nodes, cmp_nodes, bool_calc, alt_calc, contains_calc,
      pair_calc, bool_short, alt_short, add_scalars, sub_scalars, mul_scalars, mod_scalars, compare_scalars;
    nf_pure.
Qed.

Section CrossNf.
  Variable ev : expr -> bool -> vars -> list ptr -> store -> res out.
  Variables lhs rhs : expr.
  Hypothesis Hl : forall ro vs ctx st, nofuel (ev lhs ro vs ctx st).
  Hypothesis Hr : forall ro vs ctx st, nofuel (ev rhs ro vs ctx st).
  Variable short : store -> option ptr -> res (option out).
  Variable calc : cross_calc.
  Hypothesis Hs : forall st l, nofuel (short st l).
  Hypothesis Hc : forall st l r, nofuel (calc st l r).

  Lemma results_for_rhs_nf cwe ro vs ctx l st : nofuel (results_for_rhs ev cwe short calc rhs ro vs ctx l st).
  Proof.
    unfold results_for_rhs. apply nf_bind; [apply Hs|]. intros [o|]; [apply nf_ok|].
    apply nf_bind; [apply Hr|]. intros o. destruct (fst o); [destruct cwe; [apply Hc | apply nf_ok]|].
    apply each_nf. intros. apply Hc.
  Qed.

  Lemma cross1_nf cwe ro vs cx st : nofuel (cross1 ev cwe short calc lhs rhs ro vs cx st).
  Proof.
    unfold cross1. apply nf_bind; [apply Hl|]. intros ol. apply nf_bind.
    - destruct (fst ol); [destruct cwe; [apply results_for_rhs_nf | apply nf_ok] | apply nf_ok].
    - intros o0. apply nf_bind; [apply each_nf; intros; apply results_for_rhs_nf|]. intros. apply nf_ok.
  Qed.

  Lemma cross_nf cwe ro vs ctx st : nofuel (cross ev cwe short calc lhs rhs ro vs ctx st).
  Proof. unfold cross. destruct ctx; [apply cross1_nf|]. apply each_nf. intros. apply cross1_nf. Qed.
End CrossNf.

Lemma nf_assign_calc st l r : nofuel (assign_calc st l r).
Proof. unfold assign_calc, lift2. destruct l, r; try apply nf_unsup. apply nf_bind; [apply nf_update_from|]. intros. apply nf_ok. Qed.

Lemma no_short_nf st l : nofuel (no_short st l). Proof. apply nf_ok. Qed.

Lemma obj_entries_nf ev ro vs c es :
  (forall ke ve, In (ke, ve) es ->
     (forall ro' vs' ctx st, nofuel (ev ke ro' vs' ctx st)) /\ (forall ro' vs' ctx st, nofuel (ev ve ro' vs' ctx st))) ->
  forall acc st, nofuel (obj_entries ev ro vs c es acc st).
Proof.
  induction es as [|[ke ve] es IH]; intros H acc st; cbn [obj_entries]; [apply nf_ok|].
  destruct (H ke ve (or_introl eq_refl)) as [Hk Hv].
  apply nf_bind.
  - apply cross_nf; try assumption; [intros; apply no_short_nf | apply nf_calcs].
  - intros o. apply nf_bind; [apply nf_read_pairs|]. intros. apply IH. intros k v Hin. apply H. right. assumption.
Qed.

Lemma depth_pos e : (1 <= depth e)%nat.
Proof. destruct e; cbn [depth]; try lia. - destruct idx; lia. - destruct e; lia. Qed.

Ltac sub IH Hd := apply IH; cbn [depth] in Hd |- *; lia.

Ltac nf_go IH Hd :=
  repeat first
    [ apply nf_ok | apply nf_err | apply nf_unsup | apply nf_panic
    | apply nf_deref | apply nf_mk_bool | apply nf_first_text | apply nf_Z_of_index | apply nf_trav_key | apply nf_trav_indices
    | apply nf_collect_items | apply nf_any_truthy | apply nf_build_groups | apply nf_update_from | apply nf_del_loop | apply nf_entries_of_items
    | sub IH Hd
    | apply nf_bind; [ | intros ]
    | apply each_nf; intros
    | apply iter_nf; intros
    | match goal with |- nofuel (match ?x with _ => _ end) => destruct x end
    | match goal with |- nofuel (if ?x then _ else _) => destruct x end
    | match goal with |- nofuel (let '(_, _) := ?x in _) => destruct x end
    | progress unfold one, key_text, of_option ].

Theorem eval_fuel_sufficient : forall f e ro vs ctx st,
  (depth e <= f)%nat -> nofuel (eval f e ro vs ctx st).
Proof.
  induction f as [|f IH]; intros e ro vs ctx st Hd.
  - pose proof (depth_pos e). lia.
  - destruct e; cbn [eval].
    all: try solve [nf_go IH Hd].
    + (* EIndex *) destruct idx as [i|]; nf_go IH Hd.
    + (* EBin *)
      destruct o; apply cross_nf; try (intros; sub IH Hd); try (intros; apply no_short_nf); try apply nf_calcs.
    + (* EWithEntries *)
      apply each_nf. intros c0 st0. apply nf_bind; [apply nf_deref|]. intros n.
      apply nf_bind; [unfold to_entries_items; destruct n as [[] ?| |]; nf_pure|]. intros [items|]; [|apply nf_ok].
      destruct (alloc_repl st0 c0 (Seq items)) as [ep st1].
      apply nf_bind; [apply each_nf; intros; sub IH Hd|]. intros o.
      apply nf_bind; [apply nf_collect_items|]. intros coll. apply nf_bind; [apply nf_entries_of_items|]. intros es.
      destruct (dup_keys es); [apply nf_unsup | unfold one; apply nf_ok].
    + (* EAssign *)
      apply nf_bind; [sub IH Hd|]. intros o0. apply nf_bind; [|intros; apply nf_ok].
      apply cross_nf; try (intros; sub IH Hd); [intros; apply no_short_nf | apply nf_assign_calc].
    + (* ECompound *)
      apply nf_bind; [sub IH Hd|]. intros o0. apply nf_bind; [|intros; apply nf_ok].
      apply iter_nf. intros c u st0. apply nf_bind; [apply nf_deref|]. intros cn.
      destruct (alloc_repl st0 c cn) as [cp st1]. apply nf_bind; [|intros; apply nf_ok].
      apply cross_nf; try (intros; apply no_short_nf); try apply nf_assign_calc.
      * intros. apply IH. cbn [depth] in *. lia.
      * intros. apply IH. cbn [depth] in *. lia.
    + (* EObject *)
      destruct entries as [|e0 es0]; [nf_go IH Hd|]. destruct ctx; [apply nf_unsup|].
      match goal with |- context [if ?b then _ else _] => destruct b end; [apply nf_unsup|].
      apply each_nf. intros c0 st0. apply nf_bind.
      * apply obj_entries_nf. intros ke ve Hin.
        assert (Hkv : (depth ke <= f /\ depth ve <= f)%nat).
        { change (depth (EObject (e0 :: es0)) <= S f)%nat in Hd. revert Hin Hd. generalize (e0 :: es0). intros l.
          induction l as [|[k1 v1] l IHl]; intros Hin Hd; [contradiction|]. cbn [depth] in Hd, IHl.
          destruct Hin as [Heq|Hin]; [injection Heq as <- <-; lia | apply IHl; [assumption | lia]]. }
        destruct Hkv as [Hk Hv]. split; intros; apply IH; assumption.
      * intros r. apply each_nf. intros. nf_go IH Hd.
Qed.
