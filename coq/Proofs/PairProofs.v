(* Proofs/PairProofs.v — the in-expression forms are the codecs applied to the
   node value (encodeOperator / decodeOperator add or strip nothing for
   base64, uri and properties), so the inverse-pair statement is the
   conjunction of the codec round trips. *)
From YQ Require Import Base.Str Model.Base64 Model.Uri Model.Props Spec.Codecs
  Proofs.Base64Proofs Proofs.UriProofs Proofs.PropsProofs.

Theorem inverse_pairs :
  (forall s, bytes s -> b64_decode (b64_encode s) = B64Ok s) /\
  (forall s, bytes s -> uri_unescape (uri_escape s) = Some s) /\
  (forall kvs, Forall props_entry_ok kvs -> NoDup (List.map fst kvs) -> kvs <> [] ->
     props_parse (props_encode [] false (flat_doc kvs)) = Some kvs).
Proof.
  split; [exact b64_roundtrip|]. split; [exact uri_roundtrip|].
  intros kvs Hall Hnd Hne.
  assert (E : props_encode [] false (flat_doc kvs) = props_encode [32; 61; 32] false (flat_doc kvs)).
  { unfold props_encode, flat_doc. reflexivity. }
  rewrite E. exact (props_flat_map_roundtrip [32; 61; 32] kvs eq_refl Hall Hnd Hne).
Qed.

Theorem nonstring_rejected {A : Type} (f : str -> A) v : encode_string_node f false v = None.
Proof. reflexivity. Qed.
