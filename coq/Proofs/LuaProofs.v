(* Proofs/LuaProofs.v — lemmas for C14 (Lua encoder): what encodeString
   writes is a Lua short string literal that a Lua lexer reads back as the
   original bytes, for every byte string and whatever follows the closing
   quote; a key written bare is a Lua Name that is not reserved. *)
From Coq Require Import Lia.
From YQ Require Import Base.Str Model.Base64 Model.LuaStr Spec.Codecs Proofs.Base64Proofs.

Lemma sweep_dec3 :
  forallb (fun c => lua_is_digit (48 + c / 100) && lua_is_digit (48 + (c / 10) mod 10) && lua_is_digit (48 + c mod 10)
                    && ((c / 100) * 100 + ((c / 10) mod 10) * 10 + c mod 10 =? c)) (below 256) = true.
Proof. vm_compute. reflexivity. Qed.

Lemma dec3_facts c : c < 256 ->
  lua_is_digit (48 + c / 100) = true /\ lua_is_digit (48 + (c / 10) mod 10) = true /\ lua_is_digit (48 + c mod 10) = true
  /\ (c / 100) * 100 + ((c / 10) mod 10) * 10 + c mod 10 = c.
Proof.
  intro H. pose proof (below_forall _ 256 sweep_dec3 c H) as S. cbv beta in S.
  apply andb_true_iff in S as [S S4]. apply andb_true_iff in S as [S S3]. apply andb_true_iff in S as [S1 S2].
  apply N.eqb_eq in S4. repeat split; assumption.
Qed.

Lemma read_dec3 c X : c < 256 -> lua_read_dq (dec3 c ++ X) = lua_with c (lua_read_dq X).
Proof.
  intro H. destruct (dec3_facts c H) as (D1 & D2 & D3 & E).
  unfold dec3. cbn [app lua_read_dq].
  change (92 =? 34) with false. change (92 =? 10) with false. change (92 =? 92) with true. cbv iota.
  rewrite D1, D2, D3. rewrite !N.add_sub_swap by lia. rewrite !N.sub_diag, !N.add_0_l. rewrite E. reflexivity.
Qed.

Lemma read_simple d x X : lua_is_digit d = false -> lua_simple_escape d = Some x ->
  lua_read_dq (92 :: d :: X) = lua_with x (lua_read_dq X).
Proof.
  intros Hd Hs. cbn [lua_read_dq].
  change (92 =? 34) with false. change (92 =? 10) with false. change (92 =? 92) with true. cbv iota.
  rewrite Hd, Hs. reflexivity.
Qed.

Lemma read_plain c X : (c =? 34) = false -> (c =? 10) = false -> (c =? 92) = false ->
  lua_read_dq (c :: X) = lua_with c (lua_read_dq X).
Proof. intros H1 H2 H3. cbn [lua_read_dq]. rewrite H1, H2, H3. reflexivity. Qed.

Lemma lua_char_roundtrip c X : c < 256 ->
  lua_read_dq (lua_escape_char c ++ X) = lua_with c (lua_read_dq X).
Proof.
  intro H. unfold lua_escape_char.
  destruct (c =? 7) eqn:E7; [apply N.eqb_eq in E7; subst c; exact (read_simple 97 7 X eq_refl eq_refl)|].
  destruct (c =? 8) eqn:E8; [apply N.eqb_eq in E8; subst c; exact (read_simple 98 8 X eq_refl eq_refl)|].
  destruct (c =? 9) eqn:E9; [apply N.eqb_eq in E9; subst c; exact (read_simple 116 9 X eq_refl eq_refl)|].
  destruct (c =? 10) eqn:E10; [apply N.eqb_eq in E10; subst c; exact (read_simple 110 10 X eq_refl eq_refl)|].
  destruct (c =? 11) eqn:E11; [apply N.eqb_eq in E11; subst c; exact (read_simple 118 11 X eq_refl eq_refl)|].
  destruct (c =? 12) eqn:E12; [apply N.eqb_eq in E12; subst c; exact (read_simple 102 12 X eq_refl eq_refl)|].
  destruct (c =? 13) eqn:E13; [apply N.eqb_eq in E13; subst c; exact (read_simple 114 13 X eq_refl eq_refl)|].
  destruct (c <? 32) eqn:E32; [exact (read_dec3 c X H)|].
  destruct (c =? 34) eqn:E34; [apply N.eqb_eq in E34; subst c; exact (read_simple 34 34 X eq_refl eq_refl)|].
  destruct (c =? 39) eqn:E39; [apply N.eqb_eq in E39; subst c; exact (read_simple 39 39 X eq_refl eq_refl)|].
  destruct (c =? 92) eqn:E92; [apply N.eqb_eq in E92; subst c; exact (read_simple 92 92 X eq_refl eq_refl)|].
  destruct (c =? 127) eqn:E127; [exact (read_dec3 c X H)|].
  cbn [app]. apply read_plain; assumption.
Qed.

Theorem lua_string_roundtrip s rest : bytes s ->
  lua_read_dq (lua_escape s ++ 34 :: rest) = Some (s, rest).
Proof.
  induction 1 as [|c r Hc Hr IH].
  - reflexivity.
  - cbn [lua_escape]. rewrite <- app_assoc, (lua_char_roundtrip c _ Hc), IH.
    unfold lua_with. unfold is_byte in Hc. assert (c <=? 255 = true) as -> by (apply N.leb_le; lia). reflexivity.
Qed.

(* the text after the opening quote of lua_quote s *)
Theorem lua_quote_reads_back s rest : bytes s ->
  exists body, lua_quote s ++ rest = 34 :: body /\ lua_read_dq body = Some (s, rest).
Proof.
  intro H. exists (lua_escape s ++ 34 :: rest). split.
  - unfold lua_quote. cbn [app]. rewrite <- app_assoc. reflexivity.
  - exact (lua_string_roundtrip s rest H).
Qed.

(* ---------- bare keys ---------- *)
Lemma reserved_are_keywords : forallb (fun w => existsb (str_eqb w) lua_keywords) lua_reserved = true.
Proof. vm_compute. reflexivity. Qed.

Lemma alpha_is_start c : lua_alpha_us c = true -> lua_name_start c = true.
Proof.
  unfold lua_alpha_us, lua_name_start. intro H. apply in_ranges_spec.
  apply orb_true_iff in H as [H|H]; [apply orb_true_iff in H as [H|H]|].
  - apply andb_true_iff in H as [A B]. apply N.leb_le in A, B. exists 65, 90. split; [left; reflexivity|lia].
  - apply andb_true_iff in H as [A B]. apply N.leb_le in A, B. exists 97, 122. split; [right; right; left; reflexivity|lia].
  - apply N.eqb_eq in H. exists 95, 95. split; [right; left; reflexivity|lia].
Qed.

Lemma alnum_is_char c : lua_alnum_us c = true -> lua_name_char c = true.
Proof.
  unfold lua_alnum_us, lua_name_char. intro H. apply in_ranges_spec.
  apply orb_true_iff in H as [H|H].
  - unfold lua_alpha_us in H. apply orb_true_iff in H as [H|H]; [apply orb_true_iff in H as [H|H]|].
    + apply andb_true_iff in H as [A B]. apply N.leb_le in A, B. exists 65, 90. split; [right; left; reflexivity|lia].
    + apply andb_true_iff in H as [A B]. apply N.leb_le in A, B. exists 97, 122. split; [right; right; right; left; reflexivity|lia].
    + apply N.eqb_eq in H. exists 95, 95. split; [right; right; left; reflexivity|lia].
  - apply andb_true_iff in H as [A B]. apply N.leb_le in A, B. exists 48, 57. split; [left; reflexivity|lia].
Qed.

Theorem lua_bare_key_sound k : lua_needs_quoting k = false -> lua_is_name k = true.
Proof.
  intros H. unfold lua_needs_quoting in H. apply orb_false_iff in H as [Hkw H].
  destruct k as [|c r]; [discriminate|].
  apply orb_false_iff in H as [H1 H2]. apply negb_false_iff in H1, H2.
  unfold lua_is_name. rewrite (alpha_is_start c H1). cbn [andb].
  assert (forallb lua_name_char r = true) as ->.
  { rewrite forallb_forall in *. intros x Hx. apply alnum_is_char. exact (H2 x Hx). }
  cbn [andb]. apply negb_true_iff.
  destruct (existsb (str_eqb (c :: r)) lua_reserved) eqn:E; [|reflexivity].
  apply existsb_exists in E as (w & Hw & Heq). apply str_eqb_eq in Heq.
  pose proof reserved_are_keywords as R. rewrite forallb_forall in R. specialize (R w Hw).
  rewrite <- Heq in R. rewrite Hkw in R. discriminate.
Qed.
