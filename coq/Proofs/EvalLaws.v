(* Proofs/EvalLaws.v — C01: the structural laws of the context-passing
   semantics, for arbitrary sub-expressions, on the evaluator model. *)
From YQ Require Import Base.Str Model.Node Model.Store Model.Eval.

(* `|` composes: the RHS runs on the LHS's results (and the store the LHS left) *)
Theorem pipe_composes f l r ro vs ctx st :
  eval (S f) (EPipe l r) ro vs ctx st =
  bind (eval f l ro vs ctx st) (fun ol => eval f r ro vs (fst ol) (snd ol)).
Proof. reflexivity. Qed.

(* `,` concatenates: LHS results, then RHS results, both on the same context -- unless both operands hand back
   the very same list object ([union_mode], the recorded finding union-same-list) *)
Definition ctx_empty (ctx : list ptr) : bool := match ctx with [] => true | _ => false end.

Theorem union_appends f l r ro vs ctx st :
  union_mode (list_id (is_bound vs) true (ctx_empty ctx) l) (list_id (is_bound vs) true (ctx_empty ctx) r) = Some false ->
  eval (S f) (EUnion l r) ro vs ctx st =
  bind (eval f l ro vs ctx st) (fun ol =>
  bind (eval f r ro vs ctx (snd ol)) (fun or_ => Ok (fst ol ++ fst or_, snd or_))).
Proof. intros H. cbn [eval]. unfold ctx_empty in H. rewrite H. reflexivity. Qed.

(* when one operand builds a new list (every operator except `.`, `$x`, assignments, delete, and pipes /
   empty bindings that end in those) the union always appends *)
Lemma union_mode_fresh_r a : union_mode a fresh_id = Some false.
Proof. unfold union_mode, fresh_id. cbn [snd]. destruct (snd a); reflexivity. Qed.
Lemma union_mode_fresh_l b : union_mode fresh_id b = Some false.
Proof. reflexivity. Qed.

(* binary operators without short-circuit and without the empty-operand rule:
   for one input node, every LHS result is paired with every RHS result, LHS-major *)
Theorem cross_left_major ev calc lhs rhs ro vs c st :
  cross ev false no_short calc lhs rhs ro vs [c] st =
  bind (bind (ev lhs ro vs [c] st) (fun ol =>
          bind (Ok ([], snd ol)) (fun o0 =>
          bind (each (fun l st1 =>
                        bind (ev rhs ro vs [c] st1) (fun orr =>
                          match fst orr with
                          | [] => Ok ([], snd orr)
                          | rs => each (fun r st2 => calc st2 (Some l) (Some r)) rs (snd orr)
                          end)) (fst ol) (snd o0))
               (fun o1 => Ok (fst o0 ++ fst o1, snd o1)))))
       (fun o1 => bind (Ok ([], snd o1)) (fun o2 => Ok (fst o1 ++ fst o2, snd o2))).
Proof.
  unfold cross. cbn [each]. unfold cross1.
  destruct (ev lhs ro vs [c] st) as [ol| | | |]; cbn [bind]; try reflexivity.
  destruct (fst ol); reflexivity.
Qed.

(* per input node: a multi-node context is processed node by node, in order *)
Theorem cross_per_input_node ev cwe short calc lhs rhs ro vs c cs st :
  cross ev cwe short calc lhs rhs ro vs (c :: cs) st =
  each (fun c0 st0 => cross1 ev cwe short calc lhs rhs ro vs [c0] st0) (c :: cs) st.
Proof. reflexivity. Qed.

(* [e] yields exactly one sequence per input node *)
Theorem collect_one_per_node f eo ro vs ctx st o :
  ctx <> [] -> eval (S f) (ECollect eo) ro vs ctx st = Ok o -> length (fst o) = length ctx.
Proof.
  intros Hne. cbn [eval]. destruct ctx as [|c0 cs]; [contradiction|]. clear Hne.
  generalize (c0 :: cs). intros l. revert st o.
  induction l as [|c l IH]; intros st o; cbn [each].
  - intros H. injection H as <-. reflexivity.
  - match goal with |- bind ?m _ = _ -> _ => destruct m as [o1| | | |] eqn:E1 end; cbn [bind]; try discriminate.
    destruct (each _ l (snd o1)) as [o2| | | |] eqn:E2; cbn [bind]; try discriminate.
    intros H. injection H as <-. cbn [fst]. rewrite app_length, (IH _ _ E2).
    assert (Hone : length (fst o1) = 1%nat).
    { revert E1. destruct eo as [e1|].
      - destruct (eval f e1 ro vs [c] st) as [oe| | | |]; cbn [bind]; try discriminate.
        destruct (collect_items (snd oe) (fst oe) []) as [items| | | |]; cbn [bind]; try discriminate.
        intros H. injection H as <-. reflexivity.
      - cbn [bind collect_items]. intros H. injection H as <-. reflexivity. }
    rewrite Hone. reflexivity.
Qed.

(* select(e) keeps a sub-list of its input, in order *)
Theorem select_sublist f e ro vs ctx st o :
  eval (S f) (ESelect e) ro vs ctx st = Ok o -> exists mask, length mask = length ctx /\
    fst o = List.map snd (filter fst (combine mask ctx)).
Proof.
  cbn [eval]. revert st o. induction ctx as [|c ctx IH]; intros st o; cbn [each].
  - intros H. injection H as <-. exists []. split; reflexivity.
  - destruct (eval f e true vs [c] st) as [oe| | | |]; cbn [bind]; try discriminate.
    destruct (any_truthy (snd oe) (fst oe)) as [keep| | | |]; cbn [bind]; try discriminate.
    cbn [fst snd]. destruct (each _ ctx (snd oe)) as [o2| | | |] eqn:E2; cbn [bind]; try discriminate.
    intros H. injection H as <-. destruct (IH _ _ E2) as (mask & Hl & Hm).
    exists (keep :: mask). split; [cbn; congruence|]. cbn [combine filter fst snd].
    destruct keep; cbn [List.map app fst snd]; rewrite Hm; reflexivity.
Qed.
