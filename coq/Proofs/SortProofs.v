(* Proofs/SortProofs.v — lemmas about Model/Sort.v and Spec/Order.v for property C15. *)
From Coq Require Import List NArith ZArith QArith Bool Lia Permutation Sorted.
From YQ Require Import Base.Str Model.Sort Spec.Order.
Import ListNotations.

(* ------------------------------------------------------------------ *)
(* the pure insertion sort, for an arbitrary comparator                *)
(* ------------------------------------------------------------------ *)
Section Pure.
  Context {A : Type} (lt : A -> A -> bool).

  Lemma ins_perm x l : Permutation (x :: l) (ins lt x l).
  Proof.
    induction l as [|y l IH]; cbn [ins]; [reflexivity|].
    destruct (lt x y); [|reflexivity].
    eapply perm_trans; [apply perm_swap|]. apply perm_skip. exact IH.
  Qed.

  Lemma sortr_perm l : Permutation l (sortr lt l).
  Proof.
    induction l as [|x l IH]; cbn [sortr]; [constructor|].
    eapply perm_trans; [|apply ins_perm]. apply perm_skip. exact IH.
  Qed.

  Lemma psort_perm l : Permutation l (psort lt l).
  Proof.
    unfold psort. eapply perm_trans; [apply Permutation_rev|].
    eapply perm_trans; [apply sortr_perm|]. apply Permutation_rev.
  Qed.
End Pure.
