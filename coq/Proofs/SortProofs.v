(* Proofs/SortProofs.v — lemmas about Model/Sort.v and Spec/Order.v for property C15. *)
From Coq Require Import List NArith ZArith QArith Bool Lia Permutation Sorted.
From YQ Require Import Base.Str Spec.Order Model.Sort.
Import ListNotations.
Open Scope Z_scope.

(* ================================================================== *)
(* 1. the pure insertion sort                                          *)
(* ================================================================== *)
Lemma filter_rev {A : Type} (f : A -> bool) (l : list A) : filter f (rev l) = rev (filter f l).
Proof.
  induction l as [|a l IH]; [reflexivity|].
  cbn [rev filter]. rewrite filter_app, IH. cbn [filter].
  destruct (f a); cbn [rev]; [reflexivity | apply app_nil_r].
Qed.

Lemma StronglySorted_snoc {A : Type} (R : A -> A -> Prop) (l : list A) (a : A) :
  StronglySorted R l -> Forall (fun x => R x a) l -> StronglySorted R (l ++ [a]).
Proof.
  induction l as [|b l IH]; intros HS HF; cbn [app].
  - constructor; constructor.
  - inversion HS as [|? ? HS' HB]; subst. inversion HF as [|? ? Hba HF']; subst.
    constructor; [apply IH; assumption|].
    apply Forall_app. split; [assumption | constructor; [assumption | constructor]].
Qed.

Lemma StronglySorted_rev {A : Type} (R : A -> A -> Prop) (l : list A) :
  StronglySorted R l -> StronglySorted (fun a b => R b a) (rev l).
Proof.
  induction 1 as [|a l HS IH HF]; cbn [rev]; [constructor|].
  apply StronglySorted_snoc; [exact IH|].
  apply Forall_rev. exact HF.
Qed.

Lemma StronglySorted_weaken {A : Type} (R R' : A -> A -> Prop) (l : list A) :
  (forall a b, R a b -> R' a b) -> StronglySorted R l -> StronglySorted R' l.
Proof.
  intros Himp. induction 1 as [|a l HS IH HF]; constructor; [exact IH|].
  eapply Forall_impl; [|exact HF]. intros b Hb. apply Himp, Hb.
Qed.

Section Pure.
  Context {A : Type} (lt : A -> A -> bool).

  Definition eqv (z y : A) : bool := negb (lt z y) && negb (lt y z).

  Lemma ins_perm x l : Permutation (x :: l) (ins lt x l).
  Proof.
    induction l as [|y l IH]; cbn [ins]; [reflexivity|].
    destruct (lt x y); [|reflexivity].
    eapply perm_trans; [apply perm_swap|]. apply perm_skip. exact IH.
  Qed.

  Lemma sortr_perm l : Permutation l (sortr lt l).
  Proof.
    induction l as [|x l IH]; cbn [sortr]; [constructor|].
    eapply perm_trans; [|apply ins_perm]. apply perm_skip. exact IH.
  Qed.

  Lemma psort_perm l : Permutation l (psort lt l).
  Proof.
    unfold psort. eapply perm_trans; [apply Permutation_rev|].
    eapply perm_trans; [apply sortr_perm|]. apply Permutation_rev.
  Qed.

  (* lt is the strict part of a total preorder *)
  Hypothesis Hasym : forall a b, lt a b = true -> lt b a = false.
  Hypothesis Hnt : forall a b c, lt a b = false -> lt b c = false -> lt a c = false.

  Lemma lt_irrefl a : lt a a = false.
  Proof. destruct (lt a a) eqn:E; [|reflexivity]. pose proof (Hasym _ _ E). congruence. Qed.

  Definition ge (a b : A) : Prop := lt a b = false.

  Lemma ins_sorted x rp : StronglySorted ge rp -> StronglySorted ge (ins lt x rp).
  Proof.
    induction rp as [|y r IH]; intros HS; cbn [ins].
    - constructor; constructor.
    - inversion HS as [|? ? HS' HF]; subst.
      destruct (lt x y) eqn:E.
      + constructor; [apply IH, HS'|].
        eapply Permutation_Forall; [apply ins_perm|].
        constructor; [apply Hasym, E | exact HF].
      + constructor; [exact HS|].
        constructor; [exact E|].
        eapply Forall_impl; [|exact HF]. intros z Hz. unfold ge in *. eapply Hnt; eassumption.
  Qed.

  Lemma sortr_sorted l : StronglySorted ge (sortr lt l).
  Proof. induction l as [|x l IH]; cbn [sortr]; [constructor | apply ins_sorted, IH]. Qed.

  (* ascending: no later element is smaller than an earlier one *)
  Definition asc (a b : A) : Prop := lt b a = false.

  Lemma psort_sorted l : StronglySorted asc (psort lt l).
  Proof. unfold psort. apply (StronglySorted_rev ge). apply sortr_sorted. Qed.

  Lemma ins_filter z x rp : filter (eqv z) (ins lt x rp) = filter (eqv z) (x :: rp).
  Proof.
    induction rp as [|y r IH]; [reflexivity|].
    cbn [ins]. destruct (lt x y) eqn:E; [|reflexivity].
    cbn [filter] in *. rewrite IH.
    destruct (eqv z x) eqn:Ex, (eqv z y) eqn:Ey; try reflexivity.
    exfalso. unfold eqv in Ex, Ey.
    apply andb_true_iff in Ex as [_ Ex]. apply andb_true_iff in Ey as [Ey _].
    apply negb_true_iff in Ex, Ey. pose proof (Hnt _ _ _ Ex Ey). congruence.
  Qed.

  Lemma sortr_filter z l : filter (eqv z) (sortr lt l) = filter (eqv z) l.
  Proof.
    induction l as [|x l IH]; [reflexivity|].
    cbn [sortr]. rewrite ins_filter. cbn [filter]. rewrite IH. reflexivity.
  Qed.

  Lemma psort_stable z l : filter (eqv z) (psort lt l) = filter (eqv z) l.
  Proof.
    unfold psort. rewrite filter_rev, sortr_filter, filter_rev, rev_involutive. reflexivity.
  Qed.

  Lemma sortr_id rl : StronglySorted ge rl -> sortr lt rl = rl.
  Proof.
    induction 1 as [|x t HS IH HF]; [reflexivity|].
    cbn [sortr]. rewrite IH. destruct t as [|y t']; [reflexivity|].
    cbn [ins]. inversion HF as [|? ? Hxy _]; subst. unfold ge in Hxy. rewrite Hxy. reflexivity.
  Qed.

  Lemma psort_id l : StronglySorted asc l -> psort lt l = l.
  Proof.
    intros HS. unfold psort. rewrite sortr_id; [apply rev_involutive|].
    apply (StronglySorted_rev asc) in HS. exact HS.
  Qed.

  Lemma psort_idempotent l : psort lt (psort lt l) = psort lt l.
  Proof. apply psort_id, psort_sorted. Qed.

  (* a permutation that is sorted and keeps every equivalence class in order is unique *)
  Lemma sorted_stable_unique l1 : forall l2,
    Permutation l1 l2 -> StronglySorted asc l1 -> StronglySorted asc l2 ->
    (forall z, filter (eqv z) l1 = filter (eqv z) l2) -> l1 = l2.
  Proof.
    induction l1 as [|a l1 IH]; intros l2 HP H1 H2 HF.
    - apply Permutation_nil in HP. congruence.
    - destruct l2 as [|b l2]; [apply Permutation_sym, Permutation_nil in HP; discriminate|].
      assert (Hab : a = b).
      { inversion H1 as [|? ? _ HF1]; subst. inversion H2 as [|? ? _ HF2]; subst.
        assert (Hba : lt b a = false).
        { assert (Hin : In b (a :: l1)) by (eapply Permutation_in; [apply Permutation_sym, HP | left; reflexivity]).
          destruct Hin as [->|Hin]; [apply lt_irrefl|]. rewrite Forall_forall in HF1. apply HF1, Hin. }
        assert (Hab : lt a b = false).
        { assert (Hin : In a (b :: l2)) by (eapply Permutation_in; [apply HP | left; reflexivity]).
          destruct Hin as [->|Hin]; [apply lt_irrefl|]. rewrite Forall_forall in HF2. apply HF2, Hin. }
        assert (Eaa : eqv a a = true) by (unfold eqv; rewrite lt_irrefl; reflexivity).
        assert (Eab : eqv a b = true) by (unfold eqv; rewrite Hab, Hba; reflexivity).
        specialize (HF a). cbn [filter] in HF. rewrite Eaa, Eab in HF. congruence. }
      subst b. f_equal. apply IH.
      + eapply Permutation_cons_inv, HP.
      + inversion H1; assumption.
      + inversion H2; assumption.
      + intros z. specialize (HF z). cbn [filter] in HF. destruct (eqv z a); congruence.
  Qed.

  Lemma psort_unique l l' :
    Permutation l l' -> StronglySorted asc l' -> (forall z, filter (eqv z) l' = filter (eqv z) l) ->
    psort lt l = l'.
  Proof.
    intros HP HS HF. apply sorted_stable_unique.
    - eapply perm_trans; [apply Permutation_sym, psort_perm | exact HP].
    - apply psort_sorted.
    - exact HS.
    - intros z. rewrite psort_stable. symmetry. apply HF.
  Qed.
End Pure.

(* ================================================================== *)
(* 2. the sort with a partial comparator (outcome monad)               *)
(* ================================================================== *)
Section Partial.
  Context {A : Type} (less : A -> A -> outcome bool).

  Lemma ins_o_perm x rp r : ins_o less x rp = Ok r -> Permutation (x :: rp) r.
  Proof.
    revert r. induction rp as [|y t IH]; intros r H; cbn [ins_o] in H.
    - injection H as <-. reflexivity.
    - destruct (less x y) as [b| | |]; cbn [bind] in H; try discriminate.
      destruct b.
      + destruct (ins_o less x t) as [t'| | |]; cbn [bind] in H; try discriminate.
        injection H as <-. eapply perm_trans; [apply perm_swap|]. apply perm_skip. apply IH. reflexivity.
      + injection H as <-. reflexivity.
  Qed.

  Lemma sortr_o_perm l r : sortr_o less l = Ok r -> Permutation l r.
  Proof.
    revert r. induction l as [|x t IH]; intros r H; cbn [sortr_o] in H.
    - injection H as <-. constructor.
    - destruct (sortr_o less t) as [t'| | |]; cbn [bind] in H; try discriminate.
      apply ins_o_perm in H. eapply perm_trans; [|exact H]. apply perm_skip. apply IH. reflexivity.
  Qed.

  Lemma sort_o_perm l r : sort_o less l = Ok r -> Permutation l r.
  Proof.
    unfold sort_o. intros H. destruct (sortr_o less (rev l)) as [t| | |] eqn:E; cbn [bind] in H; try discriminate.
    injection H as <-. apply sortr_o_perm in E.
    eapply perm_trans; [apply Permutation_rev|]. eapply perm_trans; [exact E|]. apply Permutation_rev.
  Qed.

  (* where the comparator answers like a total one, the sort is the pure sort *)
  Context (lt : A -> A -> bool).

  Lemma ins_o_pure x rp :
    (forall y, In y rp -> less x y = Ok (lt x y)) -> ins_o less x rp = Ok (ins lt x rp).
  Proof.
    induction rp as [|y t IH]; intros H; cbn [ins_o ins]; [reflexivity|].
    rewrite (H y (or_introl eq_refl)). cbn [bind].
    destruct (lt x y); [|reflexivity].
    rewrite IH; [reflexivity|]. intros z Hz. apply H. right. exact Hz.
  Qed.

  Lemma sortr_o_pure l :
    (forall a b, In a l -> In b l -> less a b = Ok (lt a b)) -> sortr_o less l = Ok (sortr lt l).
  Proof.
    induction l as [|x t IH]; intros H; cbn [sortr_o sortr]; [reflexivity|].
    rewrite IH; [|intros a b Ha Hb; apply H; right; assumption]. cbn [bind].
    apply ins_o_pure. intros y Hy. apply H; [left; reflexivity|].
    right. eapply Permutation_in; [apply Permutation_sym, sortr_perm | exact Hy].
  Qed.

  Lemma sort_o_pure l :
    (forall a b, In a l -> In b l -> less a b = Ok (lt a b)) -> sort_o less l = Ok (psort lt l).
  Proof.
    intros H. unfold sort_o, psort. rewrite sortr_o_pure; [reflexivity|].
    intros a b Ha Hb. apply H; apply in_rev; assumption.
  Qed.
End Partial.

(* ================================================================== *)
(* 3. laws of the spec order                                           *)
(* ================================================================== *)
Section Laws.
  Context {A : Type} (c : A -> A -> comparison) (L : cmp_laws c).

  Lemma cl_refl x : c x x = Eq.
  Proof. pose proof (cl_antisym c L x x) as H. destruct (c x x); cbn in H; congruence. Qed.

  Lemma cl_eq_sym x y : c x y = Eq -> c y x = Eq.
  Proof. intros H. rewrite (cl_antisym c L x y), H. reflexivity. Qed.

  Lemma cl_eq_congr_r x y : c x y = Eq -> forall z, c z x = c z y.
  Proof.
    intros H z. rewrite (cl_antisym c L x z), (cl_antisym c L y z).
    rewrite (cl_eq_congr c L x y H z). reflexivity.
  Qed.

  Lemma cl_gt_lt x y : c x y = Gt -> c y x = Lt.
  Proof. intros H. rewrite (cl_antisym c L x y), H. reflexivity. Qed.

  Lemma cl_lt_gt x y : c x y = Lt -> c y x = Gt.
  Proof. intros H. rewrite (cl_antisym c L x y), H. reflexivity. Qed.

  Lemma cl_not_lt_trans x y z : c x y <> Lt -> c y z <> Lt -> c x z <> Lt.
  Proof.
    intros H1 H2 H3. destruct (c x y) eqn:E; [| congruence |].
    - rewrite (cl_eq_congr c L x y E z) in H3. congruence.
    - apply cl_gt_lt in E. apply H2. eapply (cl_trans_lt c L); eassumption.
  Qed.

  Lemma cl_flip : cmp_laws (fun x y => c y x).
  Proof.
    constructor.
    - intros x y. apply (cl_antisym c L).
    - intros x y z H1 H2. eapply (cl_trans_lt c L); eassumption.
    - intros x y H z. apply cl_eq_congr_r. apply cl_eq_sym. exact H.
  Qed.

  Lemma cl_not_gt_trans x y z : c x y <> Gt -> c y z <> Gt -> c x z <> Gt.
  Proof.
    intros H1 H2 H3. apply cl_gt_lt in H3.
    assert (c z y <> Lt) by (intro E; apply cl_lt_gt in E; congruence).
    assert (c y x <> Lt) by (intro E; apply cl_lt_gt in E; congruence).
    destruct (c z y) eqn:E1; [| congruence |].
    - rewrite (cl_eq_congr c L z y E1 x) in H3. congruence.
    - apply cl_gt_lt in E1. apply H0. eapply (cl_trans_lt c L); eassumption.
  Qed.

  (* the strict part as a boolean satisfies the hypotheses of section Pure *)
  Lemma cl_ltb_asym x y : is_lt (c x y) = true -> is_lt (c y x) = false.
  Proof. intros H. destruct (c x y) eqn:E; try discriminate. rewrite (cl_lt_gt _ _ E). reflexivity. Qed.

  Lemma cl_ltb_nt x y z : is_lt (c x y) = false -> is_lt (c y z) = false -> is_lt (c x z) = false.
  Proof.
    intros H1 H2. destruct (c x z) eqn:E; try reflexivity. exfalso.
    eapply (cl_not_lt_trans x y z); try eassumption.
    - intro E1. rewrite E1 in H1. discriminate.
    - intro E1. rewrite E1 in H2. discriminate.
  Qed.
End Laws.

Lemma lex_laws {A : Type} (c : A -> A -> comparison) : cmp_laws c -> cmp_laws (lex_cmp c).
Proof.
  intros L. constructor.
  - intros x. induction x as [|a x IH]; intros [|b y]; cbn [lex_cmp]; try reflexivity.
    rewrite (cl_antisym c L a b). destruct (c a b); cbn [CompOpp]; try reflexivity. apply IH.
  - intros x. induction x as [|a x IH]; intros [|b y] [|d z]; cbn [lex_cmp]; intros H1 H2;
      try discriminate; try reflexivity.
    destruct (c a b) eqn:Eab; try discriminate.
    + rewrite (cl_eq_congr c L a b Eab d). destruct (c b d); try discriminate; try reflexivity.
      eapply IH; eassumption.
    + destruct (c b d) eqn:Ebd; try discriminate.
      * rewrite <- (cl_eq_congr_r c L b d Ebd a), Eab. reflexivity.
      * rewrite (cl_trans_lt c L a b d Eab Ebd). reflexivity.
  - intros x. induction x as [|a x IH]; intros [|b y]; cbn [lex_cmp]; intros H z; try discriminate; try reflexivity.
    destruct (c a b) eqn:Eab; try discriminate.
    destruct z as [|d z]; cbn [lex_cmp]; [reflexivity|].
    rewrite (cl_eq_congr c L a b Eab d). destruct (c b d); try reflexivity. apply IH, H.
Qed.

Lemma N_compare_laws : cmp_laws N.compare.
Proof.
  constructor.
  - intros x y. apply N.compare_antisym.
  - intros x y z H1 H2. apply N.compare_lt_iff in H1, H2. apply N.compare_lt_iff. lia.
  - intros x y H z. apply N.compare_eq in H. subst. reflexivity.
Qed.

Lemma Qcompare_laws : cmp_laws Qcompare.
Proof.
  constructor.
  - intros x y. symmetry. apply Qcompare_antisym.
  - intros x y z H1 H2. apply Qlt_alt in H1, H2. apply Qlt_alt. eapply Qlt_trans; eassumption.
  - intros x y H z. apply Qeq_alt in H. rewrite H. reflexivity.
Qed.

Lemma bool_cmp_laws : cmp_laws bool_cmp.
Proof.
  constructor.
  - intros [] []; reflexivity.
  - intros [] [] []; cbn; congruence.
  - intros [] []; cbn; intros H z; try discriminate; reflexivity.
Qed.

Lemma ord_cmp_laws : cmp_laws ord_cmp.
Proof.
  pose proof (lex_laws N.compare N_compare_laws) as LS.
  constructor.
  - intros [|a|p|s] [|b|q|t]; cbn [ord_cmp CompOpp]; try reflexivity.
    + apply (cl_antisym _ bool_cmp_laws).
    + apply (cl_antisym _ Qcompare_laws).
    + apply (cl_antisym _ LS).
  - intros [|a|p|s] [|b|q|t] [|d|r|u]; cbn [ord_cmp]; intros H1 H2; try discriminate; try reflexivity.
    + eapply (cl_trans_lt _ bool_cmp_laws); eassumption.
    + eapply (cl_trans_lt _ Qcompare_laws); eassumption.
    + eapply (cl_trans_lt _ LS); eassumption.
  - intros [|a|p|s] [|b|q|t]; cbn [ord_cmp]; intros H z; try discriminate; destruct z as [|d|r|u]; cbn [ord_cmp]; try reflexivity.
    + apply (cl_eq_congr _ bool_cmp_laws), H.
    + apply (cl_eq_congr _ Qcompare_laws), H.
    + apply (cl_eq_congr _ LS), H.
Qed.

Lemma keys_cmp_laws : cmp_laws keys_cmp.
Proof. apply lex_laws, ord_cmp_laws. Qed.

(* pulled back along any function *)
Lemma pullback_laws {A B : Type} (c : B -> B -> comparison) (f : A -> B) :
  cmp_laws c -> cmp_laws (fun x y => c (f x) (f y)).
Proof.
  intros L. constructor.
  - intros x y. apply (cl_antisym c L).
  - intros x y z. apply (cl_trans_lt c L).
  - intros x y H z. apply (cl_eq_congr c L), H.
Qed.

Lemma elem_cmp_laws : cmp_laws elem_cmp.
Proof. apply (pullback_laws keys_cmp elem_vals), keys_cmp_laws. Qed.
