(* Proofs/SortProofs.v — lemmas about Model/Sort.v and Spec/Order.v for property C15. *)
From Coq Require Import List NArith ZArith QArith Bool Lia Permutation Sorted.
From YQ Require Import Base.Str Spec.Order Model.Sort.
Import ListNotations.
Open Scope Z_scope.

(* ================================================================== *)
(* 1. the pure insertion sort                                          *)
(* ================================================================== *)
Lemma filter_rev {A : Type} (f : A -> bool) (l : list A) : filter f (rev l) = rev (filter f l).
Proof.
  induction l as [|a l IH]; [reflexivity|].
  cbn [rev filter]. rewrite filter_app, IH. cbn [filter].
  destruct (f a); cbn [rev]; [reflexivity | apply app_nil_r].
Qed.

Lemma StronglySorted_snoc {A : Type} (R : A -> A -> Prop) (l : list A) (a : A) :
  StronglySorted R l -> Forall (fun x => R x a) l -> StronglySorted R (l ++ [a]).
Proof.
  induction l as [|b l IH]; intros HS HF; cbn [app].
  - constructor; constructor.
  - inversion HS as [|? ? HS' HB]; subst. inversion HF as [|? ? Hba HF']; subst.
    constructor; [apply IH; assumption|].
    apply Forall_app. split; [assumption | constructor; [assumption | constructor]].
Qed.

Lemma StronglySorted_rev {A : Type} (R : A -> A -> Prop) (l : list A) :
  StronglySorted R l -> StronglySorted (fun a b => R b a) (rev l).
Proof.
  induction 1 as [|a l HS IH HF]; cbn [rev]; [constructor|].
  apply StronglySorted_snoc; [exact IH|].
  apply Forall_rev. exact HF.
Qed.

Lemma StronglySorted_weaken {A : Type} (R R' : A -> A -> Prop) (l : list A) :
  (forall a b, R a b -> R' a b) -> StronglySorted R l -> StronglySorted R' l.
Proof.
  intros Himp. induction 1 as [|a l HS IH HF]; constructor; [exact IH|].
  eapply Forall_impl; [|exact HF]. intros b Hb. apply Himp, Hb.
Qed.

Section Pure.
  Context {A : Type} (lt : A -> A -> bool).

  Definition eqv (z y : A) : bool := negb (lt z y) && negb (lt y z).

  Lemma ins_perm x l : Permutation (x :: l) (ins lt x l).
  Proof.
    induction l as [|y l IH]; cbn [ins]; [reflexivity|].
    destruct (lt x y); [|reflexivity].
    eapply perm_trans; [apply perm_swap|]. apply perm_skip. exact IH.
  Qed.

  Lemma sortr_perm l : Permutation l (sortr lt l).
  Proof.
    induction l as [|x l IH]; cbn [sortr]; [constructor|].
    eapply perm_trans; [|apply ins_perm]. apply perm_skip. exact IH.
  Qed.

  Lemma psort_perm l : Permutation l (psort lt l).
  Proof.
    unfold psort. eapply perm_trans; [apply Permutation_rev|].
    eapply perm_trans; [apply sortr_perm|]. apply Permutation_rev.
  Qed.

  (* lt is the strict part of a total preorder *)
  Hypothesis Hasym : forall a b, lt a b = true -> lt b a = false.
  Hypothesis Hnt : forall a b c, lt a b = false -> lt b c = false -> lt a c = false.

  Lemma lt_irrefl a : lt a a = false.
  Proof. destruct (lt a a) eqn:E; [|reflexivity]. pose proof (Hasym _ _ E). congruence. Qed.

  Definition ge (a b : A) : Prop := lt a b = false.

  Lemma ins_sorted x rp : StronglySorted ge rp -> StronglySorted ge (ins lt x rp).
  Proof.
    induction rp as [|y r IH]; intros HS; cbn [ins].
    - constructor; constructor.
    - inversion HS as [|? ? HS' HF]; subst.
      destruct (lt x y) eqn:E.
      + constructor; [apply IH, HS'|].
        eapply Permutation_Forall; [apply ins_perm|].
        constructor; [apply Hasym, E | exact HF].
      + constructor; [exact HS|].
        constructor; [exact E|].
        eapply Forall_impl; [|exact HF]. intros z Hz. unfold ge in *. eapply Hnt; eassumption.
  Qed.

  Lemma sortr_sorted l : StronglySorted ge (sortr lt l).
  Proof. induction l as [|x l IH]; cbn [sortr]; [constructor | apply ins_sorted, IH]. Qed.

  (* ascending: no later element is smaller than an earlier one *)
  Definition asc (a b : A) : Prop := lt b a = false.

  Lemma psort_sorted l : StronglySorted asc (psort lt l).
  Proof. unfold psort. apply (StronglySorted_rev ge). apply sortr_sorted. Qed.

  Lemma ins_filter z x rp : filter (eqv z) (ins lt x rp) = filter (eqv z) (x :: rp).
  Proof.
    induction rp as [|y r IH]; [reflexivity|].
    cbn [ins]. destruct (lt x y) eqn:E; [|reflexivity].
    cbn [filter] in *. rewrite IH.
    destruct (eqv z x) eqn:Ex, (eqv z y) eqn:Ey; try reflexivity.
    exfalso. unfold eqv in Ex, Ey.
    apply andb_true_iff in Ex as [_ Ex]. apply andb_true_iff in Ey as [Ey _].
    apply negb_true_iff in Ex, Ey. pose proof (Hnt _ _ _ Ex Ey). congruence.
  Qed.

  Lemma sortr_filter z l : filter (eqv z) (sortr lt l) = filter (eqv z) l.
  Proof.
    induction l as [|x l IH]; [reflexivity|].
    cbn [sortr]. rewrite ins_filter. cbn [filter]. rewrite IH. reflexivity.
  Qed.

  Lemma psort_stable z l : filter (eqv z) (psort lt l) = filter (eqv z) l.
  Proof.
    unfold psort. rewrite filter_rev, sortr_filter, filter_rev, rev_involutive. reflexivity.
  Qed.

  Lemma sortr_id rl : StronglySorted ge rl -> sortr lt rl = rl.
  Proof.
    induction 1 as [|x t HS IH HF]; [reflexivity|].
    cbn [sortr]. rewrite IH. destruct t as [|y t']; [reflexivity|].
    cbn [ins]. inversion HF as [|? ? Hxy _]; subst. unfold ge in Hxy. rewrite Hxy. reflexivity.
  Qed.

  Lemma psort_id l : StronglySorted asc l -> psort lt l = l.
  Proof.
    intros HS. unfold psort. rewrite sortr_id; [apply rev_involutive|].
    apply (StronglySorted_rev asc) in HS. exact HS.
  Qed.

  Lemma psort_idempotent l : psort lt (psort lt l) = psort lt l.
  Proof. apply psort_id, psort_sorted. Qed.

  (* a permutation that is sorted and keeps every equivalence class in order is unique *)
  Lemma sorted_stable_unique l1 : forall l2,
    Permutation l1 l2 -> StronglySorted asc l1 -> StronglySorted asc l2 ->
    (forall z, filter (eqv z) l1 = filter (eqv z) l2) -> l1 = l2.
  Proof.
    induction l1 as [|a l1 IH]; intros l2 HP H1 H2 HF.
    - apply Permutation_nil in HP. congruence.
    - destruct l2 as [|b l2]; [apply Permutation_sym, Permutation_nil in HP; discriminate|].
      assert (Hab : a = b).
      { inversion H1 as [|? ? _ HF1]; subst. inversion H2 as [|? ? _ HF2]; subst.
        assert (Hba : lt b a = false).
        { assert (Hin : In b (a :: l1)) by (eapply Permutation_in; [apply Permutation_sym, HP | left; reflexivity]).
          destruct Hin as [->|Hin]; [apply lt_irrefl|]. rewrite Forall_forall in HF1. apply HF1, Hin. }
        assert (Hab : lt a b = false).
        { assert (Hin : In a (b :: l2)) by (eapply Permutation_in; [apply HP | left; reflexivity]).
          destruct Hin as [->|Hin]; [apply lt_irrefl|]. rewrite Forall_forall in HF2. apply HF2, Hin. }
        assert (Eaa : eqv a a = true) by (unfold eqv; rewrite lt_irrefl; reflexivity).
        assert (Eab : eqv a b = true) by (unfold eqv; rewrite Hab, Hba; reflexivity).
        specialize (HF a). cbn [filter] in HF. rewrite Eaa, Eab in HF. congruence. }
      subst b. f_equal. apply IH.
      + eapply Permutation_cons_inv, HP.
      + inversion H1; assumption.
      + inversion H2; assumption.
      + intros z. specialize (HF z). cbn [filter] in HF. destruct (eqv z a); congruence.
  Qed.

  Lemma psort_unique l l' :
    Permutation l l' -> StronglySorted asc l' -> (forall z, filter (eqv z) l' = filter (eqv z) l) ->
    psort lt l = l'.
  Proof.
    intros HP HS HF. apply sorted_stable_unique.
    - eapply perm_trans; [apply Permutation_sym, psort_perm | exact HP].
    - apply psort_sorted.
    - exact HS.
    - intros z. rewrite psort_stable. symmetry. apply HF.
  Qed.
End Pure.

(* ================================================================== *)
(* 2. the sort with a partial comparator (outcome monad)               *)
(* ================================================================== *)
Section Partial.
  Context {A : Type} (less : A -> A -> outcome bool).

  Lemma ins_o_perm x rp r : ins_o less x rp = Ok r -> Permutation (x :: rp) r.
  Proof.
    revert r. induction rp as [|y t IH]; intros r H; cbn [ins_o] in H.
    - injection H as <-. reflexivity.
    - destruct (less x y) as [b| | |]; cbn [bind] in H; try discriminate.
      destruct b.
      + destruct (ins_o less x t) as [t'| | |]; cbn [bind] in H; try discriminate.
        injection H as <-. eapply perm_trans; [apply perm_swap|]. apply perm_skip. apply IH. reflexivity.
      + injection H as <-. reflexivity.
  Qed.

  Lemma sortr_o_perm l r : sortr_o less l = Ok r -> Permutation l r.
  Proof.
    revert r. induction l as [|x t IH]; intros r H; cbn [sortr_o] in H.
    - injection H as <-. constructor.
    - destruct (sortr_o less t) as [t'| | |]; cbn [bind] in H; try discriminate.
      apply ins_o_perm in H. eapply perm_trans; [|exact H]. apply perm_skip. apply IH. reflexivity.
  Qed.

  Lemma sort_o_perm l r : sort_o less l = Ok r -> Permutation l r.
  Proof.
    unfold sort_o. intros H. destruct (sortr_o less (rev l)) as [t| | |] eqn:E; cbn [bind] in H; try discriminate.
    injection H as <-. apply sortr_o_perm in E.
    eapply perm_trans; [apply Permutation_rev|]. eapply perm_trans; [exact E|]. apply Permutation_rev.
  Qed.

  (* where the comparator answers like a total one, the sort is the pure sort *)
  Context (lt : A -> A -> bool).

  Lemma ins_o_pure x rp :
    (forall y, In y rp -> less x y = Ok (lt x y)) -> ins_o less x rp = Ok (ins lt x rp).
  Proof.
    induction rp as [|y t IH]; intros H; cbn [ins_o ins]; [reflexivity|].
    rewrite (H y (or_introl eq_refl)). cbn [bind].
    destruct (lt x y); [|reflexivity].
    rewrite IH; [reflexivity|]. intros z Hz. apply H. right. exact Hz.
  Qed.

  Lemma sortr_o_pure l :
    (forall a b, In a l -> In b l -> less a b = Ok (lt a b)) -> sortr_o less l = Ok (sortr lt l).
  Proof.
    induction l as [|x t IH]; intros H; cbn [sortr_o sortr]; [reflexivity|].
    rewrite IH; [|intros a b Ha Hb; apply H; right; assumption]. cbn [bind].
    apply ins_o_pure. intros y Hy. apply H; [left; reflexivity|].
    right. eapply Permutation_in; [apply Permutation_sym, sortr_perm | exact Hy].
  Qed.

  Lemma sort_o_pure l :
    (forall a b, In a l -> In b l -> less a b = Ok (lt a b)) -> sort_o less l = Ok (psort lt l).
  Proof.
    intros H. unfold sort_o, psort. rewrite sortr_o_pure; [reflexivity|].
    intros a b Ha Hb. apply H; apply in_rev; assumption.
  Qed.
End Partial.

(* ================================================================== *)
(* 3. laws of the spec order                                           *)
(* ================================================================== *)
Section Laws.
  Context {A : Type} (c : A -> A -> comparison) (L : cmp_laws c).

  Lemma cl_refl x : c x x = Eq.
  Proof. pose proof (cl_antisym c L x x) as H. destruct (c x x); cbn in H; congruence. Qed.

  Lemma cl_eq_sym x y : c x y = Eq -> c y x = Eq.
  Proof. intros H. rewrite (cl_antisym c L x y), H. reflexivity. Qed.

  Lemma cl_eq_congr_r x y : c x y = Eq -> forall z, c z x = c z y.
  Proof.
    intros H z. rewrite (cl_antisym c L x z), (cl_antisym c L y z).
    rewrite (cl_eq_congr c L x y H z). reflexivity.
  Qed.

  Lemma cl_gt_lt x y : c x y = Gt -> c y x = Lt.
  Proof. intros H. rewrite (cl_antisym c L x y), H. reflexivity. Qed.

  Lemma cl_lt_gt x y : c x y = Lt -> c y x = Gt.
  Proof. intros H. rewrite (cl_antisym c L x y), H. reflexivity. Qed.

  Lemma cl_not_lt_trans x y z : c x y <> Lt -> c y z <> Lt -> c x z <> Lt.
  Proof.
    intros H1 H2 H3. destruct (c x y) eqn:E; [| congruence |].
    - rewrite (cl_eq_congr c L x y E z) in H3. congruence.
    - apply cl_gt_lt in E. apply H2. eapply (cl_trans_lt c L); eassumption.
  Qed.

  Lemma cl_flip : cmp_laws (fun x y => c y x).
  Proof.
    constructor.
    - intros x y. apply (cl_antisym c L).
    - intros x y z H1 H2. eapply (cl_trans_lt c L); eassumption.
    - intros x y H z. apply cl_eq_congr_r. apply cl_eq_sym. exact H.
  Qed.

  Lemma cl_not_gt_trans x y z : c x y <> Gt -> c y z <> Gt -> c x z <> Gt.
  Proof.
    intros H1 H2 H3. apply cl_gt_lt in H3.
    assert (c z y <> Lt) by (intro E; apply cl_lt_gt in E; congruence).
    assert (c y x <> Lt) by (intro E; apply cl_lt_gt in E; congruence).
    destruct (c z y) eqn:E1; [| congruence |].
    - rewrite (cl_eq_congr c L z y E1 x) in H3. congruence.
    - apply cl_gt_lt in E1. apply H0. eapply (cl_trans_lt c L); eassumption.
  Qed.

  (* the strict part as a boolean satisfies the hypotheses of section Pure *)
  Lemma cl_ltb_asym x y : is_lt (c x y) = true -> is_lt (c y x) = false.
  Proof. intros H. destruct (c x y) eqn:E; try discriminate. rewrite (cl_lt_gt _ _ E). reflexivity. Qed.

  Lemma cl_ltb_nt x y z : is_lt (c x y) = false -> is_lt (c y z) = false -> is_lt (c x z) = false.
  Proof.
    intros H1 H2. destruct (c x z) eqn:E; try reflexivity. exfalso.
    eapply (cl_not_lt_trans x y z); try eassumption.
    - intro E1. rewrite E1 in H1. discriminate.
    - intro E1. rewrite E1 in H2. discriminate.
  Qed.
End Laws.

Lemma lex_laws {A : Type} (c : A -> A -> comparison) : cmp_laws c -> cmp_laws (lex_cmp c).
Proof.
  intros L. constructor.
  - intros x. induction x as [|a x IH]; intros [|b y]; cbn [lex_cmp]; try reflexivity.
    rewrite (cl_antisym c L a b). destruct (c a b); cbn [CompOpp]; try reflexivity. apply IH.
  - intros x. induction x as [|a x IH]; intros [|b y] [|d z]; cbn [lex_cmp]; intros H1 H2;
      try discriminate; try reflexivity.
    destruct (c a b) eqn:Eab; try discriminate.
    + rewrite (cl_eq_congr c L a b Eab d). destruct (c b d); try discriminate; try reflexivity.
      eapply IH; eassumption.
    + destruct (c b d) eqn:Ebd; try discriminate.
      * rewrite <- (cl_eq_congr_r c L b d Ebd a), Eab. reflexivity.
      * rewrite (cl_trans_lt c L a b d Eab Ebd). reflexivity.
  - intros x. induction x as [|a x IH]; intros [|b y]; cbn [lex_cmp]; intros H z; try discriminate; try reflexivity.
    destruct (c a b) eqn:Eab; try discriminate.
    destruct z as [|d z]; cbn [lex_cmp]; [reflexivity|].
    rewrite (cl_eq_congr c L a b Eab d). destruct (c b d); try reflexivity. apply IH, H.
Qed.

Lemma N_compare_laws : cmp_laws N.compare.
Proof.
  constructor.
  - intros x y. apply N.compare_antisym.
  - intros x y z H1 H2. apply N.compare_lt_iff in H1. apply N.compare_lt_iff in H2. apply N.compare_lt_iff. eapply N.lt_trans; eassumption.
  - intros x y H z. apply N.compare_eq in H. subst. reflexivity.
Qed.

Lemma Qcompare_laws : cmp_laws Qcompare.
Proof.
  constructor.
  - intros x y. symmetry. apply Qcompare_antisym.
  - intros x y z H1 H2. apply Qlt_alt in H1, H2. apply Qlt_alt. eapply Qlt_trans; eassumption.
  - intros x y H z. apply Qeq_alt in H. rewrite H. reflexivity.
Qed.

Lemma xnum_cmp_laws : cmp_laws xnum_cmp.
Proof.
  constructor.
  - intros [|p|] [|q|]; cbn [xnum_cmp CompOpp]; try reflexivity. apply (cl_antisym _ Qcompare_laws).
  - intros [|p|] [|q|] [|r|]; cbn [xnum_cmp]; intros H1 H2; try discriminate; try reflexivity.
    eapply (cl_trans_lt _ Qcompare_laws); eassumption.
  - intros [|p|] [|q|]; cbn [xnum_cmp]; intros H z; try discriminate; destruct z as [|r|]; cbn [xnum_cmp]; try reflexivity.
    apply (cl_eq_congr _ Qcompare_laws), H.
Qed.

Lemma bool_cmp_laws : cmp_laws bool_cmp.
Proof.
  constructor.
  - intros [] []; reflexivity.
  - intros [] [] []; cbn; congruence.
  - intros [] []; cbn; intros H z; try discriminate; reflexivity.
Qed.

Lemma ord_cmp_laws : cmp_laws ord_cmp.
Proof.
  pose proof (lex_laws N.compare N_compare_laws) as LS.
  constructor.
  - intros [|a|p|s] [|b|q|t]; cbn [ord_cmp CompOpp]; try reflexivity.
    + apply (cl_antisym _ bool_cmp_laws).
    + apply (cl_antisym _ xnum_cmp_laws).
    + apply (cl_antisym _ LS).
  - intros [|a|p|s] [|b|q|t] [|d|r|u]; cbn [ord_cmp]; intros H1 H2; try discriminate; try reflexivity.
    + eapply (cl_trans_lt _ bool_cmp_laws); eassumption.
    + eapply (cl_trans_lt _ xnum_cmp_laws); eassumption.
    + eapply (cl_trans_lt _ LS); eassumption.
  - intros [|a|p|s] [|b|q|t]; cbn [ord_cmp]; intros H z; try discriminate; destruct z as [|d|r|u]; cbn [ord_cmp]; try reflexivity.
    + apply (cl_eq_congr _ bool_cmp_laws), H.
    + apply (cl_eq_congr _ xnum_cmp_laws), H.
    + apply (cl_eq_congr _ LS), H.
Qed.

Lemma keys_cmp_laws : cmp_laws keys_cmp.
Proof. apply lex_laws, ord_cmp_laws. Qed.

(* pulled back along any function *)
Lemma pullback_laws {A B : Type} (c : B -> B -> comparison) (f : A -> B) :
  cmp_laws c -> cmp_laws (fun x y => c (f x) (f y)).
Proof.
  intros L. constructor.
  - intros x y. apply (cl_antisym c L).
  - intros x y z. apply (cl_trans_lt c L).
  - intros x y H z. apply (cl_eq_congr c L), H.
Qed.

Lemma elem_cmp_laws : cmp_laws elem_cmp.
Proof. apply (pullback_laws keys_cmp elem_vals), keys_cmp_laws. Qed.

(* ================================================================== *)
(* 4. the sort comparator agrees with the spec order on D              *)
(* ================================================================== *)
Lemma str_cmp_lex a b : str_cmp a b = lex_cmp N.compare a b.
Proof.
  revert b. induction a as [|x a IH]; intros [|y b]; cbn [str_cmp lex_cmp]; try reflexivity.
  destruct (x ?= y)%N; try reflexivity. apply IH.
Qed.

Lemma str_cmp_refl a : str_cmp a a = Eq.
Proof. rewrite str_cmp_lex. apply (cl_refl _ (lex_laws _ N_compare_laws)). Qed.

Lemma wrap64_small z : - two63 <= z < two63 -> wrap64 z = z.
Proof.
  intros H. unfold wrap64. rewrite Z.mod_small; [lia|].
  unfold two63, two64 in *. lia.
Qed.

Lemma sign_z_of_cmp c : (z_of_cmp c ?= 0) = c.
Proof. destruct c; reflexivity. Qed.

Lemma Qcompare_inject x y : Qcompare (inject_Z x) (inject_Z y) = (x ?= y).
Proof. unfold Qcompare, inject_Z. cbn [Qnum Qden]. rewrite !Z.mul_1_r. reflexivity. Qed.

Lemma Qcompare_fx x y p : Qcompare (Qmake x p) (Qmake y p) = (x ?= y).
Proof.
  unfold Qcompare. cbn [Qnum Qden]. symmetry. apply Zmult_compare_compat_r. reflexivity.
Qed.

Lemma Qcompare_int_fx x y p : Qcompare (inject_Z x) (Qmake y p) = (x * Z.pos p ?= y).
Proof. unfold Qcompare, inject_Z. cbn [Qnum Qden]. rewrite Z.mul_1_r. reflexivity. Qed.

Lemma Qcompare_fx_int x y p : Qcompare (Qmake x p) (inject_Z y) = (x ?= y * Z.pos p).
Proof. unfold Qcompare, inject_Z. cbn [Qnum Qden]. rewrite Z.mul_1_r. reflexivity. Qed.

Lemma fcmp_sign x y :
  ((if x =? y then 0 else if x <? y then -1 else 1) ?= 0) = (x ?= y).
Proof.
  destruct (Z.eqb_spec x y) as [->|Hne]; [cbn; symmetry; apply Z.compare_refl|].
  destruct (Z.ltb_spec x y) as [Hlt|Hge].
  - symmetry. apply Z.compare_lt_iff. exact Hlt.
  - symmetry. apply Z.compare_gt_iff. lia.
Qed.

Local Opaque fx_pos two63 two64 parse_int64 parse_float truthy float_of_int.

Lemma int_reads_exact_inv ta :
  int_reads_exact (mk TInt ta) = true ->
  exists z, parse_int64 ta = Some z /\ parse_float ta = Ok (FFin (z * fx_scale)).
Proof.
  unfold int_reads_exact. cbn [s_text].
  destruct (parse_int64 ta) as [z|]; [|discriminate].
  destruct (parse_float ta) as [[| |fx]| | |]; try discriminate.
  intros H. apply Z.eqb_eq in H. subst. exists z. split; reflexivity.
Qed.

Lemma int_exact_inv t ta :
  int_exact (mk t ta) = true ->
  exists z, parse_int64 ta = Some z /\ float_of_int z = Ok (FFin (z * fx_scale)).
Proof.
  unfold int_exact. cbn [s_text].
  destruct (parse_int64 ta) as [z|]; [|discriminate].
  destruct (float_of_int z) as [[| |fx]| | |] eqn:E; try discriminate.
  intros H. apply Z.eqb_eq in H. subst. exists z. split; [reflexivity | exact E].
Qed.

Lemma bool_sign l r :
  ((if Bool.eqb l r then 0 else if l then 1 else -1) ?= 0) = bool_cmp l r.
Proof. destruct l, r; reflexivity. Qed.

Lemma sortable_float_int ta z : parse_int64 ta = Some z -> sortable_float (mk TInt ta) = float_of_int z.
Proof. intros H. unfold sortable_float. cbn [s_tag s_text]. rewrite H. reflexivity. Qed.

(* the float comparison against the extended-number order *)
Definition xnum_of (f : fval) : xnum :=
  match f with
  | FFin fx => XFin (Qmake fx fx_pos)
  | FInf neg => if neg then XNegInf else XPosInf
  | FNaN => XPosInf
  end.

Lemma fcmp_xnum x y : x <> FNaN -> y <> FNaN ->
  ((if f_eq x y then 0 else if f_lt x y then -1 else 1) ?= 0) = xnum_cmp (xnum_of x) (xnum_of y).
Proof.
  intros Hx Hy. destruct x as [|n1|p], y as [|n2|q]; try congruence; cbn [f_eq f_lt xnum_of].
  - destruct n1, n2; reflexivity.
  - destruct n1; reflexivity.
  - destruct n2; reflexivity.
  - cbn [xnum_cmp]. rewrite fcmp_sign, Qcompare_fx. reflexivity.
Qed.

(* what [den] says about a number, in terms of what sort reads *)
Lemma den_float_inv ta v : den (mk TFloat ta) = Some v ->
  exists f, sortable_float (mk TFloat ta) = Ok f /\ f <> FNaN /\ v = VNum (xnum_of f).
Proof.
  unfold den. cbn [s_tag]. destruct (sortable_float (mk TFloat ta)) as [[|n|fx]| | |]; try discriminate; intros H; injection H as <-.
  - exists (FInf n). split; [reflexivity|]. split; [discriminate|]. destruct n; reflexivity.
  - exists (FFin fx). split; [reflexivity|]. split; [discriminate | reflexivity].
Qed.

(* an exactly represented integer z (stored as z * 2^1074) against any stored float q *)
Lemma Qcompare_int_scaled_gen z q : Qcompare (inject_Z z) (Qmake q fx_pos) = (z * fx_scale ?= q).
Proof. rewrite Qcompare_int_fx. reflexivity. Qed.

Lemma Qcompare_scaled_int_gen q z : Qcompare (Qmake q fx_pos) (inject_Z z) = (q ?= z * fx_scale).
Proof. rewrite Qcompare_fx_int. reflexivity. Qed.

Lemma den_int_inv ta v : den (mk TInt ta) = Some v ->
  exists z, parse_int64 ta = Some z /\ v = VNum (XFin (inject_Z z)).
Proof.
  unfold den. cbn [s_tag s_text]. destruct (parse_int64 ta) as [z|]; [|discriminate].
  intros H. injection H as <-. exists z. split; reflexivity.
Qed.

Ltac inv_den :=
  repeat match goal with
  | H : den (mk TNull _) = Some _ |- _ => injection H as <-
  | H : den (mk TBool _) = Some _ |- _ => injection H as <-
  | H : den (mk TStr _) = Some _ |- _ => injection H as <-
  | H : den (mk TInt _) = Some _ |- _ =>
      let z := fresh "z" in let P := fresh "P" in apply den_int_inv in H as (z & P & ->)
  | H : den (mk TFloat _) = Some _ |- _ =>
      let f := fresh "f" in let P := fresh "P" in let N := fresh "N" in apply den_float_inv in H as (f & P & N & ->)
  end.

Theorem cmp_agrees a b :
  pair_ok a b = true -> cmp_sign a b = Some (ord_cmp (vden a) (vden b)).
Proof.
  destruct a as [ta xa], b as [tb xb]. unfold pair_ok.
  intros H. apply andb_true_iff in H as [H H3]. apply andb_true_iff in H as [H1 H2].
  unfold cmp_sign, cmp, vden. cbn [s_tag s_text] in *.
  destruct (den (mk ta xa)) as [va|] eqn:Ea; [|discriminate].
  destruct (den (mk tb xb)) as [vb|] eqn:Eb; [|discriminate].
  destruct ta, tb; inv_den; cbn [ord_cmp s_text]; try reflexivity;
    try (rewrite bool_sign; reflexivity);
    try (unfold text_order; cbn [s_text]; rewrite sign_z_of_cmp, str_cmp_lex; reflexivity).
  - (* int, int *)
    match goal with Pa : parse_int64 xa = Some _, Pb : parse_int64 xb = Some _ |- _ =>
      unfold cmp_numbers; cbn [s_tag s_text]; rewrite Pa, Pb end.
    rewrite sign_z_of_cmp. cbn [xnum_cmp]. rewrite Qcompare_inject. reflexivity.
  - (* int, float *)
    apply int_exact_inv in H3 as (z' & Hz & Hf).
    match goal with Pa : parse_int64 xa = Some _, Pb : sortable_float (mk TFloat xb) = Ok ?f, Nb : ?f <> FNaN |- _ =>
      rewrite Pa in Hz; injection Hz as <-;
      unfold cmp_numbers; cbn [s_tag s_text]; rewrite (sortable_float_int _ _ Pa), Hf, Pb;
      rewrite (fcmp_xnum (FFin _) f ltac:(discriminate) Nb);
      destruct f as [|n|q]; [congruence | destruct n; reflexivity |] end.
    cbn [xnum_of xnum_cmp]. rewrite Qcompare_fx, Qcompare_int_scaled_gen. reflexivity.
  - (* float, int *)
    apply int_exact_inv in H3 as (z' & Hz & Hf).
    match goal with Pb : parse_int64 xb = Some _, Pa : sortable_float (mk TFloat xa) = Ok ?f, Na : ?f <> FNaN |- _ =>
      rewrite Pb in Hz; injection Hz as <-;
      unfold cmp_numbers; cbn [s_tag s_text]; rewrite (sortable_float_int _ _ Pb), Hf, Pa;
      rewrite (fcmp_xnum f (FFin _) Na ltac:(discriminate));
      destruct f as [|n|q]; [congruence | destruct n; reflexivity |] end.
    cbn [xnum_of xnum_cmp]. rewrite Qcompare_fx, Qcompare_scaled_int_gen. reflexivity.
  - (* float, float *)
    match goal with Pa : sortable_float (mk TFloat xa) = Ok ?f, Na : ?f <> FNaN,
                    Pb : sortable_float (mk TFloat xb) = Ok ?g, Nb : ?g <> FNaN |- _ =>
      unfold cmp_numbers; cbn [s_tag s_text]; rewrite Pa, Pb; rewrite (fcmp_xnum _ _ Na Nb) end.
    reflexivity.
Qed.

(* ================================================================== *)
(* 5. sort_by on the consistent domain; comparator laws on D           *)
(* ================================================================== *)
Lemma cmp_agrees_ok a b :
  pair_ok a b = true -> exists z, cmp a b = Ok z /\ (z ?= 0) = ord_cmp (vden a) (vden b).
Proof.
  intros H. apply cmp_agrees in H. unfold cmp_sign in H.
  destruct (cmp a b) as [z| | |]; try discriminate. exists z. split; [reflexivity | congruence].
Qed.

Lemma less_keys_agrees ka : forall kb,
  (forall x y, In x ka -> In y kb -> pair_ok x y = true) ->
  less_keys ka kb = Ok (is_lt (keys_cmp (map vden ka) (map vden kb))).
Proof.
  induction ka as [|a ka IH]; intros [|b kb] H; cbn [less_keys map keys_cmp lex_cmp is_lt]; try reflexivity.
  destruct (cmp_agrees_ok a b) as (z & Hz & Hs); [apply H; left; reflexivity|].
  rewrite Hz. cbn [bind]. fold (keys_cmp (map vden ka) (map vden kb)). rewrite <- Hs.
  destruct (Z.compare_spec z 0) as [->|Hlt|Hgt].
  - cbn. apply IH. intros x y Hx Hy. apply H; right; assumption.
  - apply Z.ltb_lt in Hlt. rewrite Hlt. reflexivity.
  - assert (z <? 0 = false) as -> by (apply Z.ltb_ge; lia).
    assert (0 <? z = true) as -> by (apply Z.ltb_lt; lia). reflexivity.
Qed.

Lemma less_elem_agrees l a b :
  consistent l -> In a l -> In b l -> less_elem a b = Ok (elem_lt a b).
Proof.
  intros HC Ha Hb. unfold less_elem, elem_lt, elem_cmp, elem_vals.
  apply less_keys_agrees. intros x y Hx Hy. exact (HC a b Ha Hb x y Hx Hy).
Qed.

Lemma consistent_perm l l' : Permutation l l' -> consistent l -> consistent l'.
Proof.
  intros HP HC a b Ha Hb. apply HC; (eapply Permutation_in; [apply Permutation_sym, HP | assumption]).
Qed.

Lemma elem_lt_asym a b : elem_lt a b = true -> elem_lt b a = false.
Proof. apply (cl_ltb_asym _ elem_cmp_laws). Qed.

Lemma elem_lt_nt a b c : elem_lt a b = false -> elem_lt b c = false -> elem_lt a c = false.
Proof. apply (cl_ltb_nt _ elem_cmp_laws). Qed.

Lemma eqv_elem z y : eqv elem_lt z y = elem_eqb z y.
Proof.
  unfold eqv, elem_lt, elem_eqb. rewrite (cl_antisym _ elem_cmp_laws z y).
  destruct (elem_cmp z y); reflexivity.
Qed.

Lemma asc_elem a b : asc elem_lt a b <-> elem_le a b.
Proof.
  unfold asc, elem_lt, elem_le. rewrite (cl_antisym _ elem_cmp_laws a b).
  destruct (elem_cmp a b); cbn; split; intro H; try congruence; try discriminate;
    try (exfalso; apply H; reflexivity).
Qed.

Theorem sort_by_perm l l' : sort_by l = Ok l' -> Permutation l l'.
Proof. apply sort_o_perm. Qed.

Theorem sort_by_domain l : consistent l -> sort_by l = Ok (psort elem_lt l).
Proof. intros HC. apply sort_o_pure. intros a b Ha Hb. eapply less_elem_agrees; eassumption. Qed.

Theorem sort_by_sorted l : consistent l -> exists l', sort_by l = Ok l' /\ StronglySorted elem_le l'.
Proof.
  intros HC. exists (psort elem_lt l). split; [apply sort_by_domain, HC|].
  eapply StronglySorted_weaken; [|apply (psort_sorted elem_lt elem_lt_asym elem_lt_nt)].
  intros a b. apply asc_elem.
Qed.

Theorem sort_by_stable l l' :
  consistent l -> sort_by l = Ok l' -> forall z, filter (elem_eqb z) l' = filter (elem_eqb z) l.
Proof.
  intros HC H z. rewrite (sort_by_domain l HC) in H. injection H as <-.
  rewrite <- (filter_ext _ _ (eqv_elem z)), <- (filter_ext _ _ (eqv_elem z)).
  apply (psort_stable elem_lt elem_lt_nt).
Qed.

Theorem sort_by_idempotent l l' : consistent l -> sort_by l = Ok l' -> sort_by l' = Ok l'.
Proof.
  intros HC H. pose proof (sort_by_perm _ _ H) as HP.
  rewrite (sort_by_domain l HC) in H. injection H as <-.
  rewrite (sort_by_domain _ (consistent_perm _ _ HP HC)).
  f_equal. apply (psort_idempotent elem_lt elem_lt_asym elem_lt_nt).
Qed.

Theorem sort_by_unique l l' :
  consistent l -> Permutation l l' -> StronglySorted elem_le l' ->
  (forall z, filter (elem_eqb z) l' = filter (elem_eqb z) l) -> sort_by l = Ok l'.
Proof.
  intros HC HP HS HF. rewrite (sort_by_domain l HC). f_equal.
  apply (psort_unique elem_lt elem_lt_asym elem_lt_nt); [exact HP | |].
  - eapply StronglySorted_weaken; [|exact HS]. intros a b. apply asc_elem.
  - intros z. rewrite !(filter_ext _ _ (eqv_elem z)). apply HF.
Qed.

(* comparator laws on D *)
Theorem cmp_antisym_on a b :
  pair_ok a b = true -> pair_ok b a = true ->
  exists c, cmp_sign a b = Some c /\ cmp_sign b a = Some (CompOpp c).
Proof.
  intros H1 H2. exists (ord_cmp (vden a) (vden b)). split; [apply cmp_agrees, H1|].
  rewrite (cmp_agrees _ _ H2). f_equal. apply (cl_antisym _ ord_cmp_laws).
Qed.

Theorem cmp_trans_on a b c :
  pair_ok a b = true -> pair_ok b c = true -> pair_ok a c = true ->
  cmp_le a b -> cmp_le b c -> cmp_le a c.
Proof.
  intros H1 H2 H3 (c1 & E1 & N1) (c2 & E2 & N2).
  rewrite (cmp_agrees _ _ H1) in E1. rewrite (cmp_agrees _ _ H2) in E2.
  injection E1 as <-. injection E2 as <-.
  exists (ord_cmp (vden a) (vden c)). split; [apply cmp_agrees, H3|].
  eapply (cl_not_gt_trans _ ord_cmp_laws); eassumption.
Qed.

Theorem cmp_total_on a b :
  pair_ok a b = true -> pair_ok b a = true -> cmp_le a b \/ cmp_le b a.
Proof.
  intros H1 H2. destruct (ord_cmp (vden a) (vden b)) eqn:E.
  - left. exists Eq. split; [rewrite <- E; apply cmp_agrees, H1 | discriminate].
  - left. exists Lt. split; [rewrite <- E; apply cmp_agrees, H1 | discriminate].
  - right. exists Lt. split; [|discriminate].
    rewrite (cmp_agrees _ _ H2). f_equal.
    rewrite (cl_antisym _ ord_cmp_laws (vden a) (vden b)), E. reflexivity.
Qed.

(* ================================================================== *)
(* 6. the operators < <= > >= and min / max                            *)
(* ================================================================== *)
Lemma int_op_spec (oe gr : bool) (x y : Z) :
  (if oe && (x =? y) then true else if gr then y <? x else x <? y) = op_spec oe gr (x ?= y).
Proof.
  destruct (Z.compare_spec x y) as [->|Hlt|Hgt]; cbn [op_spec].
  - rewrite Z.eqb_refl, Z.ltb_irrefl. destruct oe, gr; reflexivity.
  - assert (x =? y = false) as -> by (apply Z.eqb_neq; lia).
    assert (x <? y = true) as -> by (apply Z.ltb_lt; lia).
    assert (y <? x = false) as -> by (apply Z.ltb_ge; lia).
    rewrite andb_false_r. destruct gr; reflexivity.
  - assert (x =? y = false) as -> by (apply Z.eqb_neq; lia).
    assert (x <? y = false) as -> by (apply Z.ltb_ge; lia).
    assert (y <? x = true) as -> by (apply Z.ltb_lt; lia).
    rewrite andb_false_r. destruct gr; reflexivity.
Qed.

Lemma f_op_spec (oe gr : bool) (x y : fval) : x <> FNaN -> y <> FNaN ->
  (if oe && f_eq x y then true else if gr then f_lt y x else f_lt x y) = op_spec oe gr (xnum_cmp (xnum_of x) (xnum_of y)).
Proof.
  intros Hx Hy. destruct x as [|n1|p], y as [|n2|q]; try congruence; cbn [f_eq f_lt xnum_of].
  - destruct n1, n2, oe, gr; reflexivity.
  - destruct n1, oe, gr; reflexivity.
  - destruct n2, oe, gr; reflexivity.
  - cbn [xnum_cmp]. rewrite int_op_spec, Qcompare_fx. reflexivity.
Qed.

Lemma same_outcome_inv (x y : outcome fval) : same_outcome x y = true -> x = y.
Proof.
  destruct x as [[|m|p]| | |], y as [[|n|q]| | |]; cbn [same_outcome]; intros H; try discriminate.
  - apply Bool.eqb_prop in H. subst. reflexivity.
  - apply Z.eqb_eq in H. subst. reflexivity.
Qed.

Theorem ops_agree oe gr a b :
  ops_ok a b = true ->
  compare_scalars oe gr a b = Ok (op_spec oe gr (ord_cmp (vden a) (vden b))).
Proof.
  destruct a as [ta xa], b as [tb xb]. unfold ops_ok.
  intros H. apply andb_true_iff in H as [H H3]. apply andb_true_iff in H as [H Hfb].
  apply andb_true_iff in H as [H Hfa]. apply andb_true_iff in H as [H1 H2].
  unfold compare_scalars, float_or_err, vden. cbn [s_tag s_text] in *.
  destruct (den (mk ta xa)) as [va|] eqn:Ea; [|discriminate].
  destruct (den (mk tb xb)) as [vb|] eqn:Eb; [|discriminate].
  unfold ops_float_ok in Hfa, Hfb. cbn [s_tag s_text] in Hfa, Hfb.
  destruct ta, tb; try discriminate; inv_den; cbn [ord_cmp bind].
  - (* null, null *) destruct oe; reflexivity.
  - (* int, int *)
    match goal with Pa : parse_int64 xa = Some _, Pb : parse_int64 xb = Some _ |- _ => rewrite Pa, Pb end.
    rewrite int_op_spec. cbn [xnum_cmp]. rewrite Qcompare_inject. reflexivity.
  - (* int, float *)
    apply int_reads_exact_inv in H3 as (z' & Hz & Hf). apply same_outcome_inv in Hfb.
    match goal with Pa : parse_int64 xa = Some _, Pb : sortable_float (mk TFloat xb) = Ok ?f, Nb : ?f <> FNaN |- _ =>
      rewrite Pa in Hz; injection Hz as <-; rewrite Hf, Hfb, Pb; cbn [bind];
      rewrite (f_op_spec oe gr (FFin _) f ltac:(discriminate) Nb);
      destruct f as [|n|q]; [congruence | destruct n; reflexivity |] end.
    cbn [xnum_of xnum_cmp]. rewrite Qcompare_fx, Qcompare_int_scaled_gen. reflexivity.
  - (* float, int *)
    apply int_reads_exact_inv in H3 as (z' & Hz & Hf). apply same_outcome_inv in Hfa.
    match goal with Pb : parse_int64 xb = Some _, Pa : sortable_float (mk TFloat xa) = Ok ?f, Na : ?f <> FNaN |- _ =>
      rewrite Pb in Hz; injection Hz as <-; rewrite Hf, Hfa, Pa; cbn [bind];
      rewrite (f_op_spec oe gr f (FFin _) Na ltac:(discriminate));
      destruct f as [|n|q]; [congruence | destruct n; reflexivity |] end.
    cbn [xnum_of xnum_cmp]. rewrite Qcompare_fx, Qcompare_scaled_int_gen. reflexivity.
  - (* float, float *)
    apply same_outcome_inv in Hfa, Hfb.
    match goal with Pa : sortable_float (mk TFloat xa) = Ok ?f, Na : ?f <> FNaN,
                    Pb : sortable_float (mk TFloat xb) = Ok ?g, Nb : ?g <> FNaN |- _ =>
      rewrite Hfa, Hfb, Pa, Pb; cbn [bind]; rewrite (f_op_spec oe gr _ _ Na Nb) end.
    reflexivity.
  - (* str, str *)
    apply negb_true_iff in H3. rewrite H3, str_cmp_lex. reflexivity.
Qed.

Lemma sup_cmp_laws greater : cmp_laws (sup_cmp greater).
Proof.
  unfold sup_cmp. destruct greater.
  - apply (cl_flip (fun x y => ord_cmp (vden x) (vden y))). apply (pullback_laws ord_cmp vden ord_cmp_laws).
  - apply (pullback_laws ord_cmp vden ord_cmp_laws).
Qed.

Lemma superl_step greater el best :
  ops_ok el best = true ->
  compare_scalars false greater el best = Ok (is_lt (sup_cmp greater el best)).
Proof.
  intros H. rewrite (ops_agree _ _ _ _ H). f_equal. unfold sup_cmp.
  destruct greater.
  - rewrite (cl_antisym _ ord_cmp_laws (vden el) (vden best)).
    destruct (ord_cmp (vden el) (vden best)); reflexivity.
  - destruct (ord_cmp (vden el) (vden best)); reflexivity.
Qed.

Lemma superl_go_spec greater rest : forall best m,
  (forall x y, In x (best :: rest) -> In y (best :: rest) -> ops_ok (fst x) (fst y) = true) ->
  superl_go greater best rest = Ok m ->
  In m (best :: rest) /\ sup_cmp greater (fst m) (fst best) <> Gt /\
  forall x, In x rest -> sup_cmp greater (fst m) (fst x) <> Gt.
Proof.
  pose proof (sup_cmp_laws greater) as L.
  induction rest as [|el r IH]; intros best m Hok H; cbn [superl_go] in H.
  - injection H as <-. split; [left; reflexivity|]. split; [|intros x []].
    rewrite (cl_refl _ L). discriminate.
  - rewrite superl_step in H by (apply Hok; [right; left; reflexivity | left; reflexivity]).
    cbn [bind] in H.
    destruct (is_lt (sup_cmp greater (fst el) (fst best))) eqn:Eb.
    + apply IH in H as (Hin & Hle & Hall).
      2:{ intros x y Hx Hy. apply Hok; [destruct Hx as [<-|Hx] | destruct Hy as [<-|Hy]];
          try (right; left; reflexivity); right; right; assumption. }
      assert (Hel : sup_cmp greater (fst el) (fst best) <> Gt).
      { destruct (sup_cmp greater (fst el) (fst best)); discriminate. }
      split; [destruct Hin as [<-|Hin]; [right; left; reflexivity | right; right; exact Hin]|].
      split; [eapply (cl_not_gt_trans _ L); eassumption|].
      intros x [<-|Hx]; [exact Hle | apply Hall, Hx].
    + apply IH in H as (Hin & Hle & Hall).
      2:{ intros x y Hx Hy. apply Hok; [destruct Hx as [<-|Hx] | destruct Hy as [<-|Hy]];
          try (left; reflexivity); right; right; assumption. }
      assert (Hbe : sup_cmp greater (fst best) (fst el) <> Gt).
      { intro E. apply (cl_gt_lt _ L) in E. rewrite E in Eb. discriminate. }
      split; [destruct Hin as [<-|Hin]; [left; reflexivity | right; right; exact Hin]|].
      split; [exact Hle|].
      intros x [<-|Hx]; [eapply (cl_not_gt_trans _ L); eassumption | apply Hall, Hx].
Qed.

Theorem superlative_spec greater l m :
  (forall x y, In x l -> In y l -> ops_ok (fst x) (fst y) = true) ->
  superlative greater l = Ok (Some m) ->
  In m l /\ forall x, In x l -> sup_cmp greater (fst m) (fst x) <> Gt.
Proof.
  intros Hok H. destruct l as [|b r]; cbn [superlative] in H; [discriminate|].
  destruct (superl_go greater b r) as [m'| | |] eqn:E; cbn [bind] in H; try discriminate.
  injection H as <-. apply superl_go_spec in E as (Hin & Hle & Hall); [|exact Hok].
  split; [exact Hin|]. intros x [<-|Hx]; [exact Hle | apply Hall, Hx].
Qed.

Theorem superlative_defined greater l :
  (forall x y, In x l -> In y l -> ops_ok (fst x) (fst y) = true) ->
  l <> [] -> exists m, superlative greater l = Ok (Some m).
Proof.
  intros Hok Hne. destruct l as [|b r]; [congruence|]. cbn [superlative].
  assert (exists m, superl_go greater b r = Ok m) as (m & ->); [|eexists; reflexivity].
  clear Hne. revert b Hok. induction r as [|el r IH]; intros b Hok; cbn [superl_go]; [eexists; reflexivity|].
  rewrite superl_step by (apply Hok; [right; left; reflexivity | left; reflexivity]). cbn [bind].
  apply IH. intros x y Hx Hy.
  apply Hok; [destruct Hx as [<-|Hx] | destruct Hy as [<-|Hy]];
    try (destruct (is_lt _); [right; left; reflexivity | left; reflexivity]); right; right; assumption.
Qed.

(* ================================================================== *)
(* 7. sort_keys                                                        *)
(* ================================================================== *)
Lemma str_cmp_laws : cmp_laws str_cmp.
Proof.
  pose proof (lex_laws N.compare N_compare_laws) as L.
  constructor.
  - intros x y. rewrite !str_cmp_lex. apply (cl_antisym _ L).
  - intros x y z. rewrite !str_cmp_lex. apply (cl_trans_lt _ L).
  - intros x y H z. rewrite !str_cmp_lex in *. apply (cl_eq_congr _ L), H.
Qed.

Lemma str_ltb_asym a b : str_ltb a b = true -> str_ltb b a = false.
Proof. apply (cl_ltb_asym _ str_cmp_laws). Qed.

Lemma str_ltb_nt a b c : str_ltb a b = false -> str_ltb b c = false -> str_ltb a c = false.
Proof. apply (cl_ltb_nt _ str_cmp_laws). Qed.

Section Lookup.
  Context {V : Type}.
  Implicit Types (es : list (str * V)) (k : str).

  Lemma lookup_none k es : ~ In k (map fst es) -> lookup k es = None.
  Proof.
    induction es as [|[k' v] r IH]; intros H; cbn [lookup]; [reflexivity|].
    destruct (str_eqb k k') eqn:E.
    - apply str_eqb_eq in E. subst. exfalso. apply H. left. reflexivity.
    - apply IH. intro Hin. apply H. right. exact Hin.
  Qed.

  Lemma lookup_in k es : In k (map fst es) -> exists v, lookup k es = Some v.
  Proof.
    induction es as [|[k' v] r IH]; intros H; cbn [lookup]; [destruct H|].
    destruct (str_eqb k k') eqn:E; [eexists; reflexivity|].
    destruct H as [H|H]; [cbn in H; subst; rewrite str_eqb_refl in E; discriminate | apply IH, H].
  Qed.

  Lemma bucket_last_lookup k es : NoDup (map fst es) -> forall acc,
    bucket_last k es acc = match lookup k es with Some v => Some v | None => acc end.
  Proof.
    induction es as [|[k' v] r IH]; intros HN acc; cbn [bucket_last lookup]; [reflexivity|].
    cbn [map fst] in HN. inversion HN as [|? ? Hnotin HN']; subst.
    rewrite IH by exact HN'.
    destruct (str_eqb k k') eqn:E; [|reflexivity].
    apply str_eqb_eq in E. subst. rewrite (lookup_none _ _ Hnotin). reflexivity.
  Qed.

  Definition entry_of (es : list (str * V)) (k : str) : list (str * V) :=
    match bucket_last k es None with Some v => [(k, v)] | None => [] end.

  Lemma lookup_flat_map k es ks : NoDup (map fst es) ->
    lookup k (flat_map (entry_of es) ks) = if existsb (str_eqb k) ks then lookup k es else None.
  Proof.
    intros HN. induction ks as [|k1 ks IH]; cbn [flat_map existsb]; [reflexivity|].
    unfold entry_of at 1. rewrite (bucket_last_lookup _ _ HN).
    destruct (str_eqb k k1) eqn:E; cbn [orb].
    - apply str_eqb_eq in E. subst k1.
      destruct (lookup k es) as [v|] eqn:El; cbn [app lookup].
      + rewrite str_eqb_refl. reflexivity.
      + rewrite IH. destruct (existsb (str_eqb k) ks); reflexivity.
    - destruct (lookup k1 es) as [v|]; cbn [app lookup]; [rewrite E|]; exact IH.
  Qed.

  Lemma existsb_str_in k ks : existsb (str_eqb k) ks = true <-> In k ks.
  Proof.
    rewrite existsb_exists. split.
    - intros (x & Hx & E). apply str_eqb_eq in E. subst. exact Hx.
    - intros H. exists k. split; [exact H | apply str_eqb_refl].
  Qed.

  Lemma sort_keys_entries_unfold es :
    sort_keys_entries es = flat_map (entry_of es) (psort str_ltb (map fst es)).
  Proof. reflexivity. Qed.

  Lemma lookup_sort_keys k es : NoDup (map fst es) -> lookup k (sort_keys_entries es) = lookup k es.
  Proof.
    intros HN. rewrite sort_keys_entries_unfold, lookup_flat_map by exact HN.
    destruct (existsb (str_eqb k) (psort str_ltb (map fst es))) eqn:E; [reflexivity|].
    symmetry. apply lookup_none. intro Hin.
    assert (existsb (str_eqb k) (psort str_ltb (map fst es)) = true); [|congruence].
    apply existsb_str_in. eapply Permutation_in; [apply psort_perm | exact Hin].
  Qed.

  Lemma keys_flat_map es ks : NoDup (map fst es) -> (forall k, In k ks -> In k (map fst es)) ->
    map fst (flat_map (entry_of es) ks) = ks.
  Proof.
    intros HN. induction ks as [|k1 ks IH]; intros H; cbn [flat_map]; [reflexivity|].
    rewrite map_app, IH by (intros k Hk; apply H; right; exact Hk).
    unfold entry_of. rewrite (bucket_last_lookup _ _ HN).
    destruct (lookup_in k1 es (H k1 (or_introl eq_refl))) as (v & ->). reflexivity.
  Qed.

  Lemma keys_sort_keys es : NoDup (map fst es) ->
    map fst (sort_keys_entries es) = psort str_ltb (map fst es).
  Proof.
    intros HN. rewrite sort_keys_entries_unfold. apply keys_flat_map; [exact HN|].
    intros k Hk. eapply Permutation_in; [apply Permutation_sym, psort_perm | exact Hk].
  Qed.
End Lookup.

Lemma lookup_map_snd {V W : Type} (f : V -> W) k (es : list (str * V)) :
  lookup k (map (fun kv => (fst kv, f (snd kv))) es) = option_map f (lookup k es).
Proof.
  induction es as [|[k' v] r IH]; cbn [map lookup fst snd]; [reflexivity|].
  destruct (str_eqb k k'); [reflexivity | exact IH].
Qed.

Lemma keys_map_snd {V W : Type} (f : V -> W) (es : list (str * V)) :
  map fst (map (fun kv => (fst kv, f (snd kv))) es) = map fst es.
Proof. rewrite map_map. apply map_ext. reflexivity. Qed.

Lemma unique_keys_here es : unique_keys (TMap es) -> NoDup (map fst es).
Proof. intros H. apply (H []). reflexivity. Qed.

Lemma unique_keys_key k es v : unique_keys (TMap es) -> lookup k es = Some v -> unique_keys v.
Proof. intros H Hl p es' Hg. apply (H (SKey k :: p)). cbn [get]. rewrite Hl. exact Hg. Qed.

Lemma unique_keys_idx n l v : unique_keys (TSeq l) -> nth_error l n = Some v -> unique_keys v.
Proof. intros H Hl p es' Hg. apply (H (SIdx n :: p)). cbn [get]. rewrite Hl. exact Hg. Qed.

Lemma sort_keys_rec_map es :
  sort_keys_rec (TMap es) = TMap (sort_keys_entries (map (fun kv => (fst kv, sort_keys_rec (snd kv))) es)).
Proof. reflexivity. Qed.

Lemma sort_keys_rec_seq l : sort_keys_rec (TSeq l) = TSeq (map sort_keys_rec l).
Proof. reflexivity. Qed.

Theorem sort_keys_values_kept p : forall t,
  unique_keys t -> get p (sort_keys_rec t) = option_map sort_keys_rec (get p t).
Proof.
  induction p as [|s p IH]; intros t HU; [reflexivity|].
  destruct s as [k|n]; destruct t as [x|l|es]; try reflexivity.
  - rewrite sort_keys_rec_map. cbn [get].
    rewrite lookup_sort_keys by (rewrite keys_map_snd; apply unique_keys_here, HU).
    rewrite lookup_map_snd. destruct (lookup k es) as [v|] eqn:El; cbn [option_map]; [|reflexivity].
    apply IH. eapply unique_keys_key; eassumption.
  - rewrite sort_keys_rec_seq. cbn [get]. rewrite nth_error_map.
    destruct (nth_error l n) as [v|] eqn:El; cbn [option_map]; [|reflexivity].
    apply IH. eapply unique_keys_idx; eassumption.
Qed.

Definition str_le (a b : str) : Prop := str_cmp a b <> Gt.

Lemma sorted_keys_of_map es : NoDup (map fst es) ->
  StronglySorted str_le (map fst (sort_keys_entries (map (fun kv => (fst kv, sort_keys_rec (snd kv))) es))).
Proof.
  intros HN. rewrite keys_sort_keys by (rewrite keys_map_snd; exact HN).
  eapply StronglySorted_weaken; [|apply (psort_sorted str_ltb str_ltb_asym str_ltb_nt)].
  intros a b H. unfold asc, str_ltb in H. unfold str_le.
  rewrite (cl_antisym _ str_cmp_laws a b) in H. destruct (str_cmp a b); cbn in H; congruence.
Qed.

Theorem sort_keys_sorted p t es :
  unique_keys t -> get p (sort_keys_rec t) = Some (TMap es) -> StronglySorted str_le (map fst es).
Proof.
  intros HU H. rewrite sort_keys_values_kept in H by exact HU.
  destruct (get p t) as [t0|] eqn:E; cbn [option_map] in H; [|discriminate].
  destruct t0 as [x|l|es0]; try discriminate.
  rewrite sort_keys_rec_map in H. injection H as <-.
  apply sorted_keys_of_map. apply (HU p). exact E.
Qed.

Theorem sort_keys_same_keys p t es0 :
  unique_keys t -> get p t = Some (TMap es0) ->
  exists es, get p (sort_keys_rec t) = Some (TMap es) /\ Permutation (map fst es0) (map fst es).
Proof.
  intros HU H. rewrite sort_keys_values_kept by exact HU. rewrite H. cbn [option_map].
  rewrite sort_keys_rec_map. eexists. split; [reflexivity|].
  rewrite keys_sort_keys by (rewrite keys_map_snd; apply (HU p), H).
  rewrite keys_map_snd. apply psort_perm.
Qed.

Lemma consistentb_sound l : consistentb l = true -> consistent l.
Proof.
  unfold consistentb, consistent, all_keys. intros H a b Ha Hb x y Hx Hy.
  rewrite forallb_forall in H.
  assert (Hxa : In x (flat_map e_keys l)) by (apply in_flat_map; exists a; split; assumption).
  assert (Hyb : In y (flat_map e_keys l)) by (apply in_flat_map; exists b; split; assumption).
  specialize (H x Hxa). rewrite forallb_forall in H. apply H, Hyb.
Qed.

(* the repaired comparator has no panic branch left *)
Theorem cmp_no_panic a b : cmp a b <> Panic.
Proof.
  unfold cmp, cmp_numbers. destruct (s_tag a), (s_tag b); try discriminate;
    repeat match goal with
    | |- context [match ?e with _ => _ end] => destruct e; try discriminate
    end.
Qed.

(* any function that returns an ordered, stable permutation - Go's sort.Stable with its insertion
   blocks and symMerge is one, for every length - computes what the model computes on D *)
Theorem any_stable_sort_agrees (f : list elem -> list elem) :
  (forall l, Permutation l (f l) /\ StronglySorted elem_le (f l) /\ forall z, filter (elem_eqb z) (f l) = filter (elem_eqb z) l) ->
  forall l, consistent l -> sort_by l = Ok (f l).
Proof. intros H l HC. destruct (H l) as (P & S & F). apply sort_by_unique; assumption. Qed.
