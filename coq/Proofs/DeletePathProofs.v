(* Proofs/DeletePathProofs.v — C03: on the evaluator model, `del(p)` for any existing simple path p (keys and
   index literals mixed, any length) removes exactly the child it names from its parent container and leaves
   every other position of the document alone.  Ties EDel through the evaluator (selection evaluated read-only,
   victims de-duplicated, del_loop) to the removal functions characterised in Proofs/DeleteProofs.v. *)
From Coq Require Import Arith ZArith Lia List.
From YQ Require Import Base.Str Model.Node Model.Store Model.Eval Spec.Lens Proofs.LensProofs Proofs.AssignProofs
  Proofs.AssignPathProofs Proofs.DeleteProofs.
Import ListNotations.

Lemma resolvep_get p : forall n pos, resolvep p n = Some pos -> exists c, get_at n pos = Some c.
Proof.
  induction p as [|s r IH]; intros n pos H; cbn [resolvep] in H.
  - injection H as <-. exists n. reflexivity.
  - destruct (res1 s n) as [[i c]|] eqn:Es; [|discriminate].
    destruct (resolvep r c) as [pos'|] eqn:Er; [|discriminate]. cbn [option_map] in H.
    assert (Hp : pos = i :: pos') by congruence. subst pos.
    destruct (IH _ _ Er) as [c' Hc']. exists c'.
    pose proof (res1_child _ _ _ _ Es) as Hg. cbn [get_at] in Hg |- *.
    destruct (nth_error (children n) i) as [c0|]; [|discriminate]. injection Hg as ->. exact Hc'.
Qed.

Lemma resolvep_nonempty p n pos : p <> [] -> resolvep p n = Some pos -> pos <> [].
Proof.
  destruct p as [|s r]; [contradiction|]. intros _ H. cbn [resolvep] in H.
  destruct (res1 s n) as [[i c]|]; [|discriminate]. destruct (resolvep r c); [|discriminate].
  cbn in H. injection H as <-. discriminate.
Qed.

Lemma shift_ptrs_root_eq r q removed : shift_ptrs (r, q) removed [(O, @nil nat)] = [(O, [])].
Proof.
  cbn [shift_ptrs]. unfold shift_ptr. cbn [fst snd].
  destruct (Nat.eqb r 0); cbn [negb]; [|reflexivity].
  destruct q as [|x q]; cbn [strip_prefix]; reflexivity.
Qed.

(* the document after `del(p)`: the parent container at [removelast pos] with child [last pos] removed *)
Definition removed_child (par : node) (i : nat) : option node :=
  match par with
  | Seq items => if Nat.ltb i (length items) then Some (Seq (remove_item items i O 0)) else None
  | Map es => match nth_error es i with Some (k, _) => Some (Map (remove_entries es k)) | None => None end
  | Scalar _ _ => None
  end.

Theorem del_path_exact p doc f pos :
  p <> [] -> Forall step_ok p -> (length p + 2 <= f)%nat ->
  resolvep p doc = Some pos ->
  exists par par' st',
    get_at doc (removelast pos) = Some par /\ removed_child par (last pos O) = Some par' /\
    eval (S f) (EDel (pe p)) false [] [(O, [])] (init_store doc) = Ok ([(O, [])], st') /\
    deref st' (O, []) = Some (upd_at doc (removelast pos) (fun _ => par')).
Proof.
  intros Hne Hok Hfuel Hr.
  assert (Hd0 : deref (init_store doc) (O, []) = Some doc) by reflexivity.
  destruct (eval_pe_ro p f [] O [] (init_store doc) doc pos Hne Hok Hfuel Hd0 Hr) as [g Hg].
  pose proof (resolvep_nonempty _ _ _ Hne Hr) as Hpne.
  destruct (resolvep_get _ _ _ Hr) as [c Hc].
  assert (Hsplit : pos = removelast pos ++ [last pos O]) by (apply app_removelast_last; exact Hpne).
  set (q := removelast pos) in *. set (i := last pos O) in *.
  rewrite Hsplit in Hc. rewrite get_at_app in Hc.
  destruct (get_at doc q) as [par|] eqn:Hpar; [|discriminate].
  assert (Hdq : deref (init_store doc ++ g) (O, q) = Some par).
  { apply deref_app_l. unfold deref. cbn [fst snd init_store nth_error r_body fresh_root]. exact Hpar. }
  assert (Hfin : forall par', 
            del_loop 1 [(O, q ++ [i])] [(O, [])] (init_store doc ++ g)
            = Ok ([(O, [])], update (init_store doc ++ g) (O, q) (fun _ => par')) ->
            removed_child par i = Some par' ->
            exists par0 par1 st',
              Some par = Some par0 /\ removed_child par0 i = Some par1 /\
              eval (S f) (EDel (pe p)) false [] [(O, [])] (init_store doc) = Ok ([(O, [])], st') /\
              deref st' (O, []) = Some (upd_at doc q (fun _ => par1))).
  { intros par' Hdl Hrc. exists par, par'. eexists. split; [reflexivity|]. split; [exact Hrc|].
    cbn [eval].
    match goal with
    | |- context [eval f (pe p) true ?a ?b ?c] =>
        replace (eval f (pe p) true a b c) with (@Ok out ([(O, [] ++ pos)], init_store doc ++ g)) by (symmetry; exact Hg)
    end.
    cbn [bind fst snd app rev dedupe_ptrs existsb length].
    rewrite Hsplit. split; [exact Hdl|].
    rewrite update_app_l by (cbn; lia).
    cbn [app update upd_nth fst snd deref nth_error r_body r_parent r_key get_at init_store fresh_root]. reflexivity. }
  destruct par as [t v|items|es].
  - cbn [get_at children] in Hc. destruct i; discriminate.
  - cbn [get_at children] in Hc. rewrite nth_error_map in Hc.
    destruct (nth_error items i) as [[k c0]|] eqn:En; [|discriminate].
    assert (Hi : (i < length items)%nat) by (apply nth_error_Some; congruence).
    apply (Hfin (Seq (remove_item items i O 0))).
    + rewrite (del_loop_one_seq 0 O q i _ items [(O, [])] Hdq Hi). rewrite shift_ptrs_root_eq. reflexivity.
    + cbn [removed_child]. replace (Nat.ltb i (length items)) with true by (symmetry; apply Nat.ltb_lt; exact Hi). reflexivity.
  - cbn [get_at children] in Hc. rewrite nth_error_map in Hc.
    destruct (nth_error es i) as [[k c0]|] eqn:En; [|discriminate].
    apply (Hfin (Map (remove_entries es k))).
    + rewrite (del_loop_one_map 0 O q i _ es k c0 [(O, [])] Hdq En). rewrite shift_ptrs_root_eq. reflexivity.
    + cbn [removed_child]. rewrite En. reflexivity.
Qed.

(* non-vacuity: del(.a[1].b) on {"a": [0, {"b": 1, "c": 2}]} *)
Example del_path_example :
  let doc := Map [([97], Seq [(RIdx 0, Scalar TInt [48]); (RIdx 1, Map [([98], Scalar TInt [49]); ([99], Scalar TInt [50])])])] in
  let p := [EK [97]; EI [49] 1; EK [98]] in
  Forall step_ok p /\ resolvep p doc = Some [0; 1; 0]%nat /\
  run (EDel (pe p)) doc
  = tag_ok ++ ser_node (Map [([97], Seq [(RIdx 0, Scalar TInt [48]); (RIdx 1, Map [([99], Scalar TInt [50])])])]) ++ [10].
Proof.
  split; [|split].
  - repeat constructor; vm_compute; try reflexivity; discriminate.
  - vm_compute. reflexivity.
  - vm_compute. reflexivity.
Qed.

(* ---------- a multi-match selection through the evaluator: del(.[]) empties a sequence ---------- *)
Lemma dedupe_distinct : forall idxs seen,
  NoDup idxs -> (forall i, In i idxs -> existsb (ptr_eqb (O, [i])) seen = false) ->
  dedupe_ptrs (List.map (fun i => (O, [i])) idxs) seen = List.map (fun i => (O, [i])) idxs.
Proof.
  induction idxs as [|i idxs IH]; intros seen Hnd Hs; [reflexivity|].
  cbn [List.map dedupe_ptrs]. rewrite (Hs i (or_introl eq_refl)). f_equal.
  inversion Hnd as [|? ? Hni Hnd']; subst. apply IH; [exact Hnd'|].
  intros j Hj. cbn [existsb]. rewrite (Hs j (or_intror Hj)). rewrite orb_false_r.
  unfold ptr_eqb. cbn [fst snd ptr_eqb_path Nat.eqb andb]. rewrite andb_true_r.
  apply Nat.eqb_neq. intro; subst; contradiction.
Qed.

Lemma keep_none {A} ps : forall (l : list A) i,
  (forall j, (i <= j < i + length l)%nat -> existsb (Nat.eqb j) ps = true) -> keep_not_in ps l i = [].
Proof.
  induction l as [|x l IH]; intros i H; cbn [keep_not_in]; [reflexivity|].
  rewrite (H i) by (cbn [length]; lia). apply IH. intros j Hj. apply H. cbn [length]. lia.
Qed.

Theorem del_splat_empties items f :
  (2 <= f)%nat ->
  exists cx' st',
    eval (S f) (EDel (EIndex ESelf None)) false [] [(O, [])] (init_store (Seq items)) = Ok (cx', st')
    /\ deref st' (O, []) = Some (Seq []).
Proof.
  intros Hf. cbn [eval].
  assert (Hd0 : deref (init_store (Seq items)) (O, []) = Some (Seq items)) by reflexivity.
  destruct (eval_splat f true [] (O, []) (init_store (Seq items)) (Seq items) Hf Hd0 I) as [g Hg].
  match goal with
  | |- context [eval f (EIndex ESelf None) true ?a ?b ?c] =>
      replace (eval f (EIndex ESelf None) true a b c)
        with (@Ok out (child_ptrs (O, []) (Seq items), init_store (Seq items) ++ g)) by (symmetry; exact Hg)
  end.
  cbn [bind fst snd].
  set (n := length items).
  assert (Hptrs : child_ptrs (O, []) (Seq items) = List.map (fun i => (O, [i])) (seq 0 n)).
  { unfold child_ptrs, n. cbn [children fst snd app]. rewrite map_length. reflexivity. }
  rewrite Hptrs, <- map_rev.
  assert (Hnd : NoDup (rev (seq 0 n))) by (apply NoDup_rev, seq_NoDup).
  rewrite (dedupe_distinct (rev (seq 0 n)) [] Hnd) by (intros; reflexivity).
  rewrite map_length.
  assert (Hdg : deref (init_store (Seq items) ++ g) (O, []) = Some (Seq items)) by reflexivity.
  assert (Hb : Forall (fun p => (p < length items)%nat) (rev (seq 0 n))).
  { apply Forall_forall. intros p Hp. apply in_rev, in_seq in Hp. unfold n in Hp. lia. }
  destruct (del_loop_any O [] (rev (seq 0 n)) items (init_store (Seq items) ++ g) [(O, [])] (length (rev (seq 0 n)))
              Hdg Hnd Hb (le_n _)) as (cx' & items' & He & Hv).
  cbn [app] in He. exists cx'. eexists. split; [exact He|].
  assert (Hnil : items' = []).
  { apply map_eq_nil with (f := snd). rewrite Hv. apply keep_none. intros j Hj. rewrite map_length in Hj.
    apply existsb_exists. exists j. split; [|apply Nat.eqb_refl]. apply -> in_rev. apply in_seq. unfold n. lia. }
  subst items'. reflexivity.
Qed.
