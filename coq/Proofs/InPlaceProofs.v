(* Proofs/InPlaceProofs.v -- lemmas about Model/InPlace.v.
   Everything is for all old files, all plans (= all expression/content pairs
   as seen by the protocol) and all schedules; the proofs are by case analysis
   over the schedule in protocol order and induction over the plan's chunks. *)
From Coq Require Import List NArith Bool Arith Lia.
From YQ Require Import Base.Str Model.InPlace Spec.FsSpec.
Import ListNotations.

Definition tgt (s : st) := fs_target (s_fs s).
Definition tmp (s : st) := fs_temp (s_fs s).

(* which of the three possible situations the target is in *)
Inductive phase := PhOld | PhRenamed | PhCopy (n : nat).

Definition in_phase (old : file) (newb : bytes) (ph : phase) (s : st) : Prop :=
  match ph with
  | PhOld => tgt s = Some old /\ ~ In ORename (s_trace s) /\ ~ In OCreateDst (s_trace s)
  | PhRenamed => tgt s = Some (mkFile newb (f_mode old)) /\ In ORename (s_trace s)
                 /\ ~ In OCreateDst (s_trace s) /\ tmp s = None
  | PhCopy n => tgt s = Some (mkFile (firstn n newb) (f_mode old)) /\ ~ In ORename (s_trace s)
                /\ In OCreateDst (s_trace s)
  end.

Definition Old (old : file) (s : st) : Prop :=
  tgt s = Some old /\ ~ In ORename (s_trace s) /\ ~ In OCreateDst (s_trace s).

(* before the commit point, temp holds t with mode m and nothing is buffered *)
Definition PreS (old : file) (m : N) (t : bytes) (s : st) : Prop :=
  Old old s /\ tmp s = Some (mkFile t m) /\ s_buf s = [].

Definition is_fail (a : action) : Prop := exists n, a = Fail n.
Definition rename_fails (cross : bool) (sch : schedule) : Prop := cross = true \/ is_fail (sch ORename).

Definition res_fail_all {A} (P : st -> Prop) (r : res A) : Prop :=
  match r with Ret _ _ => True | Err s | Dead s | Pan s => P s end.

Ltac clean_tac := cbn [In]; intuition (try discriminate).
Ltac old_tac := unfold Old, tgt, tmp; cbn; repeat split; try reflexivity; try assumption; try clean_tac.

Ltac destr_st s :=
  let tg := fresh "tg" in let tp := fresh "tp" in let bf := fresh "bf" in
  let ax := fresh "ax" in let tr := fresh "tr" in
  destruct s as [[tg tp] bf ax tr].

(* ------------------------------------------------------------------ *)
Lemma firstn_all_app {A} (l : list A) : firstn (length l) l = l.
Proof. apply firstn_all. Qed.

Lemma skipn_all_nil {A} (l : list A) : skipn (length l) l = [].
Proof. apply skipn_all. Qed.

(* ------------------------------------------------------------------ *)
(* CreateTempFile *)
Lemma cleanup_spec sch old s :
  Old old s ->
  match cleanup_temp sch s with
  | Ret _ s' | Err s' | Dead s' => Old old s'
  | Pan _ => False
  end.
Proof.
  intros (Ht & Hr & Hc). destr_st s. unfold tgt in *. cbn in Ht, Hr, Hc. subst tg.
  unfold cleanup_temp, seq, bind, ignore_err, atomic_op, noeff, remove_temp_eff, log, set_temp, with_fs.
  cbn.
  destruct (sch OCloseTemp); cbn; try solve [old_tac].
  all: destruct (sch ORemoveDiscard); cbn; try solve [old_tac].
Qed.

Lemma prepare_temp_spec sch old ax tr :
  ~ In ORename tr -> ~ In OCreateDst tr ->
  match prepare_temp sch (mkSt (mkFs (Some old) (Some (mkFile [] default_temp_mode))) [] ax tr) with
  | Ret _ s => PreS old (f_mode old) [] s /\ s_appx s = ax
  | Err s | Dead s => Old old s
  | Pan _ => False
  end.
Proof.
  intros Hr Hc.
  unfold prepare_temp, seq, bind, hook, ignore_err, atomic_op, noeff, log, set_temp, with_fs.
  cbn.
  destruct (sch HStatTarget); cbn; try solve [old_tac].
  destruct (sch OStat); cbn; try solve [old_tac].
  destruct (sch HChownTemp); cbn; try solve [old_tac].
  all: destruct (sch OChown); cbn; try solve [old_tac].
  all: destruct (sch HChmodTemp); cbn; try solve [old_tac].
  all: destruct (sch OChmod); cbn; try solve [old_tac];
    (split; [unfold PreS; split; [old_tac | split; reflexivity] | reflexivity]).
Qed.

Lemma create_temp_spec sch old ax :
  let s0 := mkSt (mkFs (Some old) None) [] ax [] in
  match CreateTempFile sch s0 with
  | Ret _ s => PreS old (f_mode old) [] s /\ s_appx s = ax
  | Err s | Dead s => Old old s
  | Pan _ => False
  end.
Proof.
  cbv zeta. unfold CreateTempFile. unfold seq at 1. unfold bind at 1. unfold hook at 1. cbn.
  destruct (sch HCreateTemp); cbn; try solve [old_tac].
  unfold seq at 1. unfold bind at 1. unfold atomic_op at 1. cbn.
  destruct (sch OMkTemp); cbn; try solve [old_tac].
  unfold with_cleanup, log, set_temp, with_fs. cbn.
  match goal with |- context [prepare_temp sch (mkSt _ _ _ ?tr)] =>
    pose proof (prepare_temp_spec sch old ax tr) as H end.
  match type of H with ?A -> ?B -> _ => assert (HA : A) by clean_tac; assert (HB : B) by clean_tac end.
  specialize (H HA HB). unfold default_temp_mode in *.
  match goal with |- context [prepare_temp sch ?st0] => destruct (prepare_temp sch st0) as [u s1|s1|s1|s1] end;
    try exact H.
  pose proof (cleanup_spec sch old s1 H) as Hc.
  destruct (cleanup_temp sch s1); exact Hc.
Qed.

(* ------------------------------------------------------------------ *)
(* PrintResults *)
Lemma print_chunks_spec sch old m : forall cs k s t,
  PreS old m t s ->
  match print_chunks sch cs k s with
  | Ret _ s' => PreS old m (t ++ concat cs) s' /\ s_appx s' = s_appx s
  | Err s' | Dead s' | Pan s' => Old old s'
  end.
Proof.
  induction cs as [|c cs IH]; intros k s t HP.
  - cbn. rewrite app_nil_r. split; [exact HP | reflexivity].
  - destr_st s. destruct HP as ((Ht & Hr & Hc) & Htmp & Hbuf).
    unfold tgt, tmp in *. cbn in Ht, Hr, Hc, Htmp, Hbuf. subst tg tp bf.
    cbn [print_chunks]. unfold seq at 1. unfold bind at 1. unfold hook at 1. cbn.
    destruct (sch (HPrintNode k)); cbn; try solve [old_tac].
    unfold seq at 1. unfold bind at 1. unfold op_encode at 1. cbn.
    destruct (sch (OEncode k)); cbn; try solve [old_tac].
    all: try solve [unfold log, spill, buf_append, temp_append, set_temp, with_fs; old_tac].
    unfold seq at 1. unfold bind at 1. unfold hook at 1. cbn.
    destruct (sch (HPrintedNode k)); cbn; try solve [old_tac].
    unfold seq at 1. unfold bind at 1. unfold op_flush, data_op at 1. cbn.
    destruct (sch (OFlush k)); cbn; try solve [old_tac].
    all: try solve [unfold log, spill, buf_append, temp_append, set_temp, with_fs; old_tac].
    unfold log, spill, buf_append, temp_append, set_temp, with_fs; cbn.
    rewrite firstn_all_app, skipn_all_nil.
    match goal with |- context [print_chunks sch cs (S k) ?s0] =>
      specialize (IH (S k) s0 (t ++ c)) end.
    cbn in IH. rewrite <- app_assoc in IH. apply IH.
    unfold PreS. split; [old_tac | split; reflexivity].
Qed.

Lemma appendix_spec sch old m s t :
  PreS old m t s ->
  match op_appendix sch s with
  | Ret _ s' => PreS old m (t ++ s_appx s) s' /\ s_appx s' = []
  | Err s' | Dead s' | Pan s' => Old old s'
  end.
Proof.
  intros HP. destr_st s. destruct HP as ((Ht & Hr & Hc) & Htmp & Hbuf).
  unfold tgt, tmp in *. cbn in Ht, Hr, Hc, Htmp, Hbuf. subst tg tp bf.
  unfold op_appendix, data_op. cbn.
  destruct (sch OAppendix); cbn; try solve [unfold log, temp_append, set_temp, with_fs; old_tac].
  unfold log, temp_append, set_temp, with_fs; cbn.
  rewrite firstn_all_app, skipn_all_nil.
  split; [unfold PreS; split; [old_tac | split; reflexivity] | reflexivity].
Qed.

Lemma print_results_spec sch old m fmp cs k s t :
  PreS old m t s -> (fmp = false -> s_appx s = []) ->
  match print_results sch fmp cs k s with
  | Ret _ s' => PreS old m (t ++ out_calls fmp (s_appx s) [cs]) s' /\ s_appx s' = []
  | Err s' | Dead s' | Pan s' => Old old s'
  end.
Proof.
  intros HP Hax. unfold print_results. unfold bind at 1.
  pose proof (print_chunks_spec sch old m cs k s t HP) as H1.
  destruct (print_chunks sch cs k s) as [k' s1|s1|s1|s1]; try exact H1.
  destruct H1 as [HP1 Hax1].
  destruct fmp.
  - unfold seq, bind.
    pose proof (appendix_spec sch old m s1 _ HP1) as H2.
    destruct (op_appendix sch s1) as [u s2|s2|s2|s2]; try exact H2.
    destruct H2 as [HP2 Hax2]. unfold ret. split; [|exact Hax2].
    cbn [out_calls]. rewrite app_nil_r. rewrite Hax1 in HP2.
    rewrite <- app_assoc in HP2. exact HP2.
  - unfold ret. split.
    + cbn [out_calls]. cbn [app]. rewrite app_nil_r. exact HP1.
    + rewrite Hax1. apply Hax. reflexivity.
Qed.

Lemma out_calls_cons fmp ax c cs :
  out_calls fmp ax (c :: cs) = out_calls fmp ax [c] ++ out_calls fmp [] cs.
Proof. cbn [out_calls]. rewrite !app_nil_r. rewrite <- !app_assoc. reflexivity. Qed.

Lemma eval_calls_spec sch old m fmp : forall calls k s t,
  PreS old m t s -> (fmp = false -> s_appx s = []) ->
  match eval_calls sch fmp calls k s with
  | Ret _ s' => PreS old m (t ++ out_calls fmp (s_appx s) calls) s'
  | Err s' | Dead s' | Pan s' => Old old s'
  end.
Proof.
  induction calls as [|c cs IH]; intros k s t HP Hax.
  - cbn. rewrite app_nil_r. exact HP.
  - cbn [eval_calls]. unfold bind at 1.
    pose proof (print_results_spec sch old m fmp c k s t HP Hax) as H1.
    destruct (print_results sch fmp c k s) as [k' s1|s1|s1|s1]; try exact H1.
    destruct H1 as [HP1 Hax1].
    specialize (IH k' s1 _ HP1 (fun _ => Hax1)).
    destruct (eval_calls sch fmp cs k' s1) as [k'' s2|s2|s2|s2]; try exact IH.
    rewrite out_calls_cons, app_assoc, <- Hax1. exact IH.
Qed.

(* ------------------------------------------------------------------ *)
(* FinishWriteInPlace *)
Ltac in_tac := solve [repeat first [left; reflexivity | right]].
Ltac notin_tac :=
  let H := fresh in intros H; cbn [In] in H;
  repeat (destruct H as [H|H]; [discriminate H|]); auto.
Ltac phase_tac :=
  unfold in_phase, Old, tgt, tmp; cbn; repeat split;
  first [reflexivity | assumption | in_tac | notin_tac | apply firstn_all_app].

Lemma finish_false_spec cross sch old s :
  Old old s ->
  match FinishWriteInPlace cross sch false s with
  | Ret _ s' | Err s' | Dead s' | Pan s' => Old old s'
  end.
Proof.
  intros (Ht & Hr & Hc). destr_st s. unfold tgt in *. cbn in Ht, Hr, Hc. subst tg.
  unfold FinishWriteInPlace, seq, bind, hook, ignore_err, atomic_op, noeff, remove_temp_eff, log, set_temp, with_fs.
  cbn.
  destruct (sch HFinishBeforeClose); cbn; try solve [old_tac].
  all: destruct (sch OCloseTemp); cbn; try solve [old_tac].
  all: destruct (sch HFinishAfterClose); cbn; try solve [old_tac].
  all: destruct (sch ORemoveDiscard); cbn; try solve [old_tac].
Qed.

Definition finish_post (cross : bool) (sch : schedule) (old : file) (newb : bytes) (r : res unit) : Prop :=
  match r with
  | Ret _ s' => in_phase old newb PhRenamed s'
                \/ (in_phase old newb (PhCopy (length newb)) s' /\ rename_fails cross sch)
  | Err s' => in_phase old newb PhOld s'
              \/ (in_phase old newb PhRenamed s' /\ is_fail (sch HAfterRename))
              \/ (exists n, in_phase old newb (PhCopy n) s' /\ rename_fails cross sch)
  | Dead s' => in_phase old newb PhOld s'
               \/ in_phase old newb PhRenamed s'
               \/ (exists n, in_phase old newb (PhCopy n) s' /\ rename_fails cross sch)
  | Pan _ => False
  end.

Ltac copy_at n Hrf := solve [right; right; exists n; split; [phase_tac | exact Hrf]].
Ltac copy_any Hrf := solve [right; right; eexists; split; [phase_tac | exact Hrf]].

Lemma copy_tail_spec cross sch old newb tr ax bf :
  rename_fails cross sch ->
  ~ In ORename tr -> ~ In OCreateDst tr ->
  finish_post cross sch old newb
    ((copyFileContents sch ;;
      hook sch HCopyDoneBeforeRemove ;;
      ignore_err (atomic_op sch ORemoveTemp remove_temp_eff) ;;
      hook sch HAfterRename)
     (mkSt (mkFs (Some old) (Some (mkFile newb (f_mode old)))) bf ax tr)).
Proof.
  intros Hrf Hr Hc.
  unfold finish_post, copyFileContents, seq, bind, hook, ignore_err, atomic_op, data_op, noeff, remove_temp_eff,
    log, set_temp, set_target, with_fs, temp_bytes.
  cbn.
  destruct (sch HCopyOpenSrc) eqn:E1; cbn; try solve [left; phase_tac].
  destruct (sch OOpenSrc) eqn:E2; cbn; try solve [left; phase_tac].
  destruct (sch HCopyCreateDst) eqn:E3; cbn; try solve [left; phase_tac].
  destruct (sch OCreateDst) eqn:E4; cbn; try solve [left; phase_tac]; try copy_at 0%nat Hrf.
  destruct (sch HCopyAfterTruncate) eqn:E5; cbn; try copy_at 0%nat Hrf.
  destruct (sch OCopyData) eqn:E6; cbn; try copy_at 0%nat Hrf; try copy_any Hrf.
  destruct (sch HCopyBeforeSync) eqn:E7; cbn; try copy_any Hrf.
  destruct (sch OSync) eqn:E8; cbn; try copy_any Hrf.
  destruct (sch HCopyDoneBeforeRemove) eqn:E9; cbn; try copy_any Hrf.
  all: destruct (sch ORemoveTemp) eqn:E10; cbn; try copy_any Hrf.
  all: destruct (sch HAfterRename) eqn:E11; cbn; try copy_any Hrf.
  all: solve [right; split; [phase_tac | exact Hrf]].
Qed.

Lemma finish_true_spec cross sch old newb s :
  PreS old (f_mode old) newb s ->
  finish_post cross sch old newb (FinishWriteInPlace cross sch true s).
Proof.
  intros ((Ht & Hr & Hc) & Htmp & Hbuf). destr_st s.
  unfold tgt, tmp in *. cbn in Ht, Hr, Hc, Htmp, Hbuf. subst tg tp bf.
  unfold FinishWriteInPlace. unfold seq at 1. unfold bind at 1. unfold hook at 1. cbn.
  destruct (sch HFinishBeforeClose) eqn:E1; cbn; try solve [left; phase_tac].
  unfold seq at 1. unfold bind at 1. unfold ignore_err, atomic_op, noeff at 1. cbn.
  assert (Hgo : forall tr', ~ In ORename tr' -> ~ In OCreateDst tr' ->
     finish_post cross sch old newb
       ((hook sch HFinishAfterClose ;; tryRenameFile cross sch)
          (mkSt (mkFs (Some old) (Some (mkFile newb (f_mode old)))) [] ax tr'))).
  { intros tr' Hr' Hc'.
    unfold seq at 1. unfold bind at 1. unfold hook at 1. cbn.
    destruct (sch HFinishAfterClose) eqn:E3; cbn; try solve [left; phase_tac].
    unfold tryRenameFile. unfold seq at 1. unfold bind at 1. unfold hook at 1. cbn.
    destruct (sch HBeforeRename) eqn:E4; cbn; try solve [left; phase_tac].
    destruct cross.
    - unfold atomic_op at 1. cbn.
      destruct (sch ORename) eqn:E5; cbn; try solve [left; phase_tac].
      all: unfold log; cbn; apply copy_tail_spec; [left; reflexivity | notin_tac | notin_tac].
    - unfold atomic_op at 1, rename_eff. cbn.
      destruct (sch ORename) eqn:E5; cbn; try solve [left; phase_tac].
      + unfold hook, log, with_fs. cbn.
        destruct (sch HAfterRename) eqn:E6; cbn; try solve [right; left; phase_tac].
        * left. phase_tac.
        * right. left. split; [phase_tac | eexists; exact E6].
      + unfold log; cbn. apply copy_tail_spec; [right; eexists; exact E5 | notin_tac | notin_tac].
      + right. left. unfold log, with_fs. phase_tac. }
  destruct (sch OCloseTemp) eqn:E2; cbn; try solve [left; phase_tac].
  all: unfold log; cbn; apply Hgo; notin_tac.
Qed.

(* ------------------------------------------------------------------ *)
(* the whole command *)
Definition run_post (cfg : config) (sch : schedule) (pl : plan) (old : file) (o : outcome) : Prop :=
  let nb := new_bytes cfg pl old in
  let cross := cfg_cross cfg in
  match o with
  | Exited c s =>
      (c = 0%N /\ plan_ok pl /\
         (in_phase old nb PhRenamed s \/ (in_phase old nb (PhCopy (length nb)) s /\ rename_fails cross sch)))
      \/ (c <> 0%N /\ in_phase old nb PhOld s)
      \/ (c = 1%N /\ plan_ok pl /\ in_phase old nb PhRenamed s /\ is_fail (sch HAfterRename))
      \/ (c = 1%N /\ plan_ok pl /\ exists n, in_phase old nb (PhCopy n) s /\ rename_fails cross sch)
  | Killed s =>
      in_phase old nb PhOld s
      \/ (plan_ok pl /\ in_phase old nb PhRenamed s)
      \/ (plan_ok pl /\ exists n, in_phase old nb (PhCopy n) s /\ rename_fails cross sch)
  end.

Lemma body_spec cfg sch pl old s :
  PreS old (f_mode old) [] s ->
  s_appx s = (if is_process cfg then snd (fm_split (f_bytes old)) else []) ->
  match body cfg sch pl s with
  | Ret b s' => b = true /\ PreS old (f_mode old) (new_bytes cfg pl old) s'
                /\ pl_config pl = Done /\ pl_end pl = Done /\ pl_e_fail pl = false
  | Err s' | Dead s' | Pan s' => Old old s'
  end.
Proof.
  intros HP Hax. unfold body, finish_ending.
  destruct (pl_config pl) eqn:Ecfg; try exact (proj1 HP).
  unfold seq at 1. unfold bind at 1.
  assert (H0 : match (if uses_fm cfg then atomic_op sch OFmSplit noeff else ret tt) s with
               | Ret _ s' => PreS old (f_mode old) [] s' /\ s_appx s' = s_appx s
               | Err s' | Dead s' | Pan s' => Old old s' end).
  { destruct (uses_fm cfg); [|split; [exact HP | reflexivity]].
    destruct HP as ((Ht & Hr & Hc) & Htmp & Hbuf). destr_st s.
    unfold tgt, tmp in *. cbn in Ht, Hr, Hc, Htmp, Hbuf. subst tg tp bf.
    unfold atomic_op, noeff, log. cbn.
    destruct (sch OFmSplit); cbn; try solve [old_tac].
    split; [unfold PreS; split; [old_tac | split; reflexivity] | reflexivity]. }
  destruct ((if uses_fm cfg then atomic_op sch OFmSplit noeff else ret tt) s) as [u s1|s1|s1|s1]; try exact H0.
  destruct H0 as [HP1 Hax1].
  unfold bind at 1.
  assert (Hax1' : is_process cfg = false -> s_appx s1 = []).
  { intro Hf. rewrite Hax1, Hax, Hf. reflexivity. }
  pose proof (eval_calls_spec sch old (f_mode old) (is_process cfg) (pl_calls pl) 1 s1 [] HP1 Hax1') as H1.
  destruct (eval_calls sch (is_process cfg) (pl_calls pl) 1 s1) as [k s2|s2|s2|s2]; try exact H1.
  cbn [app] in H1. rewrite Hax1, Hax in H1.
  destruct (pl_end pl) eqn:Eend; try exact (proj1 H1).
  destruct (pl_e_fail pl) eqn:Ee; try exact (proj1 H1).
  repeat split; try reflexivity; try exact (proj1 H1); try exact (proj1 (proj2 H1)); try exact (proj2 (proj2 H1)).
  all: try (destruct H1 as ((? & ? & ?) & ? & ?); assumption).
Qed.

Lemma old_phase old nb s : Old old s -> in_phase old nb PhOld s.
Proof. intro H. exact H. Qed.

Theorem run_classified cfg sch pl old : run_post cfg sch pl old (run cfg sch pl old).
Proof.
  unfold run, run_post. cbv zeta.
  destruct (pl_init_ok pl) eqn:Einit; cbn [negb].
  2:{ right. left. split; [discriminate|]. unfold init_state. phase_tac. }
  pose proof (create_temp_spec sch old (if is_process cfg then snd (fm_split (f_bytes old)) else [])) as H0.
  cbv zeta in H0. unfold init_state.
  destruct (CreateTempFile sch _) as [u s|s|s|s]; try contradiction.
  2:{ right. left. split; [discriminate | exact H0]. }
  2:{ left. exact H0. }
  destruct H0 as [HP Hax].
  pose proof (body_spec cfg sch pl old s HP Hax) as H1.
  destruct (body cfg sch pl s) as [b s1|s1|s1|s1].
  - destruct H1 as (-> & HP1 & Ec & Ee & Ef).
    assert (Hok : plan_ok pl) by (unfold plan_ok; auto).
    pose proof (finish_true_spec (cfg_cross cfg) sch old _ s1 HP1) as H2.
    destruct (FinishWriteInPlace (cfg_cross cfg) sch true s1) as [u2 s2|s2|s2|s2]; cbn [finish_post] in H2.
    + left. split; [reflexivity | split; [exact Hok | exact H2]].
    + destruct H2 as [H2|[H2|H2]].
      * right. left. split; [discriminate | exact H2].
      * right. right. left. split; [reflexivity | split; [exact Hok | exact H2]].
      * right. right. right. split; [reflexivity | split; [exact Hok | exact H2]].
    + destruct H2 as [H2|[H2|H2]].
      * left. exact H2.
      * right. left. split; [exact Hok | exact H2].
      * right. right. split; [exact Hok | exact H2].
    + contradiction.
  - pose proof (finish_false_spec (cfg_cross cfg) sch old s1 H1) as H2.
    destruct (FinishWriteInPlace (cfg_cross cfg) sch false s1) as [u2 s2|s2|s2|s2].
    + right. left. split; [discriminate | exact H2].
    + right. left. split; [discriminate | exact H2].
    + left. exact H2.
    + right. left. split; [discriminate | exact H2].
  - left. exact H1.
  - pose proof (finish_false_spec (cfg_cross cfg) sch old s1 H1) as H2.
    destruct (FinishWriteInPlace (cfg_cross cfg) sch false s1) as [u2 s2|s2|s2|s2].
    + right. left. split; [discriminate | exact H2].
    + right. left. split; [discriminate | exact H2].
    + left. exact H2.
    + right. left. split; [discriminate | exact H2].
Qed.

(* ------------------------------------------------------------------ *)
(* corollaries used by Props/C12.v *)
Lemma phase_old_target old nb s : in_phase old nb PhOld s -> fs_target (s_fs s) = Some old.
Proof. intros (H & _). exact H. Qed.
Lemma phase_renamed_target old nb s : in_phase old nb PhRenamed s -> fs_target (s_fs s) = Some (mkFile nb (f_mode old)).
Proof. intros (H & _). exact H. Qed.
Lemma phase_copy_target old nb n s : in_phase old nb (PhCopy n) s -> fs_target (s_fs s) = Some (mkFile (firstn n nb) (f_mode old)).
Proof. intros (H & _). exact H. Qed.

Lemma same_device_atomic cfg sch pl old :
  cfg_cross cfg = false -> (forall n, sch ORename <> Fail n) ->
  atomic (Some old) (Some (new_file cfg pl old)) (final_target (run cfg sch pl old)).
Proof.
  intros Hc Hr. pose proof (run_classified cfg sch pl old) as H.
  assert (Hnf : ~ rename_fails (cfg_cross cfg) sch).
  { intros [Hx|(n & Hx)]; [congruence | exact (Hr n Hx)]. }
  unfold atomic, final_target, new_file. destruct (run cfg sch pl old) as [c s|s]; cbn [final_state run_post] in *.
  - destruct H as [(_ & _ & [H|(_ & H)])|[(_ & H)|[(_ & _ & H & _)|(_ & _ & n & _ & H)]]]; try contradiction.
    + right. exact (phase_renamed_target _ _ _ H).
    + left. exact (phase_old_target _ _ _ H).
    + right. exact (phase_renamed_target _ _ _ H).
  - destruct H as [H|[(_ & H)|(_ & n & _ & H)]]; try contradiction.
    + left. exact (phase_old_target _ _ _ H).
    + right. exact (phase_renamed_target _ _ _ H).
Qed.

Lemma exit0_new cfg sch pl old s :
  run cfg sch pl old = Exited 0 s ->
  fs_target (s_fs s) = Some (new_file cfg pl old) /\ plan_ok pl.
Proof.
  intro E. pose proof (run_classified cfg sch pl old) as H. rewrite E in H. cbn [run_post] in H.
  destruct H as [(_ & Hok & [H|(H & _)])|[(Hc & _)|[(Hc & _)|(Hc & _)]]]; try (exfalso; apply Hc; reflexivity); try discriminate.
  - split; [exact (phase_renamed_target _ _ _ H) | exact Hok].
  - split; [|exact Hok]. rewrite (phase_copy_target _ _ _ _ H). unfold new_file. rewrite firstn_all. reflexivity.
Qed.

Lemma nonzero_exit_cases cfg sch pl old c s :
  run cfg sch pl old = Exited c s -> c <> 0%N ->
  fs_target (s_fs s) = Some old
  \/ (c = 1%N /\ plan_ok pl /\ fs_target (s_fs s) = Some (new_file cfg pl old)
      /\ In ORename (s_trace s) /\ is_fail (sch HAfterRename))
  \/ (c = 1%N /\ plan_ok pl /\ rename_fails (cfg_cross cfg) sch /\ In OCreateDst (s_trace s)
      /\ exists n, fs_target (s_fs s) = Some (mkFile (firstn n (new_bytes cfg pl old)) (f_mode old))).
Proof.
  intros E Hc. pose proof (run_classified cfg sch pl old) as H. rewrite E in H. cbn [run_post] in H.
  destruct H as [(Hc0 & _)|[(_ & H)|[(Hc1 & Hok & H & Hf)|(Hc1 & Hok & n & H & Hrf)]]].
  - contradiction.
  - left. exact (phase_old_target _ _ _ H).
  - right. left. repeat split; try assumption; try apply Hok.
    + exact (phase_renamed_target _ _ _ H).
    + apply H.
  - right. right. repeat split; try assumption; try apply Hok.
    + apply H.
    + exists n. exact (phase_copy_target _ _ _ _ H).
Qed.

Lemma nonzero_keeps_old cfg sch pl old c s :
  run cfg sch pl old = Exited c s -> c <> 0%N ->
  cfg_cross cfg = false -> (forall n, sch ORename <> Fail n) -> (forall n, sch HAfterRename <> Fail n) ->
  fs_target (s_fs s) = Some old.
Proof.
  intros E Hc Hx Hr Ha. destruct (nonzero_exit_cases cfg sch pl old c s E Hc) as [H|[H|H]].
  - exact H.
  - destruct H as (_ & _ & _ & _ & n & Hn). exfalso. exact (Ha n Hn).
  - destruct H as (_ & _ & [Hrf|(n & Hn)] & _); [congruence | exfalso; exact (Hr n Hn)].
Qed.

Lemma any_phase cfg sch pl old :
  let o := run cfg sch pl old in
  exists ph, in_phase old (new_bytes cfg pl old) ph (final_state o).
Proof.
  cbv zeta. pose proof (run_classified cfg sch pl old) as H.
  destruct (run cfg sch pl old) as [c s|s]; cbn [final_state run_post] in *.
  - destruct H as [(_ & _ & [H|(H & _)])|[(_ & H)|[(_ & _ & H & _)|(_ & _ & n & H & _)]]]; eexists; exact H.
  - destruct H as [H|[(_ & H)|(_ & n & H & _)]]; eexists; exact H.
Qed.

Lemma old_until_commit cfg sch pl old :
  let o := run cfg sch pl old in
  ~ In ORename (final_trace o) -> ~ In OCreateDst (final_trace o) -> final_target o = Some old.
Proof.
  cbv zeta. intros Hr Hc. destruct (any_phase cfg sch pl old) as [[| |n] H]; unfold final_target, final_trace in *.
  - apply H.
  - exfalso. apply Hr. apply H.
  - exfalso. apply Hc. apply H.
Qed.

Lemma renamed_is_new cfg sch pl old :
  let o := run cfg sch pl old in
  In ORename (final_trace o) -> final_target o = Some (new_file cfg pl old).
Proof.
  cbv zeta. intros Hr. destruct (any_phase cfg sch pl old) as [[| |n] H]; unfold final_target, final_trace in *.
  - exfalso. apply (proj1 (proj2 H)). exact Hr.
  - apply H.
  - exfalso. apply (proj1 (proj2 H)). exact Hr.
Qed.

Lemma truncated_is_prefix cfg sch pl old :
  let o := run cfg sch pl old in
  In OCreateDst (final_trace o) ->
  exists n, final_target o = Some (mkFile (firstn n (new_bytes cfg pl old)) (f_mode old)).
Proof.
  cbv zeta. intros Hc. destruct (any_phase cfg sch pl old) as [[| |n] H]; unfold final_target, final_trace in *.
  - exfalso. apply (proj2 (proj2 H)). exact Hc.
  - exfalso. apply (proj1 (proj2 (proj2 H))). exact Hc.
  - exists n. apply H.
Qed.

Lemma mode_always_kept cfg sch pl old :
  mode_kept (Some old) (final_target (run cfg sch pl old)).
Proof.
  unfold mode_kept, final_target. destruct (any_phase cfg sch pl old) as [[| |n] H];
    destruct H as (H & _); unfold tgt in H; rewrite H; reflexivity.
Qed.

Lemma panic_keeps_old cfg sch pl old s :
  run cfg sch pl old = Exited 2 s -> fs_target (s_fs s) = Some old.
Proof.
  intro E. destruct (nonzero_exit_cases cfg sch pl old 2%N s E) as [H|[H|H]]; try discriminate.
  - exact H.
  - destruct H as (Hc & _). discriminate.
  - destruct H as (Hc & _). discriminate.
Qed.

(* ------------------------------------------------------------------ *)
(* front matter *)
Lemma take_line_app b : fst (take_line b) ++ snd (take_line b) = b.
Proof.
  induction b as [|c b IH]; [reflexivity|]. cbn [take_line].
  destruct (c =? 10)%N; [reflexivity|]. destruct (take_line b) as [l r]. cbn in *. rewrite IH. reflexivity.
Qed.

Lemma fm_split_fuel_app : forall fuel first b,
  fst (fm_split_fuel fuel first b) ++ snd (fm_split_fuel fuel first b) = b.
Proof.
  induction fuel as [|fuel IH]; intros first b; [reflexivity|]. cbn [fm_split_fuel].
  destruct (Nat.ltb (length b) 3); [reflexivity|].
  destruct (negb first && str_eqb (firstn 3 b) [45; 45; 45])%bool; [reflexivity|].
  pose proof (take_line_app b) as Ht. destruct (take_line b) as [l r]. cbn [fst snd] in Ht.
  specialize (IH false r). destruct (fm_split_fuel fuel false r) as [y t]. cbn [fst snd] in *.
  rewrite <- app_assoc, IH. exact Ht.
Qed.

Lemma fm_split_app b : fst (fm_split b) ++ snd (fm_split b) = b.
Proof. apply fm_split_fuel_app. Qed.

Lemma out_calls_has_appx : forall calls ax,
  calls <> [] -> exists pre post, out_calls true ax calls = pre ++ ax ++ post.
Proof.
  intros [|c cs] ax Hne; [contradiction|]. cbn [out_calls]. eexists. eexists. reflexivity.
Qed.

Lemma front_matter_tail_kept sch pl old cross :
  let cfg := mkCfg cross FmProcess in
  let o := run cfg sch pl old in
  pl_calls pl <> [] ->
  ~ In OCreateDst (final_trace o) ->
  tail_kept (snd (fm_split (f_bytes old))) (final_target o).
Proof.
  cbv zeta. intros Hne Hc.
  destruct (any_phase (mkCfg cross FmProcess) sch pl old) as [[| |n] H]; unfold final_target, final_trace, tail_kept in *.
  - exists old, (fst (fm_split (f_bytes old))), []. split; [apply H|].
    rewrite app_nil_r. symmetry. apply fm_split_app.
  - destruct (out_calls_has_appx (pl_calls pl) (snd (fm_split (f_bytes old))) Hne) as (pre & post & Hout).
    eexists. exists pre, post. split; [apply H|]. cbn [f_bytes]. unfold new_bytes. cbn. exact Hout.
  - exfalso. apply Hc. apply H.
Qed.

(* ------------------------------------------------------------------ *)
(* the temp file is gone at every exit unless something in the finishing /
   clean-up phase itself fails *)
Definition finish_steps : list step :=
  [OCloseTemp; ORemoveDiscard; HFinishBeforeClose; HFinishAfterClose; HBeforeRename; ORename; HAfterRename;
   HCopyOpenSrc; OOpenSrc; HCopyCreateDst; OCreateDst; HCopyAfterTruncate; OCopyData; HCopyBeforeSync; OSync;
   HCopyDoneBeforeRemove; ORemoveTemp].
Definition finish_clean (sch : schedule) : Prop := forall x, In x finish_steps -> sch x = Ok.

Ltac ok_all sch H :=
  repeat match goal with |- context [sch ?x] => rewrite (H x) by (cbn; tauto) end.

Lemma cleanup_clean sch s :
  finish_clean sch -> exists s', cleanup_temp sch s = Ret tt s' /\ tmp s' = None.
Proof.
  intro H. unfold cleanup_temp, seq, bind, ignore_err, atomic_op, noeff, remove_temp_eff.
  ok_all sch H. cbn. eexists. split; reflexivity.
Qed.

Lemma finish_false_clean cross sch s :
  finish_clean sch -> exists s', FinishWriteInPlace cross sch false s = Ret tt s' /\ tmp s' = None.
Proof.
  intro H. unfold FinishWriteInPlace, seq, bind, hook, ignore_err, atomic_op, noeff, remove_temp_eff.
  ok_all sch H. cbn. eexists. split; reflexivity.
Qed.

Lemma finish_true_clean cross sch old m t s :
  finish_clean sch -> PreS old m t s ->
  exists s', FinishWriteInPlace cross sch true s = Ret tt s' /\ tmp s' = None.
Proof.
  intros H ((Ht & Hr & Hc) & Htmp & Hbuf). destr_st s.
  unfold tgt, tmp in *. cbn in Ht, Hr, Hc, Htmp, Hbuf. subst tg tp bf.
  unfold FinishWriteInPlace, tryRenameFile, copyFileContents, seq, bind, hook, ignore_err, atomic_op, data_op, noeff,
    remove_temp_eff, rename_eff.
  destruct cross; ok_all sch H; cbn; ok_all sch H; cbn; eexists; split; reflexivity.
Qed.

Lemma create_temp_clean sch old ax :
  finish_clean sch ->
  match CreateTempFile sch (mkSt (mkFs (Some old) None) [] ax []) with
  | Err s => tmp s = None
  | _ => True
  end.
Proof.
  intro H. unfold CreateTempFile. unfold seq at 1. unfold bind at 1. unfold hook at 1. cbn.
  destruct (sch HCreateTemp); cbn; try exact I; try reflexivity.
  unfold seq at 1. unfold bind at 1. unfold atomic_op at 1. cbn.
  destruct (sch OMkTemp); cbn; try exact I; try reflexivity.
  unfold with_cleanup.
  match goal with |- context [prepare_temp sch ?st0] => destruct (prepare_temp sch st0) as [u s1|s1|s1|s1] end;
    try exact I.
  destruct (cleanup_clean sch s1 H) as (s' & E & Ht). rewrite E. exact Ht.
Qed.

Theorem temp_removed cfg sch pl old c s :
  finish_clean sch -> run cfg sch pl old = Exited c s -> fs_temp (s_fs s) = None.
Proof.
  intros H. unfold run. cbv zeta.
  destruct (pl_init_ok pl); cbn [negb]; [|intro E; injection E as _ <-; reflexivity].
  pose proof (create_temp_spec sch old (if is_process cfg then snd (fm_split (f_bytes old)) else [])) as H0.
  pose proof (create_temp_clean sch old (if is_process cfg then snd (fm_split (f_bytes old)) else []) H) as H0c.
  cbv zeta in H0. unfold init_state.
  destruct (CreateTempFile sch _) as [u s0|s0|s0|s0]; try contradiction.
  2:{ intro E. injection E as _ <-. exact H0c. }
  2:{ discriminate. }
  destruct H0 as [HP Hax].
  pose proof (body_spec cfg sch pl old s0 HP Hax) as H1.
  destruct (body cfg sch pl s0) as [b s1|s1|s1|s1].
  - destruct H1 as (-> & HP1 & _).
    destruct (finish_true_clean (cfg_cross cfg) sch old _ _ s1 H HP1) as (s' & E & Ht). rewrite E.
    intro X. injection X as _ <-. exact Ht.
  - destruct (finish_false_clean (cfg_cross cfg) sch s1 H) as (s' & E & Ht). rewrite E.
    intro X. injection X as _ <-. exact Ht.
  - discriminate.
  - destruct (finish_false_clean (cfg_cross cfg) sch s1 H) as (s' & E & Ht). rewrite E.
    intro X. injection X as _ <-. exact Ht.
Qed.
