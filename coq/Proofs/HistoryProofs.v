(* Proofs/HistoryProofs.v -- non-interference lemmas over Model/History.v (property C18). *)
From Coq Require Import List NArith Bool Lia.
From YQ Require Import Base.Str Model.History.
Import ListNotations.
Open Scope N_scope.

Section HistoryFacts.
Variables C Pf D DOCS V M : Type.
Variable parse_core : N -> C.
Variable parse_fails : N -> bool.
Variable parse_err : N -> V.
Variable parse_msg : N -> M.
Variable env_toks : N -> list etok.
Variable dec_sem : fmt -> bool -> D -> DOCS.
Variable dec_eof : DOCS.
Variable dec_fails : fmt -> D -> bool.
Variable sem : C -> Pf -> DOCS -> V.
Variable msg : C -> Pf -> DOCS -> list str -> M.
Variable default_prefs : Pf.

Notation stepM := (step parse_core parse_fails parse_err parse_msg env_toks dec_sem dec_eof dec_fails sem msg).
Notation runM := (run parse_core parse_fails parse_err parse_msg env_toks dec_sem dec_eof dec_fails sem msg).
Notation G_ := (G C Pf).

(* ---- one lemma per field of a decoder instance ---- *)
Lemma init_resets_finished f d : d_finished (init f d) = false.
Proof. destruct f; reflexivity. Qed.

Lemma init_resets_read_anything f d : d_read_anything (init f d) = false.
Proof. destruct f; reflexivity. Qed.

(* firstFile is never re-initialised; it is read only by the YAML decoder when EvaluateTogether *)
Lemma first_file_read_only_by_yaml_together f together d1 d2 text :
  (f = FYaml -> together = false) ->
  snd (decode_run dec_sem dec_eof dec_fails f together d1 text) = snd (decode_run dec_sem dec_eof dec_fails f together d2 text).
Proof.
  intros Hy. unfold decode_run. rewrite !init_resets_finished. cbn [snd].
  destruct f; try reflexivity. rewrite (Hy eq_refl). reflexivity.
Qed.

(* a re-initialised decoder decodes like a new one *)
Lemma decode_value f together d text :
  (f = FYaml -> together = true -> d_first_file d = true) ->
  snd (decode_run dec_sem dec_eof dec_fails f together d text) = dec_sem f true text.
Proof.
  intros Hy. unfold decode_run. rewrite init_resets_finished. cbn [snd].
  destruct f; try reflexivity.
  destruct together; [|reflexivity]. rewrite (Hy eq_refl eq_refl). reflexivity.
Qed.

Lemma decode_new f together text :
  snd (decode_run dec_sem dec_eof dec_fails f together d_new text) = dec_sem f true text.
Proof. apply decode_value. intros _ _. reflexivity. Qed.

(* ---- the kept trees ---- *)
Definition Inv (g : G_) : Prop :=
  forall e t, find_tree e (g_trees g) = Some t ->
    t_core t = parse_core e /\ t_types t = lex (env_toks e) /\ parse_fails e = false.

Lemma find_store_same e (t : tree C) (l : list (N * tree C)) : find_tree e (store_tree e t l) = Some t.
Proof.
  induction l as [|[k t'] l IH]; cbn [store_tree find_tree].
  - rewrite N.eqb_refl. reflexivity.
  - destruct (k =? e) eqn:E; cbn [find_tree]; [rewrite N.eqb_refl; reflexivity|]. rewrite E. exact IH.
Qed.

Lemma find_store_other e e' (t : tree C) (l : list (N * tree C)) : e' <> e -> find_tree e' (store_tree e t l) = find_tree e' l.
Proof.
  intro Hne. induction l as [|[k t'] l IH]; cbn [store_tree find_tree].
  - assert (H : (e =? e') = false) by (apply N.eqb_neq; congruence). rewrite H. reflexivity.
  - destruct (k =? e) eqn:E; cbn [find_tree].
    + apply N.eqb_eq in E. subst k.
      assert (H : (e =? e') = false) by (apply N.eqb_neq; congruence). rewrite H. reflexivity.
    + destruct (k =? e'); [reflexivity|exact IH].
Qed.

Lemma inv_G0 : Inv (G0 default_prefs).
Proof. intros e t H. discriminate. Qed.

(* the output of an evaluation once the tree is there, and the state it leaves *)
Lemma eval_with_shape (g : G_) pf x t keep :
  Inv g -> t_core t = parse_core (q_expr x) -> t_types t = lex (env_toks (q_expr x)) -> parse_fails (q_expr x) = false ->
  snd (eval_with dec_sem dec_eof dec_fails sem msg g pf x t keep) =
    (let docs := snd (decode_run dec_sem dec_eof dec_fails (q_fmt x) (q_together x)
                        (if q_reuse_dec x then g_dec g (q_fmt x) (q_together x) else d_new) (q_text x)) in
     (sem (parse_core (q_expr x)) pf docs, msg (parse_core (q_expr x)) pf docs (lex (env_toks (q_expr x)))))
  /\ Inv (fst (eval_with dec_sem dec_eof dec_fails sem msg g pf x t keep)).
Proof.
  intros HI Hc Ht Hpf. unfold eval_with.
  destruct (decode_run dec_sem dec_eof dec_fails (q_fmt x) (q_together x)
              (if q_reuse_dec x then g_dec g (q_fmt x) (q_together x) else d_new) (q_text x)) as [d' docs].
  cbn [fst snd t_core t_types]. rewrite Hc, Ht. split; [reflexivity|].
  intros e t1 H1. cbn [g_trees] in H1. destruct keep; [|apply HI; exact H1].
  destruct (N.eq_dec e (q_expr x)) as [->|Hne].
  - rewrite find_store_same in H1. injection H1 as <-. cbn [t_core t_types]. repeat split; assumption.
  - rewrite find_store_other in H1 by exact Hne. apply HI. exact H1.
Qed.

Lemma step_shape (g : G_) x : Inv g ->
  snd (stepM g x) =
    (if parse_fails (q_expr x) then (parse_err (q_expr x), parse_msg (q_expr x)) else
      let pf := match q_prefs x with Some p => p | None => g_prefs g end in
      let docs := snd (decode_run dec_sem dec_eof dec_fails (q_fmt x) (q_together x)
                        (if q_reuse_dec x then g_dec g (q_fmt x) (q_together x) else d_new) (q_text x)) in
      (sem (parse_core (q_expr x)) pf docs, msg (parse_core (q_expr x)) pf docs (lex (env_toks (q_expr x)))))
  /\ Inv (fst (stepM g x)).
Proof.
  intro HI. unfold step.
  destruct (if q_reuse_tree x then find_tree (q_expr x) (g_trees g) else None) as [t|] eqn:Ef.
  - assert (Hc : t_core t = parse_core (q_expr x) /\ t_types t = lex (env_toks (q_expr x)) /\ parse_fails (q_expr x) = false).
    { destruct (q_reuse_tree x); [apply HI; exact Ef|discriminate]. }
    destruct Hc as (Hc & Ht & Hpf). rewrite Hpf.
    apply (eval_with_shape g _ x t true HI Hc Ht Hpf).
  - destruct (parse_fails (q_expr x)) eqn:Hpf.
    + cbn [fst snd]. split; [reflexivity|]. intros e t1 H1. cbn [g_trees] in H1. apply HI. exact H1.
    + apply (eval_with_shape g _ x (parse parse_core env_toks (q_expr x)) (q_reuse_tree x) HI eq_refl eq_refl Hpf).
Qed.

Lemma run_inv : forall h (g : G_), Inv g -> Inv (fst (runM g h)).
Proof.
  induction h as [|x h IH]; intros g HI; cbn [run]; [exact HI|].
  destruct (step_shape g x HI) as (_ & HI1).
  destruct (stepM g x) as [g1 o]. cbn [fst] in HI1.
  specialize (IH g1 HI1). destruct (runM g1 h) as [g2 os]. exact IH.
Qed.

(* a request whose output cannot depend on what happened before: it configures
   its preferences (as cmd does) and does not re-use a YAML decoder that was
   built for eval-all *)
Definition ok_req (x : request Pf D) : Prop :=
  q_prefs x <> None /\ (q_reuse_dec x = false \/ (q_fmt x = FYaml -> q_together x = false)).

Definition spec_out (x : request Pf D) : V * M :=
  (spec_value parse_core parse_fails parse_err dec_sem sem default_prefs x,
   spec_msg parse_core parse_fails parse_msg env_toks dec_sem msg default_prefs x).

Lemma step_out (g : G_) x : Inv g -> ok_req x -> snd (stepM g x) = spec_out x.
Proof.
  intros HI [Hp Hd].
  destruct (step_shape g x HI) as (Hv & _). rewrite Hv.
  unfold spec_out, spec_value, spec_msg. destruct (parse_fails (q_expr x)); [reflexivity|].
  destruct (q_prefs x) as [p|]; [|congruence]. cbv zeta.
  assert (Hdocs : snd (decode_run dec_sem dec_eof dec_fails (q_fmt x) (q_together x)
                         (if q_reuse_dec x then g_dec g (q_fmt x) (q_together x) else d_new) (q_text x))
                  = dec_sem (q_fmt x) true (q_text x)).
  { destruct Hd as [Hd|Hy].
    - rewrite Hd. apply decode_new.
    - destruct (q_reuse_dec x); [|apply decode_new].
      apply decode_value. intros Hf Ht. rewrite (Hy Hf) in Ht. discriminate. }
  rewrite Hdocs. reflexivity.
Qed.

Lemma history_independent h1 h2 x : ok_req x ->
  last_out parse_core parse_fails parse_err parse_msg env_toks dec_sem dec_eof dec_fails sem msg default_prefs h1 x
  = last_out parse_core parse_fails parse_err parse_msg env_toks dec_sem dec_eof dec_fails sem msg default_prefs h2 x.
Proof.
  intro Hok. unfold last_out.
  rewrite (step_out _ x (run_inv h1 _ inv_G0) Hok).
  rewrite (step_out _ x (run_inv h2 _ inv_G0) Hok). reflexivity.
Qed.

Lemma fresh_is_spec x :
  last_out parse_core parse_fails parse_err parse_msg env_toks dec_sem dec_eof dec_fails sem msg default_prefs [] x = spec_out x.
Proof.
  unfold last_out. cbn [run fst].
  destruct (step_shape (G0 default_prefs) x inv_G0) as (Hv & _). rewrite Hv.
  unfold spec_out, spec_value, spec_msg. destruct (parse_fails (q_expr x)); [reflexivity|]. cbn [g_prefs G0 g_dec]. cbv zeta.
  assert (Hdocs : snd (decode_run dec_sem dec_eof dec_fails (q_fmt x) (q_together x)
                         (if q_reuse_dec x then d_new else d_new) (q_text x)) = dec_sem (q_fmt x) true (q_text x))
    by (destruct (q_reuse_dec x); apply decode_new).
  rewrite Hdocs. reflexivity.
Qed.

(* evaluating on a kept tree = evaluating on a fresh parse *)
Definition with_reuse (b : bool) (x : request Pf D) : request Pf D :=
  mkReq (q_expr x) b (q_fmt x) (q_text x) (q_together x) (q_reuse_dec x) (q_prefs x) (q_xml_lead x).

Lemma reuse_tree (g : G_) x : Inv g ->
  snd (stepM g (with_reuse true x)) = snd (stepM g (with_reuse false x)).
Proof.
  intro HI.
  destruct (step_shape g (with_reuse true x) HI) as (Hv1 & _).
  destruct (step_shape g (with_reuse false x) HI) as (Hv2 & _).
  rewrite Hv1, Hv2. reflexivity.
Qed.

(* the fields a step writes that no output ever reads: xmlEncoder.leadingContent
   and the RHS slot sortOperator writes in a kept tree *)
Definition same_but_unread (g1 g2 : G_) : Prop :=
  g_dec g1 = g_dec g2 /\ g_prefs g1 = g_prefs g2.

Lemma unread_fields (g1 g2 : G_) x : Inv g1 -> Inv g2 -> same_but_unread g1 g2 ->
  snd (stepM g1 x) = snd (stepM g2 x).
Proof.
  intros H1 H2 (Hd & Hp).
  destruct (step_shape g1 x H1) as (Hv1 & _).
  destruct (step_shape g2 x H2) as (Hv2 & _).
  rewrite Hv1, Hv2, Hd, Hp. reflexivity.
Qed.

End HistoryFacts.

(* ------------------------------------------------------------------ *)
(* interleavings                                                        *)
(* ------------------------------------------------------------------ *)
Section Interleave.
Variable Pf : Type.

Lemma act_shared (s : Pf) p a : fst (act s p a) = s.
Proof. destruct a; reflexivity. Qed.

Lemma acts_shared : forall (l : list action) (s : Pf) p, fst (acts s p l) = s.
Proof.
  induction l as [|a l IH]; intros s p; cbn [acts]; [reflexivity|].
  pose proof (act_shared s p a) as H. destruct (act s p a) as [s1 p1]. cbn [fst] in H. subst s1. apply IH.
Qed.

(* whatever the schedule, each evaluation ends with the private state it reaches alone *)
Lemma interleave_both : forall sch (la lb : list action) (s : Pf) pa pb,
  snd (fst (interleave sch s pa pb la lb)) = snd (acts s pa la)
  /\ snd (interleave sch s pa pb la lb) = snd (acts s pb lb).
Proof.
  induction sch as [|c sch IH]; intros la lb s pa pb.
  - cbn [interleave].
    pose proof (acts_shared la s pa) as H1.
    destruct (acts s pa la) as [s1 pa1]. cbn [fst] in H1. subst s1.
    destruct (acts s pb lb) as [s2 pb1]. cbn [fst snd]. split; reflexivity.
  - destruct c; cbn [interleave].
    + destruct la as [|a la']; [apply IH|].
      cbn [acts]. pose proof (act_shared s pa a) as H1.
      destruct (act s pa a) as [s1 pa1]. cbn [fst] in H1. subst s1. apply IH.
    + destruct lb as [|b lb']; [apply IH|].
      cbn [acts]. pose proof (act_shared s pb b) as H1.
      destruct (act s pb b) as [s1 pb1]. cbn [fst] in H1. subst s1. apply IH.
Qed.

End Interleave.
