(* Proofs/HistoryProofs.v -- non-interference lemmas over Model/History.v (property C18). *)
From Coq Require Import List NArith Bool Lia.
From YQ Require Import Base.Str Model.History.
Import ListNotations.
Open Scope N_scope.

Section HistoryFacts.
Variables C Pf D DOCS V M : Type.
Variable parse_core : N -> C.
Variable parse_fails : N -> bool.
Variable parse_err : N -> V.
Variable parse_msg : N -> M.
Variable env_toks : N -> list etok.
Variable dec_sem : fmt -> bool -> D -> DOCS.
Variable dec_eof : DOCS.
Variable dec_fails : fmt -> D -> bool.
Variable sem : C -> Pf -> DOCS -> V.
Variable msg : C -> Pf -> DOCS -> list str -> str -> M.
Variable default_prefs : Pf.

Notation stepM := (step parse_core parse_fails parse_err parse_msg env_toks dec_sem dec_eof dec_fails sem msg).
Notation runM := (run parse_core parse_fails parse_err parse_msg env_toks dec_sem dec_eof dec_fails sem msg).
Notation G_ := (G C Pf).

Definition resets (fixinit : bool) (f : fmt) : Prop :=
  fixinit = true \/ (f <> FToml /\ f <> FLua).

(* ---- one lemma per field of a decoder instance ---- *)
Lemma init_resets_finished fixinit f d : resets fixinit f -> d_finished (init fixinit f d) = false.
Proof.
  intros [->|[H1 H2]]; destruct f; cbn; try reflexivity; congruence.
Qed.

Lemma init_resets_read_anything fixinit f d : resets fixinit f -> d_read_anything (init fixinit f d) = false.
Proof.
  intros [->|[H1 H2]]; destruct f; cbn; try reflexivity; congruence.
Qed.

(* firstFile is never re-initialised; it is read only by the YAML decoder when EvaluateTogether *)
Lemma first_file_read_only_by_yaml_together fixinit f together d1 d2 text :
  d_finished d1 = d_finished d2 ->
  (f = FYaml -> together = false) ->
  snd (decode_run dec_sem dec_eof dec_fails fixinit f together d1 text) = snd (decode_run dec_sem dec_eof dec_fails fixinit f together d2 text).
Proof.
  intros Hfin Hy. unfold decode_run.
  assert (Hi : d_finished (init fixinit f d1) = d_finished (init fixinit f d2))
    by (destruct f, fixinit; cbn; congruence).
  rewrite Hi. destruct (d_finished (init fixinit f d2)); [reflexivity|]. cbn [snd].
  destruct f; try reflexivity. rewrite (Hy eq_refl). reflexivity.
Qed.

(* a re-initialised decoder decodes like a new one *)
Lemma decode_value fixinit f together d text :
  resets fixinit f \/ d_finished d = false ->
  (f = FYaml -> together = true -> d_first_file d = true) ->
  snd (decode_run dec_sem dec_eof dec_fails fixinit f together d text) = dec_sem f true text.
Proof.
  intros Hr Hy. unfold decode_run.
  assert (Hfin : d_finished (init fixinit f d) = false).
  { destruct Hr as [Hr|Hd]; [apply init_resets_finished; exact Hr|].
    destruct f, fixinit; cbn; try reflexivity; exact Hd. }
  rewrite Hfin. cbn [snd].
  destruct f; try reflexivity.
  destruct together; [|reflexivity]. rewrite (Hy eq_refl eq_refl). reflexivity.
Qed.

Lemma decode_new fixinit f together text :
  snd (decode_run dec_sem dec_eof dec_fails fixinit f together d_new text) = dec_sem f true text.
Proof.
  apply decode_value; [right; reflexivity|]. intros _ _. reflexivity.
Qed.

(* ---- the kept trees ---- *)
Definition Inv (g : G_) : Prop :=
  forall e t, find_tree e (g_trees g) = Some t -> t_core t = parse_core e /\ parse_fails e = false.

Lemma find_store_same e (t : tree C) (l : list (N * tree C)) : find_tree e (store_tree e t l) = Some t.
Proof.
  induction l as [|[k t'] l IH]; cbn [store_tree find_tree].
  - rewrite N.eqb_refl. reflexivity.
  - destruct (k =? e) eqn:E; cbn [find_tree]; [rewrite N.eqb_refl; reflexivity|]. rewrite E. exact IH.
Qed.

Lemma find_store_other e e' (t : tree C) (l : list (N * tree C)) : e' <> e -> find_tree e' (store_tree e t l) = find_tree e' l.
Proof.
  intro Hne. induction l as [|[k t'] l IH]; cbn [store_tree find_tree].
  - assert (H : (e =? e') = false) by (apply N.eqb_neq; congruence). rewrite H. reflexivity.
  - destruct (k =? e) eqn:E; cbn [find_tree].
    + apply N.eqb_eq in E. subst k.
      assert (H : (e =? e') = false) by (apply N.eqb_neq; congruence). rewrite H. reflexivity.
    + destruct (k =? e'); [reflexivity|exact IH].
Qed.

Lemma inv_G0 : Inv (G0 default_prefs).
Proof. intros e t H. discriminate. Qed.

Lemma parse_trees (g : G_) e : g_trees (fst (parse parse_core env_toks g e)) = g_trees g
  /\ g_dec (fst (parse parse_core env_toks g e)) = g_dec g
  /\ t_core (snd (parse parse_core env_toks g e)) = parse_core e.
Proof. unfold parse. destruct (lex (g_type g) (env_toks e)). cbn. repeat split. Qed.

(* the tree a step evaluates, and the state it leaves *)
Lemma eval_with_shape fixinit (g g1 : G_) pf x t keep :
  Inv g1 -> g_dec g1 = g_dec g -> t_core t = parse_core (q_expr x) -> parse_fails (q_expr x) = false ->
  fst (snd (eval_with dec_sem dec_eof dec_fails sem msg fixinit g1 pf x t keep)) =
      sem (parse_core (q_expr x)) pf
          (snd (decode_run dec_sem dec_eof dec_fails fixinit (q_fmt x) (q_together x)
                  (if q_reuse_dec x then g_dec g (q_fmt x) (q_together x) else d_new) (q_text x)))
  /\ Inv (fst (eval_with dec_sem dec_eof dec_fails sem msg fixinit g1 pf x t keep)).
Proof.
  intros HI Hd Hc Hpf. unfold eval_with. rewrite Hd.
  destruct (decode_run dec_sem dec_eof dec_fails fixinit (q_fmt x) (q_together x)
              (if q_reuse_dec x then g_dec g (q_fmt x) (q_together x) else d_new) (q_text x)) as [d' docs].
  cbn [fst snd t_core]. rewrite Hc. split; [reflexivity|].
  intros e t1 H1. cbn [g_trees] in H1. destruct keep; [|apply HI; exact H1].
  destruct (N.eq_dec e (q_expr x)) as [->|Hne].
  - rewrite find_store_same in H1. injection H1 as <-. cbn [t_core]. split; [first [exact Hc | reflexivity]|exact Hpf].
  - rewrite find_store_other in H1 by exact Hne. apply HI. exact H1.
Qed.

Lemma step_shape fixinit (g : G_) x : Inv g ->
  fst (snd (stepM fixinit g x)) =
    (if parse_fails (q_expr x) then parse_err (q_expr x) else
      sem (parse_core (q_expr x)) (match q_prefs x with Some p => p | None => g_prefs g end)
          (snd (decode_run dec_sem dec_eof dec_fails fixinit (q_fmt x) (q_together x)
                  (if q_reuse_dec x then g_dec g (q_fmt x) (q_together x) else d_new) (q_text x))))
  /\ Inv (fst (stepM fixinit g x)).
Proof.
  intro HI. unfold step.
  destruct (if q_reuse_tree x then find_tree (q_expr x) (g_trees g) else None) as [t|] eqn:Ef.
  - assert (Hc : t_core t = parse_core (q_expr x) /\ parse_fails (q_expr x) = false).
    { destruct (q_reuse_tree x); [apply HI; exact Ef|discriminate]. }
    destruct Hc as [Hc Hpf]. rewrite Hpf.
    apply (eval_with_shape fixinit g g _ x t true HI eq_refl Hc Hpf).
  - destruct (parse_trees g (q_expr x)) as (P1 & P2 & P3).
    destruct (parse parse_core env_toks g (q_expr x)) as [g' t] eqn:Ep. cbn [fst snd] in P1, P2, P3.
    destruct (parse_fails (q_expr x)) eqn:Hpf.
    + cbn [fst snd]. split; [reflexivity|]. intros e t1 H1. cbn [g_trees] in H1. apply HI. exact H1.
    + assert (HI' : Inv g') by (intros e t1 H1; rewrite P1 in H1; apply HI; exact H1).
      apply (eval_with_shape fixinit g g' _ x t (q_reuse_tree x) HI' P2 P3 Hpf).
Qed.

Lemma run_inv fixinit : forall h (g : G_), Inv g -> Inv (fst (runM fixinit g h)).
Proof.
  induction h as [|x h IH]; intros g HI; cbn [run]; [exact HI|].
  destruct (step_shape fixinit g x HI) as (_ & HI1).
  destruct (stepM fixinit g x) as [g1 o]. cbn [fst] in HI1.
  specialize (IH g1 HI1). destruct (runM fixinit g1 h) as [g2 os]. exact IH.
Qed.

(* a request whose value cannot depend on what happened before *)
Definition ok_req (fixinit : bool) (x : request Pf D) : Prop :=
  q_prefs x <> None /\
  (q_reuse_dec x = false \/ (resets fixinit (q_fmt x) /\ (q_fmt x = FYaml -> q_together x = false))).

Lemma step_value fixinit (g : G_) x : Inv g -> ok_req fixinit x ->
  fst (snd (stepM fixinit g x)) = spec_value parse_core parse_fails parse_err dec_sem sem default_prefs x.
Proof.
  intros HI [Hp Hd].
  destruct (step_shape fixinit g x HI) as (Hv & _). rewrite Hv.
  unfold spec_value. destruct (parse_fails (q_expr x)); [reflexivity|].
  destruct (q_prefs x) as [p|]; [|congruence]. f_equal.
  destruct Hd as [Hd|[Hr Hy]].
  - rewrite Hd. apply decode_new.
  - destruct (q_reuse_dec x); [|apply decode_new].
    apply decode_value; [left; exact Hr|]. intros Hf Ht. rewrite (Hy Hf) in Ht. discriminate.
Qed.

Lemma history_independent fixinit h1 h2 x : ok_req fixinit x ->
  fst (last_out parse_core parse_fails parse_err parse_msg env_toks dec_sem dec_eof dec_fails sem msg default_prefs fixinit h1 x)
  = fst (last_out parse_core parse_fails parse_err parse_msg env_toks dec_sem dec_eof dec_fails sem msg default_prefs fixinit h2 x).
Proof.
  intro Hok. unfold last_out.
  rewrite (step_value fixinit _ x (run_inv fixinit h1 _ inv_G0) Hok).
  rewrite (step_value fixinit _ x (run_inv fixinit h2 _ inv_G0) Hok). reflexivity.
Qed.

Lemma fresh_is_spec fixinit x : q_reuse_dec x = false \/ True ->
  fst (last_out parse_core parse_fails parse_err parse_msg env_toks dec_sem dec_eof dec_fails sem msg default_prefs fixinit [] x)
  = spec_value parse_core parse_fails parse_err dec_sem sem default_prefs x.
Proof.
  intros _. unfold last_out. cbn [run fst].
  destruct (step_shape fixinit (G0 default_prefs) x inv_G0) as (Hv & _). rewrite Hv.
  unfold spec_value. destruct (parse_fails (q_expr x)); [reflexivity|]. cbn [g_prefs G0 g_dec]. f_equal.
  destruct (q_reuse_dec x); apply decode_new.
Qed.

(* evaluating on a kept tree = evaluating on a fresh parse *)
Definition with_reuse (b : bool) (x : request Pf D) : request Pf D :=
  mkReq (q_expr x) b (q_fmt x) (q_text x) (q_together x) (q_reuse_dec x) (q_prefs x) (q_xml_lead x).

Lemma reuse_tree fixinit (g : G_) x : Inv g ->
  fst (snd (stepM fixinit g (with_reuse true x))) = fst (snd (stepM fixinit g (with_reuse false x))).
Proof.
  intro HI.
  destruct (step_shape fixinit g (with_reuse true x) HI) as (Hv1 & _).
  destruct (step_shape fixinit g (with_reuse false x) HI) as (Hv2 & _).
  rewrite Hv1, Hv2. reflexivity.
Qed.

(* the fields a step writes that no value ever reads: envsubstOpType.Type, xmlEncoder.leadingContent,
   the sort RHS slot and the Type copies of a kept tree *)
Definition same_but_unread (g1 g2 : G_) : Prop :=
  g_dec g1 = g_dec g2 /\ g_prefs g1 = g_prefs g2 /\
  (forall e, option_map t_core (find_tree e (g_trees g1)) = option_map t_core (find_tree e (g_trees g2))).

Lemma unread_fields fixinit (g1 g2 : G_) x : Inv g1 -> Inv g2 -> same_but_unread g1 g2 ->
  fst (snd (stepM fixinit g1 x)) = fst (snd (stepM fixinit g2 x)).
Proof.
  intros H1 H2 (Hd & Hp & _).
  destruct (step_shape fixinit g1 x H1) as (Hv1 & _).
  destruct (step_shape fixinit g2 x H2) as (Hv2 & _).
  rewrite Hv1, Hv2, Hd, Hp. reflexivity.
Qed.

End HistoryFacts.

(* ------------------------------------------------------------------ *)
(* interleavings                                                        *)
(* ------------------------------------------------------------------ *)
Section Interleave.
Variable D : Type.

Definition touches (f : lfmt) (a : action D) : bool :=
  match a with ALoadInit f' _ | ALoadDecode f' => lfmt_eqb f' f | _ => false end.

Definition uses (l : list (action D)) (f : lfmt) : bool := existsb (touches f) l.

Definition agree (F : lfmt -> bool) (s s' : shared D) : Prop :=
  forall f, F f = true -> sh_load s f = sh_load s' f.

Lemma lfmt_eqb_eq a b : lfmt_eqb a b = true <-> a = b.
Proof. destruct a, b; cbn; split; intro H; try reflexivity; try discriminate. Qed.

Lemma uses_cons (a : action D) l f : uses (a :: l) f = touches f a || uses l f.
Proof. reflexivity. Qed.

(* one step of the evaluation itself on two shared states that agree on its load decoders *)
Lemma act_agree (a : action D) l s s' p p' :
  agree (uses (a :: l)) s s' -> p_loaded p = p_loaded p' ->
  agree (uses l) (fst (act s p a)) (fst (act s' p' a))
  /\ p_loaded (snd (act s p a)) = p_loaded (snd (act s' p' a)).
Proof.
  intros Ha Hp. destruct a; cbn [act fst snd p_loaded sh_load].
  - split; [|exact Hp]. intros f Hf. apply Ha. rewrite uses_cons, Hf. apply orb_true_r.
  - split; [|exact Hp]. intros f Hf. apply Ha. rewrite uses_cons, Hf. apply orb_true_r.
  - split; [|exact Hp]. intros f Hf. apply Ha. rewrite uses_cons, Hf. apply orb_true_r.
  - split; [|exact Hp]. intros f' Hf. cbn [sh_load]. destruct (lfmt_eqb f' f); [reflexivity|].
    apply Ha. rewrite uses_cons, Hf. apply orb_true_r.
  - split.
    + intros f' Hf. apply Ha. rewrite uses_cons, Hf. apply orb_true_r.
    + rewrite Hp. f_equal. f_equal. apply Ha. rewrite uses_cons. cbn [touches].
      assert (H : lfmt_eqb f f = true) by (apply lfmt_eqb_eq; reflexivity). rewrite H. reflexivity.
  - split; [|exact Hp]. intros f Hf. apply Ha. rewrite uses_cons, Hf. apply orb_true_r.
Qed.

Lemma acts_agree : forall (l : list (action D)) s s' p p',
  agree (uses l) s s' -> p_loaded p = p_loaded p' ->
  p_loaded (snd (acts s p l)) = p_loaded (snd (acts s' p' l)).
Proof.
  induction l as [|a l IH]; intros s s' p p' Ha Hp; cbn [acts]; [exact Hp|].
  destruct (act_agree a l s s' p p' Ha Hp) as [H1 H2].
  destruct (act s p a) as [s1 p1], (act s' p' a) as [s1' p1']. cbn [fst snd] in *.
  apply IH; assumption.
Qed.

(* a step of the OTHER evaluation that does not touch our load decoders keeps the agreement *)
Lemma other_act_agree (F : lfmt -> bool) (b : action D) s s' q :
  (forall f, F f = true -> touches f b = false) ->
  agree F s s' -> agree F (fst (act s q b)) s'.
Proof.
  intros Hb Ha. destruct b; cbn [act fst sh_load]; try exact Ha.
  intros f' Hf. specialize (Hb f' Hf). cbn [touches] in Hb.
  assert (He : lfmt_eqb f' f = false).
  { destruct (lfmt_eqb f' f) eqn:E; [|reflexivity]. apply lfmt_eqb_eq in E. subst f'.
    assert (H : lfmt_eqb f f = true) by (apply lfmt_eqb_eq; reflexivity). congruence. }
  cbn [sh_load]. rewrite He. apply Ha. exact Hf.
Qed.

Definition disjoint_load (la lb : list (action D)) : Prop :=
  forall f, uses la f = true -> uses lb f = false.

Lemma uses_cons_false (b : action D) lb f : uses (b :: lb) f = false -> touches f b = false /\ uses lb f = false.
Proof. rewrite uses_cons. intro H. apply orb_false_iff in H. exact H. Qed.

Lemma acts_other_agree (F : lfmt -> bool) : forall (lb : list (action D)) s s' q,
  (forall f, F f = true -> uses lb f = false) -> agree F s s' -> agree F (fst (acts s q lb)) s'.
Proof.
  induction lb as [|b lb IH]; intros s s' q Hd Ha; cbn [acts]; [exact Ha|].
  assert (Hb : forall f, F f = true -> touches f b = false) by (intros f Hf; apply (uses_cons_false b lb f (Hd f Hf))).
  assert (Hl : forall f, F f = true -> uses lb f = false) by (intros f Hf; apply (uses_cons_false b lb f (Hd f Hf))).
  pose proof (other_act_agree F b s s' q Hb Ha) as H1.
  destruct (act s q b) as [s1 q1]. cbn [fst] in H1. apply IH; assumption.
Qed.

(* first evaluation: whatever the schedule, its load operators decode what they decode alone *)
Lemma interleave_first : forall sch (la lb : list (action D)) s s' pa pa' pb,
  disjoint_load la lb -> agree (uses la) s s' -> p_loaded pa = p_loaded pa' ->
  p_loaded (snd (fst (interleave sch s pa pb la lb))) = p_loaded (snd (acts s' pa' la)).
Proof.
  induction sch as [|c sch IH]; intros la lb s s' pa pa' pb Hd Ha Hp.
  - cbn [interleave].
    destruct (acts s pa la) as [s1 pa1] eqn:E1.
    destruct (acts s1 pb lb) as [s2 pb1]. cbn [fst snd].
    pose proof (acts_agree la s s' pa pa' Ha Hp) as H. rewrite E1 in H. exact H.
  - destruct c; cbn [interleave].
    + destruct la as [|a la'].
      * apply IH; assumption.
      * destruct (act_agree a la' s s' pa pa' Ha Hp) as [H1 H2].
        cbn [acts].
        destruct (act s pa a) as [s1 pa1], (act s' pa' a) as [s1' pa1']. cbn [fst snd] in *.
        apply IH; try assumption.
        intros f Hf. apply Hd. rewrite uses_cons, Hf. apply orb_true_r.
    + destruct lb as [|b lb'].
      * apply IH; assumption.
      * assert (Hb : forall f, uses la f = true -> touches f b = false)
          by (intros f Hf; apply (uses_cons_false b lb' f (Hd f Hf))).
        pose proof (other_act_agree (uses la) b s s' pb Hb Ha) as H1.
        destruct (act s pb b) as [s1 pb1]. cbn [fst] in H1.
        apply IH; try assumption.
        intros f Hf. apply (uses_cons_false b lb' f (Hd f Hf)).
Qed.

(* second evaluation, same statement *)
Lemma interleave_second : forall sch (la lb : list (action D)) s s' pa pb pb',
  disjoint_load lb la -> agree (uses lb) s s' -> p_loaded pb = p_loaded pb' ->
  p_loaded (snd (interleave sch s pa pb la lb)) = p_loaded (snd (acts s' pb' lb)).
Proof.
  induction sch as [|c sch IH]; intros la lb s s' pa pb pb' Hd Ha Hp.
  - cbn [interleave].
    destruct (acts s pa la) as [s1 pa1] eqn:E1.
    assert (Ha1 : agree (uses lb) s1 s').
    { pose proof (acts_other_agree (uses lb) la s s' pa Hd Ha) as H. rewrite E1 in H. exact H. }
    pose proof (acts_agree lb s1 s' pb pb' Ha1 Hp) as H.
    destruct (acts s1 pb lb) as [s2 pb1]. cbn [fst snd] in *. exact H.
  - destruct c; cbn [interleave].
    + destruct la as [|a la'].
      * apply IH; assumption.
      * assert (Hb : forall f, uses lb f = true -> touches f a = false)
          by (intros f Hf; apply (uses_cons_false a la' f (Hd f Hf))).
        pose proof (other_act_agree (uses lb) a s s' pa Hb Ha) as H1.
        destruct (act s pa a) as [s1 pa1]. cbn [fst] in H1.
        apply IH; try assumption.
        intros f Hf. apply (uses_cons_false a la' f (Hd f Hf)).
    + destruct lb as [|b lb'].
      * apply IH; assumption.
      * destruct (act_agree b lb' s s' pb pb' Ha Hp) as [H1 H2].
        cbn [acts].
        destruct (act s pb b) as [s1 pb1], (act s' pb' b) as [s1' pb1']. cbn [fst snd] in *.
        apply IH; try assumption.
        intros f Hf. apply Hd. rewrite uses_cons, Hf. apply orb_true_r.
Qed.

Lemma agree_refl F (s : shared D) : agree F s s.
Proof. intros f _. reflexivity. Qed.

Lemma interleave_both sch (la lb : list (action D)) s pa pb :
  disjoint_load la lb -> disjoint_load lb la ->
  p_loaded (snd (fst (interleave sch s pa pb la lb))) = p_loaded (snd (acts s pa la))
  /\ p_loaded (snd (interleave sch s pa pb la lb)) = p_loaded (snd (acts s pb lb)).
Proof.
  intros H1 H2. split.
  - apply interleave_first; [exact H1|apply agree_refl|reflexivity].
  - apply interleave_second; [exact H2|apply agree_refl|reflexivity].
Qed.

End Interleave.
