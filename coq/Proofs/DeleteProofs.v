(* Proofs/DeleteProofs.v — C03: delete removes exactly the selected child. *)
From Coq Require Import Arith Sorted.
From YQ Require Import Base.Str Model.Node Model.Store Model.Eval Spec.Lens Proofs.LensProofs Proofs.AssignProofs.

(* the list without its element at position p *)
Definition drop_at {A} (p : nat) (l : list A) : list A := firstn p l ++ skipn (S p) l.

Lemma remove_item_values items victim : forall pos kept,
  List.map snd (remove_item items victim pos kept)
  = List.map snd (match (victim - pos)%nat with
                  | _ => if Nat.ltb victim pos then items else drop_at (victim - pos) items
                  end).
Proof.
  induction items as [|[k v] items IH]; intros pos kept; cbn [remove_item].
  - destruct (Nat.ltb victim pos); [reflexivity|]. unfold drop_at. rewrite firstn_nil, skipn_nil. reflexivity.
  - destruct (Nat.eqb pos victim) eqn:E.
    + apply Nat.eqb_eq in E. subst pos. rewrite IH.
      rewrite Nat.ltb_irrefl. replace (Nat.ltb victim (S victim)) with true by (symmetry; apply Nat.ltb_lt; lia).
      rewrite Nat.sub_diag. unfold drop_at. cbn. reflexivity.
    + apply Nat.eqb_neq in E. cbn [List.map snd]. rewrite IH.
      destruct (Nat.ltb victim pos) eqn:L.
      * apply Nat.ltb_lt in L. replace (Nat.ltb victim (S pos)) with true by (symmetry; apply Nat.ltb_lt; lia). reflexivity.
      * apply Nat.ltb_ge in L. replace (Nat.ltb victim (S pos)) with false by (symmetry; apply Nat.ltb_ge; lia).
        replace (victim - pos)%nat with (S (victim - S pos)) by lia.
        unfold drop_at. cbn. reflexivity.
Qed.

(* exactly the victim disappears; every other element keeps its value and relative order *)
Theorem remove_item_exact items p :
  List.map snd (remove_item items p O 0) = drop_at p (List.map snd items).
Proof.
  rewrite remove_item_values. cbn. rewrite Nat.sub_0_r. unfold drop_at.
  rewrite map_app, firstn_map, skipn_map. reflexivity.
Qed.

(* survivors are renumbered 0,1,2,...: a well-keyed sequence stays well-keyed *)
Definition well_keyed_from (n : N) (items : list (rkey * node)) : Prop :=
  List.map fst items = List.map (fun i => RIdx (n + N.of_nat i)) (seq 0 (length items)).

Lemma remove_item_keys items victim : forall pos kept,
  Forall (fun kc => exists i, fst kc = RIdx i) items ->
  well_keyed_from kept (remove_item items victim pos kept).
Proof.
  unfold well_keyed_from.
  induction items as [|[k v] items IH]; intros pos kept Hk; cbn [remove_item]; [reflexivity|].
  inversion Hk as [|? ? [i Hi] Hr]; subst. cbn in Hi. subst k.
  destruct (Nat.eqb pos victim).
  - apply IH. assumption.
  - cbn [List.map fst length seq]. f_equal.
    + f_equal. lia.
    + rewrite (IH (S pos) (kept + 1)%N Hr). rewrite <- seq_shift, map_map.
      apply map_ext. intros a. f_equal. lia.
Qed.

Fixpoint unique_keys (es : list (str * node)) : Prop :=
  match es with
  | [] => True
  | (k, _) :: r => find_idx r k = None /\ unique_keys r
  end.

(* with unique keys exactly one entry disappears *)
Theorem remove_entries_exact es k i :
  unique_keys es -> find_idx es k = Some i -> remove_entries es k = drop_at i es.
Proof.
  revert i; induction es as [|[k1 v1] es IH]; intros i Hu Hf; cbn in *; [discriminate|].
  destruct Hu as [Hn Hu]. destruct (str_eqb k1 k) eqn:E.
  - injection Hf as <-. apply str_eqb_eq in E. subst k1. unfold drop_at. cbn.
    clear IH. induction es as [|[k2 v2] es IHes]; cbn in *; [reflexivity|].
    destruct (str_eqb k2 k) eqn:E2; [discriminate|].
    destruct Hu as [_ Hu]. destruct (find_idx es k) eqn:Ef; cbn in Hn; [discriminate|].
    f_equal. apply IHes; [reflexivity | assumption].
  - destruct (find_idx es k) as [j|] eqn:Ef; cbn in Hf; [|discriminate]. injection Hf as <-.
    unfold drop_at. cbn. f_equal. apply IH; [assumption | reflexivity].
Qed.

Theorem remove_entries_absent es k : find_idx es k = None -> remove_entries es k = es.
Proof.
  induction es as [|[k1 v1] es IH]; intros H; cbn in *; [reflexivity|].
  destruct (str_eqb k1 k); [discriminate|]. destruct (find_idx es k); cbn in H; [discriminate|].
  f_equal. apply IH. reflexivity.
Qed.

(* ---------- one step of deleteChildOperator's loop on a live victim ---------- *)
Lemma snoc_not_nil {A} (q : list A) i : q ++ [i] <> [].
Proof. destruct q; discriminate. Qed.

Lemma parent_ptr_snoc r q i : parent_ptr (r, q ++ [i]) = Some (r, q).
Proof.
  unfold parent_ptr. cbn [fst snd]. pose proof (snoc_not_nil q i) as H.
  destruct (q ++ [i]) eqn:E; [contradiction|]. rewrite <- E, removelast_last. reflexivity.
Qed.

Lemma key_of_child st r q i n : deref st (r, q) = Some n -> key_of st (r, q ++ [i]) = child_key n i.
Proof.
  unfold key_of, deref. cbn [fst snd]. intros H. destruct (nth_error st r) as [rt|]; [|discriminate].
  pose proof (snoc_not_nil q i) as Hne.
  destruct (q ++ [i]) eqn:E; [contradiction|]. rewrite <- E, removelast_last, H, last_last. reflexivity.
Qed.

Theorem del_loop_one_seq fuel r q i st items cx :
  deref st (r, q) = Some (Seq items) -> (i < length items)%nat ->
  del_loop (S fuel) [(r, q ++ [i])] cx st =
  Ok (shift_ptrs (r, q) [i] cx, update st (r, q) (fun _ => Seq (remove_item items i O 0))).
Proof.
  intros Hd Hi. cbn [del_loop]. rewrite parent_ptr_snoc. unfold deref_r. rewrite Hd. cbn [of_option bind].
  rewrite (key_of_child _ _ _ _ _ Hd). cbn [child_key].
  destruct (nth_error items i) as [[k c]|] eqn:En; [|apply nth_error_None in En; lia].
  cbn [option_map fst snd]. rewrite last_last. cbn [delete_child bind removed_positions].
  replace (Nat.ltb i (length items)) with true by (symmetry; apply Nat.ltb_lt; assumption).
  destruct fuel; reflexivity.
Qed.

Theorem del_loop_one_map fuel r q i st es k c cx :
  deref st (r, q) = Some (Map es) -> nth_error es i = Some (k, c) ->
  del_loop (S fuel) [(r, q ++ [i])] cx st =
  Ok (shift_ptrs (r, q) (removed_entries es k O) cx, update st (r, q) (fun _ => Map (remove_entries es k))).
Proof.
  intros Hd En. cbn [del_loop]. rewrite parent_ptr_snoc. unfold deref_r. rewrite Hd. cbn [of_option bind].
  rewrite (key_of_child _ _ _ _ _ Hd). cbn [child_key]. rewrite En. cbn [option_map fst snd].
  cbn [delete_child bind removed_positions]. destruct fuel; reflexivity.
Qed.

(* general step: the head victim is a child of a sequence *)
Lemma del_loop_step_seq fuel r q i rest st items cx :
  deref st (r, q) = Some (Seq items) -> (i < length items)%nat ->
  del_loop (S fuel) ((r, q ++ [i]) :: rest) cx st =
  del_loop fuel (shift_ptrs (r, q) [i] rest) (shift_ptrs (r, q) [i] cx)
           (update st (r, q) (fun _ => Seq (remove_item items i O 0))).
Proof.
  intros Hd Hi. cbn [del_loop]. rewrite parent_ptr_snoc. unfold deref_r. rewrite Hd. cbn [of_option bind].
  rewrite (key_of_child _ _ _ _ _ Hd). cbn [child_key].
  destruct (nth_error items i) as [[k c]|] eqn:En; [|apply nth_error_None in En; lia].
  cbn [option_map fst snd]. rewrite last_last. cbn [delete_child bind removed_positions].
  replace (Nat.ltb i (length items)) with true by (symmetry; apply Nat.ltb_lt; assumption).
  reflexivity.
Qed.

Lemma strip_prefix_app q rest : strip_prefix q (q ++ rest) = Some rest.
Proof. induction q as [|x q IH]; cbn; [reflexivity|]. rewrite Nat.eqb_refl. assumption. Qed.

(* a victim at a smaller index is not moved by deleting a larger one *)
Lemma shift_ptr_lt r q p j : (j < p)%nat -> shift_ptr (r, q) [p] (r, q ++ [j]) = Some (r, q ++ [j]).
Proof.
  intros H. unfold shift_ptr. cbn [fst snd]. rewrite Nat.eqb_refl. cbn [negb].
  rewrite strip_prefix_app. cbn [existsb filter].
  replace (Nat.eqb j p) with false by (symmetry; apply Nat.eqb_neq; lia).
  replace (Nat.ltb p j) with false by (symmetry; apply Nat.ltb_ge; lia).
  cbn. rewrite Nat.sub_0_r. reflexivity.
Qed.

Lemma shift_ptrs_lt r q p js :
  Forall (fun j => (j < p)%nat) js ->
  shift_ptrs (r, q) [p] (List.map (fun j => (r, q ++ [j])) js) = List.map (fun j => (r, q ++ [j])) js.
Proof.
  induction 1 as [|j js Hj Hjs IH]; cbn [List.map shift_ptrs]; [reflexivity|].
  rewrite (shift_ptr_lt r q p j Hj). f_equal. assumption.
Qed.

Lemma length_remove_item items p : (p < length items)%nat ->
  length (remove_item items p O 0) = (length items - 1)%nat.
Proof.
  intros H. rewrite <- (map_length snd), remove_item_exact. unfold drop_at.
  rewrite app_length, firstn_length, skipn_length, map_length. lia.
Qed.

(* Several elements of ONE sequence, processed back to front (the order in
   which deleteChildOperator visits a selection made in document order):
   every deletion happens at the element's original index; nothing else moves. *)
Theorem del_loop_desc r q : forall ps items st cx fuel,
  deref st (r, q) = Some (Seq items) ->
  StronglySorted gt ps -> Forall (fun p => (p < length items)%nat) ps -> (length ps <= fuel)%nat ->
  exists cx' items',
    del_loop fuel (List.map (fun p => (r, q ++ [p])) ps) cx st = Ok (cx', update st (r, q) (fun _ => Seq items'))
    /\ List.map snd items' = fold_left (fun l p => drop_at p l) ps (List.map snd items).
Proof.
  induction ps as [|p ps IH]; intros items st cx fuel Hd Hs Hb Hf.
  - exists cx, items. split; [|reflexivity].
    rewrite (update_id _ _ _ Hd). destruct fuel; reflexivity.
  - destruct fuel as [|f]; [cbn in Hf; lia|].
    inversion Hs as [|? ? Hs' Hgt]; subst. inversion Hb as [|? ? Hp Hb']; subst.
    cbn [List.map]. rewrite (del_loop_step_seq f r q p _ st items cx Hd Hp).
    assert (Hlt : Forall (fun j => (j < p)%nat) ps).
    { rewrite Forall_forall in *. intros j Hj. specialize (Hgt j Hj). lia. }
    rewrite (shift_ptrs_lt r q p ps Hlt).
    set (items1 := remove_item items p O 0).
    set (st1 := update st (r, q) (fun _ => Seq items1)).
    assert (Hd1 : deref st1 (r, q) = Some (Seq items1)) by (unfold st1; rewrite (deref_update_same _ _ _ _ Hd); reflexivity).
    assert (Hb1 : Forall (fun j => (j < length items1)%nat) ps).
    { unfold items1. rewrite length_remove_item by assumption.
      rewrite Forall_forall in *. intros j Hj. specialize (Hlt j Hj). lia. }
    destruct (IH items1 st1 (shift_ptrs (r, q) [p] cx) f Hd1 Hs' Hb1 ltac:(cbn in Hf; lia)) as (cx' & items' & He & Hv).
    exists cx', items'. split.
    + rewrite He. f_equal. f_equal. unfold st1. rewrite update_twice. reflexivity.
    + rewrite Hv. cbn [fold_left]. unfold items1. rewrite remove_item_exact. reflexivity.
Qed.
