(* Proofs/DeleteProofs.v — C03: delete removes exactly the selected child. *)
From Coq Require Import Arith Sorted.
From YQ Require Import Base.Str Model.Node Model.Store Model.Eval Spec.Lens Proofs.LensProofs Proofs.AssignProofs.

(* the list without its element at position p *)
Definition drop_at {A} (p : nat) (l : list A) : list A := firstn p l ++ skipn (S p) l.

Lemma remove_item_values items victim : forall pos kept,
  List.map snd (remove_item items victim pos kept)
  = List.map snd (match (victim - pos)%nat with
                  | _ => if Nat.ltb victim pos then items else drop_at (victim - pos) items
                  end).
Proof.
  induction items as [|[k v] items IH]; intros pos kept; cbn [remove_item].
  - destruct (Nat.ltb victim pos); [reflexivity|]. unfold drop_at. rewrite firstn_nil, skipn_nil. reflexivity.
  - destruct (Nat.eqb pos victim) eqn:E.
    + apply Nat.eqb_eq in E. subst pos. rewrite IH.
      rewrite Nat.ltb_irrefl. replace (Nat.ltb victim (S victim)) with true by (symmetry; apply Nat.ltb_lt; lia).
      rewrite Nat.sub_diag. unfold drop_at. cbn. reflexivity.
    + apply Nat.eqb_neq in E. cbn [List.map snd]. rewrite IH.
      destruct (Nat.ltb victim pos) eqn:L.
      * apply Nat.ltb_lt in L. replace (Nat.ltb victim (S pos)) with true by (symmetry; apply Nat.ltb_lt; lia). reflexivity.
      * apply Nat.ltb_ge in L. replace (Nat.ltb victim (S pos)) with false by (symmetry; apply Nat.ltb_ge; lia).
        replace (victim - pos)%nat with (S (victim - S pos)) by lia.
        unfold drop_at. cbn. reflexivity.
Qed.

(* exactly the victim disappears; every other element keeps its value and relative order *)
Theorem remove_item_exact items p :
  List.map snd (remove_item items p O 0) = drop_at p (List.map snd items).
Proof.
  rewrite remove_item_values. cbn. rewrite Nat.sub_0_r. unfold drop_at.
  rewrite map_app, firstn_map, skipn_map. reflexivity.
Qed.

(* survivors are renumbered 0,1,2,...: a well-keyed sequence stays well-keyed *)
Definition well_keyed_from (n : N) (items : list (rkey * node)) : Prop :=
  List.map fst items = List.map (fun i => RIdx (n + N.of_nat i)) (seq 0 (length items)).

Lemma remove_item_keys items victim : forall pos kept,
  Forall (fun kc => exists i, fst kc = RIdx i) items ->
  well_keyed_from kept (remove_item items victim pos kept).
Proof.
  unfold well_keyed_from.
  induction items as [|[k v] items IH]; intros pos kept Hk; cbn [remove_item]; [reflexivity|].
  inversion Hk as [|? ? [i Hi] Hr]; subst. cbn in Hi. subst k.
  destruct (Nat.eqb pos victim).
  - apply IH. assumption.
  - cbn [List.map fst length seq]. f_equal.
    + f_equal. lia.
    + rewrite (IH (S pos) (kept + 1)%N Hr). rewrite <- seq_shift, map_map.
      apply map_ext. intros a. f_equal. lia.
Qed.

Fixpoint unique_keys (es : list (str * node)) : Prop :=
  match es with
  | [] => True
  | (k, _) :: r => find_idx r k = None /\ unique_keys r
  end.

(* with unique keys exactly one entry disappears *)
Theorem remove_entries_exact es k i :
  unique_keys es -> find_idx es k = Some i -> remove_entries es k = drop_at i es.
Proof.
  revert i; induction es as [|[k1 v1] es IH]; intros i Hu Hf; cbn in *; [discriminate|].
  destruct Hu as [Hn Hu]. destruct (str_eqb k1 k) eqn:E.
  - injection Hf as <-. apply str_eqb_eq in E. subst k1. unfold drop_at. cbn.
    clear IH. induction es as [|[k2 v2] es IHes]; cbn in *; [reflexivity|].
    destruct (str_eqb k2 k) eqn:E2; [discriminate|].
    destruct Hu as [_ Hu]. destruct (find_idx es k) eqn:Ef; cbn in Hn; [discriminate|].
    f_equal. apply IHes; [reflexivity | assumption].
  - destruct (find_idx es k) as [j|] eqn:Ef; cbn in Hf; [|discriminate]. injection Hf as <-.
    unfold drop_at. cbn. f_equal. apply IH; [assumption | reflexivity].
Qed.

Theorem remove_entries_absent es k : find_idx es k = None -> remove_entries es k = es.
Proof.
  induction es as [|[k1 v1] es IH]; intros H; cbn in *; [reflexivity|].
  destruct (str_eqb k1 k); [discriminate|]. destruct (find_idx es k); cbn in H; [discriminate|].
  f_equal. apply IH. reflexivity.
Qed.

(* ---------- one step of deleteChildOperator's loop on a live victim ---------- *)
Lemma snoc_not_nil {A} (q : list A) i : q ++ [i] <> [].
Proof. destruct q; discriminate. Qed.

Lemma parent_ptr_snoc r q i : parent_ptr (r, q ++ [i]) = Some (r, q).
Proof.
  unfold parent_ptr. cbn [fst snd]. pose proof (snoc_not_nil q i) as H.
  destruct (q ++ [i]) eqn:E; [contradiction|]. rewrite <- E, removelast_last. reflexivity.
Qed.

Lemma key_of_child st r q i n : deref st (r, q) = Some n -> key_of st (r, q ++ [i]) = child_key n i.
Proof.
  unfold key_of, deref. cbn [fst snd]. intros H. destruct (nth_error st r) as [rt|]; [|discriminate].
  pose proof (snoc_not_nil q i) as Hne.
  destruct (q ++ [i]) eqn:E; [contradiction|]. rewrite <- E, removelast_last, H, last_last. reflexivity.
Qed.

Theorem del_loop_one_seq fuel r q i st items cx :
  deref st (r, q) = Some (Seq items) -> (i < length items)%nat ->
  del_loop (S fuel) [(r, q ++ [i])] cx st =
  Ok (shift_ptrs (r, q) [i] cx, update st (r, q) (fun _ => Seq (remove_item items i O 0))).
Proof.
  intros Hd Hi. cbn [del_loop]. rewrite parent_ptr_snoc. unfold deref_r. rewrite Hd. cbn [of_option bind].
  rewrite (key_of_child _ _ _ _ _ Hd). cbn [child_key].
  destruct (nth_error items i) as [[k c]|] eqn:En; [|apply nth_error_None in En; lia].
  cbn [option_map fst snd]. rewrite last_last. cbn [delete_child bind removed_positions].
  replace (Nat.ltb i (length items)) with true by (symmetry; apply Nat.ltb_lt; assumption).
  destruct fuel; reflexivity.
Qed.

Theorem del_loop_one_map fuel r q i st es k c cx :
  deref st (r, q) = Some (Map es) -> nth_error es i = Some (k, c) ->
  del_loop (S fuel) [(r, q ++ [i])] cx st =
  Ok (shift_ptrs (r, q) (removed_entries es k O) cx, update st (r, q) (fun _ => Map (remove_entries es k))).
Proof.
  intros Hd En. cbn [del_loop]. rewrite parent_ptr_snoc. unfold deref_r. rewrite Hd. cbn [of_option bind].
  rewrite (key_of_child _ _ _ _ _ Hd). cbn [child_key]. rewrite En. cbn [option_map fst snd].
  cbn [delete_child bind removed_positions]. destruct fuel; reflexivity.
Qed.

(* general step: the head victim is a child of a sequence *)
Lemma del_loop_step_seq fuel r q i rest st items cx :
  deref st (r, q) = Some (Seq items) -> (i < length items)%nat ->
  del_loop (S fuel) ((r, q ++ [i]) :: rest) cx st =
  del_loop fuel (shift_ptrs (r, q) [i] rest) (shift_ptrs (r, q) [i] cx)
           (update st (r, q) (fun _ => Seq (remove_item items i O 0))).
Proof.
  intros Hd Hi. cbn [del_loop]. rewrite parent_ptr_snoc. unfold deref_r. rewrite Hd. cbn [of_option bind].
  rewrite (key_of_child _ _ _ _ _ Hd). cbn [child_key].
  destruct (nth_error items i) as [[k c]|] eqn:En; [|apply nth_error_None in En; lia].
  cbn [option_map fst snd]. rewrite last_last. cbn [delete_child bind removed_positions].
  replace (Nat.ltb i (length items)) with true by (symmetry; apply Nat.ltb_lt; assumption).
  reflexivity.
Qed.

Lemma strip_prefix_app q rest : strip_prefix q (q ++ rest) = Some rest.
Proof. induction q as [|x q IH]; cbn; [reflexivity|]. rewrite Nat.eqb_refl. assumption. Qed.

(* a victim at a smaller index is not moved by deleting a larger one *)
Lemma shift_ptr_lt r q p j : (j < p)%nat -> shift_ptr (r, q) [p] (r, q ++ [j]) = Some (r, q ++ [j]).
Proof.
  intros H. unfold shift_ptr. cbn [fst snd]. rewrite Nat.eqb_refl. cbn [negb].
  rewrite strip_prefix_app. cbn [existsb filter].
  replace (Nat.eqb j p) with false by (symmetry; apply Nat.eqb_neq; lia).
  replace (Nat.ltb p j) with false by (symmetry; apply Nat.ltb_ge; lia).
  cbn. rewrite Nat.sub_0_r. reflexivity.
Qed.

Lemma shift_ptrs_lt r q p js :
  Forall (fun j => (j < p)%nat) js ->
  shift_ptrs (r, q) [p] (List.map (fun j => (r, q ++ [j])) js) = List.map (fun j => (r, q ++ [j])) js.
Proof.
  induction 1 as [|j js Hj Hjs IH]; cbn [List.map shift_ptrs]; [reflexivity|].
  rewrite (shift_ptr_lt r q p j Hj). f_equal. assumption.
Qed.

Lemma length_remove_item items p : (p < length items)%nat ->
  length (remove_item items p O 0) = (length items - 1)%nat.
Proof.
  intros H. rewrite <- (map_length snd), remove_item_exact. unfold drop_at.
  rewrite app_length, firstn_length, skipn_length, map_length. lia.
Qed.

(* Several elements of ONE sequence, processed back to front (the order in
   which deleteChildOperator visits a selection made in document order):
   every deletion happens at the element's original index; nothing else moves. *)
Theorem del_loop_desc r q : forall ps items st cx fuel,
  deref st (r, q) = Some (Seq items) ->
  StronglySorted gt ps -> Forall (fun p => (p < length items)%nat) ps -> (length ps <= fuel)%nat ->
  exists cx' items',
    del_loop fuel (List.map (fun p => (r, q ++ [p])) ps) cx st = Ok (cx', update st (r, q) (fun _ => Seq items'))
    /\ List.map snd items' = fold_left (fun l p => drop_at p l) ps (List.map snd items).
Proof.
  induction ps as [|p ps IH]; intros items st cx fuel Hd Hs Hb Hf.
  - exists cx, items. split; [|reflexivity].
    rewrite (update_id _ _ _ Hd). destruct fuel; reflexivity.
  - destruct fuel as [|f]; [cbn in Hf; lia|].
    inversion Hs as [|? ? Hs' Hgt]; subst. inversion Hb as [|? ? Hp Hb']; subst.
    cbn [List.map]. rewrite (del_loop_step_seq f r q p _ st items cx Hd Hp).
    assert (Hlt : Forall (fun j => (j < p)%nat) ps).
    { rewrite Forall_forall in *. intros j Hj. specialize (Hgt j Hj). lia. }
    rewrite (shift_ptrs_lt r q p ps Hlt).
    set (items1 := remove_item items p O 0).
    set (st1 := update st (r, q) (fun _ => Seq items1)).
    assert (Hd1 : deref st1 (r, q) = Some (Seq items1)) by (unfold st1; rewrite (deref_update_same _ _ _ _ Hd); reflexivity).
    assert (Hb1 : Forall (fun j => (j < length items1)%nat) ps).
    { unfold items1. rewrite length_remove_item by assumption.
      rewrite Forall_forall in *. intros j Hj. specialize (Hlt j Hj). lia. }
    destruct (IH items1 st1 (shift_ptrs (r, q) [p] cx) f Hd1 Hs' Hb1 ltac:(cbn in Hf; lia)) as (cx' & items' & He & Hv).
    exists cx', items'. split.
    + rewrite He. f_equal. f_equal. unfold st1. rewrite update_twice. reflexivity.
    + rewrite Hv. cbn [fold_left]. unfold items1. rewrite remove_item_exact. reflexivity.
Qed.

(* ---------- several elements of one sequence in ANY visiting order ----------
   After an element is removed the remaining victims' positions are shifted
   (Go keeps pointers; the survivors' recorded keys are renumbered), so each
   later victim is still removed itself, not a neighbour. *)
Fixpoint keep_not_in {A} (ps : list nat) (l : list A) (i : nat) : list A :=
  match l with
  | [] => []
  | x :: r => if existsb (Nat.eqb i) ps then keep_not_in ps r (S i) else x :: keep_not_in ps r (S i)
  end.

Definition shift_pos (p j : nat) : nat := if Nat.ltb p j then (j - 1)%nat else j.

Lemma existsb_shift p j rest :
  ~ In p rest -> j <> p ->
  existsb (Nat.eqb (shift_pos p j)) (List.map (shift_pos p) rest) = existsb (Nat.eqb j) rest.
Proof.
  intros Hp Hj. induction rest as [|r rest IH]; [reflexivity|]. cbn [List.map existsb].
  assert (Hr : r <> p) by (intro; apply Hp; left; congruence).
  rewrite IH by (intro; apply Hp; right; assumption). f_equal.
  unfold shift_pos.
  destruct (Nat.ltb_spec p j) as [E1|E1], (Nat.ltb_spec p r) as [E2|E2], (Nat.eqb_spec j r) as [E3|E3];
    first [ reflexivity | apply Nat.eqb_eq; lia | apply Nat.eqb_neq; lia ].
Qed.

(* beyond the removed position every index is looked up one lower among the shifted victims *)
Lemma keep_not_in_tail {A} (l : list A) i rest : ~ In i rest -> forall k, (i < k)%nat ->
  keep_not_in (i :: rest) l k = keep_not_in (List.map (shift_pos i) rest) l (k - 1).
Proof.
  intros Hp. induction l as [|y l IHl]; intros k Hk; [reflexivity|]. cbn [keep_not_in existsb].
  replace (Nat.eqb k i) with false by (symmetry; apply Nat.eqb_neq; lia). cbn [orb].
  assert (Hs : shift_pos i k = (k - 1)%nat).
  { unfold shift_pos. replace (Nat.ltb i k) with true by (symmetry; apply Nat.ltb_lt; lia). reflexivity. }
  replace (existsb (Nat.eqb (k - 1)) (List.map (shift_pos i) rest)) with (existsb (Nat.eqb k) rest)
    by (rewrite <- Hs; symmetry; apply existsb_shift; [assumption | lia]).
  rewrite (IHl (S k)) by lia. replace (S k - 1)%nat with (S (k - 1)) by lia. reflexivity.
Qed.

(* removing position p first and then the shifted rest = removing p :: rest at once *)
Lemma keep_not_in_drop {A} (l : list A) : forall i p rest,
  (i <= p)%nat -> ~ In p rest ->
  keep_not_in (p :: rest) l i =
  keep_not_in (List.map (shift_pos p) rest) (drop_at (p - i) l) i.
Proof.
  induction l as [|x l IH]; intros i p rest Hi Hp.
  - unfold drop_at. rewrite firstn_nil, skipn_nil. reflexivity.
  - cbn [keep_not_in existsb]. destruct (Nat.eqb i p) eqn:E.
    + apply Nat.eqb_eq in E. subst p. rewrite Nat.sub_diag. unfold drop_at. cbn [firstn skipn app orb].
      rewrite (keep_not_in_tail l i rest Hp (S i)) by lia. replace (S i - 1)%nat with i by lia. reflexivity.
    + apply Nat.eqb_neq in E. cbn [orb].
      assert (Hlt : (i < p)%nat) by lia.
      replace (p - i)%nat with (S (p - S i)) by lia. unfold drop_at. cbn [firstn skipn app keep_not_in].
      assert (Hs : shift_pos p i = i).
      { unfold shift_pos. replace (Nat.ltb p i) with false by (symmetry; apply Nat.ltb_ge; lia). reflexivity. }
      replace (existsb (Nat.eqb i) (List.map (shift_pos p) rest)) with (existsb (Nat.eqb i) rest)
        by (rewrite <- Hs at 2; symmetry; apply existsb_shift; [assumption | lia]).
      fold (drop_at (p - S i) l). rewrite (IH (S i) p rest) by (assumption || lia). reflexivity.
Qed.

Lemma shift_ptr_other r q p j : j <> p -> shift_ptr (r, q) [p] (r, q ++ [j]) = Some (r, q ++ [shift_pos p j]).
Proof.
  intros H. unfold shift_ptr. cbn [fst snd]. rewrite Nat.eqb_refl. cbn [negb].
  rewrite strip_prefix_app. cbn [existsb filter].
  replace (Nat.eqb j p) with false by (symmetry; apply Nat.eqb_neq; assumption). cbn [orb].
  unfold shift_pos. destruct (Nat.ltb p j); cbn [length]; [|rewrite Nat.sub_0_r]; reflexivity.
Qed.

Lemma shift_ptrs_others r q p js : ~ In p js ->
  shift_ptrs (r, q) [p] (List.map (fun j => (r, q ++ [j])) js) = List.map (fun j => (r, q ++ [j])) (List.map (shift_pos p) js).
Proof.
  induction js as [|j js IH]; intros H; cbn [List.map shift_ptrs]; [reflexivity|].
  rewrite shift_ptr_other by (intro; apply H; left; congruence).
  f_equal. apply IH. intro. apply H. right. assumption.
Qed.

Lemma shift_pos_inj p a b : a <> p -> b <> p -> shift_pos p a = shift_pos p b -> a = b.
Proof.
  unfold shift_pos. intros Ha Hb.
  destruct (Nat.ltb_spec p a), (Nat.ltb_spec p b); lia.
Qed.

Lemma NoDup_shift p js : ~ In p js -> NoDup js -> NoDup (List.map (shift_pos p) js).
Proof.
  induction js as [|j js IH]; intros Hp Hn; cbn [List.map]; [constructor|].
  inversion Hn as [|? ? Hnj Hn']; subst. constructor.
  - intro Hin. apply in_map_iff in Hin as (b & Hb & Hbin). apply Hnj.
    assert (b = j); [|subst; assumption].
    apply (shift_pos_inj p); [intro; subst; apply Hp; right; assumption | intro; subst; apply Hp; left; reflexivity | assumption].
  - apply IH; [intro; apply Hp; right; assumption | assumption].
Qed.

(* any number of elements of ONE sequence, selected in ANY order: exactly those elements disappear *)
Lemma keep_not_in_nil {A} (l : list A) : forall i, keep_not_in [] l i = l.
Proof. induction l as [|x l IHl]; intros i; cbn; [reflexivity|]. f_equal. apply IHl. Qed.

Lemma del_loop_any_n r q : forall n ps items st cx fuel,
  length ps = n ->
  deref st (r, q) = Some (Seq items) ->
  NoDup ps -> Forall (fun p => (p < length items)%nat) ps -> (length ps <= fuel)%nat ->
  exists cx' items',
    del_loop fuel (List.map (fun p => (r, q ++ [p])) ps) cx st = Ok (cx', update st (r, q) (fun _ => Seq items'))
    /\ List.map snd items' = keep_not_in ps (List.map snd items) O.
Proof.
  induction n as [|n IH]; intros ps items st cx fuel Hlen Hd Hn Hb Hf.
  - destruct ps; [|discriminate]. exists cx, items. split.
    + rewrite (update_id _ _ _ Hd). destruct fuel; reflexivity.
    + rewrite keep_not_in_nil. reflexivity.
  - destruct ps as [|p ps]; [discriminate|]. injection Hlen as Hlen.
    destruct fuel as [|f]; [cbn in Hf; lia|].
    inversion Hn as [|? ? Hnp Hn']; subst. inversion Hb as [|? ? Hp Hb']; subst.
    cbn [List.map]. rewrite (del_loop_step_seq f r q p _ st items cx Hd Hp).
    rewrite (shift_ptrs_others r q p ps Hnp).
    set (items1 := remove_item items p O 0).
    set (st1 := update st (r, q) (fun _ => Seq items1)).
    assert (Hd1 : deref st1 (r, q) = Some (Seq items1)) by (unfold st1; rewrite (deref_update_same _ _ _ _ Hd); reflexivity).
    assert (Hb1 : Forall (fun j => (j < length items1)%nat) (List.map (shift_pos p) ps)).
    { unfold items1. rewrite length_remove_item by assumption.
      rewrite Forall_forall in *. intros j Hj. apply in_map_iff in Hj as (b & <- & Hbin).
      specialize (Hb' b Hbin). assert (b <> p) by (intro; subst; contradiction).
      unfold shift_pos. destruct (Nat.ltb_spec p b); lia. }
    destruct (IH (List.map (shift_pos p) ps) items1 st1 (shift_ptrs (r, q) [p] cx) f
                 ltac:(rewrite map_length; reflexivity) Hd1 (NoDup_shift p ps Hnp Hn') Hb1
                 ltac:(rewrite map_length; cbn in Hf; lia)) as (cx' & items' & He & Hv).
    exists cx', items'. split.
    + rewrite He. f_equal. f_equal. unfold st1. rewrite update_twice. reflexivity.
    + rewrite Hv. unfold items1. rewrite remove_item_exact.
      rewrite (keep_not_in_drop (List.map snd items) O p ps (Nat.le_0_l p) Hnp). rewrite Nat.sub_0_r. reflexivity.
Qed.

Theorem del_loop_any r q ps items st cx fuel :
  deref st (r, q) = Some (Seq items) ->
  NoDup ps -> Forall (fun p => (p < length items)%nat) ps -> (length ps <= fuel)%nat ->
  exists cx' items',
    del_loop fuel (List.map (fun p => (r, q ++ [p])) ps) cx st = Ok (cx', update st (r, q) (fun _ => Seq items'))
    /\ List.map snd items' = keep_not_in ps (List.map snd items) O.
Proof. apply (del_loop_any_n r q (length ps)). reflexivity. Qed.

Lemma keep_not_in_ext {A} (l : list A) : forall p1 p2 i,
  (forall j, existsb (Nat.eqb j) p1 = existsb (Nat.eqb j) p2) -> keep_not_in p1 l i = keep_not_in p2 l i.
Proof.
  induction l as [|x l IH]; intros p1 p2 i H; cbn [keep_not_in]; [reflexivity|].
  rewrite (H i). rewrite (IH p1 p2 (S i) H). reflexivity.
Qed.

Lemma keep_not_in_comm {A} (p1 p2 : list nat) (l : list A) :
  keep_not_in (p1 ++ p2) l O = keep_not_in (p2 ++ p1) l O.
Proof. apply keep_not_in_ext. intros j. rewrite !existsb_app. apply orb_comm. Qed.
