(* Proofs/EvalFuel.v — the evaluator's answer does not depend on the fuel once
   it is sufficient: more fuel never changes a result, an error, a panic or an
   "unsupported" verdict.  (So the fixed fuel of [run] only matters through
   OutOfFuel, which the correspondence check would report.) *)
From YQ Require Import Base.Str Model.Node Model.Store Model.Eval.
From Coq Require Import ZArith.

Definition le_res {A} (r r' : res A) : Prop := r = OutOfFuel \/ r = r'.

Lemma le_refl {A} (r : res A) : le_res r r.
Proof. right. reflexivity. Qed.

Lemma le_bind {A B} (m m' : res A) (k k' : A -> res B) :
  le_res m m' -> (forall a, le_res (k a) (k' a)) -> le_res (bind m k) (bind m' k').
Proof.
  intros [->| ->] Hk; [left; reflexivity|].
  destruct m' as [a| | | |]; cbn; try (right; reflexivity). apply Hk.
Qed.

Lemma each_le {A} (f g : A -> store -> res out) l :
  (forall x st, le_res (f x st) (g x st)) -> forall st, le_res (each f l st) (each g l st).
Proof.
  intros H. induction l as [|x l IH]; intros st; cbn [each]; [apply le_refl|].
  apply le_bind; [apply H|]. intros o1. apply le_bind; [apply IH|]. intros o2. apply le_refl.
Qed.

Lemma iter_le {A} (f g : ptr -> A -> store -> res (A * store)) l :
  (forall p a st, le_res (f p a st) (g p a st)) -> forall a st, le_res (Eval.iter f l a st) (Eval.iter g l a st).
Proof.
  intros H. induction l as [|p l IH]; intros a st; cbn [Eval.iter]; [apply le_refl|].
  apply le_bind; [apply H|]. intros o. apply IH.
Qed.

Section CrossLe.
  Variables ev ev' : expr -> bool -> vars -> list ptr -> store -> res out.
  Hypothesis Hev : forall e ro vs ctx st, le_res (ev e ro vs ctx st) (ev' e ro vs ctx st).

  Lemma results_for_rhs_le cwe short calc rhs ro vs ctx l st :
    le_res (results_for_rhs ev cwe short calc rhs ro vs ctx l st) (results_for_rhs ev' cwe short calc rhs ro vs ctx l st).
  Proof.
    unfold results_for_rhs. apply le_bind; [apply le_refl|]. intros [o|]; [apply le_refl|].
    apply le_bind; [apply Hev|]. intros o. apply le_refl.
  Qed.

  Lemma cross1_le cwe short calc lhs rhs ro vs cx st :
    le_res (cross1 ev cwe short calc lhs rhs ro vs cx st) (cross1 ev' cwe short calc lhs rhs ro vs cx st).
  Proof.
    unfold cross1. apply le_bind; [apply Hev|]. intros ol. apply le_bind.
    - destruct (fst ol); [destruct cwe; [apply results_for_rhs_le | apply le_refl] | apply le_refl].
    - intros o0. apply le_bind; [|intros; apply le_refl]. apply each_le. intros. apply results_for_rhs_le.
  Qed.

  Lemma cross_le cwe short calc lhs rhs ro vs ctx st :
    le_res (cross ev cwe short calc lhs rhs ro vs ctx st) (cross ev' cwe short calc lhs rhs ro vs ctx st).
  Proof. unfold cross. destruct ctx; [apply cross1_le|]. apply each_le. intros. apply cross1_le. Qed.
End CrossLe.

Lemma obj_entries_le ev ev' :
  (forall e ro vs ctx st, le_res (ev e ro vs ctx st) (ev' e ro vs ctx st)) ->
  forall ro vs c es acc st, le_res (obj_entries ev ro vs c es acc st) (obj_entries ev' ro vs c es acc st).
Proof.
  intros H ro vs c es. induction es as [|[ke ve] es IH]; intros acc st; cbn [obj_entries]; [apply le_refl|].
  apply le_bind; [apply cross_le; assumption|]. intros o. apply le_bind; [apply le_refl|]. intros pairs. apply IH.
Qed.

Ltac le_go H :=
  repeat first
    [ apply le_refl
    | apply H
    | apply le_bind; [ | intros ]
    | apply each_le; intros
    | apply iter_le; intros
    | apply cross_le; intros
    | apply obj_entries_le; intros
    | match goal with |- le_res (match ?x with _ => _ end) (match ?x with _ => _ end) => destruct x end
    | match goal with |- le_res (if ?x then _ else _) (if ?x then _ else _) => destruct x end
    | match goal with |- le_res (let '(_, _) := ?x in _) (let '(_, _) := ?x in _) => destruct x end ].

Lemma eval_step_le f g :
  (forall e ro vs ctx st, le_res (eval f e ro vs ctx st) (eval g e ro vs ctx st)) ->
  forall e ro vs ctx st, le_res (eval (S f) e ro vs ctx st) (eval (S g) e ro vs ctx st).
Proof.
  intros H e ro vs ctx st. destruct e; cbn [eval]; le_go H.
Qed.

Theorem eval_fuel_step f : forall e ro vs ctx st, le_res (eval f e ro vs ctx st) (eval (S f) e ro vs ctx st).
Proof.
  induction f as [|f IH]; intros; [left; reflexivity|]. apply eval_step_le. exact IH.
Qed.

Theorem eval_fuel_mono f f' e ro vs ctx st r :
  (f <= f')%nat -> eval f e ro vs ctx st = r -> r <> OutOfFuel -> eval f' e ro vs ctx st = r.
Proof.
  induction 1 as [|f' Hle IH]; intros He Hr; [assumption|].
  specialize (IH He Hr). destruct (eval_fuel_step f' e ro vs ctx st) as [Ho|Ho]; [congruence|]. congruence.
Qed.
