(* Proofs/BoundsProofs.v — lemmas about Model/Bounds.v (property C11). *)
From Coq Require Import List NArith ZArith Bool Lia Arith.
From YQ Require Import Base.Str Model.Bounds.
Import ListNotations.

(* ------------------------------------------------------------------ *)
(* generic                                                             *)
(* ------------------------------------------------------------------ *)
Lemma index_at_ok {A} site (xs : list A) (i : Z) :
  (0 <= i < Z.of_nat (length xs))%Z -> exists x, index_at site xs i = Ok x.
Proof.
  intros [H0 H1]. unfold index_at.
  destruct (Z.ltb_spec i 0) as [Hlt|_]; [lia|].
  destruct (nth_error xs (Z.to_nat i)) as [x|] eqn:E.
  - exists x. reflexivity.
  - apply nth_error_None in E. lia.
Qed.

Lemma index_at_panic {A} site (xs : list A) (i : Z) :
  (i < 0 \/ Z.of_nat (length xs) <= i)%Z -> index_at site xs i = Panic site.
Proof.
  intros H. unfold index_at.
  destruct (Z.ltb_spec i 0) as [Hlt|Hge]; [reflexivity|].
  destruct (nth_error xs (Z.to_nat i)) as [x|] eqn:E; [|reflexivity].
  assert (Hn : nth_error xs (Z.to_nat i) <> None) by congruence.
  apply nth_error_Some in Hn. lia.
Qed.

Lemma index_at_site {A} site (xs : list A) (i : Z) s :
  index_at site xs i = Panic s -> s = site.
Proof.
  unfold index_at. destruct (i <? 0)%Z; [congruence|].
  destruct (nth_error xs (Z.to_nat i)); congruence.
Qed.

(* ------------------------------------------------------------------ *)
(* slice                                                               *)
(* ------------------------------------------------------------------ *)
Lemma slice_loop_in_range {A} (content : list A) :
  forall n i, (0 <= i)%Z -> (i + Z.of_nat n <= Z.of_nat (length content))%Z ->
  slice_loop n i content = Ok (firstn n (skipn (Z.to_nat i) content)).
Proof.
  induction n as [|n IH]; intros i H0 H1.
  - reflexivity.
  - cbn [slice_loop].
    destruct (index_at_ok SliceContent content i ltac:(lia)) as [x Hx].
    rewrite Hx. cbn [obind].
    rewrite (IH (i + 1)%Z) by lia. cbn [obind].
    unfold index_at in Hx. destruct (Z.ltb_spec i 0); [lia|].
    destruct (nth_error content (Z.to_nat i)) as [y|] eqn:E; [|discriminate].
    injection Hx as ->.
    replace (Z.to_nat (i + 1)) with (S (Z.to_nat i)) by lia.
    clear -E. revert E. generalize (Z.to_nat i) as k. intro k. revert content.
    induction k as [|k IHk]; intros [|c content] E; cbn in E; try discriminate.
    + injection E as ->. reflexivity.
    + cbn [skipn]. apply IHk. exact E.
Qed.

Lemma slice_rel_second_le len s : (0 <= len)%Z -> (slice_rel_second len s <= len)%Z.
Proof.
  intros H. unfold slice_rel_second.
  destruct (Z.ltb_spec s 0); [lia|]. destruct (Z.gtb_spec s len); lia.
Qed.

Lemma slice_rel_first_nonneg len f : (0 <= len)%Z -> (0 <= slice_rel_first len f)%Z.
Proof. intros H. unfold slice_rel_first. destruct (Z.ltb_spec f 0); lia. Qed.

(* after the fix: a result for every content and every pair of bounds *)
Lemma slice_array_spec {A} (content : list A) first second :
  let len := Z.of_nat (length content) in
  let rf := slice_rel_first len first in
  let rs := slice_rel_second len second in
  slice_array content first second = Ok (firstn (Z.to_nat (rs - rf)) (skipn (Z.to_nat rf) content)).
Proof.
  cbv zeta. unfold slice_array.
  set (len := Z.of_nat (length content)).
  set (rf := slice_rel_first len first).
  set (rs := slice_rel_second len second).
  assert (Hrs : (rs <= len)%Z) by (apply slice_rel_second_le; lia).
  assert (Hrf : (0 <= rf)%Z) by (apply slice_rel_first_nonneg; lia).
  destruct (Z.le_gt_cases rs rf) as [Hle|Hgt].
  - replace (Z.to_nat (rs - rf)) with 0%nat by lia. reflexivity.
  - apply slice_loop_in_range; lia.
Qed.

Lemma slice_array_no_panic {A} (content : list A) first second s :
  slice_array content first second <> Panic s.
Proof. rewrite slice_array_spec. discriminate. Qed.

Lemma slice_node_no_panic {A} is_map (content : list A) first second s :
  slice_node is_map content first second <> Panic s.
Proof. unfold slice_node. destruct is_map; [discriminate|apply slice_array_no_panic]. Qed.

Lemma slice_array_exec_eq {A} (content : list A) first second :
  slice_array_exec content first second = slice_array content first second.
Proof.
  unfold slice_array_exec, slice_array.
  set (len := Z.of_nat (length content)).
  set (rf := slice_rel_first len first).
  set (rs := slice_rel_second len second).
  assert (Hrs : (rs <= len)%Z) by (apply slice_rel_second_le; lia).
  assert (Hrf : (0 <= rf)%Z) by (apply slice_rel_first_nonneg; lia).
  replace (Z.min (rs - rf) (len + 1)) with (rs - rf)%Z by lia. reflexivity.
Qed.

(* without the clamp (the code before the fix) the same loop panics *)
Lemma slice_loop_unclamped_panics {A} (content : list A) n i :
  (i < 0)%Z -> slice_loop (S n) i content = Panic SliceContent.
Proof. intros H. cbn [slice_loop]. rewrite index_at_panic by lia. reflexivity. Qed.

Lemma get_slice_number_no_panic results s : get_slice_number results <> Panic s.
Proof.
  unfold get_slice_number. destruct results as [|v [|w r]]; cbn; try discriminate.
  destruct (parse_int64 v); discriminate.
Qed.

(* ------------------------------------------------------------------ *)
(* traverse index                                                      *)
(* ------------------------------------------------------------------ *)
Lemma traverse_index_no_panic {A} (null : A) content index s :
  traverse_index null content index <> Panic s.
Proof.
  unfold traverse_index.
  destruct (index - Z.of_nat (length content) >=? pad_limit)%Z; [discriminate|].
  set (padded := content ++ repeat null (pad_count (Z.of_nat (length content)) index)).
  assert (Hlen : Z.of_nat (length padded) =
                 (Z.of_nat (length content) + Z.max 0 (index + 1 - Z.of_nat (length content)))%Z).
  { unfold padded. rewrite app_length, repeat_length. unfold pad_count. lia. }
  destruct (Z.ltb_spec index 0) as [Hneg|Hpos].
  - destruct (Z.ltb_spec (Z.of_nat (length padded) + index) 0); [discriminate|].
    destruct (index_at_ok TraverseContent padded (Z.of_nat (length padded) + index) ltac:(lia)) as [x Hx].
    rewrite Hx. discriminate.
  - destruct (Z.ltb_spec index 0); [lia|].
    destruct (index_at_ok TraverseContent padded index ltac:(lia)) as [x Hx].
    rewrite Hx. discriminate.
Qed.

(* the padding loop adds at most pad_limit nodes *)
Lemma traverse_index_padding_bounded {A} (null : A) content index x padded :
  traverse_index null content index = Ok (x, padded) ->
  (Z.of_nat (length padded) <= Z.of_nat (length content) + pad_limit)%Z.
Proof.
  unfold traverse_index.
  destruct (Z.geb_spec (index - Z.of_nat (length content)) pad_limit) as [Hge|Hlt]; [discriminate|].
  set (p := content ++ repeat null (pad_count (Z.of_nat (length content)) index)).
  destruct (_ <? 0)%Z; [discriminate|].
  destruct (index_at _ _ _); cbn [obind]; try discriminate.
  intros H. injection H as _ <-. unfold p. rewrite app_length, repeat_length. unfold pad_count, pad_limit in *. lia.
Qed.

Lemma traverse_rhs_no_panic {A} (context : list A) collected s :
  traverse_rhs_indices context collected <> Panic s.
Proof.
  unfold traverse_rhs_indices, collect_results.
  destruct context as [|c cs]; cbn; discriminate.
Qed.

(* ------------------------------------------------------------------ *)
(* collect object rotation                                             *)
(* ------------------------------------------------------------------ *)
Lemma rotate_column_ok {A} (cands : list (list A)) i :
  (0 <= i)%Z -> Forall (fun c => (i < Z.of_nat (length c))%Z) cands ->
  exists r, rotate_column cands i = Ok r.
Proof.
  intros Hi H. induction H as [|c cs Hc _ IH].
  - eexists. reflexivity.
  - cbn [rotate_column]. destruct (index_at_ok CollectObjectContent c i ltac:(lia)) as [x Hx].
    rewrite Hx. cbn [obind]. destruct IH as [r Hr]. rewrite Hr. cbn [obind]. eexists. reflexivity.
Qed.

Lemma rotate_cols_ok {A} (cands : list (list A)) :
  forall n i, (0 <= i)%Z ->
  Forall (fun c => (i + Z.of_nat n <= Z.of_nat (length c))%Z) cands ->
  exists r, rotate_cols cands n i = Ok r.
Proof.
  induction n as [|n IH]; intros i Hi H.
  - eexists. reflexivity.
  - cbn [rotate_cols].
    destruct (rotate_column_ok cands i Hi) as [col Hcol].
    { eapply Forall_impl; [|exact H]. cbn. intros c Hc. lia. }
    rewrite Hcol. cbn [obind].
    destruct (IH (i + 1)%Z ltac:(lia)) as [r Hr].
    { eapply Forall_impl; [|exact H]. cbn. intros c Hc. lia. }
    rewrite Hr. cbn [obind]. eexists. reflexivity.
Qed.

Lemma rotate_no_panic {A} (cands : list (list A)) s : rotate cands <> Panic s.
Proof.
  destruct cands as [|first cs]; cbn [rotate]; [discriminate|].
  destruct (forallb (fun c => (length first <=? length c)%nat) (first :: cs)) eqn:E; [|discriminate].
  rewrite forallb_forall in E.
  destruct (rotate_cols_ok (first :: cs) (length first) 0%Z ltac:(lia)) as [r Hr].
  - apply Forall_forall. intros c Hc. specialize (E c Hc). apply Nat.leb_le in E. lia.
  - rewrite Hr. discriminate.
Qed.

Lemma rotate_column_panic {A} (cands : list (list A)) i :
  (0 <= i)%Z -> Exists (fun c => (Z.of_nat (length c) <= i)%Z) cands ->
  rotate_column cands i = Panic CollectObjectContent.
Proof.
  intros Hi H. induction H as [c cs Hc|c cs _ IH].
  - cbn [rotate_column]. rewrite index_at_panic by lia. reflexivity.
  - cbn [rotate_column]. destruct (index_at CollectObjectContent c i) as [x| |s|] eqn:E; cbn [obind].
    + rewrite IH. reflexivity.
    + unfold index_at in E. destruct (i <? 0)%Z; [discriminate|]. destruct (nth_error c (Z.to_nat i)); discriminate.
    + apply index_at_site in E. subst. reflexivity.
    + unfold index_at in E. destruct (i <? 0)%Z; [discriminate|]. destruct (nth_error c (Z.to_nat i)); discriminate.
Qed.

(* ------------------------------------------------------------------ *)
(* repeat                                                              *)
(* ------------------------------------------------------------------ *)
Lemma repeat_no_panic mem slen count s :
  (repeat_bytes_limit <= mem)%Z -> (0 <= slen)%Z -> repeat_string mem slen count <> Panic s.
Proof.
  intros Hm Hs. unfold repeat_string.
  destruct (Z.ltb_spec count 0); [discriminate|].
  destruct (Z.gtb_spec count repeat_limit); [discriminate|].
  destruct (Z.ltb_spec 0 count) as [Hpos|Hz]; cbn [andb].
  - destruct (Z.gtb_spec slen (repeat_bytes_limit / count)) as [|Hle]; [discriminate|].
    assert (slen * count <= repeat_bytes_limit)%Z.
    { pose proof (Z.mul_div_le repeat_bytes_limit count Hpos). nia. }
    destruct (Z.gtb_spec (slen * count) mem); [lia|discriminate].
  - assert (count = 0)%Z by lia. subst. rewrite Z.mul_0_r.
    destruct (Z.gtb_spec 0 mem); [unfold repeat_bytes_limit in Hm; lia|discriminate].
Qed.

(* the count limit alone (the code before the fix) does not bound the product *)
Lemma repeat_count_limit_insufficient :
  exists slen count, (0 <= count <= repeat_limit)%Z /\ (slen * count > 2 ^ 46)%Z.
Proof. exists 10000000%Z, 10000000%Z. vm_compute. repeat split; discriminate. Qed.

(* ------------------------------------------------------------------ *)
(* deepMatch: the restart loop terminates within deep_match_fuel       *)
(* ------------------------------------------------------------------ *)
Section Glob.
  Variables name pat : str.
  Let N := length name.
  Let P := length pat.
  Let K := (P + N + 3)%nat.

  Definition g_inv (s : gst) : Prop :=
    (g_npx s <= g_px s)%nat /\ (g_nnx s <= S (g_nx s))%nat /\ (g_px s <= P)%nat /\ (g_nx s <= N)%nat /\
    ((0 < g_nnx s)%nat -> nth_error pat (g_npx s) = Some 42).

  Definition g_flag (s : gst) : bool :=
    (g_px s =? g_npx s)%nat && (g_nx s =? g_nnx s)%nat && (0 <? g_nnx s)%nat.

  Definition g_e (s : gst) : nat := (g_nnx s + if g_flag s then 1 else 0)%nat.

  Definition g_measure (s : gst) : nat :=
    ((N + 3 - g_e s) * K + (P - g_px s) + (N - g_nx s))%nat.

  Lemma g_flag_star s : g_inv s -> g_flag s = true -> nth_error pat (g_px s) = Some 42.
  Proof.
    intros (_&_&_&_&Hs) Hf. unfold g_flag in Hf.
    apply andb_true_iff in Hf as [Hf H3]. apply andb_true_iff in Hf as [H1 H2].
    apply Nat.eqb_eq in H1. apply Nat.ltb_lt in H3. rewrite H1. apply Hs. exact H3.
  Qed.

  Lemma g_flag_false_px s : g_px s <> g_npx s -> g_flag s = false.
  Proof.
    intros H. unfold g_flag. apply Nat.eqb_neq in H. rewrite H. reflexivity.
  Qed.

  Lemma g_restart_dec s s' :
    g_inv s -> nth_error pat (g_px s) <> Some 42 ->
    g_restart name s = GNext s' -> g_inv s' /\ (g_measure s' < g_measure s)%nat.
  Proof.
    intros Hinv Hns Hr. unfold g_restart in Hr.
    destruct ((0 <? g_nnx s)%nat && (g_nnx s <=? length name)%nat) eqn:G; [|discriminate].
    injection Hr as <-. apply andb_true_iff in G as [G1 G2].
    apply Nat.ltb_lt in G1. apply Nat.leb_le in G2. fold N in G2.
    assert (Hf : g_flag s = false).
    { destruct (g_flag s) eqn:F; [|reflexivity]. exfalso. apply Hns. apply g_flag_star; assumption. }
    destruct Hinv as (I1&I2&I3&I4&I5).
    split.
    - unfold g_inv; cbn. repeat split; try lia. exact I5.
    - unfold g_measure, g_e. rewrite Hf. unfold g_flag; cbn [g_px g_nx g_npx g_nnx].
      rewrite !Nat.eqb_refl. cbn [andb]. destruct (Nat.ltb_spec 0 (g_nnx s)) as [_|?]; [|lia].
      rewrite Nat.add_0_r.
      replace (N + 3 - g_nnx s)%nat with (S (N + 3 - (g_nnx s + 1)))%nat by lia.
      rewrite Nat.mul_succ_l. unfold K at 2. lia.
  Qed.

  Lemma g_adv_dec s :
    g_inv s -> nth_error pat (g_px s) <> Some 42 -> (g_px s < P)%nat -> (g_nx s < N)%nat ->
    g_inv (g_adv s) /\ (g_measure (g_adv s) < g_measure s)%nat.
  Proof.
    intros Hinv Hns Hp Hn.
    assert (Hf : g_flag s = false).
    { destruct (g_flag s) eqn:F; [|reflexivity]. exfalso. apply Hns. apply g_flag_star; assumption. }
    destruct Hinv as (I1&I2&I3&I4&I5).
    split.
    - unfold g_inv, g_adv; cbn. repeat split; try lia. exact I5.
    - unfold g_measure, g_e. rewrite Hf.
      assert (Hf' : g_flag (g_adv s) = false).
      { apply g_flag_false_px. unfold g_adv; cbn [g_px g_npx]. lia. }
      rewrite Hf'. unfold g_adv; cbn [g_px g_nx g_npx g_nnx]. lia.
  Qed.

  Lemma g_step_dec s s' :
    g_inv s -> g_step name pat s = GNext s' -> g_inv s' /\ (g_measure s' < g_measure s)%nat.
  Proof.
    intros Hinv Hst. unfold g_step in Hst.
    destruct ((g_px s <? length pat)%nat || (g_nx s <? length name)%nat) eqn:C; [|discriminate].
    destruct (nth_error pat (g_px s)) as [c|] eqn:Ec.
    - assert (Hp : (g_px s < P)%nat) by (apply nth_error_Some; congruence).
      destruct (N.eqb_spec c 42) as [->|Hc42].
      + (* star *)
        injection Hst as <-. destruct Hinv as (I1&I2&I3&I4&I5).
        split.
        * unfold g_inv; cbn. repeat split; try lia. intros _. exact Ec.
        * unfold g_measure, g_e.
          assert (Hf' : g_flag {| g_px := S (g_px s); g_nx := g_nx s; g_npx := g_px s; g_nnx := S (g_nx s) |} = false).
          { apply g_flag_false_px. cbn [g_px g_npx]. lia. }
          rewrite Hf'. cbn [g_px g_nx g_npx g_nnx].
          assert (He : (g_nnx s + (if g_flag s then 1 else 0) <= S (g_nx s) + 0)%nat).
          { destruct (g_flag s) eqn:F; [|lia]. unfold g_flag in F.
            apply andb_true_iff in F as [F _]. apply andb_true_iff in F as [_ F]. apply Nat.eqb_eq in F. lia. }
          assert (Hm : ((N + 3 - (S (g_nx s) + 0)) * K <= (N + 3 - (g_nnx s + (if g_flag s then 1 else 0))) * K)%nat).
          { apply Nat.mul_le_mono_r. lia. }
          lia.
      + assert (Hns : nth_error pat (g_px s) <> Some 42) by (rewrite Ec; congruence).
        destruct (N.eqb_spec c 63) as [->|Hc63].
        * destruct (Nat.ltb_spec (g_nx s) (length name)) as [Hn|Hn].
          -- injection Hst as <-. apply g_adv_dec; assumption.
          -- apply g_restart_dec; assumption.
        * destruct (nth_error name (g_nx s)) as [d|] eqn:Ed.
          -- destruct (N.eqb_spec d c).
             ++ injection Hst as <-. apply g_adv_dec; try assumption. apply nth_error_Some. congruence.
             ++ apply g_restart_dec; assumption.
          -- apply g_restart_dec; assumption.
    - apply g_restart_dec; try assumption. rewrite Ec. discriminate.
  Qed.

  Lemma g_loop_fuel : forall fuel s,
    g_inv s -> (g_measure s < fuel)%nat -> exists b, g_loop fuel name pat s = Ok b.
  Proof.
    induction fuel as [|f IH]; intros s Hinv Hm; [lia|].
    cbn [g_loop]. destruct (g_step name pat s) as [b|s'] eqn:E.
    - exists b. reflexivity.
    - destruct (g_step_dec s s' Hinv E) as [Hinv' Hdec]. apply IH; [assumption|lia].
  Qed.

  Lemma deep_match_total : exists b, deep_match name pat = Ok b.
  Proof.
    unfold deep_match. apply g_loop_fuel.
    - unfold g_inv, g_init; cbn. repeat split; lia.
    - unfold g_measure, g_e, g_flag, g_init, deep_match_fuel; cbn [g_px g_nx g_npx g_nnx].
      cbn [Nat.eqb Nat.ltb Nat.leb andb]. fold N P K.
      replace (N + 3 - (0 + 0))%nat with (N + 3)%nat by lia.
      replace ((N + 4) * K)%nat with ((N + 3) * K + K)%nat by lia. unfold K at 3. lia.
  Qed.
End Glob.

Lemma match_key_total name pat : exists b, match_key name pat = Ok b.
Proof.
  unfold match_key. destruct pat as [|c r].
  - eexists. reflexivity.
  - destruct (str_eqb (c :: r) [42]).
    + eexists. reflexivity.
    + apply deep_match_total.
Qed.

(* ------------------------------------------------------------------ *)
(* alias graphs                                                        *)
(* ------------------------------------------------------------------ *)
Section Alias.
  Variable env : nat -> option anode.
  Variable rank : nat -> nat.
  Hypothesis Hrank : forall a t, env a = Some t -> forall b, alias_in b t -> env b <> None -> (rank b < rank a)%nat.

  Definition terminates_from (n : anode) : Prop :=
    exists fuel0, forall fuel, (fuel0 <= fuel)%nat -> exists k, unfold fuel env n = Ok k.

  Lemma unfold_rank : forall r n,
    (forall b, alias_in b n -> env b <> None -> (rank b < r)%nat) -> terminates_from n.
  Proof.
    induction r as [r IHr] using lt_wf_ind. induction n as [|l IHl rr IHrr|t]; intros Hb.
    - exists 1%nat. intros [|f] Hf; [lia|]. exists 1%nat. reflexivity.
    - destruct IHl as [f1 H1]. { intros b Hin. apply Hb. left. exact Hin. }
      destruct IHrr as [f2 H2]. { intros b Hin. apply Hb. right. exact Hin. }
      exists (S (Nat.max f1 f2)). intros [|f] Hf; [lia|].
      cbn [unfold]. destruct (H1 f ltac:(lia)) as [a Ha]. destruct (H2 f ltac:(lia)) as [b Hb'].
      rewrite Ha, Hb'. cbn [obind]. eexists. reflexivity.
    - destruct (env t) as [tgt|] eqn:E.
      + assert (Ht : (rank t < r)%nat). { apply Hb; [reflexivity|congruence]. }
        destruct (IHr (rank t) Ht tgt) as [f0 H0]. { intros b Hin Hne. eapply Hrank; eassumption. }
        exists (S f0). intros [|f] Hf; [lia|]. cbn [unfold]. rewrite E. apply H0. lia.
      + exists 1%nat. intros [|f] Hf; [lia|]. cbn [unfold]. rewrite E. eexists. reflexivity.
  Qed.

  Fixpoint rank_bound (n : anode) : nat :=
    match n with
    | AScalar => 0
    | ANode l r => Nat.max (rank_bound l) (rank_bound r)
    | AAlias t => S (rank t)
    end.

  Lemma rank_bound_spec n b : alias_in b n -> (rank b < rank_bound n)%nat.
  Proof.
    induction n as [|l IHl r IHr|t]; cbn [alias_in rank_bound].
    - intros [].
    - intros [H|H]; [apply IHl in H|apply IHr in H]; lia.
    - intros ->. lia.
  Qed.

  Lemma unfold_terminates n : terminates_from n.
  Proof.
    apply (unfold_rank (rank_bound n)). intros b Hin _. apply rank_bound_spec. exact Hin.
  Qed.
End Alias.

Lemma unfold_acyclic_total env n :
  acyclic env -> exists fuel k, unfold fuel env n = Ok k.
Proof.
  intros [rank Hrank]. destruct (unfold_terminates env rank Hrank n) as [f0 H].
  exists f0. apply H. lia.
Qed.

Lemma unfold_self_ref_diverges : forall fuel,
  unfold fuel self_ref_env (AAlias 0) = OutOfFuel /\
  unfold fuel self_ref_env (ANode (AAlias 0) AScalar) = OutOfFuel.
Proof.
  induction fuel as [|f [IH1 IH2]]; [split; reflexivity|].
  split.
  - cbn [unfold self_ref_env]. exact IH2.
  - cbn [unfold]. rewrite IH1. reflexivity.
Qed.

Lemma self_ref_not_acyclic : ~ acyclic self_ref_env.
Proof.
  intros [rank H]. specialize (H 0%nat _ eq_refl 0%nat). cbn in H.
  assert (rank 0%nat < rank 0%nat)%nat; [apply H; [left; reflexivity|discriminate]|lia].
Qed.

(* ------------------------------------------------------------------ *)
(* work of the padding loop                                            *)
(* ------------------------------------------------------------------ *)
Lemma pad_count_Z len index :
  Z.of_nat (pad_count len index) = Z.max 0 (index + 1 - len).
Proof. unfold pad_count. lia. Qed.
