(* Proofs/Base64Proofs.v — lemmas for C14 (base64): round trip for every
   byte string, shape of the encoder output, decoding of unpadded text, and
   the newline-counting defect of yq's padder. *)
From Coq Require Import ZArith Lia.
From YQ Require Import Base.Str Model.Base64.

(* ---------- lifting finite sweeps ---------- *)
Definition below (n : nat) : list N := List.map N.of_nat (seq 0 n).

Lemma below_forall (P : N -> bool) (n : nat) :
  forallb P (below n) = true -> forall v, v < N.of_nat n -> P v = true.
Proof.
  intros H v Hv. rewrite forallb_forall in H. apply H.
  unfold below. apply in_map_iff. exists (N.to_nat v). split.
  - apply N2Nat.id.
  - apply in_seq. lia.
Qed.

Lemma sweep_val_char :
  forallb (fun v => match b64_val (b64_char v) with Some w => w =? v | None => false end) (below 64) = true.
Proof. vm_compute. reflexivity. Qed.

Lemma b64_val_char v : v < 64 -> b64_val (b64_char v) = Some v.
Proof.
  intro Hv. pose proof (below_forall _ 64 sweep_val_char v Hv) as H. cbv beta in H.
  destruct (b64_val (b64_char v)) as [w|]; [|discriminate].
  apply N.eqb_eq in H. congruence.
Qed.

Lemma sweep_char_plain :
  forallb (fun v => negb (is_newline (b64_char v)) && negb (b64_char v =? c_pad)) (below 64) = true.
Proof. vm_compute. reflexivity. Qed.

Lemma b64_char_plain v : v < 64 -> is_newline (b64_char v) = false /\ (b64_char v =? c_pad) = false.
Proof.
  intro Hv. pose proof (below_forall _ 64 sweep_char_plain v Hv) as H. cbv beta in H.
  apply andb_true_iff in H as [H1 H2]. apply negb_true_iff in H1, H2. split; assumption.
Qed.

(* the alphabet as a predicate *)
Definition b64_alpha (c : N) : bool :=
  ((65 <=? c) && (c <=? 90)) || ((97 <=? c) && (c <=? 122)) || ((48 <=? c) && (c <=? 57)) || (c =? 43) || (c =? 47).

Lemma sweep_char_alpha : forallb (fun v => b64_alpha (b64_char v)) (below 64) = true.
Proof. vm_compute. reflexivity. Qed.

Lemma b64_char_alpha v : v < 64 -> b64_alpha (b64_char v) = true.
Proof. intro Hv. exact (below_forall _ 64 sweep_char_alpha v Hv). Qed.

(* ---------- the bit arithmetic of one group ---------- *)
Lemma recompose n : n < 16777216 ->
  (n / 262144) * 262144 + ((n / 4096) mod 64) * 4096 + ((n / 64) mod 64) * 64 + n mod 64 = n
  /\ n / 262144 < 64.
Proof.
  intro H.
  pose proof (N.div_mod n 64 ltac:(lia)) as E1.
  pose proof (N.div_mod (n/64) 64 ltac:(lia)) as E2.
  pose proof (N.div_mod (n/4096) 64 ltac:(lia)) as E3.
  rewrite N.div_div in E2 by lia. rewrite N.div_div in E3 by lia.
  change (64*64) with 4096 in *. change (4096*64) with 262144 in *.
  assert (B : n / 262144 < 64) by (apply N.div_lt_upper_bound; lia).
  split; [lia|exact B].
Qed.

Lemma bytes3 a b c : a < 256 -> b < 256 -> c < 256 ->
  let n := a * 65536 + b * 256 + c in
  n < 16777216 /\ n / 65536 = a /\ (n / 256) mod 256 = b /\ n mod 256 = c.
Proof.
  intros Ha Hb Hc n. subst n. split; [lia|].
  split; [|split].
  - symmetry. apply (N.div_unique _ _ _ (b*256+c)); lia.
  - assert ((a * 65536 + b * 256 + c) / 256 = a * 256 + b) as ->.
    { symmetry. apply (N.div_unique _ _ _ c); lia. }
    symmetry. apply (N.mod_unique _ _ a); lia.
  - symmetry. apply (N.mod_unique _ _ (a*256+b)); lia.
Qed.

Lemma mod64_lt x : x mod 64 < 64.
Proof. apply N.mod_lt. lia. Qed.

Lemma group3 a b c : a < 256 -> b < 256 -> c < 256 ->
  let n := a * 65536 + b * 256 + c in
  let m := (n / 262144) * 262144 + ((n / 4096) mod 64) * 4096 + ((n / 64) mod 64) * 64 + n mod 64 in
  n / 262144 < 64 /\ (n / 4096) mod 64 < 64 /\ (n / 64) mod 64 < 64 /\ n mod 64 < 64 /\
  m / 65536 = a /\ (m / 256) mod 256 = b /\ m mod 256 = c.
Proof.
  intros Ha Hb Hc n m.
  destruct (bytes3 a b c Ha Hb Hc) as (Hn & E1 & E2 & E3). fold n in Hn, E1, E2, E3.
  destruct (recompose n Hn) as (Hm & B). fold m in Hm. rewrite Hm.
  repeat split; try apply mod64_lt; assumption.
Qed.

(* the last partial groups: the low bits that are not transmitted are zero *)
Lemma low_zero_64 n : n mod 256 = 0 -> n mod 64 = 0.
Proof.
  intro H. pose proof (N.div_mod n 256 ltac:(lia)) as E. rewrite H in E.
  rewrite E. replace (256 * (n / 256) + 0) with ((4 * (n / 256)) * 64) by lia.
  apply N.mod_mul. lia.
Qed.

Lemma group2 a b : a < 256 -> b < 256 ->
  let n := a * 65536 + b * 256 in
  let m := (n / 262144) * 262144 + ((n / 4096) mod 64) * 4096 + ((n / 64) mod 64) * 64 in
  n / 262144 < 64 /\ (n / 4096) mod 64 < 64 /\ (n / 64) mod 64 < 64 /\
  m / 65536 = a /\ (m / 256) mod 256 = b.
Proof.
  intros Ha Hb n m.
  pose proof (bytes3 a b 0 Ha Hb ltac:(lia)) as H3. cbv zeta in H3.
  replace (a * 65536 + b * 256 + 0) with n in H3 by (subst n; lia).
  destruct H3 as (Hn & E1 & E2 & E3).
  destruct (recompose n Hn) as (Hm & B). rewrite (low_zero_64 n E3), N.add_0_r in Hm.
  fold m in Hm. rewrite Hm.
  repeat split; try apply mod64_lt; assumption.
Qed.

Lemma group1 a : a < 256 ->
  let n := a * 65536 in
  let m := (n / 262144) * 262144 + ((n / 4096) mod 64) * 4096 in
  n / 262144 < 64 /\ (n / 4096) mod 64 < 64 /\ m / 65536 = a.
Proof.
  intros Ha n m.
  pose proof (bytes3 a 0 0 Ha ltac:(lia) ltac:(lia)) as H3. cbv zeta in H3.
  replace (a * 65536 + 0 * 256 + 0) with n in H3 by (subst n; lia).
  destruct H3 as (Hn & E1 & E2 & E3).
  destruct (recompose n Hn) as (Hm & B). rewrite (low_zero_64 n E3), N.add_0_r in Hm.
  assert (Z : (n / 64) mod 64 = 0).
  { subst n. replace (a * 65536) with ((a * 16) * 64 * 64) by lia.
    rewrite N.div_mul by lia. apply N.mod_mul. lia. }
  rewrite Z in Hm. cbn [N.mul] in Hm. rewrite N.add_0_r in Hm.
  fold m in Hm. rewrite Hm.
  repeat split; try apply mod64_lt; assumption.
Qed.

(* ---------- induction three bytes at a time ---------- *)
Lemma list_ind3 (P : str -> Prop) :
  P [] -> (forall a, P [a]) -> (forall a b, P [a; b]) ->
  (forall a b c r, P r -> P (a :: b :: c :: r)) -> forall l, P l.
Proof.
  intros H0 H1 H2 H3.
  assert (H : forall l, P l /\ (forall a, P (a :: l)) /\ (forall a b, P (a :: b :: l))).
  { induction l as [|x l (IH0 & IH1 & IH2)].
    - repeat split; auto.
    - split; [apply IH1|]. split; [intro a; apply IH2|]. intros a b. apply H3. exact IH0. }
  intro l. apply H.
Qed.

(* ---------- round trip on whole quanta ---------- *)
Lemma b64_quanta_roundtrip s : bytes s -> b64_decode_quanta (b64_encode s) = B64Ok s.
Proof.
  induction s as [|a|a b|a b c r IH] using list_ind3; intro Hs.
  - reflexivity.
  - inversion Hs as [|? ? Ha _]; subst. unfold is_byte in Ha.
    destruct (group1 a Ha) as (L1 & L2 & E1).
    cbn [b64_encode b64_decode_quanta].
    rewrite (b64_val_char _ L1), (b64_val_char _ L2).
    rewrite N.eqb_refl. cbn [b64_after_pad]. f_equal. f_equal. exact E1.
  - inversion Hs as [|? ? Ha Hs']; subst. inversion Hs' as [|? ? Hb _]; subst. unfold is_byte in Ha, Hb.
    destruct (group2 a b Ha Hb) as (L1 & L2 & L3 & E1 & E2).
    cbn [b64_encode b64_decode_quanta].
    rewrite (b64_val_char _ L1), (b64_val_char _ L2), (b64_val_char _ L3).
    rewrite (proj2 (b64_char_plain _ L3)). rewrite N.eqb_refl. cbv zeta. cbn [b64_after_pad].
    f_equal. f_equal; [exact E1|]. f_equal. exact E2.
  - inversion Hs as [|? ? Ha Hs1]; subst. inversion Hs1 as [|? ? Hb Hs2]; subst.
    inversion Hs2 as [|? ? Hc Hr]; subst. unfold is_byte in Ha, Hb, Hc.
    destruct (group3 a b c Ha Hb Hc) as (L1 & L2 & L3 & L4 & E1 & E2 & E3).
    cbn [b64_encode b64_decode_quanta].
    rewrite (b64_val_char _ L1), (b64_val_char _ L2), (b64_val_char _ L3), (b64_val_char _ L4).
    rewrite (proj2 (b64_char_plain _ L3)), (proj2 (b64_char_plain _ L4)).
    rewrite (IH Hr). cbn [b64_cons3]. rewrite E1, E2, E3. reflexivity.
Qed.

(* ---------- shape of the encoder output ---------- *)
Lemma b64_encode_length s : (N.of_nat (length (b64_encode s))) mod 4 = 0.
Proof.
  induction s as [|a|a b|a b c r IH] using list_ind3; try reflexivity.
  cbn [b64_encode length]. rewrite !Nat2N.inj_succ.
  replace (N.succ (N.succ (N.succ (N.succ (N.of_nat (length (b64_encode r))))))) with (N.of_nat (length (b64_encode r)) + 1 * 4) by lia.
  rewrite N.mod_add by lia. exact IH.
Qed.

Lemma b64_encode_no_newline s : bytes s -> strip_newlines (b64_encode s) = b64_encode s.
Proof.
  induction s as [|a|a b|a b c r IH] using list_ind3; intro Hs.
  - reflexivity.
  - inversion Hs as [|? ? Ha _]; subst. destruct (group1 a Ha) as (L1 & L2 & _).
    cbn [b64_encode strip_newlines].
    rewrite (proj1 (b64_char_plain _ L1)), (proj1 (b64_char_plain _ L2)). reflexivity.
  - inversion Hs as [|? ? Ha Hs']; subst. inversion Hs' as [|? ? Hb _]; subst.
    destruct (group2 a b Ha Hb) as (L1 & L2 & L3 & _).
    cbn [b64_encode strip_newlines].
    rewrite (proj1 (b64_char_plain _ L1)), (proj1 (b64_char_plain _ L2)), (proj1 (b64_char_plain _ L3)). reflexivity.
  - inversion Hs as [|? ? Ha Hs1]; subst. inversion Hs1 as [|? ? Hb Hs2]; subst.
    inversion Hs2 as [|? ? Hc Hr]; subst.
    destruct (group3 a b c Ha Hb Hc) as (L1 & L2 & L3 & L4 & _).
    cbn [b64_encode strip_newlines].
    rewrite (proj1 (b64_char_plain _ L1)), (proj1 (b64_char_plain _ L2)),
            (proj1 (b64_char_plain _ L3)), (proj1 (b64_char_plain _ L4)), (IH Hr). reflexivity.
Qed.

Lemma b64_pad_count_step c1 c2 c3 c4 X :
  b64_pad_count (c1 :: c2 :: c3 :: c4 :: X) = b64_pad_count X.
Proof.
  unfold b64_pad_count. cbn [length]. rewrite !Nat2N.inj_succ.
  replace (N.succ (N.succ (N.succ (N.succ (N.of_nat (length X)))))) with (N.of_nat (length X) + 1 * 4) by lia.
  rewrite N.mod_add by lia. reflexivity.
Qed.

Lemma b64_pad_count_encode s : b64_pad_count (b64_encode s) = O.
Proof. unfold b64_pad_count. rewrite b64_encode_length. reflexivity. Qed.

(* one full quantum at the head of the stream *)
Lemma b64_stream_step v1 v2 v3 v4 X p : v1 < 64 -> v2 < 64 -> v3 < 64 -> v4 < 64 ->
  b64_stream (b64_char v1 :: b64_char v2 :: b64_char v3 :: b64_char v4 :: X) p =
  let n := v1 * 262144 + v2 * 4096 + v3 * 64 + v4 in
  b64_cons3 (n / 65536) ((n / 256) mod 256) (n mod 256) (b64_stream X p).
Proof.
  intros L1 L2 L3 L4. unfold b64_stream. cbn [split_quanta].
  destruct (split_quanta X) as [a0 b0]. cbn [b64_decode_quanta].
  rewrite (b64_val_char _ L1), (b64_val_char _ L2), (b64_val_char _ L3), (b64_val_char _ L4).
  rewrite (proj2 (b64_char_plain _ L3)), (proj2 (b64_char_plain _ L4)). cbv zeta.
  destruct (b64_decode_quanta a0) as [w1|e1]; cbn [b64_cons3]; [|reflexivity].
  destruct (split_quanta (b0 ++ repeat_n c_pad p)) as [a2 b2].
  destruct (b64_decode_quanta a2) as [w2|e2]; [|reflexivity].
  destruct b2; reflexivity.
Qed.

Lemma b64_stream_roundtrip s : bytes s -> b64_stream (b64_encode s) O = B64Ok s.
Proof.
  induction s as [|a|a b|a b c r IH] using list_ind3; intro Hs.
  - reflexivity.
  - inversion Hs as [|? ? Ha _]; subst. unfold is_byte in Ha.
    destruct (group1 a Ha) as (L1 & L2 & E1).
    unfold b64_stream. cbn [b64_encode split_quanta b64_decode_quanta].
    rewrite (b64_val_char _ L1), (b64_val_char _ L2).
    rewrite N.eqb_refl. cbn [b64_after_pad app repeat_n split_quanta b64_decode_quanta]. rewrite E1. reflexivity.
  - inversion Hs as [|? ? Ha Hs']; subst. inversion Hs' as [|? ? Hb _]; subst. unfold is_byte in Ha, Hb.
    destruct (group2 a b Ha Hb) as (L1 & L2 & L3 & E1 & E2).
    unfold b64_stream. cbn [b64_encode split_quanta b64_decode_quanta].
    rewrite (b64_val_char _ L1), (b64_val_char _ L2), (b64_val_char _ L3).
    rewrite (proj2 (b64_char_plain _ L3)). rewrite N.eqb_refl. cbv zeta.
    cbn [b64_after_pad app repeat_n split_quanta b64_decode_quanta]. rewrite E1, E2. reflexivity.
  - inversion Hs as [|? ? Ha Hs1]; subst. inversion Hs1 as [|? ? Hb Hs2]; subst.
    inversion Hs2 as [|? ? Hc Hr]; subst. unfold is_byte in Ha, Hb, Hc.
    destruct (group3 a b c Ha Hb Hc) as (L1 & L2 & L3 & L4 & E1 & E2 & E3).
    cbn [b64_encode]. rewrite (b64_stream_step _ _ _ _ _ _ L1 L2 L3 L4). cbv zeta.
    rewrite (IH Hr). cbn [b64_cons3]. rewrite E1, E2, E3. reflexivity.
Qed.

Theorem b64_roundtrip s : bytes s -> b64_decode (b64_encode s) = B64Ok s.
Proof.
  intro Hs. unfold b64_decode. rewrite (b64_encode_no_newline s Hs), b64_pad_count_encode.
  exact (b64_stream_roundtrip s Hs).
Qed.

(* well-formedness: alphabet characters, then at most two pad characters, and
   the length is a multiple of four (so a strict RFC 4648 reader accepts it) *)
Definition b64_wf (t : str) : Prop :=
  exists body pad, t = body ++ pad /\ forallb b64_alpha body = true /\
    (pad = [] \/ pad = [c_pad] \/ pad = [c_pad; c_pad]) /\ N.of_nat (length t) mod 4 = 0.

Lemma b64_encode_body s : bytes s ->
  exists body pad, b64_encode s = body ++ pad /\ forallb b64_alpha body = true /\
    (pad = [] \/ pad = [c_pad] \/ pad = [c_pad; c_pad]).
Proof.
  induction s as [|a|a b|a b c r IH] using list_ind3; intro Hs.
  - exists [], []. repeat split. left. reflexivity.
  - inversion Hs as [|? ? Ha _]; subst. destruct (group1 a Ha) as (L1 & L2 & _).
    eexists [_; _], [c_pad; c_pad]. split; [reflexivity|]. split.
    + cbn [forallb]. rewrite (b64_char_alpha _ L1), (b64_char_alpha _ L2). reflexivity.
    + right. right. reflexivity.
  - inversion Hs as [|? ? Ha Hs']; subst. inversion Hs' as [|? ? Hb _]; subst.
    destruct (group2 a b Ha Hb) as (L1 & L2 & L3 & _).
    eexists [_; _; _], [c_pad]. split; [reflexivity|]. split.
    + cbn [forallb]. rewrite (b64_char_alpha _ L1), (b64_char_alpha _ L2), (b64_char_alpha _ L3). reflexivity.
    + right. left. reflexivity.
  - inversion Hs as [|? ? Ha Hs1]; subst. inversion Hs1 as [|? ? Hb Hs2]; subst.
    inversion Hs2 as [|? ? Hc Hr]; subst.
    destruct (group3 a b c Ha Hb Hc) as (L1 & L2 & L3 & L4 & _).
    destruct (IH Hr) as (body & pad & E & Hb' & Hp).
    eexists (_ :: _ :: _ :: _ :: body), pad. split; [|split].
    + cbn [b64_encode]. rewrite E. reflexivity.
    + cbn [forallb]. rewrite (b64_char_alpha _ L1), (b64_char_alpha _ L2), (b64_char_alpha _ L3), (b64_char_alpha _ L4). exact Hb'.
    + exact Hp.
Qed.

Theorem b64_wellformed s : bytes s -> b64_wf (b64_encode s).
Proof.
  intro Hs. destruct (b64_encode_body s Hs) as (body & pad & E & Hb & Hp).
  exists body, pad. repeat split; try assumption. apply b64_encode_length.
Qed.

(* ---------- unpadded text (what the padder is for) ---------- *)
Lemma alpha_not_pad c : b64_alpha c = true -> (c =? c_pad) = false.
Proof.
  unfold b64_alpha, c_pad. intro H. apply N.eqb_neq. intros ->. vm_compute in H. discriminate.
Qed.

Lemma strip_pad_body body pad : forallb b64_alpha body = true ->
  (pad = [] \/ pad = [c_pad] \/ pad = [c_pad; c_pad]) -> strip_pad (body ++ pad) = body.
Proof.
  intros Hb Hp. induction body as [|c body IH].
  - destruct Hp as [->|[->| ->]]; reflexivity.
  - cbn [forallb] in Hb. apply andb_true_iff in Hb as [Hc Hb].
    cbn [app strip_pad]. rewrite (alpha_not_pad c Hc), (IH Hb). reflexivity.
Qed.

Lemma alpha_not_newline c : b64_alpha c = true -> is_newline c = false.
Proof.
  unfold is_newline, c_lf, c_cr. intro H.
  destruct (c =? 10) eqn:E1; [apply N.eqb_eq in E1; subst c; vm_compute in H; discriminate|].
  destruct (c =? 13) eqn:E2; [apply N.eqb_eq in E2; subst c; vm_compute in H; discriminate|].
  reflexivity.
Qed.

Lemma alpha_no_newlines body : forallb b64_alpha body = true -> strip_newlines body = body.
Proof.
  induction body as [|c body IH]; [reflexivity|]. cbn [forallb]. intro H.
  apply andb_true_iff in H as [Hc Hb]. cbn [strip_newlines].
  rewrite (alpha_not_newline c Hc), (IH Hb). reflexivity.
Qed.

Lemma b64_stream_unpadded s : bytes s ->
  b64_stream (strip_pad (b64_encode s)) (b64_pad_count (strip_pad (b64_encode s))) = B64Ok s.
Proof.
  induction s as [|a|a b|a b c r IH] using list_ind3; intro Hs.
  - reflexivity.
  - inversion Hs as [|? ? Ha _]; subst. unfold is_byte in Ha.
    destruct (group1 a Ha) as (L1 & L2 & E1).
    cbn [b64_encode strip_pad].
    rewrite (proj2 (b64_char_plain _ L1)), (proj2 (b64_char_plain _ L2)). rewrite N.eqb_refl.
    change (b64_pad_count [b64_char (a * 65536 / 262144); b64_char ((a * 65536 / 4096) mod 64)]) with 2%nat.
    unfold b64_stream. cbn [split_quanta b64_decode_quanta app repeat_n].
    rewrite (b64_val_char _ L1), (b64_val_char _ L2).
    rewrite N.eqb_refl. cbn [b64_after_pad app]. rewrite E1. reflexivity.
  - inversion Hs as [|? ? Ha Hs']; subst. inversion Hs' as [|? ? Hb _]; subst. unfold is_byte in Ha, Hb.
    destruct (group2 a b Ha Hb) as (L1 & L2 & L3 & E1 & E2).
    cbn [b64_encode strip_pad].
    rewrite (proj2 (b64_char_plain _ L1)), (proj2 (b64_char_plain _ L2)), (proj2 (b64_char_plain _ L3)). rewrite N.eqb_refl.
    match goal with |- b64_stream ?t (b64_pad_count ?t) = _ => change (b64_pad_count t) with 1%nat end.
    unfold b64_stream. cbn [split_quanta b64_decode_quanta app repeat_n].
    rewrite (b64_val_char _ L1), (b64_val_char _ L2), (b64_val_char _ L3).
    rewrite (proj2 (b64_char_plain _ L3)). rewrite N.eqb_refl. cbv zeta.
    cbn [b64_after_pad app]. rewrite E1, E2. reflexivity.
  - inversion Hs as [|? ? Ha Hs1]; subst. inversion Hs1 as [|? ? Hb Hs2]; subst.
    inversion Hs2 as [|? ? Hc Hr]; subst. unfold is_byte in Ha, Hb, Hc.
    destruct (group3 a b c Ha Hb Hc) as (L1 & L2 & L3 & L4 & E1 & E2 & E3).
    cbn [b64_encode strip_pad].
    rewrite (proj2 (b64_char_plain _ L1)), (proj2 (b64_char_plain _ L2)),
            (proj2 (b64_char_plain _ L3)), (proj2 (b64_char_plain _ L4)).
    rewrite b64_pad_count_step, (b64_stream_step _ _ _ _ _ _ L1 L2 L3 L4). cbv zeta.
    rewrite (IH Hr). cbn [b64_cons3]. rewrite E1, E2, E3. reflexivity.
Qed.

Theorem b64_unpadded_roundtrip s : bytes s -> b64_decode (strip_pad (b64_encode s)) = B64Ok s.
Proof.
  intro Hs. unfold b64_decode.
  destruct (b64_encode_body s Hs) as (body & pad & E & Hb & Hp).
  assert (Hn : strip_newlines (strip_pad (b64_encode s)) = strip_pad (b64_encode s)).
  { rewrite E, (strip_pad_body _ _ Hb Hp). exact (alpha_no_newlines body Hb). }
  rewrite Hn. exact (b64_stream_unpadded s Hs).
Qed.

(* ---------- line-wrapped / newline-terminated text ---------- *)
Lemma strip_newlines_app a b : strip_newlines (a ++ b) = strip_newlines a ++ strip_newlines b.
Proof.
  induction a as [|c a IH]; [reflexivity|]. cbn [app strip_newlines].
  destruct (is_newline c); [exact IH|]. cbn [app]. rewrite IH. reflexivity.
Qed.

Lemma strip_newlines_idem s : strip_newlines (strip_newlines s) = strip_newlines s.
Proof.
  induction s as [|c s IH]; [reflexivity|]. cbn [strip_newlines].
  destruct (is_newline c) eqn:E; [exact IH|]. cbn [strip_newlines]. rewrite E, IH. reflexivity.
Qed.

(* The repaired reader (pad by the number of non-newline characters) decodes
   every text that is an encoding with CR/LF inserted anywhere. *)
(* text with CR / LF inserted anywhere (line-wrapped, newline-terminated),
   padded or not, decodes to the bytes *)
Theorem b64_accepts_newlines s t : bytes s ->
  (strip_newlines t = b64_encode s \/ strip_newlines t = strip_pad (b64_encode s)) -> b64_decode t = B64Ok s.
Proof.
  intros Hs [Ht|Ht]; unfold b64_decode; rewrite Ht.
  - rewrite b64_pad_count_encode. exact (b64_stream_roundtrip s Hs).
  - exact (b64_stream_unpadded s Hs).
Qed.
